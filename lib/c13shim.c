/* LD_PRELOAD shim used by lib/props/c13.py: observes, and optionally fakes, the ambient inputs a
 * process can read without anyone passing them in -- the clock, the process id, the kernel's random
 * bytes, environment variables (through getenv).
 *
 *   C13_SHIM_LOG=<file>     append one line of counters (and the names passed to getenv) at exit
 *   C13_CLOCK_OFFSET=<sec>  added to CLOCK_REALTIME / gettimeofday / time
 *   C13_FAKE_PID=<n>        returned by getpid
 *   C13_RANDOM_SEED=<n>     getrandom() fills the buffer from a xorshift generator seeded with n
 *   C13_ENVFUZZ=<value>     getenv(name) returns <value> for every name (except C13_*, LD_*),
 *                           so a dependence on ANY environment variable read through getenv shows
 */
#define _GNU_SOURCE
#include <dlfcn.h>
#include <fcntl.h>
#include <stdio.h>
#include <stdlib.h>
#include <string.h>
#include <sys/time.h>
#include <sys/types.h>
#include <time.h>
#include <unistd.h>

static long n_realtime, n_monotonic, n_gettimeofday, n_time, n_getpid, n_getrandom, n_getenv;
static char envnames[4096];

static const char *raw_env(const char *name) {
    extern char **environ;
    size_t l = strlen(name);
    for (char **e = environ; e && *e; e++)
        if (!strncmp(*e, name, l) && (*e)[l] == '=') return *e + l + 1;
    return NULL;
}

static long long offset(void) {
    const char *s = raw_env("C13_CLOCK_OFFSET");
    return s ? atoll(s) : 0;
}

int clock_gettime(clockid_t clk, struct timespec *ts) {
    static int (*real)(clockid_t, struct timespec *);
    if (!real) real = dlsym(RTLD_NEXT, "clock_gettime");
    int r = real(clk, ts);
    if (clk == CLOCK_REALTIME || clk == CLOCK_REALTIME_COARSE) {
        n_realtime++;
        if (r == 0) ts->tv_sec += offset();
    } else {
        n_monotonic++;
    }
    return r;
}

int gettimeofday(struct timeval *tv, void *tz) {
    static int (*real)(struct timeval *, void *);
    if (!real) real = dlsym(RTLD_NEXT, "gettimeofday");
    int r = real(tv, tz);
    n_gettimeofday++;
    if (r == 0 && tv) tv->tv_sec += offset();
    return r;
}

time_t time(time_t *t) {
    static time_t (*real)(time_t *);
    if (!real) real = dlsym(RTLD_NEXT, "time");
    time_t v = real(NULL) + offset();
    n_time++;
    if (t) *t = v;
    return v;
}

pid_t getpid(void) {
    static pid_t (*real)(void);
    if (!real) real = dlsym(RTLD_NEXT, "getpid");
    n_getpid++;
    const char *s = raw_env("C13_FAKE_PID");
    return s ? (pid_t)atol(s) : real();
}

ssize_t getrandom(void *buf, size_t len, unsigned int flags) {
    static ssize_t (*real)(void *, size_t, unsigned int);
    if (!real) real = dlsym(RTLD_NEXT, "getrandom");
    n_getrandom++;
    const char *s = raw_env("C13_RANDOM_SEED");
    if (!s) return real(buf, len, flags);
    unsigned long long x = strtoull(s, NULL, 10) * 0x9E3779B97F4A7C15ull + 1;
    unsigned char *p = buf;
    for (size_t i = 0; i < len; i++) {
        x ^= x << 13; x ^= x >> 7; x ^= x << 17;
        p[i] = (unsigned char)(x >> 24);
    }
    return (ssize_t)len;
}

char *getenv(const char *name) {
    n_getenv++;
    if (strlen(envnames) + strlen(name) + 2 < sizeof envnames && !strstr(envnames, name)) {
        strcat(envnames, name);
        strcat(envnames, ",");
    }
    const char *fz = raw_env("C13_ENVFUZZ");
    if (fz && strncmp(name, "C13_", 4) && strncmp(name, "LD_", 3)) return (char *)fz;
    return (char *)raw_env(name);
}

__attribute__((destructor)) static void report(void) {
    const char *path = raw_env("C13_SHIM_LOG");
    if (!path) return;
    int fd = open(path, O_WRONLY | O_CREAT | O_APPEND, 0644);
    if (fd < 0) return;
    char line[8192];
    int n = snprintf(line, sizeof line,
                     "realtime=%ld monotonic=%ld gettimeofday=%ld time=%ld getpid=%ld getrandom=%ld getenv=%ld names=%s\n",
                     n_realtime, n_monotonic, n_gettimeofday, n_time, n_getpid, n_getrandom, n_getenv, envnames);
    if (n > 0) (void)!write(fd, line, (size_t)n);
    close(fd);
}
