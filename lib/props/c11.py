"""C11 -- calls bind arguments to parameters exactly as the calling convention says."""
import hashlib, itertools, json, multiprocessing, os, random, subprocess
import common, diff, gen
from diff import Case

THEOREMS = ["C11_argvec_eq_spec", "C11_never_panics", "C11_catalogue_wf", "C11_compat_table", "C11_compat_clauses",
            "C11_nullable_option", "C11_split_is_a_split", "C11_leading_fill_in_order",
            "C11_collecting_fills_only_mandatory", "C11_tail_collected_in_order",
            "C11_named_goes_to_named", "C11_defaults_fill", "C11_unknown_name_rejected", "C11_duplicate_rejected",
            "C11_already_supplied_rejected", "C11_missing_mandatory_rejected", "C11_surplus_rejected",
            "C11_misplaced_unnamed_rejected", "C11_named_after_collected_rejected", "C11_accepted_values_compatible",
            "C11_incompatible_rejected"]
MODELS = ("bind", "run")
RULE = ("every signature of the regenerated catalogue x EVERY call shape up to length 4 (quick) / 5 (thorough), and "
        "up to two more for signatures with few names, where each argument is unnamed or named with any declared "
        "name or one undeclared name, repeats allowed, values of a kind compatible with the parameter they designate; "
        "then for accepted shapes every argument in turn takes each of the 15 value kinds the language has.  A case "
        "is non-trivial when the real binder accepts it; distinct = distinct (function, call) lines")
NOTES = ["correspondence: real FuncDef::argvec (hook) vs extracted Binder.argvec, textual comparison of the bound slots "
         "and collected values (values tagged through their payload); oracle: extracted bind_spec (the convention "
         "stated without a state machine) run on the same call and compared with the implementation's own output",
         "the 16x16 compatibility relation and ValDef::arg_compatible are compared exhaustively with the real code",
         "one-call programs through the real binary: acceptance must equal bind_spec's verdict on the same call shape, "
         "and all accepted spellings that designate the same values must produce identical packets; packet contents above "
         "the Ethernet header are also compared with the interpreter model",
         "values of kind Type cannot be produced by the language (no Val::Type) and are not generated; Bool payloads "
         "carry one bit of the tag only"]
MODELLED = ("src/libapi.rs FuncDef::split_args/argvec, src/val.rs Typed::compatible_with / ValDef::arg_compatible / "
            "From<ValDef> for Val are modelled (Bind/Types.v, Bind/Binder.v); the func! tables (names, Positional/"
            "Optional declarations, defaults, min_args, collect_type, arg_pos) are not modelled but regenerated from "
            "the running code on every run (gen/Catalogue.v) and C11_catalogue_wf is re-checked against them")

KINDS = ["Void", "Bool", "U8", "U16", "U32", "U64", "Ip4", "Sock4", "Str", "Obj", "Func", "Method", "Pkt", "PktGen",
         "TimeJump"]
ALL_TYPES = ["Void", "Bool", "U8", "U16", "U32", "U64", "Ip4", "Sock4", "Str", "Type", "Obj", "Func", "Method",
             "Pkt", "PktGen", "TimeJump"]
UNDECLARED = "zz_undeclared"
BINDH = os.path.join(common.HARNESS_DIR, "bindh")


# ---------------------------------------------------------------- case generation (no oracle in here)

def designated_type(f, shape, i):
    """The type the generator aims at for argument i of the shape: only used to choose value kinds."""
    name = shape[i]
    args = f["args"]
    if name == "_":
        lead = 0
        while lead < len(shape) and shape[lead] == "_":
            lead += 1
        if i < lead:
            lim = f["min_args"] if f["collect"] != "Void" else len(args)
            if i < lim and i < len(args):
                return ptype(args[i])
        return f["collect"] if f["collect"] != "Void" else "U64"
    for a in args:
        if a["name"] == name:
            return ptype(a)
    return "U64"


def ptype(a):
    if a["kind"] == "pos":
        return a["type"]
    d = a["dfl"]
    return d["ty"] if d["t"] == "Type" else d["t"]


ALT = {"Bool": ["U64", "U8"], "U8": ["U64", "Bool"], "U16": ["U64", "U8"], "U32": ["U64", "Bool"], "U64": ["U8", "Bool", "U32"],
       "Str": ["U64", "Ip4", "Pkt", "U16"], "PktGen": ["Pkt"]}


def kind_for(t, rng):
    """a kind compatible with parameter type t: mostly t itself, sometimes a coercible one"""
    if t in ("Void", "Type"):
        return "U64"
    if t in ALT and rng.random() < 0.3:
        return rng.choice(ALT[t])
    return t


def tag_for(kind, i):
    return i + 1


def render(f, shape, kinds):
    return f["key"] + "".join(" %s:%s:%d" % (n, k, tag_for(k, i)) for i, (n, k) in enumerate(zip(shape, kinds)))


def all_shapes(names, maxlen):
    for n in range(maxlen + 1):
        for s in itertools.product(names, repeat=n):
            yield s


def structured_shape(f, names, maxlen, rng):
    """leading unnamed ++ distinct names in random order ++ unnamed tail, occasionally perturbed"""
    declared = [a["name"] for a in f["args"]]
    n = rng.randint(0, maxlen)
    lead = rng.randint(0, min(n, len(declared)))
    rest = n - lead
    tail = rng.randint(0, rest) if f["collect"] != "Void" and rng.random() < 0.6 else 0
    pool = declared[lead:] if rng.random() < 0.8 else declared
    nm = rng.sample(pool, min(rest - tail, len(pool)))
    s = ["_"] * lead + nm + ["_"] * tail
    if s and rng.random() < 0.2:
        j = rng.randrange(len(s))
        s[j] = rng.choice(names)
    return tuple(s)


def shapes_for(f, maxlen, budget, rng):
    """-> (list of shapes, exhaustive?)"""
    names = ["_"] + [a["name"] for a in f["args"]] + [UNDECLARED]
    total = sum(len(names) ** n for n in range(maxlen + 1))
    if total <= budget:
        return list(all_shapes(names, maxlen)), True
    out, seen = [], set()
    n = 0
    while sum(len(names) ** k for k in range(n + 1)) <= budget // 2:
        n += 1
    for s in all_shapes(names, n - 1 if n else 0):
        out.append(s)
        seen.add(s)
    tries = 0
    while len(out) < budget and tries < budget * 20:
        tries += 1
        if rng.random() < 0.5:
            s = structured_shape(f, names, maxlen, rng)
        else:
            s = tuple(rng.choice(names) for _ in range(rng.randint(n, maxlen)))
        if s not in seen:
            seen.add(s)
            out.append(s)
    return out, False


# ---------------------------------------------------------------- running the three sides on a case file

def run_three(path):
    """cases file -> (impl lines, model lines, spec lines)"""
    pi = subprocess.Popen([BINDH, path, path + ".impl"], stdout=subprocess.DEVNULL, stderr=subprocess.PIPE)
    pm = subprocess.Popen([common.model_bin("bind"), "bind", path], stdout=open(path + ".model", "wb"),
                          stderr=subprocess.PIPE)
    ps = subprocess.Popen([common.model_bin("bind"), "spec", path], stdout=open(path + ".spec", "wb"),
                          stderr=subprocess.PIPE)
    errs = []
    for name, p in (("bindh", pi), ("model", pm), ("spec", ps)):
        _, se = p.communicate(timeout=3000)
        if p.returncode != 0:
            errs.append("%s exited %d: %s" % (name, p.returncode, se.decode("utf-8", "replace")[-500:]))
    if errs:
        raise common.BuildError("; ".join(errs))
    res = []
    for suf in (".impl", ".model", ".spec"):
        with open(path + suf, "r", errors="replace") as fh:
            res.append(fh.read().splitlines())
        os.unlink(path + suf)
    return res


def judge(line, i, m, s):
    """-> (violation or None, disagreement or None) for one case"""
    rp = {"function": line.split(" ", 1)[0], "call": line, "impl": i, "model": m, "convention": s,
          "how": "echo '<call>' > f; .build/htarget/debug/bindh f out; .build/model/rsmodel_bind spec f"}
    if i.startswith("PANIC"):
        return ("panic", "the real binder panicked on %s: %s" % (line, i), rp), None
    if i.startswith("BAD") or s.startswith("BAD") or m.startswith("BAD"):
        return None, ("harness-error", "case not understood: %s / %s / %s" % (i, m, s), rp)
    if i != s:
        if i.startswith("OK") and s.startswith("OK"):
            cls, what = "wrong-binding", "accepted, but parameters received other values than the caller designated"
        elif i.startswith("OK"):
            cls, what = "accepted-invalid-call", "accepted a call the convention rejects"
        elif s.startswith("OK"):
            cls, what = "rejected-valid-call", "rejected a call the convention accepts"
        else:
            cls, what = "wrong-error", "rejected with another error than a type error"
        return (cls, "%s: %s\n  implementation: %s\n  convention:     %s" % (what, line, i, s), rp), None
    if i != m:
        return None, ("model-differs", "%s\n  implementation: %s\n  model: %s" % (line, i, m), rp)
    return None, None


def work_function(job):
    """Phase A (shapes) and phase B (kinds) for one function; runs in a worker process."""
    f, maxlen, budget_a, budget_b, seed, wd = job
    rng = random.Random("%d/%s" % (seed, f["key"]))
    out = {"key": f["key"], "A": 0, "B": 0, "ok": 0, "err": 0, "viol": [], "dis": [], "exh": False, "accepted_shapes": 0,
           "sample": None, "errs": None}
    try:
        shapes, exh = shapes_for(f, maxlen, budget_a, rng)
        out["exh"] = exh
        cases = []
        for s in shapes:
            kinds = [kind_for(designated_type(f, s, i), rng) for i in range(len(s))]
            cases.append((s, kinds))
        path = os.path.join(wd, hashlib.sha1(f["key"].encode()).hexdigest()[:10] + ".A")
        lines = [render(f, s, k) for s, k in cases]
        with open(path, "w") as fh:
            fh.write("\n".join(lines) + "\n")
        I, M, S = run_three(path)
        os.unlink(path)
        if not (len(I) == len(M) == len(S) == len(lines)):
            raise common.BuildError("line counts differ for %s: %d cases, %d/%d/%d results"
                                    % (f["key"], len(lines), len(I), len(M), len(S)))
        accepted = []
        for idx, (l, i, m, s) in enumerate(zip(lines, I, M, S)):
            if i.startswith("OK"):
                out["ok"] += 1
                accepted.append(idx)
                if out["sample"] is None and len(cases[idx][0]) >= 2:
                    out["sample"] = {"call": l, "impl": i}
            else:
                out["err"] += 1
            if i != s or i != m:
                v, d = judge(l, i, m, s)
                if v and len(out["viol"]) < 8:
                    out["viol"].append(v)
                if d and len(out["dis"]) < 8:
                    out["dis"].append(d)
        out["A"] = len(lines)
        out["accepted_shapes"] = len(accepted)
        # phase B: accepted shapes, every argument in turn takes every kind
        rng.shuffle(accepted)
        blines = []
        for idx in sorted(accepted, key=lambda j: -len(cases[j][0])):
            s, kinds = cases[idx]
            if not s:
                continue
            if len(blines) >= budget_b:
                break
            for j in range(len(s)):
                for k in KINDS:
                    if k != kinds[j]:
                        blines.append(render(f, s, kinds[:j] + [k] + kinds[j + 1:]))
        if blines:
            path = path[:-2] + ".B"
            with open(path, "w") as fh:
                fh.write("\n".join(blines) + "\n")
            I, M, S = run_three(path)
            os.unlink(path)
            if not (len(I) == len(M) == len(S) == len(blines)):
                raise common.BuildError("line counts differ for %s (kinds)" % f["key"])
            for l, i, m, s in zip(blines, I, M, S):
                if i.startswith("OK"):
                    out["ok"] += 1
                else:
                    out["err"] += 1
                if i != s or i != m:
                    v, d = judge(l, i, m, s)
                    if v and len(out["viol"]) < 8:
                        out["viol"].append(v)
                    if d and len(out["dis"]) < 8:
                        out["dis"].append(d)
            out["B"] = len(blines)
    except Exception as e:   # reported by the parent as a failed obligation
        import traceback
        out["errs"] = traceback.format_exc()[-1500:]
    return out


# ---------------------------------------------------------------- the finite tables, exhaustively

def compat_tables(ctx):
    rc, real = common.sh([BINDH, "--compat", "-"], check=False)
    rc2, mod = common.sh([common.model_bin("bind"), "bind", "--compat"], check=False)
    ok = rc == 0 and rc2 == 0
    rt, mt = {}, {}
    if ok:
        for l in real.splitlines():
            t = l.split()
            if len(t) == 4 and t[0] in ("C", "N"):
                rt[(t[0], t[1], t[2])] = t[3]
        for l in mod.splitlines():
            t = l.split()
            if len(t) == 5:
                mt[(t[0], t[1], t[2])] = (t[3], t[4])
    bad = []
    for rel, what in (("C", "a parameter of type %s takes %s"), ("N", "a nullable option of type %s takes %s")):
        for p in ALL_TYPES:
            for a in ALL_TYPES:
                r, m = rt.get((rel, p, a)), mt.get((rel, p, a))
                if r is None or m is None:
                    bad.append("%s/%s/%s missing" % (rel, p, a))
                elif not (r == m[0] == m[1]):
                    bad.append((what % (p, a)) + ": real %s, model %s, convention %s" % (r, m[0], m[1]))
                    if r != m[1]:
                        ctx.fail("compat-relation", (what % (p, a)) + ": %s in the implementation, the property says %s"
                                 % (r, m[1]), {"param_type": p, "arg_type": a, "relation": rel, "impl": r,
                                               "convention": m[1], "how": ".build/htarget/debug/bindh --compat -"})
    ctx.count("compat-16x16 and nullable-16x16 (exhaustive)", 2 * len(ALL_TYPES) ** 2)
    ctx.obligation("the 16x16 compatibility relation of the running code equals model and convention (exhaustive)",
                   ok and not bad, "; ".join(bad[:10]))


def catalogue_ties(ctx, funcs):
    rc, out = common.sh([common.model_bin("bind"), "bind", "--wf"], check=False)
    keys = [l.split()[0] for l in out.splitlines() if l.strip()]
    wf = all(l.split()[1] == "1" for l in out.splitlines() if l.strip())
    ctx.obligation("regenerated catalogue: the %d signatures of the running code are the ones the theorems are "
                   "instantiated on, and each satisfies wf_sig (C11_catalogue_wf, recompiled on this run)" % len(funcs),
                   rc == 0 and wf and keys == [f["key"] for f in funcs],
                   "model table has %d entries, running code %d" % (len(keys), len(funcs)))


# ---------------------------------------------------------------- one-call programs through the binary

def prog_templates():
    """(function path, prelude statements, wrap(call expr) -> statement list, parameter values in declaration order
    [(name, literal)], collected literals)"""
    IP, INT, STR, BOOL, SOCK = gen.IP, gen.INT, gen.STR, gen.BOOL, gen.SOCK
    imp = [gen.Import("ipv4"), gen.Import("dns"), gen.Import("std"), gen.Import("text")]
    T = []
    T.append(("ipv4::datagram", imp, lambda c: [gen.Do(c)],
              [("src", IP("1.2.3.4")), ("dst", IP("5.6.7.8")), ("id", INT(7)), ("evil", BOOL(True)), ("ttl", INT(5)),
               ("proto", INT(6))], [STR(b"x"), STR(b"yz")]))
    T.append(("dns::hdr", imp, lambda c: [gen.Do(gen.Call("ipv4::datagram", IP("1.2.3.4"), IP("5.6.7.8"), c))],
              [("id", INT(0x1234)), ("flags", INT(0x100)), ("qdcount", INT(1)), ("ancount", INT(2))], []))
    T.append(("ipv4::udp::unicast", imp, lambda c: [gen.Do(c)],
              [("src", SOCK("1.2.3.4:53")), ("dst", SOCK("5.6.7.8:5353")), ("raw", BOOL(True))], [STR(b"hello")]))
    T.append(("dns::host", imp, lambda c: [gen.Do(c)],
              [("client", IP("10.0.0.1")), ("qname", STR(b"a.example")), ("ttl", INT(77)), ("ns", IP("9.9.9.9"))],
              [IP("1.1.1.1"), IP("2.2.2.2")]))
    T.append(("ipv4::tcp::flow", imp, lambda c: [gen.Let("t", c), gen.Do(gen.Call("t.open"))],
              [("cl", SOCK("1.2.3.4:1025")), ("sv", SOCK("5.6.7.8:80")), ("cl_seq", INT(1000)), ("sv_seq", INT(2000))],
              []))
    return T


LIT_KIND = {"bool": "Bool", "int": "U64", "hexint": "U64", "ip": "Ip4", "sock": "Sock4", "str": "Str"}


def program_cases(ctx, funcs):
    rng = ctx.rng
    byk = {f["key"]: f for f in funcs}
    cases, binds = [], []
    n = 0
    for path, prelude, wrap, params, extra in prog_templates():
        f = byk.get(path)
        if f is None:
            continue
        declared = [a["name"] for a in f["args"]]
        ids = {}
        params = [(nm, v) for nm, v in params if nm in declared]
        nmand = f["min_args"]
        variants = []
        mand = params[:nmand] if len(params) >= nmand else params
        opt = params[len(mand):]
        collects = f["collect"] != "Void"
        for lead in range(0, len(mand) + 1):
            for perm_seed in range(4):
                rest = mand[lead:] + opt
                r2 = list(rest)
                random.Random(perm_seed * 7 + lead).shuffle(r2)
                if perm_seed == 0:
                    r2 = rest
                if perm_seed == 3:
                    r2 = r2[:max(0, len(r2) - 1)]          # drop one (a default, or a missing mandatory)
                args = [(None, v) for _, v in mand[:lead]] + [(nm, v) for nm, v in r2] + [(None, v) for v in extra]
                variants.append(args)
        if not collects:
            variants.append([(None, v) for _, v in params])                   # everything by position
            variants.append([(None, v) for _, v in params] + [(None, gen.INT(1))])  # one too many
        base = [(None, v) for _, v in mand] + [(nm, v) for nm, v in opt] + [(None, v) for v in extra]
        variants.append(base + [(UNDECLARED, gen.INT(1))])                    # named after collected / unknown
        variants.append(base[:len(mand)] + [(UNDECLARED, gen.INT(1))] + base[len(mand):])
        if opt:
            variants.append(base[:len(mand)] + [opt[0]] + base[len(mand):])   # named twice
            variants.append(base + [opt[0]] if collects else base[:-1] + [(None, opt[-1][1])])
        if mand:
            variants.append([(None, mand[0][1]), (mand[0][0], mand[0][1])] + base[1:])   # by position and by name
            variants.append([(opt[0][0], opt[0][1])] + base if opt else base[1:])
        for _ in range(6):                                                    # random orders, repeats allowed
            pool = [(None, v) for _, v in mand] + [(nm, v) for nm, v in params] + [(None, v) for v in extra]
            k = rng.randint(0, min(len(pool), 6))
            variants.append(rng.sample(pool, k))
        seen = set()
        for args in variants:
            call = gen.Call(path)
            call.args = [(nm, gen.lift(v)) for nm, v in args]
            text_key = gen.render_expr(call)
            if text_key in seen:
                continue
            seen.add(text_key)
            c = Case()
            c.name = "b%d" % n
            n += 1
            c.stmts = list(prelude) + wrap(call)
            c.files, c.text, c.meta = {}, None, []
            c.gen = {"function": path, "call": text_key}
            cases.append(c)
            binds.append(path + "".join(" %s:%s:%d" % (nm or "_", LIT_KIND[v.kind], value_id(v, ids))
                                         for nm, v in call.args))
    return cases, binds


def projection(pcap):
    """what C11 constrains in a packet: everything a parameter can reach, i.e. the frame above its Ethernet
    header (MAC addresses are derived, C18's business)"""
    ok, recs = common.pcap_records(pcap)
    return ok, [r[4][14:] if r[4][12:14] == b"\x08\x00" else r[4] for r in recs]


def value_id(v, ids):
    """tags of program arguments identify the literal, not its position: two spellings that hand the same
    literals to the same parameters get the same bind_spec result"""
    if v.kind == "bool":
        return 1 if v.value else 0
    k = (v.kind, repr(v.value))
    if k not in ids:
        ids[k] = 10 + len(ids)
    return ids[k]


def coercion_pairs(ctx):
    """an integer handed to a boolean parameter means `n != 0`, a boolean handed to an integer parameter means 0 / 1:
    (program with the coerced value, program with the plain literal it designates)"""
    IP, INT, STR, BOOL, SOCK = gen.IP, gen.INT, gen.STR, gen.BOOL, gen.SOCK
    imp = [gen.Import("ipv4")]
    out = []
    ints = [0, 1, 2, 255, 256, 0x2000, 0x4000, 65536, 2**32, 2**40, 2**64 - 1]
    for n in ints:
        for flag in ("evil", "df", "mf"):
            mk = lambda v: imp + [gen.Do(gen.Call("ipv4::datagram", IP("1.2.3.4"), IP("5.6.7.8"), _x=[STR(b"xy")], **{flag: v}))]
            out.append(("%s: %d" % (flag, n), mk(INT(n)), mk(BOOL(n != 0))))
        mk = lambda v: imp + [gen.Do(gen.Call("ipv4::udp::unicast", SOCK("1.2.3.4:53"), SOCK("5.6.7.8:5353"), _x=[STR(b"hello")], raw=v))]
        out.append(("raw: %d" % n, mk(INT(n)), mk(BOOL(n != 0))))
        mk = lambda v: imp + [gen.Let("u", gen.Call("ipv4::udp::flow", SOCK("1.2.3.4:53"), SOCK("5.6.7.8:5353"))),
                              gen.Do(gen.Call("u.client_dgram", _x=[STR(b"hello")], csum=v))]
        out.append(("csum: %d" % n, mk(INT(n)), mk(BOOL(n != 0))))
    for b in (True, False):
        mk = lambda v: imp + [gen.Do(gen.Call("ipv4::datagram", IP("1.2.3.4"), IP("5.6.7.8"), _x=[STR(b"xy")], ttl=v, id=v, proto=v))]
        out.append(("ttl/id/proto: %s" % b, mk(BOOL(b)), mk(INT(1 if b else 0))))
    return out


def run_coercions(ctx):
    pairs = coercion_pairs(ctx)
    cases = []
    for i, (what, a, b) in enumerate(pairs):
        for tag, st in (("x", a), ("y", b)):
            c = Case()
            c.name, c.stmts, c.files, c.text, c.meta, c.gen = "%s%d" % (tag, i), st, {}, None, [], {"what": what}
            cases.append(c)
    diff.run_both(ctx, "c11c", cases)
    by = {c.name: c for c in cases}
    for i, (what, a, b) in enumerate(pairs):
        ctx.count("coerced bool/int arguments")
        x, y = by["x%d" % i], by["y%d" % i]
        if x.impl.status != "ok" or y.impl.status != "ok" or x.impl.pcap != y.impl.pcap:
            ctx.fail("wrong-binding", "%s does not build the packet of the literal it designates (%s vs %s)"
                     % (what, diff.outcome_class(x)[0], diff.outcome_class(y)[0]), diff.replay_of(x, {"same_as_program": y.text}))
        elif x.model["status"] == "ok" and x.impl.pcap != x.model["pcap"]:
            ctx.fail("packet-differs", "packet differs from the model on %s" % what, diff.replay_of(x), disagreement=True)


def run_programs(ctx, funcs):
    run_coercions(ctx)
    cases, binds = program_cases(ctx, funcs)
    if not cases:
        return
    diff.run_both(ctx, "c11p", cases)
    wd = common.workdir("c11s")
    p = os.path.join(wd, "progs.cases")
    with open(p, "w") as fh:
        fh.write("\n".join(binds) + "\n")
    rc, out = common.sh([common.model_bin("bind"), "spec", p], check=False)
    verdicts = out.splitlines()
    groups = {}
    for c, b, v in zip(cases, binds, verdicts):
        ctx.count("one-call programs through the binary")
        rp = diff.replay_of(c, {"function": c.gen["function"], "call": c.gen["call"], "bind_case": b, "convention": v})
        ic, mc = diff.outcome_class(c)
        if c.impl.status in ("crash", "timeout"):
            ctx.fail("panic", "the binary crashed on a one-call program: %s" % c.gen["call"], rp)
            continue
        before = len(ctx.violations)
        if v.startswith("ERR") and ic != "err:type":
            ctx.fail("accepted-invalid-call", "the convention rejects %s, the binary says %s" % (c.gen["call"], ic), rp)
        elif v.startswith("OK") and ic != "ok":
            ctx.fail("rejected-valid-call", "the convention accepts %s, the binary says %s" % (c.gen["call"], ic), rp)
        elif v.startswith("OK"):
            # the same designation must build the same packet, however it is spelled
            key = (c.gen["function"], v)
            g = groups.setdefault(key, c)
            if projection(g.impl.pcap) != projection(c.impl.pcap):
                ctx.fail("wrong-binding", "%s and %s designate the same values but build different packets"
                         % (g.gen["call"], c.gen["call"]), diff.replay_of(c, {"same_as_program": g.text}))
            ctx.distinct(c.text)
        if len(ctx.violations) == before:
            if ic != mc:
                ctx.fail("outcome-differs", "impl %s, model %s on %s" % (ic, mc, c.gen["call"]), rp, disagreement=True)
            elif ic == "ok" and projection(c.impl.pcap) != projection(c.model["pcap"]):
                ctx.fail("packet-differs", "packet contents (above the Ethernet header) differ from the model on %s"
                         % c.gen["call"], rp, disagreement=True)
    ctx.dist["program_groups_same_designation"] = len(groups)
    for c in cases[:2]:
        ctx.sample({"program": c.text, "impl": diff.outcome_class(c)[0]})


# ---------------------------------------------------------------- entry points

def load_funcs():
    return json.load(open(os.path.join(common.BUILD, "catalogue.json")))["funcs"]


def run(ctx):
    funcs = load_funcs()
    catalogue_ties(ctx, funcs)
    compat_tables(ctx)
    base = 5 if ctx.thorough else 4
    cap = 400000 if ctx.thorough else 30000       # signatures with few names are enumerated to a greater length
    budget_b = 20000 if ctx.thorough else 1500
    wd = common.workdir("c11")
    jobs = []
    for f in funcs:
        nn = len(f["args"]) + 2
        maxlen = base
        while maxlen < base + 2 and sum(nn ** k for k in range(maxlen + 2)) <= cap:
            maxlen += 1
        jobs.append((f, maxlen, 10 ** 9, budget_b, ctx.seed, wd))
    jobs.sort(key=lambda j: -(len(j[0]["args"]) + 2) ** j[1])
    with multiprocessing.Pool(min(common.NPROC, 16)) as pool:
        results = pool.map(work_function, jobs, chunksize=1)
    errs = [r["errs"] for r in results if r["errs"]]
    ctx.obligation("correspondence harness ran on all %d signatures" % len(funcs), not errs, "\n".join(errs[:3]))
    nexh = 0
    for r in results:
        ctx.count("call shapes (values compatible with the designated parameter)", r["A"])
        ctx.count("accepted shapes x one argument x every value kind", r["B"])
        for i in range(r["ok"]):
            ctx.nontrivial.add((r["key"], i))
        nexh += 1 if r["exh"] else 0
        for cls, what, rp in r["viol"]:
            ctx.fail(cls, what, rp)
        for cls, what, rp in r["dis"]:
            ctx.fail(cls, what, rp, disagreement=True)
        if r["sample"]:
            ctx.sample(r["sample"], limit=4)
    ok = sum(r["ok"] for r in results)
    err = sum(r["err"] for r in results)
    ctx.dist.update({"max_call_length": "%d for every signature, up to %d where the signature has few names" % (base, base + 2),
                     "signatures": len(funcs),
                     "signatures_enumerated_exhaustively": nexh,
                     "accepted": ok, "rejected": err,
                     "argument_names": "unnamed | every declared name | one undeclared name",
                     "value_kinds": KINDS})
    ctx.exhaustive = nexh == len(funcs)
    ctx.obligation("the real binder accepted at least 5% of the generated calls (non-vacuity)",
                   ok * 20 >= ok + err, "%d accepted, %d rejected" % (ok, err))
    run_programs(ctx, funcs)


def replay(ctx, rp):
    if rp.get("program"):
        d, res = common.run_programs("c11r", {"replay": rp["program"]})
        r = res["replay"]
        wd = common.workdir("c11rs")
        p = os.path.join(wd, "one.cases")
        open(p, "w").write(rp["bind_case"] + "\n")
        rc, out = common.sh([common.model_bin("bind"), "spec", p], check=False)
        v = out.strip()
        got = "ok" if r.status == "ok" else "%s:%s" % (r.status, r.kind)
        ctx.count("replay")
        if r.status in ("crash", "timeout"):
            return ctx.fail("panic", "the binary crashed: %s" % r.kind, rp)
        if v.startswith("ERR") != (got == "err:type") or v.startswith("OK") != (got == "ok"):
            return ctx.fail("accepted-invalid-call" if got == "ok" else "rejected-valid-call",
                            "convention: %s, binary: %s" % (v, got), rp)
        if rp.get("same_as_program"):
            d2, res2 = common.run_programs("c11r2", {"other": rp["same_as_program"]})
            if res2["other"].pcap != r.pcap:
                return ctx.fail("wrong-binding", "two spellings of the same designation build different packets", rp)
        return
    if rp.get("param_type"):
        return compat_tables(ctx)
    wd = common.workdir("c11r")
    p = os.path.join(wd, "one.cases")
    open(p, "w").write(rp["call"] + "\n")
    I, M, S = run_three(p)
    ctx.count("replay")
    v, d = judge(rp["call"], I[0], M[0], S[0])
    if v:
        ctx.fail(*v)
    elif d:
        ctx.fail(*d, disagreement=True)
