"""C09 -- the parser accepts exactly the grammar and builds the tree it prescribes."""
import os, re, subprocess
import common

THEOREMS = ["C09_parse_never_stuck", "C09_feed_never_stuck", "C09_feed_split_irrelevant",
            "C09_refparser_sound_complete", "C09_refparser_error_index", "C09_automaton_eq_refparser",
            "C09_automaton_accepts_grammar", "C09_automaton_error_index", "C09_unfinished_is_viable"]
MODELS = ("parse",)
RULE = ("(1) every viable token prefix up to the tier's length bound (quick 9, thorough 11) over "
        "the 18 token kinds: each viable prefix is extended by every kind (literal and identifier spellings vary with "
        "the position) and by 12 further in/out-of-range literal spellings; a rejected prefix is not extended; "
        "(2) grammar-directed random sentences (<= 60 tokens) each also with one-token mutations (replace/insert/"
        "delete/swap) and random line splits.  Every case is fed to the real Parser (tokens made by the real Lexer), "
        "to the extracted automaton model and to the extracted reference parser.  Non-trivial = accepted program "
        "with >= 1 statement; distinct = distinct token lists")
NOTES = ["theorems (Props/C09.v, all full strength, closed under the global context): parse_never_stuck / "
         "feed_never_stuck (stack-shape invariant of DESIGN Appendix A, one judgement per state; Goto fuel 2|stack|+8 "
         "suffices) -- also serves C08; feed_split_irrelevant; refparser_sound_complete + refparser_error_index "
         "(reference parser <=> grammar relation; reject index = length of the longest viable prefix); "
         "automaton_eq_refparser (same verdict, same statements INCLUDING every Loc, same error index, for every "
         "token list, not only those ending in EOF); automaton_accepts_grammar, automaton_error_index, "
         "unfinished_is_viable as corollaries",
         "hypothesis of the automaton theorems: tok_ok for every token (identifiers and literals carry their text, hex "
         "literals start with 0x) -- what src/lex.rs guarantees by construction (TokType::get_val); to be discharged "
         "against the lexer model by C10.  Without it the model returns Panic exactly where Token::val()/"
         "strip_prefix().unwrap() would",
         "location convention (part of Parse/RefParser.v, compared exactly): literal = its first token, import/let = "
         "the identifier, reference = its first identifier, EXCEPT a reference that starts a positional argument, "
         "which carries the location of the token after that identifier (state_arg_name builds the PathBuilder "
         "from the lookahead token): f(x) gives x the location of ')'",
         "oracle: the extracted reference parser (proved equivalent to the grammar relation) run on the same "
         "tokens: verdict, error index, and the full tree including source locations must be equal; "
         "correspondence: the automaton model's output line must equal the implementation's; "
         "split-irrelevance is also checked on the implementation alone (same tokens with and without line breaks)",
         "the real Lexer concatenates adjacent string literals, so each token is lexed on its own; this lets the check "
         "feed the parser STR STR sequences the CLI can never produce",
         "T3: 675 of the 39x18 = 702 (state, token kind) dispatch entries are exercised; the other 27 are unreachable "
         "(ExprStmt is entered only on an identifier; ReduceRefNaked/ReduceRefExpr never see '(' or '.'; "
         "ReduceArg/ArgNext/ReduceExpr/ReduceBop/ExprStmtEnd/AssignStmtEnd never see '/') -- listed in model_coverage",
         "not covered: resource limits of deep nesting (D24: Program::eval and drop of Box<Expr> recurse; the parser "
         "itself is iterative) -- C08's generators watch that"]
MODELLED = ("src/parse.rs (all of it), Val::from_token (Lex/Literals.v) are modelled in Parse/Automaton.v; theorems are "
            "about the model, tied by exhaustive bounded enumeration and random comparison of verdict, error index and "
            "tree with the real Parser")

PARSEH = os.path.join(common.HARNESS_DIR, "parseh")
H = lambda s: (s.encode() if isinstance(s, str) else s).hex()

KINDS = ["EOF", "LP", "RP", "DOT", "DC", "COLON", "SEMI", "EQ", "COMMA", "SLASH", "IMPORT", "LET",
         "BOOL", "ID", "IP4", "STR", "HEX", "INT"]
STATES = ["Initial", "Import", "ImportEnd", "ReduceImport", "Let", "Assign", "RefComponent", "ReduceModule",
          "RefModule", "ReduceObject", "ReduceRefCall", "ReduceRefNaked", "RefObject", "RefObjEnd", "ReduceCall",
          "ReduceArg", "ArgNext", "ExprArg", "ArgName", "ArgVal", "ExprStmt", "Expr", "ExprRvalue", "IPv4",
          "IPv4Colon", "ReduceLiteralExpr", "ReduceRefExpr", "ReduceCallExpr", "Slash", "ReduceExpr",
          "ReduceSockAddr", "ExprStmtEnd", "AssignStmtEnd", "ReduceBop", "ReduceAssign", "ReduceExprStmt",
          "ReduceAssignStmt", "ReduceStmt", "Accept"]
FIXED = {"LP": "(", "RP": ")", "DOT": ".", "DC": "::", "COLON": ":", "SEMI": ";", "EQ": "=", "COMMA": ",",
         "SLASH": "/", "IMPORT": "import", "LET": "let", "EOF": "<EOF>"}

# further spellings tried at every viable prefix (in and out of range)
EXTRA = ["INT=" + H("65535"), "INT=" + H("65536"), "INT=" + H("18446744073709551615"),
         "INT=" + H("18446744073709551616"), "INT=" + H("-1"), "HEX=" + H("0xffffffffffffffff"),
         "HEX=" + H("0xfffffffffffffffff"), "HEX=" + H("0x00000000000000035"), "HEX=" + H("0x" + "0" * 30 + "ffffffffffffffff"),
         "HEX=" + H("0x" + "0" * 9 + "10000000000000000"), "IP4=" + H("01.2.3.4"), "IP4=" + H("255.255.255.255"),
         "STR=" + H("|f|"), "STR=", "STR=" + H("a|0d 0a|é"),
         # layout inside a hex section is any Unicode white space (and the separators - : . ,), not only ASCII blanks
         "STR=" + H("|3c\u00a031\u3000 0d\u20030a\u00850b\x0b0c|"), "STR=" + H("x|\u00a0|y"), "STR=" + H("|4\u00a01|"),
         "STR=" + H("|41\u00a0|é\u3000|42|")]


def core_alphabet(i):
    """one spelling per kind, varying with the position so that swapped or dropped tokens show in the tree"""
    return ["EOF", "LP", "RP", "DOT", "DC", "COLON", "SEMI", "EQ", "COMMA", "SLASH", "IMPORT", "LET",
            "BOOL=" + H("true" if i % 2 == 0 else "false"), "ID=" + H(chr(97 + i % 26)),
            "IP4=" + H("1.2.3.%d" % i), "STR=" + H(chr(65 + i % 26)), "HEX=" + H("0x%x" % (16 + i)),
            "INT=" + H(str(i))]


# ---------------------------------------------------------------- running the three sides

def run_side(tag, argv, lines, cov=False):
    """Run `argv + [casefile]` over the cases in parallel shards; returns the output lines in order."""
    d = os.path.join(common.BUILD, "work")
    os.makedirs(d, exist_ok=True)
    n = len(lines)
    shards = max(1, min(common.NPROC, n // 2000))
    step = (n + shards - 1) // shards
    procs = []
    for i in range(shards):
        part = lines[i * step:(i + 1) * step]
        p = os.path.join(d, "c09-%s-%d-%d.cases" % (tag, os.getpid(), i))
        with open(p, "w") as f:
            f.write("\n".join(part))
            f.write("\n")
        a = list(argv)
        covf = None
        if cov:
            covf = p + ".cov"
            a += ["-cov", covf]
        o = open(p + ".out", "wb")
        procs.append((p, covf, o, len(part), subprocess.Popen(a + [p], stdout=o, stderr=subprocess.PIPE)))
    out, covs = [], []
    for p, covf, o, cnt, pr in procs:
        _, se = pr.communicate(timeout=3000)
        o.close()
        got = open(p + ".out", "rb").read().decode("utf-8", "replace").split("\n")
        if got and got[-1] == "":
            got.pop()
        os.unlink(p)
        os.unlink(p + ".out")
        if covf:
            if os.path.exists(covf):
                covs.append(open(covf).read())
                os.unlink(covf)
        if pr.returncode != 0 or len(got) != cnt:
            raise common.BuildError("%s failed (rc=%s, %d lines for %d cases): %s"
                                    % (argv, pr.returncode, len(got), cnt, se.decode("utf-8", "replace")[-1500:]))
        out += got
    return out, covs


def source_text(case):
    """the program text a token case spells (informational; adjacent strings would merge in the real lexer)"""
    out, line = [], []
    for w in case.split():
        if w == "|":
            out.append(" ".join(line))
            line = []
            continue
        w = w.split("@")[0]
        k, _, h = w.partition("=")
        if k in FIXED:
            line.append(FIXED[k])
        elif k == "STR":
            line.append('"' + bytes.fromhex(h).decode("utf-8", "replace") + '"')
        else:
            line.append(bytes.fromhex(h).decode("utf-8", "replace"))
    out.append(" ".join(line))
    return "\n".join(out)


LOC_RE = re.compile(r"@\d+:\d+")


def classify(impl, ref):
    """oracle: the reference parser's line against the implementation's; None if they agree"""
    if impl == ref:
        return None
    if impl.startswith("PANIC"):
        return "panic", "the real parser panicked: " + impl[:300]
    if impl.startswith("BADCASE") or ref.startswith("BADCASE"):
        return "harness", "case could not be built: %s / %s" % (impl[:200], ref[:200])
    io, ro = impl.startswith("OK"), ref.startswith("OK")
    if io and not ro:
        return "accepts-non-sentence", "accepted although the grammar rejects at token %s" % ref[4:]
    if ro and not io:
        return "rejects-sentence", "a sentence of the grammar was rejected (%s)" % impl[:60]
    if io and ro:
        if LOC_RE.sub("", impl) == LOC_RE.sub("", ref):
            return "wrong-location", "trees agree but a source location differs"
        return "wrong-tree", "accepted with a tree different from the grammar's"
    if impl.startswith("ERR") and ref.startswith("ERR"):
        if impl.split()[1:2] != ref.split()[1:2]:
            return "wrong-error-index", "rejected at token %s, first non-continuable token is %s" % (impl[4:], ref[4:])
        return "wrong-error-kind", "error other than a parse error: " + impl
    return "other", "%s vs %s" % (impl[:100], ref[:100])


class Tally:
    def __init__(self):
        self.cov = {}
        self.accepted = 0
        self.rejected = 0
        self.stmts_hist = {}


def compare(ctx, tally, gen, cases, want_viable=False):
    """Run all three sides on the cases; oracle + correspondence; returns per-case viability flags."""
    if not cases:
        return []
    impl, _ = run_side("impl", [PARSEH], cases)
    auto, covs = run_side("auto", [common.model_bin("parse"), "auto"], cases, cov=True)
    ref, _ = run_side("ref", [common.model_bin("parse"), "ref"], cases)
    for c in covs:
        for l in c.splitlines():
            s, k, n = l.split()
            tally.cov[(int(s), int(k))] = tally.cov.get((int(s), int(k)), 0) + int(n)
    ctx.count(gen, len(cases))
    viable = []
    for i in range(len(cases)):
        a, m, r = impl[i], auto[i], ref[i]
        if a != r or a != m or m.startswith("PANIC"):
            bad = classify(a, r)
            rp = {"tokens": cases[i], "source": source_text(cases[i]), "impl": a, "reference_parser": r,
                  "automaton_model": m,
                  "how": "echo '<tokens>' | /verif/.build/htarget/debug/parseh -   (and rsmodel_parse ref -)"}
            if bad:
                ctx.fail(bad[0], bad[1] + " :: " + source_text(cases[i])[:200], rp)
            elif m.startswith("PANIC"):
                ctx.fail("model-panic", "the automaton model reaches a Panic outcome", rp, disagreement=True)
            else:
                ctx.fail("model-differs", "automaton model %s, implementation %s" % (m[:80], a[:80]), rp,
                         disagreement=True)
        if a.startswith("OK"):
            tally.accepted += 1
            n = a.split(" ", 2)[1]
            tally.stmts_hist[n] = tally.stmts_hist.get(n, 0) + 1
            if n != "0":
                ctx.distinct(cases[i])
        else:
            tally.rejected += 1
        if want_viable:
            ntok = len(cases[i].split())
            v = False
            for o in (a, r):
                if o.startswith("OK") or (o.startswith("ERR") and o.split()[1] == str(ntok)):
                    v = True
            viable.append(v)
    return viable


# ---------------------------------------------------------------- (1) all viable prefixes

def enumerate_prefixes(ctx, tally, depth, extra_depth):
    level = [""]
    sizes = []
    for d in range(1, depth + 1):
        alpha = core_alphabet(d - 1)
        ncore = len(alpha)
        if d <= extra_depth:
            alpha = alpha + EXTRA
        na = len(alpha)
        nxt, ncases = [], 0
        chunk = max(1, 600000 // na)                      # bound the memory of one comparison batch
        for lo in range(0, len(level), chunk):
            cases = [(p + " " + a) if p else a for p in level[lo:lo + chunk] for a in alpha]
            viable = compare(ctx, tally, "viable-prefix-enumeration", cases, want_viable=True)
            ncases += len(cases)
            for j, c in enumerate(cases):
                # only core spellings are extended: an in-range variant continues exactly like the core one
                if viable[j] and (j % na) < ncore:
                    nxt.append(c)
        sizes.append((d, ncases, len(nxt)))
        level = nxt
        if len(ctx.violations) > 200:
            break
    return sizes


# ---------------------------------------------------------------- (2) grammar-directed random sentences

class Gen:
    def __init__(self, rng):
        self.rng = rng

    def ident(self):
        r = self.rng
        return "ID=" + H(r.choice(["a", "b", "c", "x", "y", "ipv4", "tcp", "flow", "_z9", "Import", "lets", "truex"]))

    def literal(self):
        r = self.rng
        k = r.randrange(5)
        if k == 0:
            return ["STR=" + H(r.choice(["", "a", "hello world", "|00 ff|", "a|0d0a|b", "é€", "|f|", "|zz|", "|00\u00a0ff\u3000|",
                                         "|0d\u20030a|\u00a0", "|a\x0bb|"]))]
        if k == 1:
            return ["BOOL=" + H(r.choice(["true", "false"]))]
        if k == 2:
            return ["INT=" + H(r.choice(["0", "1", "80", "65535", "65536", "4294967296", "18446744073709551615",
                                          "18446744073709551616", "-1", "007"]))]
        if k == 3:
            return ["HEX=" + H(r.choice(["0x0", "0x10", "0xFFff", "0xffffffffffffffff", "0x10000000000000000", "0x00000000000000035",
                                           "0x000000000000000000ffffffffffffffff", "0x0000010000000000000000"]))]
        ip = "IP4=" + H(r.choice(["1.2.3.4", "0.0.0.0", "255.255.255.255", "10.0.0.1", "01.2.3.4", "192.168.1.001"]))
        if r.random() < 0.5:
            return [ip, "COLON", "INT=" + H(r.choice(["0", "80", "443", "65535", "65536", "99999", "-1"]))]
        return [ip]

    def ref(self):
        r = self.rng
        out = [self.ident()]
        for _ in range(r.choice([0, 0, 1, 1, 2])):
            out += ["DC", self.ident()]
        for _ in range(r.choice([0, 0, 0, 1, 2])):
            out += ["DOT", self.ident()]
        return out

    def atom(self, depth, must_ident=False):
        r = self.rng
        if not must_ident and r.random() < 0.35:
            return self.literal()
        out = self.ref()
        if r.random() < (0.6 if depth > 0 else 0.1):
            out.append("LP")
            n = r.choice([0, 1, 1, 2, 3, 4])
            for i in range(n):
                if r.random() < 0.4:
                    out += [self.ident(), "COLON"]
                out += self.expr(depth - 1)
                if i < n - 1 or r.random() < 0.25:
                    out.append("COMMA")
            out.append("RP")
        return out

    def expr(self, depth, must_ident=False):
        out = self.atom(depth, must_ident)
        while self.rng.random() < 0.25:
            out += ["SLASH"] + self.atom(depth)
        return out

    def stmt(self):
        r = self.rng
        k = r.random()
        if k < 0.15:
            return ["IMPORT", self.ident(), "SEMI"]
        if k < 0.5:
            return ["LET", self.ident(), "EQ"] + self.expr(r.choice([0, 1, 2, 3])) + ["SEMI"]
        return self.expr(r.choice([0, 1, 2, 3, 4]), must_ident=True) + ["SEMI"]

    def program(self, maxlen=60):
        out = []
        for _ in range(self.rng.choice([1, 1, 2, 3, 4])):
            s = self.stmt()
            if len(out) + len(s) > maxlen:
                break
            out += s
        return out

    def any_token(self):
        r = self.rng
        k = r.choice(KINDS)
        if k in FIXED:
            return k
        if k == "ID":
            return self.ident()
        while True:
            l = self.literal()
            if l[0].startswith(k):
                return l[0]

    def mutate(self, toks):
        r = self.rng
        t = list(toks)
        op = r.randrange(4)
        if op == 0 and t:
            t[r.randrange(len(t))] = self.any_token()
        elif op == 1:
            t.insert(r.randrange(len(t) + 1), self.any_token())
        elif op == 2 and t:
            del t[r.randrange(len(t))]
        elif len(t) >= 2:
            i = r.randrange(len(t) - 1)
            t[i], t[i + 1] = t[i + 1], t[i]
        return t


def locate(rng, toks, split):
    """attach explicit locations (so that line-break markers do not change them) and, if asked, random breaks"""
    out, line, col = [], 1, 1
    for i, t in enumerate(toks):
        if rng.random() < 0.2:
            line += rng.choice([1, 1, 2])
            col = 1
        col += rng.choice([0, 1, 3])
        out.append("%s@%d:%d" % (t, line, col))
        col += rng.choice([1, 2, 7])
    plain = " ".join(out)
    if not split:
        return plain, plain
    sp = []
    for w in out:
        sp.append(w)
        if rng.random() < 0.3:
            sp.append("|")
    return plain, " ".join(sp)


def random_sentences(ctx, tally, n, muts):
    g = Gen(ctx.rng)
    plain, split, mutated = [], [], []
    for _ in range(n):
        toks = g.program()
        a, b = locate(ctx.rng, toks, True)
        plain.append(a)
        split.append(b)
        for _ in range(muts):
            m = g.mutate(toks)
            a2, b2 = locate(ctx.rng, m, ctx.rng.random() < 0.5)
            mutated.append(b2)
    # long inputs: hundreds of statements in one parser's life (many of them calls closed right after '(' or after a
    # trailing comma), and calls nested far deeper than any script nests them -- what the parser accepts does not depend
    # on how much it has already parsed, and nesting has no limit
    longs = []
    for j in range(12 if ctx.thorough else 4):
        toks = []
        for _ in range(ctx.rng.choice([80, 150, 300])):
            k = ctx.rng.random()
            if k < 0.35:
                toks += ["LET", g.ident(), "EQ"] + g.ref() + ["LP"] + (g.expr(1) + ["COMMA"] if ctx.rng.random() < 0.6 else []) + ["RP", "SEMI"]
            elif k < 0.6:
                toks += g.ref() + ["LP", "RP", "SEMI"]
            else:
                toks += g.stmt()
        toks += g.ref() + ["LP"] + g.expr(1) + ["RP", "SEMI"]
        longs.append(locate(ctx.rng, toks, True)[j % 2])
    for depth in (70, 130, 300):
        toks = []
        for _ in range(depth):
            toks += g.ref() + ["LP"]
        toks += g.literal() + ["RP"] * depth + ["SEMI"] + g.ref() + ["LP", "RP", "SEMI"]
        longs.append(locate(ctx.rng, toks, True)[0])
    compare(ctx, tally, "long-histories-and-deep-nesting", longs)
    compare(ctx, tally, "random-sentences", plain)
    compare(ctx, tally, "random-sentences-split-into-lines", split)
    compare(ctx, tally, "single-token-mutations", mutated)
    # relational oracle on the implementation alone: the split must not change the result
    impl_a, _ = run_side("impl", [PARSEH], plain)
    impl_b, _ = run_side("impl", [PARSEH], split)
    for i in range(len(plain)):
        if impl_a[i] != impl_b[i]:
            ctx.fail("split-dependent", "result depends on how the tokens are split into lines",
                     {"tokens": split[i], "source": source_text(split[i]), "impl_split": impl_b[i],
                      "impl_unsplit": impl_a[i]})
    return len(plain) + len(split) + len(mutated)


def run(ctx):
    with common.Lock():
        common.build_model(list(MODELS))       # Parse/*.vo may have been rebuilt with the proofs
    tally = Tally()
    if ctx.thorough:
        depth, extra_depth, nrand, muts = 11, 11, 100000, 4
    else:
        depth, extra_depth, nrand, muts = 9, 9, 6000, 3
    sizes = enumerate_prefixes(ctx, tally, depth, extra_depth)
    ctx.exhaustive = True
    random_sentences(ctx, tally, nrand, muts)
    total = len(STATES) * len(KINDS)
    missing = [STATES[s] + "/" + KINDS[k] for s in range(len(STATES)) for k in range(len(KINDS))
               if (s, k) not in tally.cov]
    ctx.model_coverage = {"dispatch_entries_exercised": len(tally.cov), "dispatch_entries_total": total,
                          "not_exercised": missing,
                          "note": "39 states x 18 token kinds; entries not exercised are not reachable from the "
                                  "initial state (a reduce state entered by Goto only ever sees the token kinds its "
                                  "predecessor passes on)"}
    ctx.dist.update({"enumeration_levels(length, cases, viable-and-extended)": sizes,
                     "accepted": tally.accepted, "rejected": tally.rejected,
                     "statements_per_accepted_program": tally.stmts_hist,
                     "extra_spellings": [source_text(e) for e in EXTRA],
                     "random": "programs of 1-4 statements, calls nested to depth 4, <= 60 tokens; 4 mutation kinds"})
    if tally.accepted == 0 or tally.rejected == 0:
        ctx.obligation("generator exercises both accepted and rejected inputs", False,
                       "accepted=%d rejected=%d" % (tally.accepted, tally.rejected))
    ctx.sample({"tokens": "ID=66 LP ID=78 COLON RP", "source": "f ( x : )", "expected": "ERR 4"})


def replay(ctx, rp):
    with common.Lock():
        common.build_model(list(MODELS))
    tally = Tally()
    case = rp["tokens"]
    compare(ctx, tally, "replay", [case])
    if "impl_unsplit" in rp:
        plain = " ".join(w for w in case.split() if w != "|")
        a, _ = run_side("impl", [PARSEH], [plain])
        b, _ = run_side("impl", [PARSEH], [case])
        if a != b:
            ctx.fail("split-dependent", "result depends on how the tokens are split into lines",
                     {"tokens": case, "source": source_text(case), "impl_split": b[0], "impl_unsplit": a[0]})
