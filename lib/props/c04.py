"""C04 -- TCP flows are sequence-coherent: a reassembler recovers the scripted streams."""
import struct, itertools
import common, diff, gen, progs
from diff import Case
from gen import *

THEOREMS = ["C04_tcp_fields_readback", "C04_counters_follow_account", "C04_open", "C04_client_close",
            "C04_server_close", "C04_client_message", "C04_server_message", "C04_holes", "C04_ack_reset",
            "C04_data_offsets", "C04_override_is_local",
            # history level: all operation lists refine the account, overrides, reassembly in any order (Props/C04b.v)
            "C04_methods_are_ops", "C04_ops_are_u32", "C04_ops_hdr_u32", "C04_call_refines", "C04_history_refines", "C04_history_refines_overrides", "C04_history_total", "C04_override_segments", "C04_override_account", "C04_untraced_call_deletable", "C04_direction_on_wire", "C04_history_keeps_ends", "C04_reassembly_any_order", "C04_reassembled_stream", "C04_stream_is_concatenation"]
PROPS = ["C04", "C04b"]
VO = ["theories/Props/C04.vo", "theories/Props/C04b.vo"]
RULE = ("histories of TcpFlow operations: exhaustive small scope (all sequences of <= 3 (quick) / 4 (thorough) "
        "operations over open, client/server message with and without the automatic ACK, single segments, bare ACKs, "
        "holes, resets, closes; payload lengths 0,1,3) for ISNs 1, 2^31, 2^32-1, 2^32-3, plus random histories up to "
        "length 30 with overrides interleaved and with packets stored and emitted out of order.  Non-trivial = at "
        "least two data-bearing segments; distinct by program text")
NOTES = ["oracle: an independent reassembler (python, harness side) places every payload of the implementation's pcap at "
         "(seq - ISN - 1) mod 2^32 per direction and compares with the scripted streams (payloads and declared holes), "
         "in emission order and in a shuffled order; acknowledgement numbers are compared with the peer's next sequence "
         "number; overridden calls are checked to leave the overridden counter where it was",
         "projection compared with the model: (direction, seq, ack, flags, payload length) of every TCP segment"]
MODELLED = "ezpkt/src/tcp4.rs TcpFlow/TcpSeg and src/stdlib/ipv4/tcp.rs (push_state/pop_state glue) in Ez/Tcp.v, Lib/Ipv4Lib.v"

M32 = 1 << 32
CL, SV = ("1.2.3.4", 1000), ("1.2.3.5", 80)
# the endpoints of the scripts in rotation: usually distinct everywhere; also the same port on both hosts, and two ports
# of one host -- a flow is told from its reverse by the (address, port) pair, never by the port or the address alone
ENDPOINTS = [(CL, SV), (CL, SV), (("10.0.0.1", 5060), ("10.0.0.2", 5060)), (CL, SV), (("192.168.1.9", 7), ("192.168.1.9", 9)),
             (("1.2.3.5", 80), ("1.2.3.4", 80))]
_rot = [0]


class Script:
    """A history on one flow, with the expected streams computed independently of model and code."""

    def __init__(self, cl_isn, sv_isn, raw=False):
        self.cl_isn, self.sv_isn = cl_isn, sv_isn
        self.cl, self.sv = ENDPOINTS[_rot[0] % len(ENDPOINTS)]
        _rot[0] += 1
        CL, SV = self.cl, self.sv
        self.stmts = [Import("ipv4"), Let("f", Call("ipv4::tcp::flow", SOCK(*CL), SOCK(*SV), cl_seq=cl_isn, sv_seq=sv_isn,
                                                 **({"raw": True} if raw else {})))]
        self.cl_used = self.sv_used = 0          # unbounded account
        self.expect = []                         # per emitted segment: (dir, seq, ack or None, flags, payload)
        self.emit_order = []                     # indices into expect in emission order
        self.stored = []
        self.n = 0
        self.has_override = False

    def seqs(self):
        return (self.cl_isn + self.cl_used) % M32, (self.sv_isn + self.sv_used) % M32

    def seg(self, d, flags, payload=b"", seq=None, ack=None, consume=True):
        c, s = self.seqs()
        mine, peer = (c, s) if d == "c" else (s, c)
        if seq is not None:
            mine = seq
        if ack is not None:
            peer = ack
        e = (d, mine, peer if flags & 0x10 else None, flags, payload)
        return e

    def op(self, name, rng, store=False, override=False, payload=None):
        kw, ov_seq, ov_ack = {}, None, None
        if override and name in ("client_message", "server_message", "client_segment", "server_segment", "client_ack", "server_ack",
                                 "client_raw_segment", "server_raw_segment"):
            # (an override that happens to equal the counter's current value is still an override)
            cnow, snow = self.seqs()
            mine_now, peer_now = (cnow, snow) if name.startswith("client") else (snow, cnow)
            if rng.random() < 0.7:
                # (a literal above 2^32 - 1 is a legal integer for a u32 parameter: it is taken modulo 2^32)
                lit = rng.choice([0, 5, 2**32 - 1, rng.getrandbits(32), mine_now, mine_now, 2**32 + 1024, 2**32 + mine_now, 2**64 - 1])
                kw["seq"] = lit
                ov_seq = lit % M32
            if rng.random() < 0.5:
                lit = rng.choice([0, 9, 2**32 - 2, rng.getrandbits(32), peer_now, 2**32 + 7, 2**33 + peer_now])
                kw["ack"] = lit
                ov_ack = lit % M32
            if kw:
                self.has_override = True
        segs = []
        d = "c" if name.startswith("client") else "s"
        o = "s" if d == "c" else "c"
        if name == "open":
            segs.append(self.seg("c", 0x02)); self.cl_used += 1
            segs.append(self.seg("s", 0x12)); self.sv_used += 1
            segs.append(self.seg("c", 0x10))
            call = Call("f.open")
        elif name in ("client_close", "server_close"):
            for who in (d, o):
                segs.append(self.seg(who, 0x11))
                if who == "c":
                    self.cl_used += 1
                else:
                    self.sv_used += 1
            segs.append(self.seg(d, 0x10))
            call = Call("f." + name)
        elif name in ("client_reset", "server_reset"):
            segs.append(self.seg(d, 0x04))
            call = Call("f." + name)
        elif name in ("client_ack", "server_ack"):
            # overrides: for a client call seq is the client counter, ack the server counter; mirrored for server
            segs.append(self.seg(d, 0x10, seq=ov_seq, ack=ov_ack))
            call = Call("f." + name, **kw)
        elif name in ("client_hole", "server_hole"):
            n = rng.choice([0, 1, 7, 1460, 2**32 - 1])
            if d == "c":
                self.cl_used += n
            else:
                self.sv_used += n
            call = Call("f." + name, INT(n))
        elif name.endswith("_raw_segment") or name.endswith("_hdr"):
            # a raw segment / a bare header in front of its payload, carried by a hand-made IPv4 datagram: on the wire
            # it is one more data segment of the flow, and it consumes sequence space like one
            pl = payload if payload is not None else bytes(rng.getrandbits(8) for _ in range(rng.choice([0, 1, 3, rng.randint(0, 40)])))
            if not name.endswith("_raw_segment"):
                kw, ov_seq, ov_ack = {}, None, None
            segs.append(self.seg(d, 0x18, pl, seq=ov_seq, ack=ov_ack))
            if ov_seq is None:
                if d == "c":
                    self.cl_used += len(pl)
                else:
                    self.sv_used += len(pl)
            a, b = (self.cl, self.sv) if d == "c" else (self.sv, self.cl)
            inner = [Call("f." + name, _x=[STR(pl)], **kw)] if name.endswith("_raw_segment") else \
                    [Call("f." + name, bytes=len(pl)), STR(pl)]
            call = Call("ipv4::datagram", IP(ip(a[0])), IP(ip(b[0])), _x=inner, proto=6)
        else:
            pl = payload if payload is not None else bytes(rng.getrandbits(8) for _ in range(rng.choice([0, 1, 3, rng.randint(0, 40)])))
            segs.append(self.seg(d, 0x18, pl, seq=ov_seq, ack=ov_ack))
            if ov_seq is None:
                if d == "c":
                    self.cl_used += len(pl)
                else:
                    self.sv_used += len(pl)
            if name.endswith("message"):
                if rng.random() < 0.3:
                    kw["send_ack"] = False
                else:
                    # the automatic ACK comes from the peer: its seq is the peer's counter (overridden by ack:),
                    # its ack the sender's counter after the data (the override + len when seq: is given)
                    c, s = self.seqs()
                    mine_after = ((ov_seq + len(pl)) % M32) if ov_seq is not None else (c if d == "c" else s)
                    peer_cnt = ov_ack if ov_ack is not None else (s if d == "c" else c)
                    segs.append((o, peer_cnt, mine_after, 0x10, b""))
            call = Call("f." + name, _x=[STR(pl)], **kw)
        idx = list(range(len(self.expect), len(self.expect) + len(segs)))
        self.expect += segs
        if store and segs:
            self.n += 1
            nm = "p%d" % self.n
            self.stmts.append(Let(nm, call))
            self.stored.append((nm, idx))
        else:
            self.stmts.append(Do(call))
            self.emit_order += idx

    def flush(self, rng):
        rng.shuffle(self.stored)
        for nm, idx in self.stored:
            self.stmts.append(Do(Ref(nm)))
            self.emit_order += idx
        self.stored = []


OPS = ["open", "client_message", "server_message", "client_segment", "server_segment", "client_ack", "server_ack",
       "client_hole", "server_hole", "client_close", "server_close", "client_reset", "server_reset",
       "client_raw_segment", "server_raw_segment", "client_hdr", "server_hdr"]


def segments(pcap, cl=CL):
    ok, recs = common.pcap_records(pcap)
    out = []
    for r in recs:
        fr = r[4]
        raw = diff.frame_is_raw(fr)
        d = fr if raw else fr[14:]
        if len(d) < 40 or d[9] != 6:
            continue
        src = struct.unpack(">I", d[12:16])[0]
        sp, dp, seq, ack, doff, flags = struct.unpack(">HHIIBB", d[20:34])
        out.append(("c" if (src, sp) == (ip(cl[0]), cl[1]) else "s", seq, ack if flags & 0x10 else None, flags, d[40:]))
    return ok, out


def reassemble(segs, isn):
    """independent reassembly: payload bytes by stream offset; conflicting overlaps -> None"""
    stream = {}
    for d, seq, ack, flags, pl in segs:
        base = (seq - isn[d] - (0 if flags & 0x02 else 1)) % M32
        for i, b in enumerate(pl):
            k = base + i
            if stream.setdefault((d, k), b) != b:
                return None
    return stream


def check_case(ctx, c):
    sc = c.gen["script"]
    oki, got = segments(c.impl.pcap, sc.cl)
    want = [sc.expect[i] for i in sc.emit_order]
    if got != want:
        for k, (g, w) in enumerate(zip(got, want)):
            if g != w:
                field = "seq" if g[1] != w[1] else "ack" if g[2] != w[2] else "flags" if g[3] != w[3] else "payload"
                cls = "tcp-%s%s" % (field, ":override" if sc.has_override else "")
                return ctx.fail(cls, "segment %d: got (dir,seq,ack,flags,len)=%s, scripted %s"
                                % (k, (g[0], g[1], g[2], g[3], len(g[4])), (w[0], w[1], w[2], w[3], len(w[4]))),
                                diff.replay_of(c))
        return ctx.fail("tcp-segment-count", "%d segments emitted, %d scripted" % (len(got), len(want)), diff.replay_of(c))
    if not sc.has_override and max(sc.cl_used, sc.sv_used) < M32:
        isn = {"c": sc.cl_isn, "s": sc.sv_isn}
        a = reassemble(got, isn)
        sh = list(got)
        ctx.rng.shuffle(sh)
        b = reassemble(sh, isn)
        scripted = reassemble([sc.expect[i] for i in range(len(sc.expect))], isn)
        emitted_scripted = reassemble(want, isn)
        if a is None or a != b or a != emitted_scripted:
            return ctx.fail("tcp-reassembly", "reassembled streams differ from the scripted ones", diff.replay_of(c))


def run(ctx):
    cases = []
    r = ctx.rng
    depth = 3
    isns = [(1, 1), (2**31, 2**32 - 1), (2**32 - 1, 2**32 - 3), (2**32 - 3, 0)]
    ops_small = ["open", "client_message", "server_message", "client_segment", "server_ack", "client_hole",
                 "server_close", "client_reset"]
    k = 0
    for hist in itertools.product(ops_small, repeat=depth):
        if not ctx.thorough and (hash(hist) % 4):      # quick: a quarter of the 512 three-op histories
            continue
        ci, si = isns[k % 4]
        sc = Script(ci, si, raw=(k % 5 == 0))
        for name in hist:
            sc.op(name, r)
        c = Case()
        c.name, c.stmts, c.files, c.text, c.meta, c.gen = "e%d" % k, sc.stmts, {}, None, [], {"script": sc, "kind": "enum"}
        cases.append(c)
        k += 1
    if ctx.thorough:
        for hist in itertools.product(ops_small[:6], repeat=4):
            ci, si = isns[k % 4]
            sc = Script(ci, si)
            for name in hist:
                sc.op(name, r)
            c = Case()
            c.name, c.stmts, c.files, c.text, c.meta, c.gen = "e%d" % k, sc.stmts, {}, None, [], {"script": sc, "kind": "enum4"}
            cases.append(c)
            k += 1
    for i in range(600 if ctx.thorough else 120):
        ci, si = r.choice(isns + [(r.getrandbits(32), r.getrandbits(32))])
        sc = Script(ci, si, raw=r.random() < 0.2)
        with_ov = i % 3 == 0
        for _ in range(r.randint(1, 30)):
            sc.op(r.choice(OPS), r, store=r.random() < 0.2, override=with_ov and r.random() < 0.4)
            if r.random() < 0.1:
                sc.flush(r)
        sc.flush(r)
        c = Case()
        c.name, c.stmts, c.files, c.text, c.meta = "r%d" % i, sc.stmts, {}, None, []
        c.gen = {"script": sc, "kind": "random+override" if with_ov else "random"}
        cases.append(c)
    # every data-bearing operation followed by traffic in both directions (a wrongly charged counter shows in the next
    # segment of either side), and segments longer than 65535 bytes (the account is 32 bits wide, the IP length 16)
    for j, name in enumerate([o for o in OPS if o.endswith(("message", "segment", "hdr"))] * (3 if ctx.thorough else 1)):
        sc = Script(*isns[j % 4])
        sc.op("open", r)
        sc.op(name, r, payload=bytes(r.getrandbits(8) for _ in range(r.choice([1, 5, 40]))))
        for nm in ("client_message", "server_message", "client_segment", "server_segment"):
            sc.op(nm, r)
        c = Case()
        c.name, c.stmts, c.files, c.text, c.meta = "d%d" % j, sc.stmts, {}, None, []
        c.gen = {"script": sc, "kind": "each-op-then-both-directions"}
        cases.append(c)
    for j, (name, n) in enumerate([("client_message", 70000), ("server_segment", 65536)] + ([("server_message", 131071)] if ctx.thorough else [])):
        sc = Script(*isns[j % 4])
        sc.op("open", r)
        sc.op(name, r, payload=bytes(r.getrandbits(8) for _ in range(n)))
        sc.op("client_message", r); sc.op("server_message", r); sc.op("client_close", r)
        c = Case()
        c.name, c.stmts, c.files, c.text, c.meta = "g%d" % j, sc.stmts, {}, None, []
        c.gen = {"script": sc, "kind": "segment-over-64k"}
        cases.append(c)
    diff.run_both(ctx, "c04", cases)
    for c in cases:
        ctx.count(c.gen["kind"])
        if c.impl.status in ("crash", "timeout") and c.model["status"] == "ok":
            # the property quantifies over all initial sequence numbers and histories: no output at all is a failure
            ctx.fail("tcp-crash", "the compiler crashed on a TCP history the model completes: " + str(c.impl.kind)[:200],
                     diff.replay_of(c))
        if not diff.triage(ctx, c):
            continue
        before = len(ctx.violations)
        check_case(ctx, c)
        oki, gi = segments(c.impl.pcap, c.gen["script"].cl)
        okm, gm = segments(c.model["pcap"], c.gen["script"].cl)
        if [(a, b, cc, d, len(e)) for a, b, cc, d, e in gi] != [(a, b, cc, d, len(e)) for a, b, cc, d, e in gm] \
                and len(ctx.violations) == before:
            ctx.fail("tcp-projection-differs", "(dir,seq,ack,flags,len) projection differs from the model",
                     diff.replay_of(c), disagreement=True)
        if sum(1 for s in gi if s[4]) >= 2:
            ctx.distinct(c.text)
    diff.vacuity_guard(ctx, len(cases))
    ctx.sample({"program": cases[-1].text[:1500]})
    ctx.sample({"program": cases[0].text})


def replay(ctx, rp):
    ctx.count("replay")
    d, res = common.run_programs("c04r", {"replay": rp["program"]})
    r = res["replay"]
    if r.status != "ok":
        return ctx.fail("replay-not-ok", "impl outcome %s %s" % (r.status, r.kind), {"program": rp["program"]})
    # the scripted expectation is not stored in the replay; compare with the model instead
    ctx.notes.append("replay: implementation ran; compare its pcap with the 'model' pcap stored in the replay file")
    if rp.get("model", {}).get("pcap") and r.pcap.hex() != rp["model"]["pcap"]:
        ctx.fail("tcp-replay-differs", "implementation output still differs from the model output recorded in the replay",
                 {"program": rp["program"]})
