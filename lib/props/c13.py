"""C13 -- compilation is deterministic and self-contained."""
import hashlib, os, random, re, shutil, subprocess, time
import common, diff, gen, progs
from diff import Case

THEOREMS = ["C13_lexeme_unaffected_by_insertion", "C13_blank_insertion_same_lexemes", "C13_comment_append_same_lexemes",
            "C13_line_edit_same_tokens", "C13_trivia_line_no_tokens", "C13_edit_hypotheses_decidable",
            "C13_parser_ignores_locations", "C13_interpreter_ignores_locations", "C13_edits_same_program_state",
            "C13_edits_same_output", "C13_crlf_irrelevant", "C13_batch_reports", "C13_batch_report_alone",
            "C13_batch_status", "C13_batch_permutation", "C13_batch_outputs", "C13_unused_binding", "C13_unused_binding_run",
            "C13_nonvacuous"]
MODELS = ("run",)
RULE = ("random packet programs (lib/progs.py: every builder, tunnels, time jumps, stored packets) plus hand-written "
        "multi-line ones, and failing programs derived from them (lex, parse, name, type, import, reassign, runtime "
        "errors, calls with 2..5 undeclared and/or 2..4 ill-typed and/or duplicated / misordered named arguments, inserted after some packets were "
        "emitted); files that END in an unfinished lexer or parser state (pending string literal, open call, `let x =`, "
        "`import`, unterminated string, ...); expression statements whose value is discarded, for every kind of "
        "value (bool, integers, string, address, socket, every class of object, function, method, constants), so that the "
        "warnings that print values are part of the compared stdout.  (i) every program compiled by the real binary under "
        "perturbed ambient conditions: other TZ/LANG/LC_ALL/HOME + junk variables, other cwd with relative input and "
        "output paths, explicit -o names, default --color, a later run, and two runs under an LD_PRELOAD shim that "
        "fakes clock, pid, getrandom and answers every getenv with junk; (ii) the same files alone and in batches "
        "(several orders, sub-batches, failing files before/after, every unfinished-ending file before / between / after good "
        "ones, with and without -k; inputs sharing an output path); programs with several bad argument names 8 (16) more times; (iii) lexical edits (blank / "
        "blank-space / comment lines, trailing blank space and comments, blank space at every kind of lexeme boundary "
        "incl. tab, CR, NEL, no-break and ideographic space, replaced blank runs, CRLF, final newline removed/added, and - for "
        "programs that compile - lines cut in two or joined at lexeme boundaries) "
        "and unused `let` bindings of literals.  Oracle: equality of the implementation's own outputs (sha256 of the "
        "pcap, normalised stdout, exit status) between the variants.  Non-trivial = a program that emits >= 1 packet "
        "or fails after the front end; distinct by source text")
NOTES = ["the oracle never consults the model: a violation is a pair of runs of the real binary (two environments, batch "
         "vs alone, or source vs edited source) whose outputs differ; every lexical variant is additionally compared "
         "with the whole-pipeline model run_src on the same bytes (class 'model-differs', reported as a disagreement)",
         "stdout is compared after replacing the input and output path strings the run itself varied; line:col of "
         "diagnostics must be identical under environment/batch perturbations and may move under lexical edits "
         "(error kind, packets written before the error (-k), number of warnings must not)",
         "a faked clock is obtained by LD_PRELOAD (lib/c13shim.c, built with the system cc): clock_gettime/gettimeofday/"
         "time shifted by +400 days / -10 years, getpid, getrandom (so HashMap's RandomState) and every getenv answer "
         "replaced; the shim also counts those calls and one run under strace lists the files opened (ctx.dist, an "
         "observation, not a proof).  A dependence on the time of day is caught by the shim and by the second "
         "baseline run >= 1.1 s later; on the pid by any two runs; on hash-map order by the two random seeds",
         "programs that read data files do so through absolute paths; a relative io::file path is resolved against the "
         "working directory by design and is outside the property",
         "inputs that map to the same output path (same file stem in two directories, the same -o name twice): the first is "
         "compiled, every later one is refused ('output file <out> is already used by another input'), exit status 1 "
         "(D27); an input without a file name ('..') is refused too (D28).  Modelled in Interp/Batch.v (b_used) and "
         "checked by the oracle shared_output (class batch:shared-output-path): first input reported and its output "
         "byte-identical to compiling it alone, with and without -k, first ok / first failing, later ok / later failing",
         "C13_unused_binding / C13_unused_binding_run are pinned from the C14 development (Proofs/C14/Unused.v "
         "unused_plain_let_irrelevant, RunLevel.v run_unused_let): statement-list level, any library",
         "partial output kept by -k after an error: a statement is reduced when the token AFTER its ';' is fed and executed at the "
         "end of that line, so when the next line fails to lex or parse, the last complete statement before it has not "
         "run; inserting any statement (e.g. an unused let) between them lets it run, and the kept partial pcap gains its "
         "packets.  Model and binary agree on this; for failing programs the unused-let edit is therefore compared on "
         "error kind only, every other edit also on the packets written before the error",
         "line breaks: cutting a line in two at a lexeme boundary, or joining two lines, is checked differentially on programs "
         "that compile (edit kinds line-break-between-tokens, lines-joined); it is not among the pinned edits because "
         "process_file executes statements line by line: with two errors in a file, which one is reported first depends on "
         "the line structure",
         "theorem hypotheses: an edited line must be valid UTF-8; blank space only at a lexeme boundary reachable by "
         "cutting the line from its start (so not after a lex error on that line); a comment only after a line that "
         "lexes to its end, a // comment not directly after a token /"]
MODELLED = ("src/cli.rs process_file and the loop of resynth() (Interp/Cli.v, Interp/Batch.v), src/lex.rs, src/parse.rs, "
            "src/program.rs and everything below are modelled; clap argument parsing, path manipulation "
            "(file_stem/set_extension), termcolor and the file system are not: the perturbation runs tie them")

ASCII_WS = ["\t", " ", "\x0b", "\x0c", "\r"]
UNI_WS = ["\x85", "\xa0", "\u1680", "\u2000", "\u2001", "\u2003", "\u2009", "\u200a", "\u2028", "\u2029", "\u202f", "\u205f", "\u3000"]
WS_CLASS = "".join(ASCII_WS + UNI_WS)
LEX = re.compile(
    "(?P<ws>[" + WS_CLASS + "]+)|(?P<hash>#[^\\n]*)|(?P<cpp>//[^\\n]*)|(?P<nl>\\n)|(?P<lp>\\()|(?P<rp>\\))|(?P<dot>\\.)"
    "|(?P<dc>::)|(?P<col>:)|(?P<semi>;)|(?P<eq>=)|(?P<comma>,)|(?P<slash>/)|(?P<imp>\\bimport\\b)|(?P<let>\\blet\\b)"
    "|(?P<bool>\\b(?:true|false)\\b)|(?P<id>[a-zA-Z_][a-zA-Z0-9_]*)"
    "|(?P<ip>(?:(?:25[0-5]|2[0-4][0-9]|[01]?[0-9][0-9]?)\\.){3}(?:25[0-5]|2[0-4][0-9]|[01]?[0-9][0-9]?))"
    "|(?P<str>\"[^\"]*\")|(?P<hex>0x[0-9a-fA-F]+)|(?P<int>-?[0-9]+)")
SKIPPED = ("ws", "hash", "cpp", "nl")


def lexemes(line):
    """-> ([(kind, text)], rest) cutting the line from its start as LEX_RE does; rest = '' iff it lexes to its end"""
    out, pos = [], 0
    while pos < len(line):
        m = LEX.match(line, pos)
        if not m or m.end() == pos:
            break
        out.append((m.lastgroup, m.group()))
        pos = m.end()
    return out, line[pos:]


def blank_run(r, uni=True):
    pool = ASCII_WS + (UNI_WS if uni else [])
    k = r.random()
    if k < 0.4:
        return r.choice([" ", "\t", "  ", " \t"])
    return "".join(r.choice(pool) for _ in range(r.randint(1, 4)))


TRICKY = ["\\", "\"", "'", "#", "/", "//", "/*", "*/", ";", "(", ")", "::", ":", ".", ",", "=", "|", "|ff", " ", "\t", "let", "import",
          "x", "1", "1.2.3.4", "0x", "-", "$", "@", "`", "{", "}", "[", "]", "<", ">", "!", "?", "%", "^", "&", "*", "+", "~",
          "\u00e9", "\u2603", "\u00a0", "\r"]


def comment(r):
    """the text of a comment: anything up to the end of the line"""
    if r.random() < 0.5:
        body = r.choice(["", " note", " \"quoted\" text; let x = 1; ( :: /", " // nested # both", " caf\u00e9 \u2603", "#", "/",
                         " 1.2.3.4:5 \"unterminated", "\t tab\tbed ", " continued \\", "\\", " ends with a quote \"", " (", "*/ /*"])
    else:
        body = "".join(r.choice(TRICKY) for _ in range(r.randint(1, 12)))
    return r.choice(["#", "//"]) + body


def join(lines, final_nl=True):
    return "\n".join(lines) + ("\n" if final_nl else "")


# ---------------------------------------------------------------- the edits of the theorems (and of the property)

def ed_blank_line(r, L):
    i = r.randint(0, len(L))
    return L[:i] + [""] + L[i:]


def ed_ws_line(r, L):
    i = r.randint(0, len(L))
    return L[:i] + [blank_run(r)] + L[i:]


def ed_comment_line(r, L):
    i = r.randint(0, len(L))
    return L[:i] + [(blank_run(r) if r.random() < 0.5 else "") + comment(r)] + L[i:]


def full_lines(L):
    return [i for i, l in enumerate(L) if lexemes(l)[1] == ""]


def ed_trailing_ws(r, L):
    ok = full_lines(L)
    if not ok:
        return None
    i = r.choice(ok)
    return L[:i] + [L[i] + blank_run(r)] + L[i + 1:]


def ed_trailing_comment(r, L):
    ok = full_lines(L)
    if not ok:
        return None
    i = r.choice(ok)
    c = comment(r)
    pre = blank_run(r) if r.random() < 0.6 else ""
    if not pre and c.startswith("//") and L[i].endswith("/"):
        pre = " "
    return L[:i] + [L[i] + pre + c] + L[i + 1:]


def insert_at_boundaries(r, line, prob, only_first=False):
    ls, rest = lexemes(line)
    out = []
    bounds = list(range(len(ls) + 1)) if not rest else list(range(len(ls) + 1))   # also just before the unlexable rest
    for j, (k, t) in enumerate(ls):
        if (j == 0 or not only_first) and j in bounds and r.random() < prob and not (j > 0 and ls[j - 1][0] in ("hash", "cpp")):
            out.append(blank_run(r))
        out.append(t)
    if not rest and ls and ls[-1][0] not in ("hash", "cpp") and not only_first and r.random() < prob:
        out.append(blank_run(r))
    return "".join(out) + rest


def ed_inter_token_ws(r, L):
    idx = [i for i, l in enumerate(L) if lexemes(l)[0]]
    if not idx:
        return None
    L = list(L)
    for i in r.sample(idx, min(len(idx), r.randint(1, 4))):
        L[i] = insert_at_boundaries(r, L[i], 0.35)
    return L


def ed_leading_ws(r, L):
    if not L:
        return None
    i = r.randrange(len(L))
    return L[:i] + [blank_run(r) + L[i]] + L[i + 1:]


def ed_dense(r, L):
    out = []
    for l in L:
        l2 = insert_at_boundaries(r, l, 1.0)
        if lexemes(l2)[1] == "" and r.random() < 0.7:
            c = comment(r)
            l2 += (" " if c.startswith("//") and l2.endswith("/") else "") + c
        out.append(l2)
        if r.random() < 0.3:
            out.append(blank_run(r) if r.random() < 0.5 else comment(r))
    return out


def ed_replace_ws(r, L):
    """an existing blank run between two lexemes replaced by another non-empty blank run"""
    L = list(L)
    done = False
    for i in r.sample(range(len(L)), len(L)):
        ls, rest = lexemes(L[i])
        if any(k == "ws" for k, _ in ls):
            L[i] = "".join(blank_run(r) if k == "ws" and r.random() < 0.7 else t for k, t in ls) + rest
            done = True
            if r.random() < 0.5:
                break
    return L if done else None


def statement_boundaries(L):
    """indices i such that a new statement may be inserted before line i (0..len(L)): the tokens of the lines before
    form whole statements (last token a ';' outside parentheses).  Stops at the first line that does not lex."""
    ok, depth, last = [0], 0, ";"
    for i, l in enumerate(L):
        ls, rest = lexemes(l)
        for k, t in ls:
            if k in SKIPPED:
                continue
            depth += 1 if k == "lp" else -1 if k == "rp" else 0
            last = t
        if rest:
            break
        if depth == 0 and last == ";":
            ok.append(i + 1)
    return ok


def ed_unused_let(r, L):
    L = list(L)
    for _ in range(r.randint(1, 3)):
        name = "zz_unused_%d" % r.getrandbits(24)
        lit = r.choice(["0", "1", "65535", "18446744073709551615", "0x1f", "true", "false", "\"\"", "\"payload |00 ff| x\"",
                        "\"a\" \"b\"", "1.2.3.4", "255.255.255.255", "10.0.0.1:80", "10.0.0.1/65535"])
        i = r.choice(statement_boundaries(L))
        L.insert(i, "let %s = %s;" % (name, lit))
    return L


def ed_line_break(r, L):
    """a line cut in two at a lexeme boundary (a newline is blank space too): successful programs only"""
    idx = [i for i, l in enumerate(L) if len(lexemes(l)[0]) >= 2 and lexemes(l)[1] == ""]
    if not idx:
        return None
    L = list(L)
    for i in sorted(r.sample(idx, min(len(idx), r.randint(1, 3))), reverse=True):
        ls, _ = lexemes(L[i])
        after_str = [j + 1 for j, (k, _) in enumerate(ls[:-1]) if k == "str"]
        cuts = sorted(set(r.sample(range(1, len(ls)), min(len(ls) - 1, r.randint(1, 3)))
                          + ([r.choice(after_str)] if after_str and r.random() < 0.6 else [])))
        parts, prev = [], 0
        for c in cuts + [len(ls)]:
            parts.append("".join(t for _, t in ls[prev:c]))
            prev = c
        L[i:i + 1] = parts
    return L


def ed_line_join(r, L):
    """two consecutive lines joined by a blank, unless the first ends in a comment: successful programs only"""
    idx = [i for i in range(len(L) - 1) if lexemes(L[i])[1] == "" and not (lexemes(L[i])[0] and lexemes(L[i])[0][-1][0] in ("hash", "cpp"))]
    if not idx:
        return None
    L = list(L)
    for i in sorted(r.sample(idx, min(len(idx), r.randint(1, 3))), reverse=True):
        L[i:i + 2] = [L[i] + r.choice([" ", "\t", "  "]) + L[i + 1]]
    return L


OK_ONLY_EDITS = {"line-break-between-tokens": ed_line_break, "lines-joined": ed_line_join}
LINE_EDITS = {"blank-line": ed_blank_line, "blank-space-line": ed_ws_line, "comment-line": ed_comment_line,
              "trailing-blank-space": ed_trailing_ws, "trailing-comment": ed_trailing_comment,
              "blank-space-between-tokens": ed_inter_token_ws, "leading-blank-space": ed_leading_ws,
              "dense": ed_dense, "blank-run-replaced": ed_replace_ws}


def variants(r, text, stmt_per_line, kinds_per_prog, ok_program=False):
    """-> [(edit kind, new source bytes)]"""
    final_nl = text.endswith("\n")
    L = text[:-1].split("\n") if final_nl else text.split("\n")
    if text == "":
        L = []
    out = []
    kinds = list(LINE_EDITS) + ["crlf", "final-newline", "unused-let", "combined"] + (list(OK_ONLY_EDITS) if ok_program else [])
    chosen = kinds if kinds_per_prog is None else r.sample(kinds, min(kinds_per_prog, len(kinds)))
    for k in chosen:
        if k in LINE_EDITS or k in OK_ONLY_EDITS:
            L2 = (LINE_EDITS.get(k) or OK_ONLY_EDITS[k])(r, L)
            if L2 is not None:
                out.append((k, join(L2, final_nl)))
        elif k == "crlf":
            if not any(l.endswith("\r") for l in L):
                out.append((k, "".join(l + "\r\n" for l in L)))
        elif k == "final-newline":
            out.append((k, join(L, not final_nl) if L and L[-1] != "" else join(L + [""], True)))
        elif k == "unused-let":
            out.append((k, join(ed_unused_let(r, L), final_nl)))
        elif k == "combined":
            L2 = L
            for k2 in r.sample(list(LINE_EDITS), 4):
                L2 = LINE_EDITS[k2](r, L2) or L2
            if r.random() < 0.5:
                L2 = ed_unused_let(r, L2)
                k = "combined+unused-let"
            out.append((k, join(L2, final_nl)))
    return [(k, s.encode("utf-8")) for k, s in out if s != text]


# ---------------------------------------------------------------- programs

HAND = [
    # multi-line statements, adjacent string literals carried over line ends (also the empty one: D23)
    ("import ipv4;\nipv4::udp::unicast(1.2.3.4:1,\n   1.2.3.5:2,\n   \"ab\"\n   \"cd\"\n   \"\"\n);\n", False),
    ("import ipv4; import text;\nlet f = ipv4::tcp::flow(\n  10.0.0.1:1024,\n  10.0.0.2:80\n);\nf.open();\n"
     "f.client_message(\"GET / HTTP/1.1\", text::CRLF,\n  text::CRLF);\nf.server_close();\n", False),
    ("import ipv4;\nlet i = ipv4::icmp::flow(1.1.1.1, 2.2.2.2);\ni.echo(\"ping\"); i.echo_reply(\"ping\");\nlet s = 1.2.3.4/5; s;\n", False),
    ("import ipv4; import dns;\nlet i = ipv4::icmp::flow(1.1.1.1, 2.2.2.2);\ni.echo(\"\"); i.echo(\"\" \"\");\n"
     "ipv4::udp::unicast(1.2.3.4:1, 1.2.3.5:2, dns::name(\"\"), \"\", dns::name(\"a\", \"\"), \"z\");\n", True),
    ("import ipv4;import dns;\nlet c=ipv4::udp::flow(9.9.9.9:53,8.8.8.8:53);c.client_dgram(dns::hdr(1,dns::opcode::QUERY,qdcount:1),"
     "dns::question(dns::name(\"a\",\"example\",\"com\"),dns::type::A,dns::class::IN));\n", True),
]

# expression statements whose value is discarded: one warning each, printing the value (every kind of value)
DISCARDS = ["let dq_bool = true; dq_bool;", "let dq_int = 7; dq_int;", "let dq_hex = 0xffffffffffffffff; dq_hex;",
            "let dq_str = \"s |00 ff|\"; dq_str;", "let dq_ip = 1.2.3.4; dq_ip;", "let dq_sock = 1.2.3.4:5; dq_sock;",
            "let dq_sock2 = 10.0.0.1/65535; dq_sock2;", "ipv4::tcp::flow;", "text::concat;", "dns::name;", "text::CRLF;",
            "ipv4::proto::UDP;", "dns::type::AAAA;", "let dq_u = ipv4::udp::flow(1.2.3.4:1, 1.2.3.5:2); dq_u; dq_u.client_dgram;",
            "let dq_t = ipv4::tcp::flow(1.2.3.4:1, 1.2.3.5:2); dq_t; dq_t.open; dq_t.client_message;",
            "let dq_i = ipv4::icmp::flow(1.2.3.4, 1.2.3.5); dq_i; dq_i.echo;",
            "let dq_g = ipv4::frag(1.2.3.4, 1.2.3.5, \"0123456789abcdef\"); dq_g; dq_g.fragment;",
            "let dq_v = vxlan::session(1.2.3.4:1, 1.2.3.5:4789); dq_v; dq_v.encap;",
            "let dq_r = gre::session(1.2.3.4, 1.2.3.5, 0x6558); dq_r; dq_r.encap;",
            "let dq_e1 = erspan1::session(1.2.3.4, 1.2.3.5); dq_e1;", "let dq_e2 = erspan2::session(1.2.3.4, 1.2.3.5); dq_e2;",
            "let dq_m = dq_mm.open;"]
DISCARD_ALL = ("import ipv4; import time; import vxlan; import gre; import erspan1; import erspan2; import eth; import dns; import std;"
               " import text; import io;\n" + "\n".join(DISCARDS[:-1]) + "\nlet dq_b = io::bufio(\"0123\"); dq_b; dq_b.read;\n"
               "let dq_mm = ipv4::tcp::flow(9.9.9.9:1, 9.9.9.8:2); let dq_m = dq_mm.open; dq_m;\n")


def add_discards(r, text):
    """a few discarded-value statements (distinct ones) at statement boundaries of a program"""
    L = text[:-1].split("\n")
    nimp = sum(1 for l in L if l.startswith("import "))
    for st in r.sample(DISCARDS[:-1], r.randint(1, 4)):
        ok = [i for i in statement_boundaries(L) if i >= nimp]
        L.insert(r.choice(ok), st)
    return "\n".join(L) + "\n"


FAILERS = {
    "lex": ["$", "let q = \"unterminated;", "ipv4 @ x;", "f(1.2.3.4:1) ~"],
    "parse": ["let = 1;", ");", "f(x:);", "let a b;", "import;", "1.2.3.4:99999;"],
    "name": ["nosuch_fn(1);", "undefined_var;", "ipv4::nosuch(1);", "nosuch::x;"],
    "type": ["1.2.3.4/\"x\";", "ipv4::udp::unicast(1, 2, 3);", "let tt = true; tt();", "ipv4::tcp;"],
    "import": ["import nosuchmod;"],
    "reassign": ["let dup = 1;\nlet dup = 2;"],
    "runtime": ["time::jump_nanos(18446744073709551615);\ntime::jump_nanos(1);"],
}


BOGUS_NAMES = ["sendack", "fragoff", "zzz", "ttl9", "bogus", "frag_of", "qq", "win_dow", "Seq", "raw_", "a", "b", "c", "d"]
# (setup, call with %s for the named arguments, declared optional arguments with their types)
NAMED_CALLS = [("let na_t = ipv4::tcp::flow(1.2.3.4:1, 1.2.3.5:2);", "na_t.client_message(%s\"hello\");",
                [("send_ack", "Bool"), ("frag_off", "U16")]),
               ("let na_u = ipv4::udp::flow(1.2.3.4:1, 1.2.3.5:2);", "na_u.client_dgram(%s\"hello\");", [("frag_off", "U16"), ("csum", "Bool")]),
               ("", "ipv4::datagram(1.2.3.4, 1.2.3.5, %s\"hello\");",
                [("id", "U16"), ("evil", "Bool"), ("df", "Bool"), ("mf", "Bool"), ("ttl", "U8"), ("frag_off", "U16"), ("proto", "U8")]),
               ("", "ipv4::tcp::flow(1.2.3.4:1, 1.2.3.5:2, %s);", [("cl_seq", "U32"), ("sv_seq", "U32"), ("raw", "Bool")]),
               ("", "dns::host(1.2.3.4, \"example.com\", %s);", [("ttl", "U32"), ("ns", "Ip4"), ("raw", "Bool")])]
WELL_TYPED = {"Bool": ["true", "false"], "U8": ["1", "200"], "U16": ["1", "40000"], "U32": ["1", "70000"], "Ip4": ["9.9.9.9"]}
ILL_TYPED = {"Bool": ["\"yes\"", "1.2.3.4", "1.2.3.4:5"], "U8": ["\"none\"", "1.2.3.4"], "U16": ["\"none\"", "1.2.3.4", "1.2.3.4:5"],
             "U32": ["\"none\"", "1.2.3.4"], "Ip4": ["\"addr\"", "true", "1.2.3.4:5"]}


def bad_named_call(r):
    """a call whose by-name arguments are wrong in several ways at once: 2..5 undeclared names, and/or 2..4 declared names
    with a value of the wrong type, and/or a declared name twice, in random order (declared ones possibly misordered)"""
    setup, call, declared = r.choice([c for c in NAMED_CALLS])
    mode = r.choice(["undeclared", "undeclared", "ill-typed", "ill-typed", "mixed", "mixed"])
    args = []
    if mode in ("undeclared", "mixed"):
        args += ["%s: %s" % (n, r.choice(["1", "false", "\"v\"", "1.2.3.4"])) for n in r.sample(BOGUS_NAMES, r.randint(2, 5))]
    if mode in ("ill-typed", "mixed"):
        k = min(len(declared), r.randint(2, 4))
        args += ["%s: %s" % (n, r.choice(ILL_TYPED[t])) for n, t in r.sample(declared, k)]
    k = r.random()
    if k < 0.25:                                  # a declared name twice as well
        n, t = r.choice(declared)
        args += ["%s: %s" % (n, r.choice(WELL_TYPED[t])), "%s: %s" % (n, r.choice(WELL_TYPED[t] + ILL_TYPED[t]))]
    elif k < 0.5 and mode == "undeclared":        # well-typed declared names, misordered, among the undeclared ones
        args += ["%s: %s" % (n, r.choice(WELL_TYPED[t])) for n, t in r.sample(declared, min(2, len(declared)))]
    r.shuffle(args)
    body = ", ".join(args) + ", "
    if call.endswith("%s);"):
        body = ", ".join(args)
    return (setup + "\n" if setup else "") + call % body


def make_failing(r, text):
    kind = r.choice(list(FAILERS) + ["named", "named", "named"])
    L = text[:-1].split("\n")
    nimp = sum(1 for l in L if l.startswith("import "))
    i = r.randint(nimp, len(L))
    if kind == "parse" and r.random() < 0.4 and i < len(L) and L[i].endswith(";"):
        L2 = L[:i] + [L[i][:-1]] + L[i + 1:]
    elif kind == "named":
        L2 = L[:i] + bad_named_call(r).split("\n") + L[i:]
    else:
        L2 = L[:i] + r.choice(FAILERS[kind]).split("\n") + L[i:]
    return kind, "\n".join(L2) + "\n"


DIRTY_HEAD = "import ipv4;\nlet dy_u = ipv4::udp::flow(1.2.3.4:1, 1.2.3.5:2);\ndy_u.client_dgram(\"first\");\n"
DIRTY_ENDINGS = {
    "trailing-literal": "\"dangling\"\n", "trailing-literal-no-newline": "\"dangling\"", "trailing-empty-literal": "\"\"\n",
    "trailing-literals-two-lines": "\"a\"\n\"b\"\n", "truncated-call-after-literal": "dy_u.client_dgram(\"abc\"\n",
    "truncated-call-after-comma": "dy_u.client_dgram(\"abc\",\n", "open-call": "dy_u.client_dgram(\n", "let-equals": "let dy_x =\n",
    "let": "let\n", "import": "import\n", "no-semicolon": "dy_u.client_dgram(\"z\")\n", "address-colon": "let dy_s = 1.2.3.4:\n",
    "named-arg-colon": "dy_u.client_dgram(csum:\n", "slash": "let dy_s = 1.2.3.4/\n", "module-colons": "ipv4::\n", "dot": "dy_u.\n",
    "unterminated-string": "dy_u.client_dgram(\"abc\n", "unterminated-hex-section": "dy_u.client_dgram(\"|41 4\"\n",
    "literal-only-file": None,
}


def dirty_programs():
    out = []
    for k, tail in DIRTY_ENDINGS.items():
        out.append({"text": DIRTY_HEAD + tail if tail is not None else "\"only a literal\"\n", "spl": True, "expect": "any",
                    "origin": "dirty:" + k})
    return out


def corpus(ctx):
    r = ctx.rng
    n_ok = 500 if ctx.thorough else 30
    n_bad = 500 if ctx.thorough else 30
    out = []
    for text, spl in HAND + [(DISCARD_ALL, True)]:
        out.append({"text": text, "spl": spl, "expect": "ok", "origin": "hand"})
    valid = []
    for i in range(n_ok):
        g = progs.random_program(random.Random(r.getrandbits(32)), jumps=0.15, tunnels=0.2, maxlen=40)
        if g.files:
            continue
        text = gen.render_program(g.stmts, random.Random(r.getrandbits(32)))
        if r.random() < 0.4:
            text = add_discards(r, text)
        valid.append(text)
        out.append({"text": text, "spl": True, "expect": "ok", "origin": "random"})
    for i in range(n_bad):
        kind, text = make_failing(r, r.choice(valid))
        out.append({"text": text, "spl": True, "expect": kind, "origin": "failing:" + kind})
    out += dirty_programs()
    # calls with exactly two (three) offending named arguments, always present whatever the random programs hold: which of
    # them the diagnostic names must not vary from run to run
    for body in ("let t = ipv4::tcp::flow(1.2.3.4:1, 1.2.3.5:2);\nt.client_message(send_ack: \"yes\", frag_off: \"none\", \"hello\");\n",
                 "ipv4::datagram(1.2.3.4, 1.2.3.5, ttl: \"x\", id: \"y\", proto: \"z\", \"p\");\n",
                 "let u = ipv4::udp::flow(1.2.3.4:1, 1.2.3.5:2);\nu.client_dgram(csum: \"no\", frag_off: 1.2.3.4, \"p\");\n",
                 "ipv4::datagram(1.2.3.4, 1.2.3.5, bogus_a: 1, bogus_b: 2, \"p\");\n",
                 "let t = ipv4::tcp::flow(1.2.3.4:1, 1.2.3.5:2, cl_seq: \"a\", sv_seq: \"b\");\n"):
        out.append({"text": "import ipv4;\n" + body, "spl": True, "expect": "any", "origin": "failing:named"})
    # run-time failures that name something of the environment: data files by RELATIVE name that are missing, are a
    # directory, or sit under a file -- the diagnostic is a function of the source, not of where the compiler is started
    for k, nm in enumerate(["data/nosuch.bin", "nosuch.bin", "./x/../nosuch", ".", "..", "../..", "p000.rsyn/under-a-file"]):
        out.append({"text": "import ipv4;\nimport io;\nipv4::udp::unicast(1.2.3.4:1, 1.2.3.5:2, \"before\");\n"
                            "ipv4::udp::unicast(1.2.3.4:1, 1.2.3.5:2,\n    io::file(\"%s\"));\n" % nm,
                    "spl": True, "expect": "any", "origin": "failing:relative-data-file"})
    for i, p in enumerate(out):
        p["name"] = "p%03d" % i
    return out


# ---------------------------------------------------------------- running the binary

def sha(b):
    return hashlib.sha256(b).hexdigest() if b is not None else None


DIAG = re.compile(r"^(?P<l>\d+):(?P<c>\d+): (?P<what>error|warning): (?P<m>.*)$")


def invoke(inputs, outs=None, outdir=None, cwd=None, env=None, keep=False, color=True, timeout=120, stdout_file=None, prefill=None):
    """inputs: list of (path as given on the command line, absolute input path, absolute output path).
    Returns (rc, [per-input dict], raw stdout).  Per input: status ok/err/none, kind, loc, nwarn, lines (normalised),
    sha (of the output file, None when absent)."""
    args = [common.RESYNTH] + (["--color", color] if isinstance(color, str) else ["--color", "never"] if color else []) + (["-k"] if keep else [])
    if outs is not None:
        for o in outs:
            args += ["-o", o]
    elif outdir is not None:
        args += ["--out-dir", outdir]
    args += [i[0] for i in inputs]
    for _, _, o in inputs:
        try:
            os.unlink(o)
        except OSError:
            pass
        if prefill is not None:
            with open(o, "wb") as fh:
                fh.write(prefill)
    try:
        if stdout_file:
            with open(stdout_file, "wb") as fh:
                p = subprocess.run(args, cwd=cwd, env=env, stdout=fh, stderr=subprocess.PIPE, timeout=timeout)
            rc, so, se = p.returncode, open(stdout_file, "rb").read().decode("utf-8", "replace"), p.stderr.decode("utf-8", "replace")
        else:
            p = subprocess.run(args, cwd=cwd, env=env, stdout=subprocess.PIPE, stderr=subprocess.PIPE, timeout=timeout)
            rc, so, se = p.returncode, p.stdout.decode("utf-8", "replace"), p.stderr.decode("utf-8", "replace")
    except subprocess.TimeoutExpired as e:
        rc, so, se = -999, (e.stdout or b"").decode("utf-8", "replace"), "timeout"
    lines = so.splitlines()
    res = []
    for k, (given, ain, aout) in enumerate(inputs):
        d = {"status": "none", "kind": None, "loc": None, "nwarn": 0, "lines": [], "sha": None, "stderr": se[-300:]}
        out_given = outs[k] if outs is not None else None
        for l in lines:
            if not l.startswith(given):
                continue
            rest = l[len(given):]
            if rest.startswith(" -> ") and rest.rstrip().endswith(" ok"):
                shown = rest[4:].rstrip()[:-3]
                d["status"] = "ok"
                d["lines"].append("IN -> %s ok" % ("OUT" if (out_given is None or shown == out_given) else shown))
                d["shown_out"] = shown
            elif rest.startswith(":"):
                m = DIAG.match(rest[1:]) or re.match(r"^ (?P<what>error|warning): (?P<m>.*)$", rest[1:])
                if not m:
                    continue
                gd = m.groupdict()
                if gd["what"] == "error":
                    if gd["m"].startswith("delete:"):
                        d["lines"].append("IN: error: " + gd["m"])
                        continue
                    d["status"] = "err"
                    d["kind"] = common.classify_msg(gd["m"].replace("process_file: ", "", 1))
                    d["loc"] = (int(gd["l"]), int(gd["c"])) if gd.get("l") else None
                else:
                    d["nwarn"] += 1
                d["lines"].append("IN%s: %s: %s" % ((":%s:%s" % (gd["l"], gd["c"])) if gd.get("l") else "", gd["what"], gd["m"]))
        try:
            d["sha"] = sha(open(aout, "rb").read())
            d["size"] = os.path.getsize(aout)
        except OSError:
            d["sha"] = None
            d["size"] = None
        res.append(d)
    # the whole stdout with the path strings of this run replaced (longest first), for whole-output comparison
    subst = []
    for k, (given, ain, aout) in enumerate(inputs):
        tag = os.path.splitext(os.path.basename(ain))[0]
        subst.append((given, "<IN:%s>" % tag))
        shown = res[k].get("shown_out") or (outs[k] if outs is not None else None)
        if shown:
            subst.append((shown, "<OUT:%s>" % tag))
    norm = so
    for a, b in sorted(set(subst), key=lambda x: -len(x[0])):
        norm = norm.replace(a, b)
    for d in res:
        d["_norm_all"] = norm
    return rc, res, so


def first_diff(a, b):
    la, lb = a.splitlines(), b.splitlines()
    for i in range(max(len(la), len(lb))):
        x = la[i] if i < len(la) else "<nothing>"
        y = lb[i] if i < len(lb) else "<nothing>"
        if x != y:
            return "stdout line %d: %r vs %r" % (i + 1, x[:160], y[:160])
    return "stdout differs"


def same(a, b, loc=True):
    """None when two per-input results are indistinguishable, else a description"""
    for f in ("status", "kind", "sha", "nwarn"):
        if a[f] != b[f]:
            return "%s: %r vs %r" % (f, a[f], b[f])
    if loc and a["lines"] != b["lines"]:
        return "stdout: %r vs %r" % (a["lines"], b["lines"])
    return None


def build_shim(ctx):
    src = os.path.join(common.VERIF, "lib", "c13shim.c")
    so = os.path.join(common.BUILD, "c13shim.so")
    try:
        if not os.path.exists(so) or os.path.getmtime(so) < os.path.getmtime(src):
            subprocess.run(["cc", "-shared", "-fPIC", "-O1", "-o", so + ".tmp%d" % os.getpid(), src, "-ldl"], check=True,
                           stdout=subprocess.PIPE, stderr=subprocess.PIPE, timeout=120)
            os.replace(so + ".tmp%d" % os.getpid(), so)
        return so
    except Exception as e:   # noqa
        ctx.notes.append("LD_PRELOAD shim could not be built (%r): clock/pid/random/getenv faking skipped" % (e,))
        return None


def base_env():
    e = {k: v for k, v in os.environ.items() if not k.startswith(("C13_", "LD_PRELOAD"))}
    return e


def write_inputs(d, progs_, sub="src"):
    sd = os.path.join(d, sub)
    os.makedirs(sd, exist_ok=True)
    for p in progs_:
        with open(os.path.join(sd, p["name"] + ".rsyn"), "wb") as f:
            f.write(p["text"].encode("utf-8"))
    return sd


def replay_env(p, variant, base, got, why, extra=None):
    r = {"program": p["text"], "perturbation": variant, "baseline": {k: base[k] for k in ("status", "kind", "loc", "sha", "lines")},
         "perturbed": {k: got[k] for k in ("status", "kind", "loc", "sha", "lines")}, "difference": why,
         "how": "write 'program' to a file and compile it twice with /verif/.build/target/debug/resynth as described in "
                "'perturbation'; ./check C13 --replay <this file> re-runs all perturbations on it"}
    if extra:
        r.update(extra)
    return r


# ---------------------------------------------------------------- (i) ambient conditions

def perturbations(ctx, d, shim):
    """-> list of (name, description, function(progs) -> (rc, results))"""
    sd = os.path.join(d, "src")
    out0 = os.path.join(d, "out0")
    os.makedirs(out0, exist_ok=True)

    def mk(outdir_abs):
        os.makedirs(outdir_abs, exist_ok=True)
        return outdir_abs

    def baseline(ps, tag="out0"):
        od = mk(os.path.join(d, tag))
        ins = [(os.path.join(sd, p["name"] + ".rsyn"),) * 2 + (os.path.join(od, p["name"] + ".pcap"),) for p in ps]
        return invoke(ins, outdir=od, cwd=od, env=base_env())

    def envvars(ps):
        od = mk(os.path.join(d, "out_env"))
        e = base_env()
        e.update({"TZ": "Pacific/Kiritimati", "LANG": "tr_TR.UTF-8", "LC_ALL": "tr_TR.UTF-8", "LC_NUMERIC": "de_DE",
                  "HOME": "/nonexistent", "USER": "nobody", "RESYNTH_DEBUG": "1", "RESYNTH_SEED": "7", "RESYNTH": "x",
                  "DEBUG": "1", "VERBOSE": "1", "RUST_LOG": "trace", "SOURCE_DATE_EPOCH": "0", "COLUMNS": "7", "LINES": "3",
                  "TMPDIR": "/nonexistent", "PATH": "/nonexistent", "TERM": "dumb", "NO_COLOR": "1", "PWD": "/lies",
                  "HOSTNAME": "elsewhere", "RANDOM": "4", "SEED": "5"})
        ins = [(os.path.join(sd, p["name"] + ".rsyn"),) * 2 + (os.path.join(od, p["name"] + ".pcap"),) for p in ps]
        return invoke(ins, outdir=od, cwd=od, env=e, color=False)

    def cwd_rel(ps):
        od = mk(os.path.join(d, "deep", "er", "out_rel"))
        cw = mk(os.path.join(d, "elsewhere"))
        ins = [(os.path.relpath(os.path.join(sd, p["name"] + ".rsyn"), cw), os.path.join(sd, p["name"] + ".rsyn"),
                os.path.join(od, p["name"] + ".pcap")) for p in ps]
        return invoke(ins, outdir=os.path.relpath(od, cw), cwd=cw, env=base_env())

    def explicit_o(ps):
        od = mk(os.path.join(d, "out_o"))
        outs = [os.path.join(od, "renamed-%03d.capture" % i) for i, p in enumerate(ps)]
        ins = [(os.path.join(sd, p["name"] + ".rsyn"), os.path.join(sd, p["name"] + ".rsyn"), outs[i]) for i, p in enumerate(ps)]
        return invoke(ins, outs=outs, cwd="/", env=base_env())

    def existing_outputs(ps):
        # every output path already holds an older capture (a well-formed pcap of three records, longer than most outputs):
        # what a run leaves behind -- the new capture, or nothing for a failing input -- must not depend on it
        od = mk(os.path.join(d, "out_old"))
        old = common.STALE_PCAP if hasattr(common, "STALE_PCAP") else (
            bytes.fromhex("4d3cb2a1020004000000000000000000ffff000001000000") +
            b"".join(bytes.fromhex("00000000") + (1000 * (i + 1)).to_bytes(4, "little") + (600).to_bytes(4, "little") * 2 + bytes([i]) * 600
                     for i in range(3)))
        ins = [(os.path.join(sd, p["name"] + ".rsyn"),) * 2 + (os.path.join(od, p["name"] + ".pcap"),) for p in ps]
        return invoke(ins, outdir=od, cwd=od, env=base_env(), prefill=old)

    def shimmed(tag, off, pid, seed, fuzz):
        def f(ps):
            od = mk(os.path.join(d, "out_" + tag))
            e = base_env()
            e.update({"LD_PRELOAD": shim, "C13_CLOCK_OFFSET": str(off), "C13_FAKE_PID": str(pid), "C13_RANDOM_SEED": str(seed),
                      "C13_SHIM_LOG": os.path.join(d, "shim-%s.log" % tag)})
            if fuzz:
                e["C13_ENVFUZZ"] = fuzz
            ins = [(os.path.join(sd, p["name"] + ".rsyn"),) * 2 + (os.path.join(od, p["name"] + ".pcap"),) for p in ps]
            return invoke(ins, outdir=od, cwd=od, env=e)
        return f

    def coloured(tag, opt, envmod, to_file):
        def f(ps):
            od = mk(os.path.join(d, "out_" + tag))
            e = {k: v for k, v in base_env().items() if k not in ("TERM", "NO_COLOR", "CLICOLOR", "CLICOLOR_FORCE", "COLORTERM")}
            e.update(envmod)
            ins = [(os.path.join(sd, p["name"] + ".rsyn"),) * 2 + (os.path.join(od, p["name"] + ".pcap"),) for p in ps]
            return invoke(ins, outdir=od, cwd=od, env=e, color=opt, stdout_file=os.path.join(d, "stdout-%s.txt" % tag) if to_file else None)
        return f

    COL = []
    for ci, (ename, envmod) in enumerate([("TERM=xterm-256color", {"TERM": "xterm-256color"}), ("TERM=dumb", {"TERM": "dumb"}), ("TERM unset", {}),
                                          ("TERM=xterm NO_COLOR=1", {"TERM": "xterm", "NO_COLOR": "1"}),
                                          ("TERM=xterm CLICOLOR_FORCE=1 COLORTERM=truecolor", {"TERM": "xterm", "CLICOLOR_FORCE": "1", "COLORTERM": "truecolor"})]):
        opt = False if ci % 2 == 0 else "auto"
        to_file = ci % 2 == 1
        COL.append(("colour:%s,%s,%s" % (ename, "no --color option" if opt is False else "--color auto", "stdout to a file" if to_file else "stdout to a pipe"),
                    "%s, %s, stdout captured %s (not a terminal)" % (ename, "no --color option (default auto)" if opt is False else "--color auto",
                                                                      "in a file" if to_file else "through a pipe"),
                    coloured("col%d" % ci, opt, envmod, to_file)))
    # the other combination of option and capture for the two decisive environments
    COL.append(("colour:TERM=xterm-256color,--color auto,stdout to a file", "TERM=xterm-256color, --color auto, stdout captured in a file (not a terminal)",
                coloured("col5", "auto", {"TERM": "xterm-256color"}, True)))
    COL.append(("colour:TERM=dumb,--color auto,stdout to a pipe", "TERM=dumb, --color auto, stdout captured through a pipe (not a terminal)",
                coloured("col6", "auto", {"TERM": "dumb"}, False)))

    P = COL + [("env", "TZ, LANG, LC_ALL, HOME, PATH, TMPDIR and 16 junk variables (RESYNTH_DEBUG, RUST_LOG, SOURCE_DATE_EPOCH, ..) set; "
                 "default --color", envvars),
         ("cwd-relative-paths", "run from another directory with relative input paths and a relative --out-dir", cwd_rel),
         ("explicit-output-names", "-o <other dir>/renamed-NNN.capture per input, cwd=/", explicit_o),
         ("existing-outputs", "every output path already holds an older well-formed capture of three 600-byte records", existing_outputs)]
    if shim:
        P.append(("fake-clock+400d,pid,random,getenv", "LD_PRELOAD lib/c13shim.c: clock +400 days, pid 4242, getrandom seed 1, "
                  "every getenv answers '1'", shimmed("shimA", 400 * 86400, 4242, 1, "1")))
        P.append(("fake-clock-10y,pid,random,getenv", "LD_PRELOAD lib/c13shim.c: clock -10 years, pid 77, getrandom seed 2, "
                  "every getenv answers 'C13JUNK'", shimmed("shimB", -3650 * 86400, 77, 2, "C13JUNK")))
    return baseline, P


def ambient(ctx, d, ps, shim, chunk=24):
    baseline, P = perturbations(ctx, d, shim)
    cnt = ctx.dist.setdefault("perturbation_runs", {})
    t_first = time.time()
    base = {}
    for i in range(0, len(ps), chunk):
        part = ps[i:i + chunk]
        rc, res, so = baseline(part)
        for p, r in zip(part, res):
            base[p["name"]] = r
            r["rc_batch"] = rc
    for name, desc, f in P:
        for i in range(0, len(ps), chunk):
            part = ps[i:i + chunk]
            rc, res, so = f(part)
            b0 = base[part[0]["name"]]
            if "\x1b" in so:
                ctx.fail("ambient:" + name.split(":")[0] + ":escape-sequences", "stdout is not a terminal but contains ANSI escape sequences under: %s (%r)"
                         % (desc, so[max(0, so.index("\x1b") - 30):so.index("\x1b") + 30]),
                         {"programs": {p["name"]: p["text"] for p in part}, "order": [p["name"] for p in part], "perturbation": desc,
                          "class_hint": "ambient", "how": "compile the programs with stdout redirected, under the environment described"})
            if rc != b0["rc_batch"] or res[0]["_norm_all"] != b0["_norm_all"]:
                why = "exit status %s vs %s" % (b0["rc_batch"], rc) if rc != b0["rc_batch"] else first_diff(b0["_norm_all"], res[0]["_norm_all"])
                ctx.fail("ambient:" + name, "a batch of %d inputs prints something else under: %s (%s)" % (len(part), desc, why),
                         {"programs": {p["name"]: p["text"] for p in part}, "order": [p["name"] for p in part], "perturbation": desc,
                          "difference": why, "how": "compile the programs on one command line, normally and under the perturbation; "
                          "compare stdout after replacing the path strings"})
            for p, r in zip(part, res):
                ctx.count("ambient:" + name)
                cnt[name] = cnt.get(name, 0) + 1
                why = same(base[p["name"]], r)
                if why:
                    ctx.fail("ambient:" + name, "%s: output depends on %s (%s)" % (p["name"], desc, why),
                             replay_env(p, desc, base[p["name"]], r, why))
    # a later run: another time of day (>= 1.1 s after the first), other pids
    wait = 1.15 - (time.time() - t_first)
    if wait > 0:
        time.sleep(wait)
    for i in range(0, len(ps), chunk):
        part = ps[i:i + chunk]
        rc, res, so = baseline(part, "out_later")
        b0 = base[part[0]["name"]]
        if rc != b0["rc_batch"] or res[0]["_norm_all"] != b0["_norm_all"]:
            why = first_diff(b0["_norm_all"], res[0]["_norm_all"])
            ctx.fail("ambient:rerun", "a batch of %d inputs prints something else when run again (%s)" % (len(part), why),
                     {"programs": {p["name"]: p["text"] for p in part}, "order": [p["name"] for p in part], "difference": why})
        for p, r in zip(part, res):
            ctx.count("ambient:later-run")
            cnt["later-run"] = cnt.get("later-run", 0) + 1
            why = same(base[p["name"]], r)
            if why:
                ctx.fail("ambient:rerun", "%s: two runs of the same command at different times differ (%s)" % (p["name"], why),
                         replay_env(p, "the same command again, at least 1.1 s later", base[p["name"]], r, why))
    return base


def repeats(ctx, d, ps, base, times=8):
    """programs with several undeclared / duplicated named arguments (their diagnostics name every offending argument):
    the complete stdout of `times` more plain runs, each in a process of its own (hash seeds are per process)"""
    sel = [p for p in ps if p["origin"] == "failing:named"]
    if not sel:
        return
    sd = os.path.join(d, "src")
    od = os.path.join(d, "out_repeat")
    os.makedirs(od, exist_ok=True)
    ins = [(os.path.join(sd, p["name"] + ".rsyn"),) * 2 + (os.path.join(od, p["name"] + ".pcap"),) for p in sel]
    first = None
    for k in range(times):
        rc, res, so = invoke(ins, outdir=od, cwd=od, env=base_env())
        norm = res[0]["_norm_all"]
        for p, g in zip(sel, res):
            ctx.count("repeat:unknown-named-arguments")
            why = same(base[p["name"]], g)
            if why:
                ctx.fail("ambient:rerun", "%s: run %d of the same command differs from the first (%s)" % (p["name"], k + 2, why),
                         replay_env(p, "the same command again (run %d)" % (k + 2), base[p["name"]], g, why))
        if first is None:
            first = norm
        elif norm != first:
            why = first_diff(first, norm)
            ctx.fail("ambient:rerun", "%d programs with undeclared named arguments print something else in run %d (%s)"
                     % (len(sel), k + 1, why),
                     {"programs": {p["name"]: p["text"] for p in sel}, "order": [p["name"] for p in sel], "difference": why,
                      "class_hint": "ambient", "how": "compile the programs on one command line several times; compare stdout"})
    ctx.dist["repeated_runs"] = {"programs_with_undeclared_named_arguments": len(sel), "runs_each": times + 7}


def observe(ctx, d, ps, shim):
    """what the process reads from its surroundings: an observation recorded in the evidence"""
    obs = ctx.dist.setdefault("ambient_reads_observed", {})
    if shim:
        for tag in ("shimA", "shimB"):
            try:
                lines = open(os.path.join(d, "shim-%s.log" % tag)).read().splitlines()
            except OSError:
                continue
            tot = {}
            names = set()
            for l in lines:
                for kv in l.split(" "):
                    k, _, v = kv.partition("=")
                    if k == "names":
                        names |= set(x for x in v.split(",") if x)
                    elif v.isdigit():
                        tot[k] = tot.get(k, 0) + int(v)
            obs["shim_calls_" + tag] = dict(tot, processes=len(lines), getenv_names=sorted(names))
    sd = os.path.join(d, "src")
    od = os.path.join(d, "out_strace")
    os.makedirs(od, exist_ok=True)
    p = next((p for p in ps if p["expect"] == "ok" and p["origin"] == "random"), ps[0])
    tr = os.path.join(d, "strace.txt")
    try:
        subprocess.run(["strace", "-f", "-o", tr, "-e",
                        "trace=clock_gettime,gettimeofday,time,getrandom,getpid,getppid,gettid,uname,sysinfo,openat,open,readlink,"
                        "getcwd,socket,connect,getuid,geteuid",
                        common.RESYNTH, "--color", "never", "--out-dir", od, os.path.join(sd, p["name"] + ".rsyn")],
                       stdout=subprocess.PIPE, stderr=subprocess.PIPE, timeout=60, env=base_env())
        calls, opened = {}, []
        for l in open(tr).read().splitlines():
            m = re.match(r"^\d+\s+(\w+)\((.*)", l)
            if not m:
                continue
            calls[m.group(1)] = calls.get(m.group(1), 0) + 1
            if m.group(1) in ("openat", "open", "readlink"):
                q = re.search(r'"([^"]*)"', m.group(2))
                if q and not re.search(r"\.so(\.|$)|ld\.so\.cache|/proc/self/maps", q.group(1)):
                    opened.append(q.group(1).replace(d, "<work>"))
        obs["strace_syscalls"] = calls
        obs["strace_files_opened"] = sorted(set(opened))
        obs["strace_note"] = ("clock_gettime may be served by the vDSO without a system call; the shim counts the libc calls. "
                              "getrandom is std's one-time seeding of HashMap's RandomState")
    except Exception as e:   # noqa
        obs["strace"] = "unavailable: %r" % (e,)


# ---------------------------------------------------------------- (ii) batch versus alone

def batches(ctx, d, ps, base):
    r = ctx.rng
    sd = os.path.join(d, "src")
    cnt = ctx.dist.setdefault("batch_shapes", {})
    byname = {p["name"]: p for p in ps}
    # each file alone
    alone = {}
    od = os.path.join(d, "out_alone")
    os.makedirs(od, exist_ok=True)
    for p in ps:
        ins = [(os.path.join(sd, p["name"] + ".rsyn"),) * 2 + (os.path.join(od, p["name"] + ".pcap"),)]
        rc, res, so = invoke(ins, outdir=od, cwd=od, env=base_env())
        alone[p["name"]] = dict(res[0], rc=rc)
        ctx.count("batch:alone")
        want = 0 if res[0]["status"] == "ok" else 1
        if rc != want:
            ctx.fail("batch:exit-status-alone", "%s alone: verdict %s but exit status %d" % (p["name"], res[0]["status"], rc),
                     {"program": p["text"], "stdout": so[-800:], "rc": rc})
    oks = [p for p in ps if alone[p["name"]]["status"] == "ok"]
    bad = [p for p in ps if alone[p["name"]]["status"] == "err"]

    def run_batch(shape, members, keep=False):
        # one file twice on a command line shares its output path with itself: the second is refused (shared_output covers that)
        members = [p for k, p in enumerate(members) if all(p is not q for q in members[:k])]
        odb = os.path.join(d, "out_batch")
        shutil.rmtree(odb, ignore_errors=True)
        os.makedirs(odb)
        ins = [(os.path.join(sd, p["name"] + ".rsyn"),) * 2 + (os.path.join(odb, p["name"] + ".pcap"),) for p in members]
        rc, res, so = invoke(ins, outdir=odb, cwd=odb, env=base_env(), keep=keep)
        cnt[shape] = cnt.get(shape, 0) + 1
        order = [p["name"] for p in members]
        anyfail = any(alone[n]["status"] != "ok" for n in order)
        if (rc != 0) != anyfail or rc not in (0, 1):
            ctx.fail("batch:exit-status", "batch %s (%s): exit status %d, %s of its inputs fail when compiled alone"
                     % (shape, " ".join(order), rc, "some" if anyfail else "none"),
                     {"programs": {n: byname[n]["text"] for n in order}, "order": order, "rc": rc, "stdout": so[-1500:]})
        want_all = "".join(alone[n]["_norm_all"] for n in order)
        if res and res[0]["_norm_all"] != want_all and not keep:
            why = first_diff(want_all, res[0]["_norm_all"])
            ctx.fail("batch:stdout-not-concatenation", "batch %s (%s) prints something else than its inputs print one by one (%s)"
                     % (shape, " ".join(order), why),
                     {"programs": {n: byname[n]["text"] for n in order}, "order": order, "difference": why,
                      "how": "compile each program alone, then all on one command line in 'order'; compare stdout"})
        for p, g in zip(members, res):
            ctx.count("batch:" + shape)
            a = alone[p["name"]]
            cmp_a = a
            if keep and a["status"] == "err":
                cmp_a = dict(a, sha=g["sha"])          # -k keeps the partial output: compared between batches below
            why = same(cmp_a, g)
            if why:
                ctx.fail("batch:differs-from-alone", "%s compiled in batch [%s] at position %d differs from compiling it alone (%s)"
                         % (p["name"], shape, order.index(p["name"]), why),
                         {"programs": {n: byname[n]["text"] for n in order}, "order": order, "file": p["name"], "alone": a["lines"],
                          "alone_sha": a["sha"], "in_batch": g["lines"], "in_batch_sha": g["sha"], "difference": why, "keep": keep,
                          "how": "write the programs to <name>.rsyn, compile 'file' alone, then all of them in 'order' on one command line"})
        return res

    n_rounds = 25 if ctx.thorough else 6
    for k in range(n_rounds):
        size = r.randint(2, min(9, len(ps)))
        members = r.sample(ps, size)
        run_batch("random-mix", members)
        run_batch("reversed", list(reversed(members)))
        rot = members[1:] + members[:1]
        run_batch("rotated", rot, keep=(k % 2 == 1))
    if oks and bad:
        for k in range(n_rounds):
            a, b = r.choice(oks), r.choice(bad)
            c = r.choice(oks)
            run_batch("fail-first", [b, a] + ([c] if c is not a else []))
            run_batch("fail-last", [a] + ([c] if c is not a else []) + [b])
            run_batch("fail-between", [a, b, r.choice(bad), a if False else r.choice(oks)][:3] if len(oks) > 1 else [a, b])
            run_batch("all-failing", r.sample(bad, min(3, len(bad))))
    if len(oks) >= 2:
        for k in range(n_rounds):
            x = r.choice(oks)
            run_batch("same-file-after-others", r.sample([p for p in oks if p is not x], min(3, len(oks) - 1)) + [x])
            run_batch("same-file-first", [x] + r.sample([p for p in oks if p is not x], min(3, len(oks) - 1)))
    # a file that ends in an unfinished lexer/parser state (pending literal, open call, `let x =`, ...) must not leak
    # into the next input: before, between and after good files, and two of them in a row
    dirty = [p for p in ps if p["origin"].startswith("dirty")]
    clean = [p for p in oks if not p["origin"].startswith("dirty")]
    if dirty and len(clean) >= 2:
        for dd in dirty:
            for _ in range(3 if ctx.thorough else 1):
                g1, g2 = r.sample(clean, 2)
                run_batch("dirty-first", [dd, g1, g2])
                run_batch("dirty-between", [g1, dd, g2])
                run_batch("dirty-last", [g1, g2, dd])
                run_batch("two-dirty-then-good", [dd, r.choice(dirty), g1], keep=r.random() < 0.5)
    if oks:
        for k in range(3 if ctx.thorough else 1):
            a = r.choice(oks)
            b = r.choice([p for p in oks if p is not a] or oks)
            f = r.choice(bad) if bad else None
            shared_output(ctx, d, a, b, f)
    return alone


REFUSED = "IN: error: process_file: output file %s is already used by another input"


def shared_output(ctx, d, a, b, f):
    """two inputs that map to one output path (same stem in two directories; the same -o name twice): the first is
    compiled as if alone, every later one is refused with a diagnostic, the first one's output is left alone, exit 1.
    a, b: programs that compile; f: a failing program (or None)"""
    cnt = ctx.dist.setdefault("shared_output_path_scenarios", {})
    root = os.path.join(d, "shared")
    shutil.rmtree(root, ignore_errors=True)
    da, db, dc, oc = (os.path.join(root, x) for x in ("dirA", "dirB", "dirC", "out"))
    for x in (da, db, dc, oc):
        os.makedirs(x)

    def put(dirn, name, p):
        pth = os.path.join(dirn, name + ".rsyn")
        with open(pth, "wb") as fh:
            fh.write(p["text"].encode("utf-8"))
        return pth

    def alone_of(p, keep):
        pth = put(dc, "alone", p)
        o = os.path.join(oc, "alone.pcap")
        rc, res, so = invoke([(pth, pth, o)], outdir=oc, cwd=oc, env=base_env(), keep=keep)
        return dict(res[0], rc=rc)

    def scenario(name, members, keep, use_o=False, extra_first=None):
        """members: [(program, dir, stem)], all mapped to out/<stem>.pcap (or to explicit -o names = out/<stem>.cap)"""
        for o in os.listdir(oc):
            os.unlink(os.path.join(oc, o))
        ins, outs = [], []
        for p, dirn, stem in members:
            pth = put(dirn, stem if not use_o else "%s_%d" % (stem, len(ins)), p)
            o = os.path.join(oc, stem + (".cap" if use_o else ".pcap"))
            ins.append((pth, pth, o))
            outs.append(o)
        rc, res, so = invoke(ins, outs=outs if use_o else None, outdir=None if use_o else oc, cwd=oc, env=base_env(), keep=keep)
        ctx.count("batch:shared-output:" + name)
        cnt[name] = cnt.get(name, 0) + 1
        rp = {"programs": {"%s/%s" % (os.path.basename(dirn), stem): p["text"] for p, dirn, stem in members}, "scenario": name,
              "keep": keep, "explicit_o": use_o, "stdout": so[-1500:], "rc": rc, "class_hint": "batch:shared-output-path",
              "a": a["text"], "b": b["text"], "f": f["text"] if f else None,
              "how": "put the programs into files with the same stem in different directories (or give the same -o name twice) "
                     "and compile them on one command line"}
        seen = {}
        problems = []
        for k, ((p, dirn, stem), g) in enumerate(zip(members, res)):
            o = outs[k]
            shown = o if use_o else os.path.join(oc, stem + ".pcap")
            if o not in seen:
                seen[o] = (p, g)
                al = alone_of(p, keep)
                w = same(dict(al, lines=[l for l in al["lines"]]), dict(g, sha=g["sha"]))
                # the output file may have been replaced by a later input: compare after the loop
                if (al["status"], al["kind"], al["nwarn"], al["lines"]) != (g["status"], g["kind"], g["nwarn"], g["lines"]):
                    problems.append("input %d (first user of %s) is not reported as when compiled alone: %r vs %r"
                                    % (k, os.path.basename(o), al["lines"], g["lines"]))
                seen[o] = (p, g, al)
            else:
                want = REFUSED % shown
                if g["lines"] != [want]:
                    problems.append("input %d maps to %s, already used by an earlier input, and is not refused: printed %r, "
                                    "expected %r" % (k, os.path.basename(o), g["lines"], want))
        for o, (p, g, al) in seen.items():
            now = sha(open(o, "rb").read()) if os.path.exists(o) else None
            if now != al["sha"]:
                problems.append("%s does not hold what its first input leaves when compiled alone (%s vs %s)"
                                % (os.path.basename(o), now and now[:12], al["sha"] and al["sha"][:12]))
        anybad = len(members) > len(seen) or any(al["status"] != "ok" for (_, _, al) in seen.values())
        if (rc != 0) != anybad or rc not in (0, 1):
            problems.append("exit status %d" % rc)
        if problems:
            ctx.fail("batch:shared-output-path", "%s (keep=%s): %s" % (name, keep, "; ".join(problems)), rp)

    for keep in (False, True):
        scenario("same-stem ok+ok", [(a, da, "same"), (b, db, "same")], keep)
        scenario("same -o twice ok+ok", [(a, da, "one"), (b, db, "one")], keep, use_o=True)
        scenario("same-stem ok+other+ok", [(a, da, "same"), (b, dc, "other"), (b, db, "same")], keep)
        if f:
            scenario("same-stem ok+failing", [(a, da, "same"), (f, db, "same")], keep)
            scenario("same-stem failing+ok", [(f, da, "same"), (a, db, "same")], keep)
            scenario("same -o twice failing+ok+ok", [(f, da, "one"), (a, db, "one"), (b, dc, "one")], keep, use_o=True)
    # an input path without a file name is refused, the others are compiled
    for o in os.listdir(oc):
        os.unlink(os.path.join(oc, o))
    pa, pb = put(da, "first", a), put(db, "second", b)
    ins = [(pa, pa, os.path.join(oc, "first.pcap")), ("..", "..", os.path.join(oc, "none.pcap")), (pb, pb, os.path.join(oc, "second.pcap"))]
    rc, res, so = invoke(ins, outdir=oc, cwd=oc, env=base_env())
    ctx.count("batch:shared-output:no-file-name")
    cnt["no-file-name"] = cnt.get("no-file-name", 0) + 1
    if rc != 1 or res[0]["status"] != "ok" or res[2]["status"] != "ok" or "..: error: process_file: not a file name" not in so.splitlines():
        ctx.fail("batch:no-file-name", "inputs first.rsyn .. second.rsyn: rc %d, stdout %r" % (rc, so[-400:]),
                 {"programs": {"first": a["text"], "second": b["text"]}, "stdout": so[-800:], "rc": rc, "class_hint": "batch:no-file-name",
                  "a": a["text"], "b": b["text"], "f": None})


# ---------------------------------------------------------------- (iii) lexical edits and unused bindings

def differs_alone(o, c, let_edit):
    """compile the original and the edited source each in a process of its own: do they still differ?"""
    res = {}
    for tag, cc in (("o", o), ("e", c)):
        d, r = common.run_programs("c13alone", {tag: cc.src}, keep=True, batch=1)
        res[tag] = r[tag]
    a, b = res["o"], res["e"]
    if (a.status, a.kind) != (b.status, b.kind):
        return True
    if len(a.warnings) != len(b.warnings) and not (a.status == "err" and let_edit):
        return True
    return sha(a.pcap) != sha(b.pcap) and not (a.status == "err" and let_edit)


def lexical(ctx, ps, base):
    r = ctx.rng
    kinds_per_prog = None if ctx.thorough else 5
    cases, groups = [], []
    for p in ps:
        c0 = Case()
        c0.name, c0.src, c0.files, c0.gen = p["name"] + "_o", p["text"].encode("utf-8"), {}, {"kind": "original", "prog": p["name"]}
        mine = [c0]
        compiles = base[p["name"]]["status"] == "ok"
        vs = variants(r, p["text"], p["spl"], kinds_per_prog, compiles)
        if p["origin"] == "hand":
            vs = [v for _ in range(3) for v in variants(r, p["text"], p["spl"], None, compiles)]
        for j, (k, src) in enumerate(vs):
            c = Case()
            c.name, c.src, c.files, c.gen = "%s_v%d" % (p["name"], j), src, {}, {"kind": k, "prog": p["name"]}
            mine.append(c)
        cases += mine
        groups.append((p, mine))
    diff.run_both(ctx, "c13lex", cases, keep=True)
    ek = ctx.dist.setdefault("edits", {})
    differ = 0
    for p, mine in groups:
        o = mine[0]
        o_sha, o_w = sha(o.impl.pcap), len(o.impl.warnings)
        for c in mine:
            k = c.gen["kind"]
            if c is not o:
                ctx.count("edit:" + k)
                ek[k] = ek.get(k, 0) + 1
                differ += 1 if c.src != o.src else 0
                why = None
                if c.impl.status != o.impl.status or c.impl.kind != o.impl.kind:
                    why = "outcome %s %s vs %s %s" % (o.impl.status, o.impl.kind, c.impl.status, c.impl.kind)
                elif sha(c.impl.pcap) != o_sha and not (o.impl.status == "err" and "unused-let" in k):
                    why = "pcap bytes differ (%s vs %s bytes)" % (len(o.impl.pcap or b""), len(c.impl.pcap or b""))
                elif len(c.impl.warnings) != o_w and not (o.impl.status == "err" and "unused-let" in k):
                    why = "number of warnings %d vs %d" % (o_w, len(c.impl.warnings))
                if why and not differs_alone(o, c, "unused-let" in k):
                    # the two sources give the same result when each is compiled by its own process: what differed is
                    # their position in the batch the check compiled them in
                    ctx.fail("batch:state-leaks-between-files", "%s and its '%s' variant give the same result alone but not "
                             "as inputs %s of one command line (%s)" % (p["name"], k, "of a batch", why),
                             {"programs": {mm.name: mm.src.decode("utf-8", "replace") for mm in mine}, "order": [mm.name for mm in mine],
                              "keep": True, "difference": why,
                              "how": "compile the programs with -k on one command line in 'order', and each alone"})
                    why = None
                if why:
                    ctx.fail("edit:" + k, "%s: the edit '%s' changes the result (%s)" % (p["name"], k, why),
                             {"program": o.src.decode("utf-8", "replace"), "edited": c.src.decode("utf-8", "replace"),
                              "edited_hex": c.src.hex(), "program_hex": o.src.hex(), "edit": k,
                              "original": {"status": o.impl.status, "kind": o.impl.kind, "loc": o.impl.loc, "sha": o_sha},
                              "after_edit": {"status": c.impl.status, "kind": c.impl.kind, "loc": c.impl.loc, "sha": sha(c.impl.pcap)},
                              "how": "compile 'program' and 'edited' (with -k to keep partial output) and compare"})
            # correspondence with the model on the same bytes
            m = c.model
            ok = (c.impl.status == m["status"]) and (c.impl.status == "ok" or c.impl.kind == m["kind"])
            if ok and c.impl.status == "err" and tuple(c.impl.loc or (0, 0)) != tuple(m["loc"]):
                ok = False
            if ok and c.impl.status in ("ok", "err") and m.get("pcap") is not None and c.impl.pcap is not None \
                    and c.impl.pcap != m["pcap"]:
                ok = False
            if ok and c.impl.status == "ok" and len(c.impl.warnings) != len(m["warnings"]):
                ok = False
            if not ok and c.impl.status not in ("crash", "timeout"):
                ctx.fail("model-differs", "%s (%s): impl %s %s @%s, model %s %s @%s" % (c.name, k, c.impl.status, c.impl.kind, c.impl.loc,
                         m["status"], m["kind"], m["loc"]), diff.replay_of(c, {"source_hex": c.src.hex(), "edit": k}),
                         disagreement=True)
    ctx.dist["edited_sources_that_differ_from_original"] = differ
    ctx.dist["edited_sources_total"] = sum(ek.values())
    return groups


# ---------------------------------------------------------------- driver

def run(ctx):
    ps = corpus(ctx)
    d = common.workdir("c13")
    write_inputs(d, ps)
    shim = build_shim(ctx)
    ctx.dist["programs"] = {"total": len(ps), "hand_written_multi_line": len(HAND), "with_discarded_value_warnings":
                            sum(1 for p in ps if "dq_" in p["text"] or any(dd in p["text"] for dd in DISCARDS[7:13])),
                            "bytes_min_max": [min(len(p["text"]) for p in ps), max(len(p["text"]) for p in ps)],
                            "lines_max": max(p["text"].count("\n") for p in ps)}
    base = ambient(ctx, d, ps, shim)
    repeats(ctx, d, ps, base, 16 if ctx.thorough else 8)
    observe(ctx, d, ps, shim)
    st = ctx.dist.setdefault("baseline_outcomes", {})
    for p in ps:
        b = base[p["name"]]
        key = b["status"] + (":" + b["kind"].split(":")[0] if b["kind"] else "")
        st[key] = st.get(key, 0) + 1
        if (b["status"] == "ok" and (b["size"] or 0) > 24) or (b["status"] == "err" and b["kind"] not in ("lex", "parse")):
            ctx.distinct(p["text"])
    ctx.dist["succeed_vs_fail"] = {"ok": sum(1 for p in ps if base[p["name"]]["status"] == "ok"),
                                   "err": sum(1 for p in ps if base[p["name"]]["status"] == "err")}
    unexpected = [p["name"] for p in ps if p["expect"] != "any" and (p["expect"] == "ok") != (base[p["name"]]["status"] == "ok")]
    ctx.obligation("generated programs behave as intended (valid ones compile, mutated ones fail): %d of %d" %
                   (len(ps) - len(unexpected), len(ps)), len(unexpected) <= len(ps) // 10, " ".join(unexpected[:20]))
    sub = ps if ctx.thorough else ps[:4] + [p for p in ps[4::2] if not p["origin"].startswith("dirty")] + \
        [p for p in ps if p["origin"].startswith("dirty")]
    batches(ctx, d, sub, base)
    lexical(ctx, ps, base)
    ctx.sample({"program": ps[5]["text"][:400], "baseline": base[ps[5]["name"]]["lines"], "sha256": base[ps[5]["name"]]["sha"]})
    ctx.sample({"failing_program_tail": ps[-1]["text"][-200:], "baseline": base[ps[-1]["name"]]["lines"]})
    shutil.rmtree(d, ignore_errors=True)


def replay(ctx, rp):
    """re-run every perturbation / edit comparison on the program(s) of a replay file"""
    ctx.count("replay")
    d = common.workdir("c13r")
    shim = build_shim(ctx)
    if str(rp.get("class", "")).startswith(("batch:shared-output", "batch:no-file-name")):
        mk = lambda t, n: {"name": n, "text": t, "spl": True, "expect": "?", "origin": "replay"}
        shared_output(ctx, d, mk(rp["a"], "a"), mk(rp["b"], "b"), mk(rp["f"], "f") if rp.get("f") else None)
        return
    if "programs" in rp and str(rp.get("class", "")).startswith("ambient"):
        ps = [{"name": n, "text": rp["programs"][n], "spl": True, "expect": "?", "origin": "replay"} for n in rp["order"]]
        write_inputs(d, ps)
        ambient(ctx, d, ps, shim)
        return
    if "programs" in rp:                       # a batch replay
        ps = [{"name": n, "text": t, "spl": True, "expect": "?", "origin": "replay"} for n, t in rp["programs"].items()]
        write_inputs(d, ps)
        order = [next(p for p in ps if p["name"] == n) for n in rp["order"]]
        sd = os.path.join(d, "src")
        od = os.path.join(d, "o")
        os.makedirs(od, exist_ok=True)
        alone = {}
        for p in ps:
            ins = [(os.path.join(sd, p["name"] + ".rsyn"),) * 2 + (os.path.join(od, p["name"] + ".pcap"),)]
            alone[p["name"]] = invoke(ins, outdir=od, cwd=od, env=base_env())[1][0]
        ins = [(os.path.join(sd, p["name"] + ".rsyn"),) * 2 + (os.path.join(od, p["name"] + ".pcap"),) for p in order]
        rc, res, so = invoke(ins, outdir=od, cwd=od, env=base_env(), keep=rp.get("keep", False))
        for p, g in zip(order, res):
            a = alone[p["name"]]
            why = same(dict(a, sha=g["sha"]) if rp.get("keep") and a["status"] == "err" else a, g)
            if why:
                ctx.fail("batch:differs-from-alone", "%s in batch differs from alone (%s)" % (p["name"], why), rp)
        anyfail = any(alone[p["name"]]["status"] != "ok" for p in order)
        if (rc != 0) != anyfail:
            ctx.fail("batch:exit-status", "exit status %d" % rc, rp)
        return
    p = {"name": "replay", "text": rp["program"], "spl": True, "expect": "?", "origin": "replay"}
    if "edited" in rp:
        o, e = Case(), Case()
        o.name, o.src, o.files, o.gen = "o", bytes.fromhex(rp["program_hex"]) if rp.get("program_hex") else rp["program"].encode(), {}, {}
        e.name, e.src, e.files, e.gen = "e", bytes.fromhex(rp["edited_hex"]) if rp.get("edited_hex") else rp["edited"].encode(), {}, {}
        diff.run_both(ctx, "c13r", [o, e], keep=True)
        if (o.impl.status, o.impl.kind, sha(o.impl.pcap), len(o.impl.warnings)) != \
                (e.impl.status, e.impl.kind, sha(e.impl.pcap), len(e.impl.warnings)):
            ctx.fail("edit:" + rp.get("edit", "replay"), "the edit changes the result: %s %s vs %s %s" %
                     (o.impl.status, o.impl.kind, e.impl.status, e.impl.kind), rp)
        return
    write_inputs(d, [p])
    ambient(ctx, d, [p], shim)
