"""C18 -- Ethernet framing is uniform, and raw mode removes exactly the Ethernet header."""
import struct, copy
import common, diff, gen, progs
from diff import Case
from gen import *

THEOREMS = ["C18_eth_for_is_from_ip", "C18_raw_is_skip14", "C18_tcp_segments", "C18_udp", "C18_udp_options_keep",
            "C18_icmp", "C18_ipdgram", "C18_gre", "C18_frame_wire_order", "C18_frame_rejects_bad_address",
            # library level: all 27 packet-returning keys, the raw relation for twin objects over any history and whole
            # call sequences, tunnels at any depth, eth::frame / eth::from_ip through exec, binder and call (Props/C18b.v)
            "C18b_vocabulary", "C18b_relations", "C18b_object_defs",
            "C18b_pkt_keys", "C18b_eth_plan_defs", "C18b_lib_all_keys",
            "C18b_lib_all_keys_ip", "C18b_raw_relation", "C18b_method_twin",
            "C18b_method_plan_defs", "C18b_ctor_twin", "C18b_history_twin",
            "C18b_unicast_twin", "C18b_broadcast_twin", "C18b_dns_host_twin",
            "C18b_frag_twin", "C18b_fn_plans", "C18b_program_defs",
            "C18b_program_twin", "C18b_layer_twin", "C18b_layer_raw_relation",
            "C18b_nesting", "C18b_layer_defs", "C18b_frame_exec",
            "C18b_frame_exec_rejects", "C18b_from_ip_exec", "C18b_frame_of_from_ip",
            "C18b_frame_binder", "C18b_from_ip_binder", "C18b_frame_call"]
PROPS = ["C18", "C18b"]
VO = ["theories/Props/C18.vo", "theories/Props/C18b.vo"]
RULE = ("for every IP-level builder (TCP flow, UDP flow/unicast/broadcast, ICMP flow, ipv4::datagram, fragments, dns::host, "
        "VXLAN/GRE/ERSPAN sessions) a program and its variant with raw: true on the builder (relational pair), over "
        "boundary and random address pairs and payloads; plus eth::frame with random 6-byte addresses/ethertypes and "
        "eth::from_ip.  Non-trivial = pair with at least one record; distinct by program text")
NOTES = ["broadcast(srcip: x) overrides the source address of the IPv4 header only; the frame keeps the MAC of the src endpoint (checked as such)",
         "oracle on the implementation's own output: (1) every framed record starts with 00:02:<dst ip> (ff:ff:ff:ff:ff:ff for "
         "broadcast) ++ 00:02:<src ip> ++ 0800 where the addresses are those of the IPv4 header that follows; (2) the raw "
         "variant's records equal the framed variant's records minus their first 14 bytes; (3) eth::frame emits dst, src, "
         "type in wire order followed by the payload; (4) eth::from_ip(a) is 00:02:a.  Correspondence: whole records "
         "equal to the model's"]
MODELLED = "pkt/src/eth.rs, the Ethernet handling of every ezpkt builder, src/stdlib/eth.rs (Pkt/Hdrs.v, Ez/*.v, Lib/MiscLib.v)"

BUILDERS = ["tcp", "udpflow", "unicast", "broadcast", "icmp", "frag", "dnshost", "vxlan", "gre", "erspan1", "erspan2"]


def build(kind, r, raw):
    """a small program whose IP-level builder has raw = raw; all other choices drawn from r"""
    # raw mode is a truth value however it is written: true, 1, or any other non-zero integer
    a, b = rand_ip(r), rand_ip(r)
    pa, pb = rand_port(r), rand_port(r)
    pl = [STR(rand_payload(r, 60))]
    # raw mode is a truth value however it is written: true, 1, or any other non-zero integer
    spelling = r.choice([True, True, gen.INT(1), gen.INT(256), gen.INT(0x10000), gen.INT(2**32), gen.INT(255)])   # (drawn for both variants)
    kw = {"raw": spelling} if raw else {}
    st = [Import("ipv4"), Import("dns"), Import("vxlan"), Import("gre"), Import("erspan1"), Import("erspan2"), Import("eth")]
    if kind == "tcp":
        st += [Let("t", Call("ipv4::tcp::flow", SOCK(a, pa), SOCK(b, pb), **kw)), Do(Call("t.open")),
               Do(Call("t.client_message", _x=pl)), Do(Call("t.server_segment", _x=pl)), Do(Call("t.client_ack")),
               Do(Call("t.server_reset")), Do(Call("t.client_close"))]
    elif kind == "udpflow":
        st += [Let("u", Call("ipv4::udp::flow", SOCK(a, pa), SOCK(b, pb), **kw)), Do(Call("u.client_dgram", _x=pl)),
               Do(Call("u.server_dgram", _x=pl, csum=False))]
    elif kind == "unicast":
        st += [Do(Call("ipv4::udp::unicast", SOCK(a, pa), SOCK(b, pb), _x=pl, **kw))]
    elif kind == "broadcast":
        st += [Do(Call("ipv4::udp::broadcast", SOCK(a, pa), SOCK(b, pb), _x=pl, **kw)),
               Do(Call("ipv4::udp::broadcast", SOCK(a, pa), SOCK(b, pb), _x=pl, srcip=IP(rand_ip(r)), **kw))]
    elif kind == "icmp":
        st += [Let("i", Call("ipv4::icmp::flow", IP(a), IP(b), **kw)), Do(Call("i.echo", pl[0])), Do(Call("i.echo_reply", pl[0]))]
    elif kind == "frag":
        st += [Let("g", Call("ipv4::frag", IP(a), IP(b), _x=[STR(rand_payload(r, 90))])),
               Do(Call("g.fragment", 0, 2, **kw)), Do(Call("g.tail", 2, **kw)), Do(Call("g.datagram", **kw))]
    elif kind == "dnshost":
        st += [Do(Call("dns::host", IP(a), STR(b"example.com"), _x=[IP(b)], **kw))]
    else:
        inner = Call("ipv4::udp::unicast", SOCK(b, pb), SOCK(a, pa), _x=pl)
        if kind == "vxlan":
            st += [Let("s", Call("vxlan::session", SOCK(a, pa), SOCK(b, 4789), **kw)), Do(Call("s.dgram", inner)), Do(Call("s.encap", inner))]
        elif kind == "gre":
            st += [Let("s", Call("gre::session", IP(a), IP(b), INT(0x6558), **kw)), Do(Call("s.encap", inner))]
        else:
            st += [Let("s", Call(kind + "::session", IP(a), IP(b), **kw)), Do(Call("s.encap", inner)), Do(Call("s.encap", inner))]
    return st


def mac(a):
    return b"\x00\x02" + struct.pack(">I", a)


def check_framed(ctx, c, recs, bcast_first=False):
    for i, r in enumerate(recs):
        fr = r[4]
        if len(fr) < 34:
            return ctx.fail("eth-short", "framed record %d shorter than eth+ip" % i, diff.replay_of(c))
        src, dst = struct.unpack(">II", fr[26:34])
        if c.gen["kind"] == "broadcast":
            # srcip: overrides the address in the IPv4 header only; the frame's source is the src endpoint's
            src = c.gen["a"]
        want_dst = b"\xff" * 6 if c.gen["kind"] == "broadcast" else mac(dst)
        if fr[12:14] != b"\x08\x00" or fr[0:6] != want_dst or fr[6:12] != mac(src):
            what = "dst" if fr[0:6] != want_dst else "src" if fr[6:12] != mac(src) else "type"
            return ctx.fail("eth-%s:%s" % (what, c.gen["kind"]),
                            "record %d: Ethernet header %s, expected %s %s 0800" % (i, fr[:14].hex(), want_dst.hex(), mac(src).hex()),
                            diff.replay_of(c))
    return None


def run(ctx):
    r = ctx.rng
    cases = []
    n = 40 if ctx.thorough else 6
    import random
    for kind in BUILDERS:
        for i in range(n):
            seed = r.getrandbits(32)
            for raw in (False, True):
                c = Case()
                c.name = "%s%d%s" % (kind, i, "r" if raw else "f")
                c.stmts, c.files, c.text, c.meta = build(kind, random.Random(seed), raw), {}, None, []
                c.gen = {"kind": kind, "raw": raw, "pair": "%s%d" % (kind, i), "a": rand_ip(random.Random(seed))}
                cases.append(c)
    # eth::frame and eth::from_ip
    for i in range(60 if ctx.thorough else 15):
        dstm, srcm = bytes(r.getrandbits(8) for _ in range(6)), bytes(r.getrandbits(8) for _ in range(6))
        et = r.choice([0x0800, 0x86dd, 0x8100, 0, 0xffff, r.getrandbits(16)])
        pl = rand_payload(r, 50)
        a = rand_ip(r)
        c = Case()
        c.name, c.files, c.text, c.meta = "frame%d" % i, {}, None, []
        kw = {} if (et == 0x0800 and r.random() < 0.5) else {"ethertype": et}
        c.gen = {"kind": "frame", "dst": dstm, "src": srcm, "et": et, "pl": pl, "ip": a}
        # the two addresses by position, by name in either order, or mixed: the frame is the same
        form = i % 4
        fr = [Call("eth::frame", STR(srcm), STR(dstm), _x=[STR(pl)], **kw),
              Call("eth::frame", _x=[STR(pl)], src=STR(srcm), dst=STR(dstm), **kw),
              Call("eth::frame", _x=[STR(pl)], dst=STR(dstm), src=STR(srcm), **kw),
              Call("eth::frame", STR(srcm), _x=[STR(pl)], dst=STR(dstm), **kw)][form]
        c.gen["form"] = ["positional", "src:,dst:", "dst:,src:", "positional src, dst:"][form]
        c.stmts = [Import("eth"), Do(fr),
                   Do(Call("eth::frame", Call("eth::from_ip", IP(a)), Ref("eth::BROADCAST"), _x=[Call("eth::from_ip", IP(a))]))]
        cases.append(c)
    # the explicit frame builder around a raw-mode packet written in place (the idiom for hand-made VLAN / odd frames):
    # dst, src, type, then exactly the packet's bytes -- which, with the helper's addresses and type 0x0800, is the frame
    # the builder itself makes when raw mode is off
    for i in range(24 if ctx.thorough else 8):
        a, b = rand_ip(r), rand_ip(r)
        pl = STR(rand_payload(r, 30))
        k = i % 4
        pre = []
        if k == 0:
            mk = lambda raw: Call("ipv4::udp::unicast", SOCK(a, 7), SOCK(b, 9), _x=[pl], **({"raw": True} if raw else {}))
        elif k == 1:
            pre = [Let("g", Call("ipv4::frag", IP(a), IP(b), _x=[pl]))]
            mk = lambda raw: Call("g.datagram", **({"raw": True} if raw else {}))
        elif k == 2:
            # (echo counts: each of the three statements uses a flow of its own, all at sequence number 0)
            pre = [Let("ir1", Call("ipv4::icmp::flow", IP(a), IP(b), raw=True)), Let("ir2", Call("ipv4::icmp::flow", IP(a), IP(b), raw=True)),
                   Let("if1", Call("ipv4::icmp::flow", IP(a), IP(b)))]
            names = iter(["ir1.echo", "ir2.echo"])
            mk = lambda raw, names=names: Call(next(names) if raw else "if1.echo", pl)
        else:
            pre = [Let("ur", Call("ipv4::udp::flow", SOCK(a, 7), SOCK(b, 9), raw=True)), Let("uf", Call("ipv4::udp::flow", SOCK(a, 7), SOCK(b, 9)))]
            mk = lambda raw: Call("ur.client_dgram" if raw else "uf.client_dgram", _x=[pl])
        c = Case()
        c.name, c.files, c.text, c.meta = "wrap%d" % i, {}, None, []
        c.stmts = [Import("eth"), Import("ipv4")] + pre + [
            Do(mk(True)),
            Do(Call("eth::frame", Call("eth::from_ip", IP(a)), Call("eth::from_ip", IP(b)), _x=[mk(True)])),
            Do(mk(False))]
        c.gen = {"kind": "frame-around-raw-packet", "a": a, "b": b}
        cases.append(c)
    # a flow's framing is fixed when it is created: it does not change after client_raw_dgram / server_raw_dgram (which
    # hand out the UDP part alone), whatever the flow's mode
    for i in range(8 if ctx.thorough else 4):
        a, b = rand_ip(r), rand_ip(r)
        raw = i % 2 == 0
        c = Case()
        c.name, c.files, c.text, c.meta = "rawflow%d" % i, {}, None, []
        c.stmts = [Import("ipv4"), Let("u", Call("ipv4::udp::flow", SOCK(a, 7), SOCK(b, 9), **({"raw": True} if raw else {}))),
                   Do(Call("u.client_dgram", _x=[STR(b"one")])),
                   Let("x", Call("u.%s_raw_dgram" % ("client" if i % 4 < 2 else "server"), _x=[STR(b"handed out")])),
                   Do(Call("u.client_dgram", _x=[STR(b"two")])), Do(Call("u.server_dgram", _x=[STR(b"three")]))]
        c.gen = {"kind": "flow-mode-after-raw-dgram", "raw": raw}
        cases.append(c)
    diff.run_both(ctx, "c18", cases)
    byname = {c.name: c for c in cases}
    for c in cases:
        ctx.count(c.gen["kind"])
        if not diff.triage(ctx, c):
            continue
        before = len(ctx.violations)
        ok, recs = common.pcap_records(c.impl.pcap)
        if c.gen["kind"] == "flow-mode-after-raw-dgram":
            modes = [diff.frame_is_raw(x[4]) for x in recs]
            if len(recs) != 3 or modes != [c.gen["raw"]] * 3:
                ctx.fail("flow-mode-changed", "a %s UDP flow emits records with raw = %s after handing out a raw datagram"
                         % ("raw" if c.gen["raw"] else "framed", modes), diff.replay_of(c))
            elif c.impl.pcap != c.model["pcap"]:
                ctx.fail("frame-differs", "records differ from the model's", diff.replay_of(c), disagreement=True)
            continue
        if c.gen["kind"] == "frame-around-raw-packet":
            if len(recs) != 3:
                ctx.fail("eth-frame-wrap-count", "%d records for three statements" % len(recs), diff.replay_of(c))
            else:
                want = mac(c.gen["b"]) + mac(c.gen["a"]) + b"\x08\x00" + recs[0][4]
                if recs[1][4] != want:
                    ctx.fail("eth-frame-wrap", "eth::frame around a raw packet is not dst, src, type, then the packet's bytes (%d bytes, expected %d)"
                             % (len(recs[1][4]), len(want)), diff.replay_of(c))
                elif recs[2][4][:14] != want[:14] or recs[2][4][14:34] [:12] != recs[0][4][:12] or len(recs[2][4]) != len(want):
                    ctx.fail("eth-frame-wrap-vs-builder", "the builder's own frame differs in header or length from the hand-made one", diff.replay_of(c))
            if c.impl.pcap != c.model["pcap"] and len(ctx.violations) == before:
                ctx.fail("frame-differs", "records differ from the model's", diff.replay_of(c), disagreement=True)
            continue
        if c.gen["kind"] == "frame":
            g = c.gen
            want0 = g["dst"] + g["src"] + struct.pack(">H", g["et"]) + g["pl"]
            want1 = b"\xff" * 6 + mac(g["ip"]) + b"\x08\x00" + mac(g["ip"])
            if len(recs) != 2 or recs[0][4] != want0:
                ctx.fail("eth-frame-order", "eth::frame did not emit dst, src, type, payload in wire order", diff.replay_of(c))
            elif recs[1][4] != want1:
                ctx.fail("eth-from-ip", "eth::from_ip / eth::BROADCAST bytes differ: %s" % recs[1][4].hex(), diff.replay_of(c))
        elif not c.gen["raw"]:
            check_framed(ctx, c, recs)
            other = byname[c.gen["pair"] + "r"]
            if other.impl.status == "ok" and len(ctx.violations) == before:
                ok2, recs2 = common.pcap_records(other.impl.pcap)
                if [x[4][14:] for x in recs] != [x[4] for x in recs2]:
                    ctx.fail("raw-not-skip14:" + c.gen["kind"], "records of the raw variant are not the framed records minus 14 bytes",
                             diff.replay_of(c, {"raw_program": other.text}))
            if recs:
                ctx.distinct(c.text)
        if c.impl.pcap != c.model["pcap"] and len(ctx.violations) == before:
            okm, recm = common.pcap_records(c.model["pcap"])
            if [x[4] for x in recs] != [x[4] for x in recm]:
                ctx.fail("frames-differ", "records differ from the model's", diff.replay_of(c), disagreement=True)
    diff.vacuity_guard(ctx, len(cases))
    ctx.sample({"program": cases[0].text, "raw_variant": cases[1].text})


def replay(ctx, rp):
    ctx.count("replay")
    progs_ = {"framed": rp["program"]}
    if rp.get("raw_program"):
        progs_["raw"] = rp["raw_program"]
    d, res = common.run_programs("c18r", progs_)
    if res["framed"].status != "ok":
        return ctx.fail("replay-not-ok", "impl outcome %s" % res["framed"].status, {"program": rp["program"]})
    ok, recs = common.pcap_records(res["framed"].pcap)
    for i, r in enumerate(recs):
        fr = r[4]
        if len(fr) >= 34 and fr[12:14] == b"\x08\x00" and fr[14] == 0x45:
            src, dst = struct.unpack(">II", fr[26:34])
            if fr[6:12] != mac(src) or (fr[0:6] != mac(dst) and fr[0:6] != b"\xff" * 6):
                return ctx.fail("eth", "record %d Ethernet header %s does not match its IPv4 addresses" % (i, fr[:14].hex()),
                                {"program": rp["program"]})
    if "raw" in res and res["raw"].status == "ok":
        ok2, recs2 = common.pcap_records(res["raw"].pcap)
        if [x[4][14:] for x in recs] != [x[4] for x in recs2]:
            ctx.fail("raw-not-skip14", "raw variant differs", {"program": rp["program"]})
