"""C19 -- I/O failures are reported as failures, never as success."""
import hashlib, multiprocessing, os, re, resource, shutil, signal, subprocess, time
import common, gen, progs

for _vo in ("theories/Interp/Io.vo", "theories/Interp/IoRun.vo"):
    if _vo not in common.MODEL_VOS:
        common.MODEL_VOS = list(common.MODEL_VOS) + [_vo]

THEOREMS = ["C19_fail_safe", "C19_create_failure_reported", "C19_ok_is_complete", "C19_no_fault_ok",
            "C19_prefix_safety", "C19_failed_output", "C19_report_point", "C19_report_point_first",
            "C19_pushed_sizes_total", "C19_never_out_of_fuel", "C19_old_protocol_small_always_ok",
            "C19_old_protocol_claims_success", "C19_old_protocol_panics",
            "C19_pipeline_is_replay", "C19_pipeline_is_session", "C19_pipeline_ok_complete", "C19_pipeline_fail_safe",
            "C19_pipeline_panics_only_without_fault", "C19_pipeline_unreadable_input", "C19_trace_is_run_src"]
MODELS = ("io",)
RULE = ("programs of varied output size -- tiny (everything stays in BufWriter's 8192-byte buffer until the final flush), "
        "medium, several multiples of 8192, single records larger than the buffer (large payloads through io::file), "
        "multi-packet statements (TCP messages, handshakes), IPv4 fragments, record sequences built to end exactly at / one "
        "byte around a buffer boundary or to hit BufWriter's `<` vs `<=` and `>= capacity` branches, and programs that fail "
        "for another reason (name, parse, lex, reassignment, invalid UTF-8, missing data file) after emitting packets -- each "
        "run under RLIMIT_FSIZE = L (SIGXFSZ ignored) for every byte offset L from 0 to the full length (and a few beyond) "
        "when the output is small, and for larger outputs: every offset below a few tens of thousands of bytes (thorough) "
        "or all offsets within +-40 bytes of 0, of every multiple of 8192, of every record boundary and of the end plus random "
        "ones; every (program, L) with -k and, for a large subset, without; plus the catalogue of creation / input / "
        "data-file failures and several inputs on one command line.  Non-trivial = a run in which a fault was actually "
        "injected (L below the full length, or a catalogue fault); distinct by (program, fault, keep)")
NOTES = ["oracle, on the real binary alone: a run whose output cannot be complete exits with status 1 (not 0, not 101, not a "
         "signal), prints '<in>[:line:col]: error: process_file: ...' for that input and no '<in> -> <out> ok', prints no "
         "'panicked at', leaves no output file unless -k, and with -k leaves a prefix of the fault-free output no longer "
         "than L; a run whose limit is at or beyond the full length succeeds with a byte-identical file; other inputs of "
         "the same command line are still compiled",
         "correspondence: compile_with_faults (Interp/IoRun.v) on the same source bytes, data files, keep flag and "
         "limit must give the same status line (error kind and line:col), exit status, delete diagnostic, and -- with "
         "-k -- the same file content (length and MD5)",
         "C19_pipeline_is_session ties the pipeline model to the session over its own list of attempted records; "
         "the statement that the attempted records are a prefix of those of the fault-free run (determinism of the "
         "interpreter up to the failing write) is not proved separately -- the check compares every faulted run's kept "
         "file against the fault-free file instead",
         "/dev/full (ENOSPC from byte 0) is modelled as limit 0; EINTR and short writes other than the one at the limit "
         "are not modelled (regular files do not produce them)",
         "when stdout itself cannot be written (`resynth x.rsyn > /dev/full`) the println! of the status line panics "
         "(exit 101); the property is about input/output/data files, so this is recorded as an observation in "
         "ctx.dist['stdout_full'] and not judged",
         "D28 (found by this check on tree 78e5b6e, fixed in a00184e; class panic-on-input-without-file-name): an input "
         "path without a file name (`..`, `/`, `.`, the empty string, `x/..`) panicked at src/cli.rs "
         "`out.push(p.file_stem().unwrap())` (exit 101, later inputs never compiled) instead of being reported as an "
         "unreadable input; the catalogue scenarios input-path-without-file-name-* watch it (oracle only: the CLI's "
         "derivation of the output name from the input name, and its refusal of two inputs with the same output, are not "
         "modelled)",
         "self-test: selftest/mutants/D21.diff, D28.diff and C19_{flush_ignored, flush_err_only_enospc, pktgen_write_ignored, "
         "pkt_write_swallowed, exit_zero, iofile_empty, utf8_eof, keep_inverted} fail the oracle with a concrete replay "
         "(program + limit); C19_capacity (BufWriter::with_capacity(65536)) preserves the property and is flagged through "
         "the correspondence only (diagnostic location / kept-file length differ from the model)"]
MODELLED = ("pkt/src/pcap.rs PcapWriter (create/write_header/write_packet/flush), std::io::BufWriter (flush_buf, "
            "write_all, write_all_cold, flush, Drop) and Write::write_all over a file with a failure point, "
            "src/program.rs add_expr/flush, src/cli.rs process_file/resynth (status line, exit status, remove_file) are "
            "modelled in Interp/Io.v and Interp/IoRun.v; the interpreter below them is Interp/Eval.v; clap, colours and the "
            "kernel's write(2) are not verified -- the RLIMIT_FSIZE behaviour assumed by fwrite is what the check injects")

CAP = 8192
PRE = "import ipv4;\nimport io;\nimport std;\nimport text;\n"


# ---------------------------------------------------------------- programs

class Prog:
    __slots__ = ("name", "kind", "src", "files", "total", "status", "base", "bounds", "dense")

    def __init__(self, name, kind, src, files=None):
        self.name, self.kind, self.files = name, kind, files or {}
        self.dense = True          # every offset when the output is below the tier's threshold
        self.src = src if isinstance(src, bytes) else src.encode("utf-8")


def payload_expr(n, files, datadir, rng):
    """source text of an n-byte payload; large ones come from a data file"""
    if n > 1500:
        fn = "pl%d.bin" % n
        if fn not in files:
            files[fn] = bytes((i * 7 + n) & 0xff for i in range(n))
        return 'io::file("%s")' % os.path.join(datadir, fn)
    if rng.random() < 0.5:
        return '"' + "".join(rng.choice("abcdefghijklmnopqrstuvwxyz0123456789") for _ in range(n)) + '"'
    return gen.render_bytes(bytes(rng.getrandbits(8) for _ in range(n)), None, "hex") if n else '""'


def sized_prog(name, kind, recsizes, datadir, rng, tail=""):
    """one UDP datagram per record; record = 16 + 14 + 20 + 8 + payload"""
    files = {}
    lines = [PRE, "let u = ipv4::udp::flow(10.0.0.1:1000, 10.0.0.2:2000);\n"]
    for i, r in enumerate(recsizes):
        n = r - 58
        assert n >= 0
        side = "client_dgram" if i % 2 == 0 else "server_dgram"
        lines.append("u.%s(%s);\n" % (side, payload_expr(n, files, datadir, rng)))
    return Prog(name, kind, "".join(lines) + tail, files)


def tcp_prog(name, sizes, datadir, rng, close=True):
    """multi-packet statements (Val::PktGen): handshake, message + ack, close; with close=False the last
    statement is a one-packet sequence (send_ack: false), so a large last message ends the file"""
    files = {}
    lines = [PRE, "let t = ipv4::tcp::flow(192.168.0.1:32768, 10.1.1.1:80);\n", "t.open();\n"]
    for i, n in enumerate(sizes):
        op = "client_message" if i % 2 == 0 else "server_message"
        last = (not close) and i == len(sizes) - 1
        lines.append("t.%s(%s%s);\n" % (op, "send_ack: false, " if last else "", payload_expr(n, files, datadir, rng)))
    if close:
        lines.append("t.client_close();\n")
    return Prog(name, "tcp-multi-packet", "".join(lines), files)


def frag_prog(name, plen, step, datadir, rng):
    files = {}
    lines = [PRE, "let g = ipv4::frag(1.2.3.4, 5.6.7.8, id: 7, proto: 17, %s);\n" % payload_expr(plen, files, datadir, rng)]
    off = 0
    blocks = (plen + 7) // 8
    while off + step < blocks:
        lines.append("g.fragment(%d, %d);\n" % (off, step))
        off += step
    lines.append("g.tail(%d);\n" % off)
    lines.append("g.datagram();\n")
    return Prog(name, "fragments", "".join(lines), files)


FAIL_TAILS = [
    ("name", "nosuch(1);\n"),
    ("reassign", "let u = 1;\n"),
    ("parse", "u.client_dgram(;\n"),
    ("lex", "u.client_dgram(\"abc);\n"),
    ("import", "import nosuchmodule;\n"),
    ("utf8", b"# caf\xe9 \xff\n"),
    ("datafile", 'u.client_dgram(io::file("/nonexistent/c19/data.bin"));\n'),
    ("type", "u.client_dgram(1.2.3.4:5, frag_off: \"x\");\n"),
]


def failing_prog(name, recsizes, which, datadir, rng, more=()):
    tag, tail = FAIL_TAILS[which % len(FAIL_TAILS)]
    p = sized_prog(name, "fails-later:" + tag, recsizes, datadir, rng)
    extra = b""
    if more:
        q = sized_prog("x", "x", list(more), datadir, rng)
        p.files.update(q.files)
        extra = b"".join(l for l in q.src.splitlines(keepends=True) if l.startswith(b"u."))
    p.src = p.src + (tail if isinstance(tail, bytes) else tail.encode()) + extra
    return p


def random_prog(name, rng, kind, nsteps, maxlen, big):
    g = progs.random_program(rng, nsteps=nsteps, maxlen=maxlen, big=big, jumps=0.1, tunnels=0.2)
    return Prog(name, kind, gen.render_program(g.stmts, rng))


ZERO_RECORD_PROGRAMS = [
    ("empty", ""),
    ("comment", "# nothing here\n\n"),
    ("imports", "import ipv4;\nimport io;\nimport text;\n"),
    ("lets", "import ipv4;\nlet u = ipv4::udp::flow(10.0.0.1:1000, 10.0.0.2:2000);\nlet p = u.client_dgram(\"kept\");\nlet n = 5;\n"),
    ("warnings", "import text;\ntext::concat(\"a\", \"b\");\nlet s = \"x\";\ns;\n"),
    ("jump", "import time;\ntime::jump_seconds(3);\ntime::jump_nanos(1);\n"),
    ("hole", "import ipv4;\nlet t = ipv4::tcp::flow(1.2.3.4:1, 1.2.3.5:2);\nt.client_hole(100);\n"),
]


def boundary_sequences():
    """record sizes chosen against BufWriter's branches (capacity 8192, header 24 bytes)"""
    c = CAP
    seqs = []
    for d in (-1, 0, 1):
        seqs.append([c - 24 + d])                       # header + record ends at c-1, c, c+1 (spare-1, spare, spare+1)
        seqs.append([c - 24 + d, 100])
        seqs.append([2042, 2042, 2042, 2042 + d, 60])   # four records fill the buffer to c + d
        seqs.append([c + d, c + d])                     # records of capacity -1/0/+1 (direct write or buffered)
        seqs.append([9000, c + d, 70])                  # with an empty buffer after a direct write
        seqs.append([1000] * 8 + [168 + d, 500])        # 24 + 8000 + 168 = 8192
        seqs.append([4000, 4168 + d, 4000, 4192 + d])   # two consecutive exact fills
    seqs.append([58, 58, 58])
    seqs.append([20000, 58, 20000])
    seqs.append([60000])
    seqs.append([3 * c - 24, 58])
    seqs.append([c - 25, 58, c - 59, 59])
    return seqs


def make_programs(ctx, datadir):
    r = ctx.rng
    P = []
    t = ctx.thorough
    # tiny: everything stays buffered until the final flush
    for i in range(6 if t else 2):
        P.append(random_prog("tiny%d" % i, r, "tiny-random", r.randint(2, 8), 48, 0.0))
    P.append(sized_prog("tinyudp", "tiny-sized", [58, 59, 100, 300, 1000], datadir, r))
    P.append(tcp_prog("tinytcp", [10, 200, 0, 33], datadir, r))
    # no record at all: the file is the 24-byte header, written only by the explicit flush
    for nm, src in ZERO_RECORD_PROGRAMS:
        P.append(Prog("zero-" + nm, "no-records", src))
    # medium / several multiples of the buffer
    for i in range(8 if t else 1):
        P.append(random_prog("med%d" % i, r, "medium-random", r.randint(60, 120) if t else 45, 300, 0.0))
        P[-1].dense = i < 4
    P.append(sized_prog("multi8k", "multiples-of-8192", [r.choice([400, 1000, 1500, 2048, 4096]) for _ in range(30 if t else 14)],
                        datadir, r))
    for i in range(4 if t else 1):
        P.append(sized_prog("mix%d" % i, "mixed-sizes",
                            [r.choice([58, 60, 100, 700, 1500, 4000, 8100, 8191, 8192, 8193, 9000, 12000, 16384, 20000])
                             for _ in range(r.randint(4, 12))], datadir, r))
    # single records larger than the buffer, multi-packet statements, fragments
    P.append(sized_prog("bigrec", "records-larger-than-buffer", [9000, 100, 20000, 8300] + ([60000, 70, 33000] if t else []),
                        datadir, r))
    P.append(tcp_prog("tcpbig", [3000, 9000, 100, 8200] + ([20000, 5] if t else []), datadir, r))
    P.append(tcp_prog("tcplast", [200, 9000], datadir, r, close=False))
    P.append(frag_prog("frag", 6000 if not t else 30000, 100 if not t else 180, datadir, r))
    if t:
        P.append(frag_prog("fragbig", 60000, 1100, datadir, r))
    # buffer-boundary sequences
    seqs = boundary_sequences()
    if not t:
        seqs = [seqs[i] for i in (0, 1, 2, 8, 9, 10, 15, 16, 22)]
    for i, s in enumerate(seqs):
        P.append(sized_prog("bnd%d" % i, "buffer-boundary", s, datadir, r))
        # thorough: every offset for the sequences that end exactly on the boundary and fit 9000 bytes
        P[-1].dense = (not t) or (24 + sum(s) <= 9000 and (24 + sum(s[:-1] if len(s) > 1 else s)) % CAP in (0, 1, CAP - 1)
                                  and i % 3 == 1) or 24 + sum(s) < 1000
    # programs that fail for another reason after emitting packets
    k = 0
    for which in range(len(FAIL_TAILS)):
        shapes = [([100, 200], ())]
        if t or which % 3 == 0:
            shapes.append(([5000, 5000, 300], (400, 9000)))
        for before, after in shapes:
            P.append(failing_prog("late%d" % k, before, which, datadir, r, after))
            P[-1].dense = (not t) or not after or which in (0, 5)
            k += 1
    return P


# ---------------------------------------------------------------- running the binary under a fault

def _md5(b):
    return hashlib.md5(b).hexdigest()


class Obs:
    """what one run of the binary did for one input"""
    __slots__ = ("rc", "ok_line", "errs", "deletes", "panic", "file", "stdout", "stderr", "path_kind")


def observe(inpath, outpath, rc, so, se):
    o = Obs()
    o.rc, o.stdout, o.stderr = rc, so, se
    o.ok_line, o.errs, o.deletes = False, [], 0
    for l in so.splitlines():
        if not l.startswith(inpath):
            continue
        if l.startswith(inpath + " -> ") and l.rstrip().endswith(" ok"):
            o.ok_line = True
            continue
        m = common.ERR_RE.match(l)
        if m and m.group(1) == inpath:
            o.errs.append((common.classify_msg(m.group(4)), (int(m.group(2)), int(m.group(3))) if m.group(2) else (0, 0),
                           m.group(4)))
        elif l.startswith(inpath + ": error: delete:"):
            o.deletes += 1
    o.panic = ("panicked at" in se) or (rc not in (0, 1))
    o.file = None
    if os.path.islink(outpath):
        o.path_kind = "symlink"
    elif os.path.isdir(outpath):
        o.path_kind = "dir"
    elif os.path.isfile(outpath):
        o.path_kind = "file"
        with open(outpath, "rb") as f:
            o.file = f.read()
    else:
        o.path_kind = "absent"
    return o


def obs_status(o):
    if o.panic:
        return "PANIC"
    if o.ok_line and not o.errs:
        return "OK"
    if o.errs:
        k, loc, _ = o.errs[0]
        return "ERR:%s@%d:%d" % (k, loc[0], loc[1])
    return "NOTHING"


_G = {}      # shared with forked workers: programs, directories


def _run_one(binary, args, limit, timeout=120):
    """run with RLIMIT_FSIZE = limit (None: unlimited); SIGXFSZ is ignored in this process and inherited"""
    soft, hard = resource.getrlimit(resource.RLIMIT_FSIZE)
    try:
        if limit is not None:
            resource.setrlimit(resource.RLIMIT_FSIZE, (limit, hard))
        p = subprocess.Popen([binary] + args, stdout=subprocess.PIPE, stderr=subprocess.PIPE, restore_signals=False)
    finally:
        resource.setrlimit(resource.RLIMIT_FSIZE, (soft, hard))
    try:
        so, se = p.communicate(timeout=timeout)
    except subprocess.TimeoutExpired:
        p.kill()
        so, se = p.communicate()
        return -999, so.decode("utf-8", "replace"), se.decode("utf-8", "replace") + "\ntimeout"
    return p.returncode, so.decode("utf-8", "replace"), se.decode("utf-8", "replace")


def _worker(chunk):
    """chunk: list of (prog index, limit, keep) -> list of compact results"""
    signal.signal(signal.SIGXFSZ, signal.SIG_IGN)
    d = _G["dir"]
    outdir = os.path.join(d, "out", "w%d" % os.getpid())
    os.makedirs(outdir, exist_ok=True)
    res = []
    for pi, limit, keep in chunk:
        p = _G["progs"][pi]
        inpath = os.path.join(d, "src", p.name + ".rsyn")
        outpath = os.path.join(outdir, p.name + ".pcap")
        if os.path.lexists(outpath):
            os.unlink(outpath)
        args = ["--color", "never"] + (["-k"] if keep else []) + ["--out-dir", outdir, inpath]
        rc, so, se = _run_one(_G["binary"], args, limit)
        o = observe(inpath, outpath, rc, so, se)
        f = None
        if o.file is not None:
            base = p.base or b""
            f = (len(o.file), _md5(o.file), base[:len(o.file)] == o.file)
            os.unlink(outpath)
        res.append((pi, limit, keep, rc, obs_status(o), len(o.errs), o.deletes, o.ok_line, o.panic, o.path_kind, f,
                    so[-600:] if (o.panic or rc not in (0, 1) or not (o.errs or o.ok_line)) else "", se[-600:]))
    return res


def run_pool(jobs, chunk=64):
    chunks = [jobs[i:i + chunk] for i in range(0, len(jobs), chunk)]
    ctxm = multiprocessing.get_context("fork")
    out = []
    with ctxm.Pool(16) as pool:
        for r in pool.imap_unordered(_worker, chunks):
            out.extend(r)
    return out


# ---------------------------------------------------------------- the model

def model_cases(cases, xcheck=0):
    """cases: list of (id, keep (True/False/"both"), create, input spec, files dict abs->bytes, [limits])
    -> {(id + "k"|"n", limit): fields}.  The driver computes the fault-free trace once per case and replays it
    per limit (compile_via_trace); every xcheck-th limit is recomputed by compile_with_faults itself."""
    blocks = []
    for cid, keep, create, inp, files, limits in cases:
        ls = [("none" if l is None else str(l)) for l in limits]
        for i in range(0, len(ls), 120):
            b = ["CASE %s" % cid]
            for pth, content in files.items():
                b.append("FILE %s %s" % ((pth if isinstance(pth, bytes) else pth.encode()).hex(), content.hex() or "-"))
            b += ["KEEP %s" % ("both" if keep == "both" else "1" if keep else "0"), "CREATE %d" % (1 if create else 0)]
            if xcheck:
                b.append("XCHECK %d" % xcheck)
            if inp is None:
                b.append("INPUT noopen")
            elif inp == "unreadable":
                b.append("INPUT unreadable")
            else:
                b.append("INPUT src %s" % (inp.hex() or "-"))
            b += ["LIMITS " + ",".join(ls[i:i + 120]), "END"]
            blocks.append("\n".join(b) + "\n")
    d = os.path.join(common.BUILD, "work")
    os.makedirs(d, exist_ok=True)
    shards = max(1, min(16, len(blocks)))
    procs = []
    for i in range(shards):
        pth = os.path.join(d, "c19-%d-%d.cases" % (os.getpid(), i))
        with open(pth, "w") as f:
            f.write("".join(blocks[i::shards]))
        # answers go to a file: with pipes the drivers would block on a full pipe until their turn to be read
        outf = open(pth + ".out", "wb")
        procs.append((pth, outf, subprocess.Popen([common.model_bin("io"), "faults", pth], stdout=outf,
                                                  stderr=subprocess.PIPE)))
    out = {}
    for pth, outf, pr in procs:
        _, se = pr.communicate(timeout=3000)
        outf.close()
        with open(pth + ".out", "rb") as f:
            so = f.read()
        os.unlink(pth)
        os.unlink(pth + ".out")
        if pr.returncode != 0:
            raise common.BuildError("model driver rsmodel_io failed: " + se.decode()[-2000:])
        for l in so.decode().splitlines():
            t = l.split(" ")
            if len(t) >= 4 and t[0] == "CASE" and t[3] == "XMISMATCH":
                out[(t[1], None if t[2] == "none" else int(t[2]))] = {"status": "XMISMATCH " + l, "exit": -1, "file": "?",
                                                                     "delete": -1, "wf": 0}
            elif len(t) >= 7 and t[0] == "CASE":
                lim = None if t[2] == "none" else int(t[2])
                out[(t[1], lim)] = {"status": t[3], "exit": int(t[4][2:]), "file": t[5][2:], "delete": int(t[6][2:]),
                                    "wf": int(t[7][2:]) if len(t) > 7 else 0}
    return out


def model_status(m):
    s = m["status"]
    return "PANIC" if s.startswith("PANIC") else s


# ---------------------------------------------------------------- offsets

def choose_offsets(ctx, p, full_upto, nrandom, radius=40):
    total = len(p.base)
    if total <= full_upto and p.dense:
        offs = set(range(0, total + 1))
    else:
        offs = set(range(0, min(total, 65) + 1))
        marks = list(range(CAP, total + CAP, CAP)) + list(p.bounds) + [total]
        for m in marks:
            for d in range(-radius, radius + 1):
                if 0 <= m + d <= total:
                    offs.add(m + d)
        for _ in range(nrandom):
            offs.add(ctx.rng.randint(0, total))
    offs.update([total, total + 1, total + 4096, total + CAP])
    return sorted(offs)


def record_bounds(pcap):
    ok, recs = common.pcap_records(pcap)
    b, off = [], 24
    for r in recs:
        off += 16 + r[2]
        b.append(off)
    return b


# ---------------------------------------------------------------- oracle + correspondence for one faulted run

def replay_dict(p, limit, keep, extra=None):
    r = {"program": p.src.decode("utf-8", "replace"), "program_hex": p.src.hex(),
         "files": {k: v.hex() for k, v in p.files.items()} if sum(len(v) for v in p.files.values()) < 200000
         else {k: "bytes((i*7+%d)&0xff for i in range(%d))" % (len(v), len(v)) for k, v in p.files.items()},
         "data_dir": _G.get("datadir"), "fault": {"kind": "rlimit_fsize", "limit": limit}, "keep": keep,
         "program_kind": p.kind, "full_output_length": len(p.base) if p.base is not None else None,
         "how": "write the program to x.rsyn (data files at the absolute paths it names), then in python: "
                "subprocess.run([resynth,'--color','never'(,'-k'),'--out-dir',d,'x.rsyn'], preexec_fn=lambda: "
                "(signal.signal(signal.SIGXFSZ, signal.SIG_IGN), resource.setrlimit(resource.RLIMIT_FSIZE,(limit,limit))))"}
    if extra:
        r.update(extra)
    return r


def judge(ctx, p, res, model, stats):
    """res: tuple from _worker.  Returns nothing; records violations / disagreements."""
    (pi, limit, keep, rc, ost, nerrs, ndel, okline, panic, pkind, f, so, se) = res
    total = len(p.base)
    faulted = limit is not None and limit < total
    must_fail = faulted or p.status != "OK"
    rp = lambda extra=None: replay_dict(p, limit, keep, dict({"observed": {"rc": rc, "status": ost, "file": f, "stdout": so,
                                                                           "stderr": se}}, **(extra or {})))
    before = len(ctx.violations)
    if must_fail:
        if panic:
            ctx.fail("panic-on-io-failure", "%s L=%s: the process died (rc=%s): %s" % (p.name, limit, rc, se.strip()[-200:]), rp())
        elif okline:
            ctx.fail("success-claimed-for-incomplete-output",
                     "%s L=%s (full length %d): printed 'ok', rc=%d, file %s" % (p.name, limit, total, rc, f and f[0]), rp())
        elif rc == 0:
            ctx.fail("exit-status-zero-after-io-failure", "%s L=%s: exit status 0" % (p.name, limit), rp())
        elif nerrs == 0:
            ctx.fail("no-diagnostic", "%s L=%s: no error line for the input" % (p.name, limit), rp())
        elif not keep and pkind != "absent":
            ctx.fail("incomplete-output-left-behind", "%s L=%s: output %s left without -k" % (p.name, limit, pkind), rp())
        elif keep and f is not None and (not f[2] or (limit is not None and f[0] > limit)):
            ctx.fail("kept-file-not-a-prefix", "%s L=%s: kept file (%d bytes) is not a prefix of the fault-free output"
                     % (p.name, limit, f[0]), rp())
    else:
        if panic or rc != 0 or not okline or nerrs:
            ctx.fail("spurious-failure", "%s L=%s >= full length %d: rc=%s status %s" % (p.name, limit, total, rc, ost), rp())
        elif f is None or f[0] != total or f[1] != _md5(p.base):
            ctx.fail("output-differs-without-fault", "%s L=%s: output differs from the fault-free one" % (p.name, limit), rp())
    if len(ctx.violations) > before:
        return
    # correspondence
    m = model.get((p.name + ("k" if keep else "n"), limit))
    if m is None:
        ctx.fail("model-missing", "no model answer for %s L=%s" % (p.name, limit), rp(), disagreement=True)
        return
    mfile = m["file"]
    ofile = "-" if f is None else "%d:%s" % (f[0], f[1])
    obs = (ost, rc, ofile, min(ndel, 1))
    mod = (model_status(m), m["exit"], mfile, m["delete"])
    if obs != mod:
        ctx.fail("model-differs", "%s L=%s keep=%s: binary %s, model %s" % (p.name, limit, keep, obs, mod),
                 rp({"model": m}), disagreement=True)
    if m["wf"]:
        stats["write_fault_reports"] += 1
        if ost.startswith("ERR:io@") and not ost.endswith("@0:0"):
            stats["located_at_statement"] += 1
        else:
            stats["located_at_flush_or_create"] += 1


# ---------------------------------------------------------------- the catalogue of other faults

BYTE_NAMES = [("latin1", b"caf\xe9.bin"), ("lone-continuation", b"a\x80b.bin"), ("overlong", b"\xc0\xaf.bin"),
              ("utf8-multibyte", "caf\u00e9-\u4e16.bin".encode("utf-8"))]


def path_literal(b):
    """a string literal of the language denoting exactly the bytes b (hex sections for everything non-printable)"""
    out = []
    for c in b:
        out.append(chr(c) if c in gen.PRINTABLE else "|%02x|" % c)
    return ('"' + "".join(out) + '"').encode("ascii")


def catalogue(ctx, d, datadir):
    """creation / input / data-file failures and several inputs on one command line.
    Each scenario: (name, [inputs], arrangement) -> run once with and once without -k."""
    binary = common.RESYNTH
    r = ctx.rng
    small = sized_prog("s", "small", [100, 200, 300], datadir, r)
    big = sized_prog("b", "big", [5000, 5000, 5000, 300], datadir, r)
    for q in (small, big):
        for fn, c in q.files.items():
            with open(os.path.join(datadir, fn), "wb") as f:
                f.write(c)
    stats = ctx.dist.setdefault("catalogue", {})
    mfiles = lambda q: {os.path.join(datadir, k): v for k, v in q.files.items()}
    n = [0]

    def scenario(tag, inputs, outdir_setup, keep, outdir=None, explicit_out=None, rlimit=None):
        """inputs: list of (label, src bytes or None (missing) or 'dir', expect, model spec)
        expect: 'ok' | 'fail';  model spec: (create, inp, files, limit) or None"""
        n[0] += 1
        sd = os.path.join(d, "cat", "%s-%d" % (tag, n[0]))
        os.makedirs(sd)
        od = outdir or os.path.join(sd, "out")
        if outdir is None:
            os.makedirs(od)
        paths = []
        for label, src, expect, mspec in inputs:
            # a bytes label is a raw (possibly non-UTF-8) file name: every path derived from it is bytes
            ip = os.path.join(os.fsencode(sd), label + b".rsyn") if isinstance(label, bytes) else os.path.join(sd, label + ".rsyn")
            if src == "dir":
                os.makedirs(ip)
            elif src == "longname":
                ip = os.path.join(sd, "n" * 300 + ".rsyn")
            elif isinstance(src, str) and src.startswith("path:"):
                ip = src[5:].replace("@", sd)          # a literal path given to the CLI
            elif src is not None:
                with open(ip, "wb") as f:
                    f.write(src)
            paths.append(ip)
        if outdir_setup:
            outdir_setup(od)
        args = ["--color", "never"] + (["-k"] if keep else [])
        if explicit_out:
            for label, _, _, _ in inputs:
                args += ["-o", os.path.join(od, explicit_out(label))]
        else:
            args += ["--out-dir", od]
        args += paths
        signal.signal(signal.SIGXFSZ, signal.SIG_IGN)
        rc, so, se = _run_one(binary, args, rlimit)
        cases = []
        for (label, src, expect, mspec), ip in zip(inputs, paths):
            stem = os.path.splitext(os.path.basename(ip))[0]
            if isinstance(ip, bytes):
                # Path::display() is lossy: invalid sequences print as U+FFFD, as python's "replace" does
                op = os.path.join(os.fsencode(od), stem + b".pcap")
                o = observe(ip.decode("utf-8", "replace"), op, rc, so, se)
                label = label.decode("latin-1")
            else:
                op = os.path.join(od, explicit_out(label) if explicit_out else stem + ".pcap")
                o = observe(ip, op, rc, so, se)
            ctx.count("catalogue:" + tag)
            stats[tag] = stats.get(tag, 0) + 1
            rp = {"scenario": tag, "argv": args, "rlimit_fsize": rlimit, "keep": keep,
                  "inputs": {(l.decode("latin-1") if isinstance(l, bytes) else l):
                             (s.decode("utf-8", "replace") if isinstance(s, bytes) else s) for l, s, _, _ in inputs},
                  "observed": {"rc": rc, "stdout": so[-1500:], "stderr": se[-800:], "output_path": o.path_kind},
                  "how": "recreate the arrangement named by the scenario and run the argv"}
            before = len(ctx.violations)
            if "panicked at" in se or rc not in (0, 1):
                cls = "panic-on-input-without-file-name" if tag.startswith("input-path-without-file-name") else "panic-on-io-failure"
                ctx.fail(cls, "%s/%s: the process died rc=%s %s" % (tag, label, rc, se.strip()[:300]), rp)
            elif expect == "fail":
                ctx.distinct((tag, label, keep))
                if o.ok_line:
                    ctx.fail("success-claimed-for-incomplete-output", "%s/%s: printed ok" % (tag, label), rp)
                elif rc == 0:
                    ctx.fail("exit-status-zero-after-io-failure", "%s/%s: exit status 0" % (tag, label), rp)
                elif not o.errs:
                    ctx.fail("no-diagnostic", "%s/%s: no error line for the input" % (tag, label), rp)
                elif not keep and o.path_kind in ("file", "symlink"):
                    ctx.fail("incomplete-output-left-behind", "%s/%s: %s left without -k" % (tag, label, o.path_kind), rp)
            else:
                if not o.ok_line or o.errs:
                    ctx.fail("other-input-not-compiled", "%s/%s: an unaffected input of the same command line was not "
                             "compiled: %s" % (tag, label, obs_status(o)), rp)
                elif o.file is None or not common.pcap_records(o.file)[0]:
                    ctx.fail("other-input-output-damaged", "%s/%s: output of an unaffected input is not a complete pcap"
                             % (tag, label), rp)
            if any(e == "fail" for _, _, e, _ in inputs) and rc == 0 and len(ctx.violations) == before:
                ctx.fail("exit-status-zero-after-io-failure", "%s: exit status 0 although an input failed" % tag, rp)
            if len(ctx.violations) == before and mspec is not None:
                cases.append((label, o, mspec, rp))
        # correspondence
        mc = [("%s-%d-%d" % (tag, n[0], i), keep, ms[0], ms[1], ms[2], [ms[3]]) for i, (label, o, ms, rp) in enumerate(cases)]
        if mc:
            mres = model_cases(mc, xcheck=1)
            for (label, o, ms, rp), c in zip(cases, mc):
                m = mres.get((c[0] + ("k" if keep else "n"), ms[3]))
                if m is None:
                    ctx.fail("model-missing", "%s/%s" % (tag, label), rp, disagreement=True)
                    continue
                ofile = "-" if o.file is None else "%d:%s" % (len(o.file), _md5(o.file))
                obs = (obs_status(o), min(o.deletes, 1), ofile if o.path_kind in ("file", "absent") else m["file"])
                mod = (model_status(m), m["delete"], m["file"])
                if obs != mod:
                    ctx.fail("model-differs", "%s/%s keep=%s: binary %s, model %s" % (tag, label, keep, obs, mod),
                             dict(rp, model=m), disagreement=True)

    S, B = small.src, big.src
    okS = ("ok", (True, S, mfiles(small), None))
    for keep in (False, True):
        # --- creation failures
        scenario("outdir-missing", [("a", S, "fail", (False, S, {}, None))], None, keep, outdir=os.path.join(d, "cat", "nodir%d" % keep, "x"))
        scenario("outdir-under-proc", [("a", S, "fail", (False, S, {}, None))], None, keep, outdir="/proc/self/c19")
        scenario("outdir-under-sys", [("a", S, "fail", (False, S, {}, None))], None, keep, outdir="/sys/kernel")
        scenario("output-is-directory", [("a", S, "fail", (False, S, {}, None))],
                 lambda od: os.makedirs(os.path.join(od, "a.pcap")), keep)

        def notdir(od):
            with open(os.path.join(od, "f"), "w") as f:
                f.write("x")
        scenario("outdir-component-is-file", [("a", S, "fail", (False, S, {}, None))], notdir, keep,
                 explicit_out=lambda l: os.path.join("f", l + ".pcap"))
        scenario("explicit-output-missing-dir", [("a", S, "fail", (False, S, {}, None))], None, keep,
                 explicit_out=lambda l: os.path.join("no", "such", l + ".pcap"))
        scenario("output-name-too-long", [("a", S, "fail", (False, S, {}, None))], None, keep,
                 explicit_out=lambda l: "o" * 300 + ".pcap")
        # --- full device
        full = lambda names: (lambda od: [os.symlink("/dev/full", os.path.join(od, nm + ".pcap")) for nm in names])
        scenario("dev-full-small", [("a", S, "fail", (True, S, mfiles(small), 0))], full(["a"]), keep)
        scenario("dev-full-big", [("b", B, "fail", (True, B, mfiles(big), 0))], full(["b"]), keep)
        Z = ZERO_RECORD_PROGRAMS[2][1].encode()
        scenario("dev-full-no-records", [("a", Z, "fail", (True, Z, {}, 0))], full(["a"]), keep)
        scenario("outdir-missing-no-records", [("a", Z, "fail", (False, Z, {}, None))], None, keep,
                 outdir=os.path.join(d, "cat", "nodirz%d" % keep, "x"))
        scenario("output-is-directory-no-records", [("a", Z, "fail", (False, Z, {}, None))],
                 lambda od: os.makedirs(os.path.join(od, "a.pcap")), keep)
        ZJ = ZERO_RECORD_PROGRAMS[5][1].encode()
        scenario("multi-dev-full-no-records", [("a", S, ) + okS, ("m", ZJ, "fail", (True, ZJ, {}, 0)), ("c", Z, "ok", (True, Z, {}, None))],
                 full(["m"]), keep)
        # --- input failures
        scenario("input-missing", [("a", None, "fail", (True, None, {}, None))], None, keep)
        scenario("input-is-directory", [("a", "dir", "fail", (True, "unreadable", {}, None))], None, keep)
        scenario("input-name-too-long", [("a", "longname", "fail", (True, None, {}, None))], None, keep)
        # a path that names no file (a directory by construction): unreadable input, oracle only
        for nm, pth in (("dotdot", "path:@/.."), ("root", "path:/"), ("dot", "path:."), ("empty", "path:")):
            scenario("input-path-without-file-name-" + nm, [("a", S, ) + okS, ("m", pth, "fail", None)], None, keep)
        scenario("input-name-multibyte-utf8", [("caf\u00e9-\u4e16\u754c", S, ) + okS,
                                               ("manqu\u00e9", None, "fail", (True, None, {}, None))], None, keep)
        # input NAMES that are not valid UTF-8 (raw bytes in argv): an existing one is compiled like any other, a
        # missing one fails alone
        for ntag, nm in BYTE_NAMES[:3]:
            scenario("input-name-" + ntag, [("a", S, ) + okS, (nm[:-4], S, ) + okS,
                                            (b"missing-" + nm[:-4], None, "fail", (True, None, {}, None)), ("c", S, ) + okS],
                     None, keep)
        scenario("input-invalid-utf8-first-line", [("a", b"\xff\xfe\n" + S, "fail", (True, b"\xff\xfe\n" + S, mfiles(small), None))], None, keep)
        u8 = S + b"# \xc3\x28 broken\n" + b"u.client_dgram(\"after\");\n"
        scenario("input-invalid-utf8-after-packets", [("a", u8, "fail", (True, u8, mfiles(small), None))], None, keep)
        u8b = B + b"\xe2\x82\n"
        scenario("input-invalid-utf8-after-16k", [("b", u8b, "fail", (True, u8b, mfiles(big), None))], None, keep)
        # --- data files
        dfdir = os.path.join(datadir, "adir%d" % keep)
        os.makedirs(dfdir, exist_ok=True)
        present = os.path.join(datadir, "present.bin")
        with open(present, "wb") as f:
            f.write(b"DATA" * 50)
        for tag, path, expect in [("datafile-missing", os.path.join(datadir, "nosuch.bin"), "fail"),
                                  ("datafile-is-directory", dfdir, "fail"),
                                  ("datafile-name-too-long", os.path.join(datadir, "x" * 300), "fail"),
                                  ("datafile-empty-name", "", "fail"),
                                  ("datafile-under-file", os.path.join(present, "x"), "fail"),
                                  ("datafile-present", present, "ok")] + \
                [(t, pth, "fail") for t, pth in (("datafile-size0-unreadable-procdir", "/proc"), ("datafile-size0-unreadable-mem", "/proc/self/mem"),
                                                 ("datafile-size0-unreadable-sysdir", "/sys"), ("datafile-size0-unreadable-procnet", "/proc/self/net"))
                 # files that open, report size 0 and cannot be read: a reader that trusts the size never notices
                 if os.path.exists(pth)]:
            src = S + ('u.server_dgram(io::file("%s"));\nu.client_dgram("afterwards");\n' % path).encode()
            mf = dict(mfiles(small))
            if expect == "ok":
                mf[present] = b"DATA" * 50
            scenario(tag, [("a", src, expect, (True, src, mf, None))], None, keep)
        # the same unreadable data file named by several inputs of one invocation: each of them fails, none is compiled
        # with something else in its place
        for tag, path in (("missing", os.path.join(datadir, "nosuch.bin")), ("directory", dfdir)):
            srcs = [S + ('u.server_dgram(io::file("%s"));\nu.client_dgram("afterwards-%d");\n' % (path, j)).encode() for j in range(3)]
            scenario("datafile-%s-shared-by-three-inputs" % tag,
                     [(nm, sj, "fail", (True, sj, dict(mfiles(small)), None)) for nm, sj in zip("abc", srcs)], None, keep)
        # file NAMES that are not ASCII / not valid UTF-8 (paths are bytes: OsStr::from_bytes): missing, a directory,
        # and an existing readable file, which must be read correctly
        for ntag, nm in BYTE_NAMES:
            for kind in ("missing", "directory", "present"):
                bpath = os.path.join(datadir.encode(), b"%s-%s%d-" % (ntag.encode(), kind.encode(), keep) + nm)
                mf = dict(mfiles(small))
                if kind == "directory":
                    os.makedirs(bpath)
                elif kind == "present":
                    with open(bpath, "wb") as f:
                        f.write(b"\xe9DATA\x00" * 40)
                    mf[bpath] = b"\xe9DATA\x00" * 40
                src = S + b'u.server_dgram(io::file(' + path_literal(bpath) + b'));\nu.client_dgram("afterwards");\n'
                scenario("datafile-name-%s-%s" % (ntag, kind), [("a", src, "ok" if kind == "present" else "fail",
                                                                  (True, src, mf, None))], None, keep)
        src = S + b'u.server_dgram(io::file("/tmp/a|00|b"));\n'
        scenario("datafile-nul-in-name", [("a", src, "fail", (True, src, mfiles(small), None))], None, keep)
        src = B + ('u.server_dgram(io::file("%s"));\n' % os.path.join(datadir, "nosuch.bin")).encode()
        scenario("datafile-missing-after-16k", [("b", src, "fail", (True, src, mfiles(big), None))], None, keep)
        # --- several inputs on one command line, one of them suffering
        scenario("multi-input-missing", [("a", S, ) + okS, ("m", None, "fail", (True, None, {}, None)), ("c", S, ) + okS], None, keep)
        # the exit status is a status, not a count: 256 (and 512) failing inputs still exit non-zero
        if keep:
            scenario("multi-256-inputs-missing", [("m%03d" % i, None, "fail", (True, None, {}, None)) for i in range(256)], None, keep)
            scenario("multi-512-inputs-missing-one-good", [("m%03d" % i, None, "fail", (True, None, {}, None)) for i in range(300)]
                     + [("a", S, ) + okS] + [("n%03d" % i, None, "fail", (True, None, {}, None)) for i in range(212)], None, keep)
        scenario("multi-create-fails", [("a", S, ) + okS, ("m", S, "fail", (False, S, {}, None)), ("c", S, ) + okS],
                 lambda od: os.makedirs(os.path.join(od, "m.pcap")), keep)
        scenario("multi-dev-full", [("a", S, ) + okS, ("m", B, "fail", (True, B, mfiles(big), 0)), ("c", S, ) + okS],
                 full(["m"]), keep)
        scenario("multi-rlimit", [("a", S, "ok", (True, S, mfiles(small), 9000)), ("m", B, "fail", (True, B, mfiles(big), 9000)),
                                  ("c", S, "ok", (True, S, mfiles(small), 9000))], None, keep, rlimit=9000)
        scenario("multi-rlimit-flush", [("a", S, "ok", (True, S, mfiles(small), 800)),
                                        ("m", S + b'u.client_dgram("%s");\n' % (b"z" * 400), "fail",
                                         (True, S + b'u.client_dgram("%s");\n' % (b"z" * 400), mfiles(small), 800)),
                                        ("c", S, "ok", (True, S, mfiles(small), 800))], None, keep, rlimit=800)
        pe = S + b"u.client_dgram(;\n"
        scenario("multi-parse-error", [("a", S, ) + okS, ("m", pe, "fail", (True, pe, mfiles(small), None)), ("c", S, ) + okS], None, keep)
    # stdout itself full: observation only
    sd = os.path.join(d, "cat", "stdoutfull")
    os.makedirs(sd)
    with open(os.path.join(sd, "a.rsyn"), "wb") as f:
        f.write(S)
    with open("/dev/full", "w") as full_out:
        pr = subprocess.run([binary, "--color", "never", "--out-dir", sd, os.path.join(sd, "a.rsyn")], stdout=full_out,
                            stderr=subprocess.PIPE)
    ctx.dist["stdout_full"] = {"rc": pr.returncode, "stderr": pr.stderr.decode("utf-8", "replace").strip()[:200],
                               "output_file_present": os.path.exists(os.path.join(sd, "a.pcap"))}


# ---------------------------------------------------------------- driver

def prepare(ctx, P, d, datadir):
    os.makedirs(os.path.join(d, "src"))
    os.makedirs(os.path.join(d, "out"))
    for p in P:
        with open(os.path.join(d, "src", p.name + ".rsyn"), "wb") as f:
            f.write(p.src)
        for fn, c in p.files.items():
            with open(os.path.join(datadir, fn), "wb") as f:
                f.write(c)
    _G.update({"dir": d, "progs": P, "binary": common.RESYNTH, "datadir": datadir})
    for p in P:
        p.base = None
    # fault-free runs, with -k so that a program that fails by itself still shows what it wrote
    res = run_pool([(i, None, True) for i in range(len(P))], chunk=4)
    # the worker compares against p.base (unset here): read the files again through a second, direct run
    by = {r[0]: r for r in res}
    signal.signal(signal.SIGXFSZ, signal.SIG_IGN)
    for i, p in enumerate(P):
        inpath = os.path.join(d, "src", p.name + ".rsyn")
        od = os.path.join(d, "out", "base")
        os.makedirs(od, exist_ok=True)
        rc, so, se = _run_one(common.RESYNTH, ["--color", "never", "-k", "--out-dir", od, inpath], None)
        o = observe(inpath, os.path.join(od, p.name + ".pcap"), rc, so, se)
        p.base = o.file if o.file is not None else b""
        p.status = obs_status(o)
        p.bounds = record_bounds(p.base)
        if by[i][4] != p.status:
            ctx.fail("nondeterministic", "%s: two fault-free runs differ: %s / %s" % (p.name, by[i][4], p.status),
                     replay_dict(p, None, True), disagreement=True)


def run(ctx):
    d = common.workdir("c19")
    datadir = os.path.join(d, "data")
    os.makedirs(datadir)
    P = make_programs(ctx, datadir)
    prepare(ctx, P, d, datadir)
    # fault-free correspondence
    mfiles = lambda p: {os.path.join(datadir, k): v for k, v in p.files.items()}
    m0 = model_cases([(p.name, True, True, p.src, mfiles(p), [None]) for p in P], xcheck=1)
    for p in P:
        m = m0.get((p.name + "k", None))
        ctx.count("fault-free:" + p.kind.split(":")[0])
        mine = (p.status, "%d:%s" % (len(p.base), _md5(p.base)))
        if m is None or (model_status(m), m["file"]) != mine:
            ctx.fail("model-differs", "%s without fault: binary %s, model %s" % (p.name, mine, m), replay_dict(p, None, True),
                     disagreement=True)
        if p.status.startswith("PANIC") or p.status == "NOTHING":
            ctx.fail("panic-without-fault", "%s: %s" % (p.name, p.status), replay_dict(p, None, True))
    # offsets
    full_upto = 20000 if ctx.thorough else 2600
    nrandom = 300 if ctx.thorough else 30
    radius = 40 if ctx.thorough else 20
    jobs, mcases = [], []
    sizes, noffs, straddle = {}, 0, 0
    for i, p in enumerate(P):
        offs = choose_offsets(ctx, p, full_upto, nrandom, radius)
        sizes[p.name] = {"kind": p.kind, "bytes": len(p.base), "records": len(p.bounds), "offsets": len(offs),
                         "fault_free": p.status}
        noffs += len(offs)
        straddle += sum(1 for L in offs if CAP - 40 <= L < len(p.base))
        for L in offs:
            jobs.append((i, L, True))
            # without -k: every third offset, every offset near a mark
            near = any(abs(L - m) <= 2 for m in [0, len(p.base)] + p.bounds) or (L % CAP) <= 2 or (L % CAP) >= CAP - 2
            if near or L % 3 == 0 or len(p.base) <= 64:
                jobs.append((i, L, False))
        mcases.append((p.name, "both", True, p.src, mfiles(p), offs))
    ctx.rng.shuffle(jobs)
    t0 = time.time()
    model = model_cases(mcases, xcheck=199)
    t1 = time.time()
    results = run_pool(jobs)
    t2 = time.time()
    stats = {"write_fault_reports": 0, "located_at_statement": 0, "located_at_flush_or_create": 0}
    per_kind = {}
    for res in results:
        p = P[res[0]]
        ctx.count("rlimit:" + p.kind.split(":")[0])
        if res[1] < len(p.base):
            ctx.distinct((p.name, res[1], res[2]))
        judge(ctx, p, res, model, stats)
        k = per_kind.setdefault(p.kind.split(":")[0], [0, 0])
        k[0] += 1
        k[1] += 1 if res[1] < len(p.base) else 0
    catalogue(ctx, d, datadir)
    ctx.dist.update({"programs": sizes, "offsets_total": noffs, "faulted_runs": len(jobs),
                     "runs_per_program_kind[total,faulted]": per_kind,
                     "offsets_at_or_beyond_first_buffer_boundary": straddle,
                     "fault_kinds": ["RLIMIT_FSIZE at every chosen offset", "/dev/full", "creation failures", "input failures",
                                     "data-file failures", "several inputs"],
                     "model_report_classes": stats, "seconds": {"model": round(t1 - t0, 1), "binary": round(t2 - t1, 1)}})
    ctx.obligation("at least one write fault was reported at a statement (line:col) and one at the final flush",
                   stats["located_at_statement"] > 0 and stats["located_at_flush_or_create"] > 0, str(stats))
    for p in P[:3]:
        ctx.sample({"program": p.src.decode("utf-8", "replace")[:600], "kind": p.kind, "full_length": len(p.base),
                    "record_ends": p.bounds[:8]})
    shutil.rmtree(d, ignore_errors=True)


def replay(ctx, rp):
    d = common.workdir("c19r")
    datadir = rp.get("data_dir") or os.path.join(d, "data")
    if "scenario" in rp:
        ctx.dist["note"] = "catalogue scenarios are replayed by running the whole catalogue"
        os.makedirs(os.path.join(d, "data"), exist_ok=True)
        catalogue(ctx, d, os.path.join(d, "data"))
        shutil.rmtree(d, ignore_errors=True)
        return
    made = not os.path.isdir(datadir)
    os.makedirs(datadir, exist_ok=True)
    files = {}
    for k, v in rp.get("files", {}).items():
        if v.startswith("bytes("):
            n = int(re.search(r"range\((\d+)\)", v).group(1))
            files[k] = bytes((i * 7 + n) & 0xff for i in range(n))
        else:
            files[k] = bytes.fromhex(v)
    p = Prog("replay", rp.get("program_kind", "replay"), bytes.fromhex(rp["program_hex"]), files)
    prepare(ctx, [p], d, datadir)
    limit, keep = rp["fault"]["limit"], rp["keep"]
    mf = {os.path.join(datadir, k): v for k, v in p.files.items()}
    model = model_cases([(p.name, keep, True, p.src, mf, [limit])], xcheck=1)
    stats = {"write_fault_reports": 0, "located_at_statement": 0, "located_at_flush_or_create": 0}
    for res in run_pool([(0, limit, keep)], chunk=1):
        ctx.count("replay")
        judge(ctx, p, res, model, stats)
    shutil.rmtree(d, ignore_errors=True)
    if made:
        shutil.rmtree(datadir, ignore_errors=True)
