"""C01 -- successful runs yield a well-formed pcap holding exactly the emitted packets."""
import struct
import random
import common, diff, gen, progs
from diff import Case
from gen import *

THEOREMS = ["C01_pcap_read_file", "C01_write_packet_exact", "C01_eval_writes_nothing", "C01_run_decomposes",
            "C01_program_pcap", "C01_empty_program", "C01_reemit_same",
            # end to end from source bytes, failing runs, let-bound packets at file level, headroom (Props/C01b.v)
            "C01b_cli_is_front_then_interpreter", "C01b_front_end_meets_specifications", "C01b_compiles_is_sentence",
            "C01b_compiles_functional", "C01b_eof_accepts_or_fails", "C01b_process_file_ok",
            "C01b_process_file_err", "C01b_failing_statement_writes_nothing", "C01b_source_run_is_compile_then_run",
            "C01b_source_pcap", "C01b_failed_run_partial_pcap", "C01b_final_newline_irrelevant",
            "C01b_one_value_per_expression_statement", "C01b_small_file_records_ok", "C01b_pcap_read_small_file",
            "C01b_rec_ok_is_about_frames", "C01b_let_writes_nothing", "C01b_bound_name_emits_stored_value",
            "C01b_let_uses_file", "C01b_let_mid_use_file", "C01b_let_k_uses_file",
            "C01b_write_returns_headroom", "C01b_rewrite_any_number_of_times"]
PROPS = ["C01", "C01b"]
VO = ["theories/Props/C01.vo", "theories/Props/C01b.vo"]
RULE = ("random programs over every builder, tunnels nested to depth 3, let-bound packets and sequences re-emitted "
        "0/1/many times and out of order, time jumps, the empty program, the import-only program, frames from the bare "
        "14-byte eth::frame() up to a 65535-byte datagram fed from a data file, raw and framed.  Non-trivial = at least "
        "two records; distinct by program text")
NOTES = ["oracle on the implementation's file: Spec.PcapRead.pcap_read (extracted from Coq) must parse it completely "
         "(magic a1b23c4d, version 2.4, link type 1, records to the exact end); every record has caplen = len = frame "
         "length (the contents of the frames are compared by C02-C07/C18, here only their number and lengths); the number of records per statement equals the generator's per-statement packet count; a stored value "
         "emitted k times appears as k byte-identical frames.  Correspondence: the whole file equals the model's file",
         "exit status 0 and the '<in> -> <out> ok' line are required for a run to count as successful"]
MODELLED = ("pkt/src/pcap.rs, pkt/src/packet.rs (headroom, write path), src/program.rs add_stmt/add_expr, "
            "src/cli.rs success path: Pkt/Pcap.v, Pkt/Packet.v, Interp/Eval.v")


def special(ctx):
    out = []
    r = ctx.rng

    def mk(name, stmts, files=None, **g):
        c = Case()
        c.name, c.stmts, c.files, c.text, c.meta, c.gen = name, stmts, files or {}, None, None, g
        out.append(c)
    mk("empty", [], kind="empty", nrec=0)
    mk("imports", [Import("ipv4"), Import("eth"), Import("ipv4")], kind="imports-only", nrec=0)
    mk("bare", [Import("eth"), Do(Call("eth::frame", STR(b"\x01" * 6), STR(b"\x02" * 6)))], kind="bare-frame", nrec=1, lens=[14])
    # frames around the size of the 16-byte record header that is prepended in place, each followed by more packets
    for n in (0, 1, 2, 3):
        mk("tiny%d" % n, [Import("eth"), Import("ipv4"),
                          Do(Call("eth::frame", STR(b"\x01" * 6), STR(b"\x02" * 6), _x=[STR(b"\x07" * n)] if n else [])),
                          Do(Call("ipv4::udp::unicast", SOCK("1.2.3.4:1"), SOCK("1.2.3.5:2"), _x=[STR("after")])),
                          Do(Call("eth::frame", STR(b"\x01" * 6), STR(b"\x02" * 6), _x=[STR(b"\x08" * n)] if n else []))],
           kind="tiny-frame", nrec=3, lens=[14 + n, 47, 14 + n])
    mk("letonly", [Import("ipv4"), Let("p", Call("ipv4::udp::unicast", SOCK("1.2.3.4:1"), SOCK("1.2.3.5:2"), _x=[STR("x")]))],
       kind="let-only", nrec=0)
    st = [Import("ipv4"), Let("p", Call("ipv4::udp::unicast", SOCK("1.2.3.4:1"), SOCK("1.2.3.5:2"), _x=[STR("abc")])),
          Let("t", Call("ipv4::tcp::flow", SOCK("1.2.3.4:1"), SOCK("1.2.3.5:2"))), Let("g", Call("t.open"))]
    order = [r.choice(["p", "g"]) for _ in range(r.randint(2, 9))]
    st += [Do(Ref(x)) for x in order]
    mk("reemit", st, kind="re-emission", nrec=sum(1 if x == "p" else 3 for x in order), order=order)
    for i, n in enumerate([65535 - 28, 65535 - 28 - 1, 9000, 1500]):
        data = bytes(r.getrandbits(8) for _ in range(n))
        fn = "c01big%d.bin" % i
        mk("big%d" % i, [Import("ipv4"), Import("io"),
                         Do(Call("ipv4::udp::unicast", SOCK("1.2.3.4:1"), SOCK("1.2.3.5:2"),
                                 _x=[Call("io::file", STR("@WD@/" + fn))], **({"raw": True} if i % 2 else {})))],
           files={fn: data}, kind="big-frame", nrec=1, lens=[n + 28 + (0 if i % 2 else 14)])
    # a source the reader cannot decode half way through (a Latin-1 byte in a comment, a lone continuation byte, a
    # truncated sequence at the end of a line): it does not compile; were it reported ok, the packets of the statements
    # after that line would be missing from the file
    pre = "import ipv4;\nlet t = ipv4::tcp::flow(1.2.3.4:1, 1.2.3.5:2);\nt.open();\n"
    post = "t.client_message(\"GET / HTTP/1.0\");\nt.server_message(\"200 OK\");\nt.client_close();\n"
    for i, bad in enumerate([b"# caf\xe9\n", b"// \x80\n", b"t.client_message(\"x\"); # \xc3\n", b"\xff\n", b"# \xe2\x82\n"]):
        c = Case()
        c.name, c.stmts, c.files, c.text, c.meta = "undec%d" % i, [], {}, None, None
        c.src = pre.encode() + bad + post.encode()
        c.gen = {"kind": "undecodable-line", "nrec": 10 + (1 if i == 2 else 0)}
        out.append(c)
    return out


def claimed_outputs(ctx):
    """several inputs in one invocation, some mapping to the same output name (the later one is refused), with and
    without -k: every input that is REPORTED ok must own, when the compiler exits, a well-formed capture holding its
    packets -- whatever happened to the inputs after it"""
    import os, subprocess
    d = common.workdir("c01claim")
    mk = lambda n: "import ipv4;\n" + "".join("ipv4::udp::unicast(1.2.3.4:1, 1.2.3.5:2, \"%d-%d\");\n" % (n, i) for i in range(n))
    layout = [("a/x.rsyn", 5), ("b/x.rsyn", 2), ("y.rsyn", 3), ("c/y.rsyn", 4), ("z.rsyn", 1),
              # stems that differ only after their last dot share an output name too (the extension replaces it)
              ("t.client.rsyn", 3), ("t.server.rsyn", 1), ("u.v.w.rsyn", 2), ("u.v.x.rsyn", 4)]
    for rel, n in layout:
        os.makedirs(os.path.dirname(os.path.join(d, rel)) or d, exist_ok=True)
        open(os.path.join(d, rel), "w").write(mk(n))
    for keep, verbose in ((False, False), (True, False), (False, True)):
        od = os.path.join(d, "out%d%d" % (keep, verbose))
        os.makedirs(od)
        # (the output directory is named relatively on one run and absolutely on the others)
        args = [common.RESYNTH, "--color", "never", "--out-dir", os.path.basename(od) if not keep and not verbose else od] + \
            (["-k"] if keep else []) + (["-v"] if verbose else []) + [rel for rel, _ in layout]
        p = subprocess.run(args, cwd=d, stdout=subprocess.PIPE, stderr=subprocess.PIPE, timeout=120)
        so = p.stdout.decode("utf-8", "replace")
        ctx.count("several inputs, colliding output names")
        for rel, n in layout:
            for l in so.splitlines():
                if l.startswith(rel + " -> ") and l.rstrip().endswith(" ok"):
                    out = l[len(rel) + 4:].rstrip()[:-3]
                    out = out if os.path.isabs(out) else os.path.join(d, out)
                    try:
                        ok, recs = common.pcap_records(open(out, "rb").read())
                    except OSError:
                        ok, recs = False, None
                    if not ok or len(recs) != n:
                        ctx.fail("claimed-output-lost", "%s is reported ok (%d packets) but %s %s when the compiler exits"
                                 % (rel, n, os.path.basename(out), "does not exist" if recs is None else "holds %d records" % len(recs)),
                                 {"inputs": {rel2: mk(n2) for rel2, n2 in layout}, "keep": keep, "verbose": verbose, "stdout": so[-3000:],
                                  "how": "write the inputs under their relative names, run resynth --out-dir out%s%s %s from that directory"
                                         % (" -k" if keep else "", " -v" if verbose else "", " ".join(rel2 for rel2, _ in layout))})


def named_outputs(ctx):
    """-o names with and without an extension, relative and absolute: the file named in the `-> <out> ok` line is the
    file that holds the packets, and an older file of that name does not survive"""
    import os, subprocess
    d = common.workdir("c01names")
    mk = lambda n: "import ipv4;\n" + "".join("ipv4::udp::unicast(1.2.3.4:1, 1.2.3.5:2, \"%d-%d\");\n" % (n, i) for i in range(n))
    ins = [("one.rsyn", 3), ("two.rsyn", 5), ("three.rsyn", 2), ("four.rsyn", 4)]
    outs = ["capture", "sub/dir.d/trace.out", os.path.join(d, "abs.capture.bin"), "noext.v2"]
    os.makedirs(os.path.join(d, "sub", "dir.d"))
    for (rel, n), o in zip(ins, outs):
        open(os.path.join(d, rel), "w").write(mk(n))
        open(os.path.join(d, o), "wb").write(common.STALE_OUTPUT)          # an older, longer file of that name
    args = [common.RESYNTH, "--color", "never"]
    for o in outs:
        args += ["-o", o]
    p = subprocess.run(args + [rel for rel, _ in ins], cwd=d, stdout=subprocess.PIPE, stderr=subprocess.PIPE, timeout=120)
    so = p.stdout.decode("utf-8", "replace")
    ctx.count("explicit output names")
    for (rel, n), o in zip(ins, outs):
        line = "%s -> %s ok" % (rel, o)
        rp = {"inputs": {r2: mk(n2) for r2, n2 in ins}, "outputs": outs, "stdout": so[-2000:], "named": True,
              "how": "write the inputs, run resynth -o %s %s in that directory" % (" -o ".join(outs), " ".join(r2 for r2, _ in ins))}
        if line not in so:
            ctx.fail("named-output-line", "%s is not reported as `%s`" % (rel, line), rp)
            continue
        try:
            ok, recs = common.pcap_records(open(os.path.join(d, o), "rb").read())
        except OSError:
            ok, recs = False, None
        if not ok or len(recs) != n:
            ctx.fail("named-output-lost", "%s is reported ok into %s, which %s" % (rel, o, "does not exist" if recs is None else
                     "is not the capture of its %d packets (%s records readable)" % (n, len(recs) if ok else "no")), rp)


def run(ctx):
    claimed_outputs(ctx)
    named_outputs(ctx)
    from props.c02 import fix_paths
    import os
    n = 500 if ctx.thorough else 90
    cases = []
    for i in range(n):
        g = progs.random_program(ctx.rng, jumps=0.08, tunnels=0.25, lets=0.35, maxlen=60, big=0.03)
        c = Case()
        c.name, c.stmts, c.files, c.text, c.meta = "p%d" % i, g.stmts, {}, None, g.meta
        if i % 3:
            # several statements on one line / statements broken across lines: records stay in statement order
            from props.c14 import render
            c.text = render(g.stmts, random.Random(ctx.rng.getrandbits(32)), ("groups", "split", "one", "groups")[i % 4])[0]
        c.gen = {"kind": "random", "nrec": sum(m["npk"] for m in g.meta), "per_stmt": [m["npk"] for m in g.meta if m["npk"]]}
        cases.append(c)
    sp = special(ctx)
    fix_paths(sp, common.BUILD + "/work/c01-%d" % os.getpid())
    cases += sp
    diff.run_both(ctx, "c01", cases)
    queries, owners = [], []
    for c in cases:
        ctx.count(c.gen["kind"])
        if c.impl.status in ("crash", "timeout") and c.model["status"] == "ok":
            # the property is about every program the compiler accepts: no output at all for packets the model emits
            ctx.fail("emit-crash", "the compiler crashed while emitting packets the model writes: " + str(c.impl.kind)[:200],
                     diff.replay_of(c))
        if c.gen["kind"] == "undecodable-line" and c.impl.status == "ok":
            ok_, recs_ = common.pcap_records(c.impl.pcap or b"")
            ctx.fail("statements-lost", "a source with an undecodable line is reported ok with %d records; its statements "
                     "emit %d packets when the line is repaired" % (len(recs_), c.gen["nrec"]),
                     diff.replay_of(c, {"source_hex": c.src.hex()}))
            continue
        if not diff.triage(ctx, c):
            continue
        if c.impl.pcap is None:
            ctx.fail("no-output", "run reported ok but no output file exists", diff.replay_of(c))
            continue
        queries.append("pcap " + (c.impl.pcap.hex() or "-"))
        owners.append(c)
    answers = common.spec_batch(queries, "c01")
    for c, a in zip(owners, answers):
        before = len(ctx.violations)
        if not a.startswith("RECS"):
            ctx.fail("pcap-malformed", "Spec.PcapRead.pcap_read rejects the output file (%d bytes)" % len(c.impl.pcap),
                     diff.replay_of(c))
            continue
        recs = [t.split(":") for t in a.split(" ")[1:] if t]
        frames = [bytes.fromhex(t[4]) if t[4] != "-" else b"" for t in recs]
        for i, t in enumerate(recs):
            if not (int(t[2]) == int(t[3]) == len(frames[i])):
                ctx.fail("pcap-lengths", "record %d: caplen %s len %s frame %d" % (i, t[2], t[3], len(frames[i])), diff.replay_of(c))
                break
        g = c.gen
        if len(recs) != g["nrec"] and len(ctx.violations) == before:
            ctx.fail("record-count", "%d records, the program's expression statements emit %d packets" % (len(recs), g["nrec"]),
                     diff.replay_of(c))
        if g.get("lens") and [len(f) for f in frames] != g["lens"] and len(ctx.violations) == before:
            ctx.fail("frame-length", "frame lengths %s, expected %s" % ([len(f) for f in frames], g["lens"]), diff.replay_of(c))
        if g["kind"] == "re-emission" and len(ctx.violations) == before:
            # p -> 1 frame, g -> 3 frames; every emission of the same name must give identical bytes
            i, seen = 0, {}
            for x in g["order"]:
                k = 1 if x == "p" else 3
                grp = frames[i:i + k]
                i += k
                if seen.setdefault(x, grp) != grp:
                    ctx.fail("reemit-differs", "a stored value emitted twice produced different bytes", diff.replay_of(c))
                    break
        if c.impl.pcap != c.model["pcap"] and len(ctx.violations) == before:
            # what the packets contain is the business of C02-C07/C18; C01 compares the record structure
            okm, recm = common.pcap_records(c.model["pcap"])
            if [len(f) for f in frames] != [len(x[4]) for x in recm]:
                ctx.fail("records-differ", "record structure (count, lengths) differs from the model's file",
                         diff.replay_of(c), disagreement=True)
        if len(recs) >= 2:
            ctx.distinct(c.text)
    diff.vacuity_guard(ctx, len(cases))
    ctx.dist["files_parsed_by_spec_reader"] = len(queries)
    ctx.sample({"program": cases[0].text[:1500], "records": cases[0].gen["nrec"]})


def replay(ctx, rp):
    ctx.count("replay")
    if "inputs" in rp:
        return named_outputs(ctx) if rp.get("named") else claimed_outputs(ctx)
    if rp.get("source_hex"):         # only the undecodable-line cases carry their source as bytes
        d, res = common.run_programs("c01r", {"replay": bytes.fromhex(rp["source_hex"])})
        if res["replay"].status == "ok":
            return ctx.fail("statements-lost", "a source with an undecodable line is reported ok", rp)
        return None
    d, res = common.run_programs("c01r", {"replay": rp["program"]},
                                 files={k: bytes.fromhex(v) for k, v in rp.get("files", {}).items()})
    r = res["replay"]
    if r.status != "ok":
        return ctx.fail("replay-not-ok", "impl outcome %s %s" % (r.status, r.kind), {"program": rp["program"]})
    a = common.spec_batch(["pcap " + (r.pcap.hex() or "-")], "c01r")[0]
    if not a.startswith("RECS"):
        return ctx.fail("pcap-malformed", "pcap_read rejects the output", {"program": rp["program"]})
    if rp.get("model", {}).get("pcap") and r.pcap.hex() != rp["model"]["pcap"]:
        ctx.fail("file-differs", "output differs from the model output recorded in the replay", {"program": rp["program"]})
