"""C10 -- the lexer tokenises every line as the lexical rules prescribe, exact columns.

Three sides read the same case file (one case per line = hex-encoded source lines for one Lexer):
  impl  = /verif/harness lexh         : the real resynth::verif::Lexer, every call under catch_unwind
  model = rsmodel_lex lex             : Lex/Scanner.v (extracted)
  spec  = rsmodel_lex spec            : Lex/LexSpec.v (extracted) -- the oracle
impl != spec on a case is a violation (the concrete lines are the replay); impl == spec but
impl != model is a disagreement (correspondence broken)."""
import itertools, multiprocessing, os, random, subprocess
import common

# the lexer model is not part of Interp/Run.vo's dependency cone: have the build compile it before extraction
for _vo in ("theories/Lex/Scanner.vo", "theories/Lex/LexSpec.vo"):
    if _vo not in common.MODEL_VOS:
        common.MODEL_VOS = list(common.MODEL_VOS) + [_vo]

THEOREMS = ["C10_scan_meets_spec", "C10_lex_total", "C10_lexemes_partition", "C10_tokens_of_lexemes", "C10_column_exact",
            "C10_error_at_first_unmatchable", "C10_keyword_unless_ident_follows", "C10_ident_int_maximal",
            "C10_string_merge_lines", "C10_string_merge_split", "C10_string_merge_skip", "C10_lex_pure",
            "C10_wordchar_irrelevant"]
MODELS = ("lex",)
RULE = ("exhaustive: every string of length <= 4 (quick) / <= 5 (thorough) over a 40-symbol alphabet covering every "
        "character class the rules distinguish, each as a fresh line followed by a flush line `;`, and (length <= 4) also "
        "after a pending literal \"q\" and after a pending empty literal \"\"; plus keyword x next-character products, "
        "dotted quads over boundary octets, random long lines from token/Unicode fragments, and random multi-line "
        "sequences with literals pending across lines.  A case is non-trivial when the real lexer returns at least one "
        "token or an error beyond column 1; distinct = distinct case inputs (all exhaustive cases are distinct by "
        "construction; the recorded number hashes only the non-exhaustive generators and a sample of the exhaustive one)")
NOTES = ["all target theorems are proved at full strength (no _partial statements): scan_meets_spec, lexemes_partition "
         "(+ tokens_of_lexemes, column_exact), error_at_first_unmatchable (an iff), keyword_unless_ident_follows, "
         "ident_int_maximal, string_merge (three statements: line breaks, splitting a literal, skipped lexemes), lex_pure, "
         "lex_total; plus wordchar_irrelevant",
         "precondition of every theorem about lex_line: the line is valid UTF-8 (Rust cannot call Lexer::line otherwise: it "
         "takes &str; cli.rs reads lines with BufRead::lines, which fails first)",
         "string_merge is stated on lexeme sequences (C10_string_merge_split / _skip) plus the line-break theorem "
         "C10_string_merge_lines; it is not stated as an equation between two source texts because a literal's neighbours "
         "decide where lexemes end (maximal munch), which the lexeme-level statement makes explicit",
         "Loc::new narrows line and column to u32: the model and the theorems carry the `mod 2^32` (C10_column_exact gives "
         "the plain column for lines shorter than 4 GiB)",
         "the lexer accepts a line containing U+000A (the newline rule of LEX_RE); the model and the enumeration include it "
         "although cli.rs never passes one",
         "out-of-scope observation (DESIGN 1.1): a literal still pending when the file ends is never delivered",
         "build: this module appends theories/Lex/Scanner.vo and theories/Lex/LexSpec.vo to common.MODEL_VOS at import "
         "time so that they are compiled before coq/extract/lex is extracted (they are not yet in Interp/Run.vo's cone)",
         "the oracle is the extracted LexSpec.spec_line run on the same inputs as the real lexer (impl != spec is a "
         "violation, shrunk greedily by lines then characters); impl == spec != model is a disagreement"]
MODELLED = ("src/lex.rs LEX_RE (the regex crate's leftmost-first semantics, Unicode \\s and \\b) and Lexer::line, "
            "src/loc.rs Loc::new are modelled by hand in Lex/Scanner.v; theorems are about that model, tied to the real "
            "lexer by exhaustive short-string enumeration and random long/multi-line cases through the public "
            "Lexer::line / Token::{loc,tok_type,optval} / Lexer::loc; the non-ASCII part of the regex crate's \\w table is "
            "a parameter of the model, proved irrelevant (C10_wordchar_irrelevant)")

# ------------------------------------------------------------------------------------------------ alphabets

ALPHABET = (list("xafletimporus") + list("012569") + ['"', "|"] + list("().:;=,") + ["-", "#", "/", " ", "\t", "\r"]
            + ["\u00e9", "\u20ac", "\u00a0"] + ["_", "A", "\n"])
assert len(ALPHABET) == 40 and len(set(ALPHABET)) == 40
HX = [c.encode("utf-8").hex() for c in ALPHABET]

FLUSH = ";".encode().hex()
VARIANTS = {"fresh": "", "pending-q": '"q"'.encode().hex() + " ", "pending-empty": '""'.encode().hex() + " "}

WS = [" ", "\t", "\r", "\x0b", "\x0c", "\u00a0", "\u0085", "\u1680", "\u2003", "\u200a", "\u2028", "\u2029", "\u202f",
      "\u205f", "\u3000", "  ", " \t "]
NONWS = ["\u00e9", "\u20ac", "\u0301", "\u0660", "\u200d", "\u200c", "\u203f", "\U0001F600", "\u200b", "\u180e", "\ufeff",
         "\u00df", "\u03a9", "\u4e2d", "\u00aa", "\u00b2", "\u00bd", "\u2160", "\uff10", "\uff3f", "\x00", "\x7f", "\x1c",
         "\x1f", "$", "@", "!", "%", "&", "*", "+", "<", ">", "?", "[", "]", "\\", "^", "`", "{", "|", "}", "~", "'"]
KEYWORDS = ["import", "let", "true", "false"]
IDENTS = ["x", "_a1", "A_Z", "importx", "lets", "truefalse", "xtrue", "i", "im", "impor", "t", "tr", "fa", "fals", "_",
          "Let", "TRUE", "imp0rt", "l3t"]
NUMBERS = ["0", "00", "007", "123", "-5", "--5", "-", "-x", "5-5", "0x", "0x1F", "0xfg", "0X1", "0x-1", "1x", "0xABCDEFabcdef",
           "18446744073709551616", "-0", "-0x1", "0x0x", "1e5", "12_3"]
OCTETS = ["0", "00", "000", "1", "01", "001", "9", "10", "19", "99", "100", "199", "200", "240", "249", "250", "255", "256",
          "259", "260", "299", "300", "999", "2550", "1234", "025", "25", "24", "2"]
STRINGS = ['""', '"a"', '"a b"', '"#x"', '"//x"', '"\u00e9\u20ac"', '"', '"abc', '"a""b"', '"a" "b"', '"|ff|"', '"\t"',
           '"" ""', '"x"#c', '"x"//c', '"let"', '"1.2.3.4"', '"\u00a0"']
COMMENTS = ["#", '# hi "x"', "//", "// x", "/", "/ /", "/#", "#\u00e9", "//\u20ac \"", "/x", "//\"a\""]
PUNCT = ["(", ")", ".", "::", ":", ";", "=", ",", "/", ":::", "..", "::::", ":;", "()", "=="]
VALID_FRAGS = (KEYWORDS * 3 + IDENTS + ["0", "123", "-5", "0x1F", "1.2.3.4", "255.255.255.255", "10.0.0.1"]
               + ['""', '"a"', '"a b"', '"#x"', '"\u00e9"', '"a""b"'] * 2 + PUNCT[:9] * 2)


def enc(s):
    b = s.encode("utf-8")
    return b.hex() if b else "-"


# ------------------------------------------------------------------------------------------------ generators
# every generator writes one case per line to a file and returns the number of cases written

def gen_exhaustive(f, prefixes, lens, variants, short):
    """all strings over ALPHABET whose length is in `lens` (each >= 2) and whose first two symbols are one of `prefixes`
    (pairs of indices); `short` adds the strings of length < 2 (done by one shard only)"""
    n = 0
    for vname in variants:
        pre = VARIANTS[vname]
        post = " " + FLUSH + "\n"
        if short:
            f.write(pre + "-" + post)
            f.writelines(pre + h + post for h in HX)
            n += 1 + len(HX)
        for (a, b) in prefixes:
            p = pre + HX[a] + HX[b]
            for total in lens:
                k = total - 2
                f.writelines(p + s + post for s in map("".join, itertools.product(HX, repeat=k)))
                n += len(HX) ** k
    return n


def gen_keyword_products(f):
    n = 0
    nexts = sorted(set(ALPHABET + WS + NONWS + list("0123456789abcxyzXYZ_") + ["\u00e9x", "\u00a0x", "\u2003\u00e9"]))
    for kw in KEYWORDS + ["import" + "x", "tru", "lett", "falsey", "_true", "1let", "9import"]:
        for a in nexts:
            for tail in ("", "x", " x", "1", '"s"'):
                for lead in ("", "1", " ", "\u00e9", ".", '"p"'):
                    f.write(enc(lead + kw + a + tail) + " " + FLUSH + "\n")
                    n += 1
    return n


def gen_ipv4_products(f, rng, count):
    n = 0
    trailers = ["", ".", ".5", "x", " ", "5", ".1.1", ":80", "/24", "\u00e9", "-1", '"s"']
    # all 4-tuples over a boundary subset, one trailer each at random; plus 3- and 5-part forms
    sub = ["0", "00", "1", "01", "199", "200", "249", "250", "255", "256", "260", "300", "2550", "025"]
    for t in itertools.product(sub, repeat=4):
        f.write(enc(".".join(t) + rng.choice(trailers)) + " " + FLUSH + "\n")
        n += 1
    for _ in range(count):
        k = rng.choice([2, 3, 4, 4, 4, 4, 5, 6])
        parts = [rng.choice(OCTETS) for _ in range(k)]
        sep = [rng.choice([".", ".", ".", ".", "..", " .", ". ", ":", ""]) for _ in range(k - 1)]
        s = "".join(p + q for p, q in zip(parts, sep + [""]))
        lead = rng.choice(["", "", "", "x", " ", "-", "0x", "1", "(", "."])
        f.write(enc(lead + s + rng.choice(trailers)) + " " + FLUSH + "\n")
        n += 1
    return n


def rand_fragment(rng, valid_bias):
    if rng.random() < valid_bias:
        return rng.choice(VALID_FRAGS)
    r = rng.random()
    if r < 0.15:
        return rng.choice(KEYWORDS) + rng.choice(["", "x", "1", "_", "\u00e9", "\u20ac", "\u00a0", "\u0301", "(", ".", '"', "-"])
    if r < 0.25:
        return rng.choice(IDENTS)
    if r < 0.40:
        return rng.choice(NUMBERS)
    if r < 0.52:
        return ".".join(rng.choice(OCTETS) for _ in range(rng.choice([3, 4, 4, 4, 5])))
    if r < 0.67:
        return rng.choice(STRINGS)
    if r < 0.75:
        return rng.choice(COMMENTS)
    if r < 0.87:
        return rng.choice(PUNCT)
    if r < 0.93:
        return rng.choice(NONWS)
    return "".join(rng.choice(ALPHABET) for _ in range(rng.randint(1, 6)))


def rand_line(rng, valid_bias, maxfrags=14):
    out = []
    for _ in range(rng.randint(0, maxfrags)):
        out.append(rand_fragment(rng, valid_bias))
        r = rng.random()
        if r < 0.45:
            out.append(" ")
        elif r < 0.65:
            out.append(rng.choice(WS))
    if rng.random() < 0.15:
        out.append(rng.choice(["# c", "// c", "#", "//\"x\"", "\r"]))
    return "".join(out)


def gen_random_lines(f, rng, count):
    for _ in range(count):
        f.write(enc(rand_line(rng, rng.choice([0.0, 0.5, 0.9]))) + " " + FLUSH + "\n")
    return count


def gen_very_long(f, rng, count):
    """lines longer than 65535 bytes: tokens and the first unmatchable byte at columns that do not fit 16 bits"""
    n = 0
    for N in [65530, 65533, 65534, 65535, 65536, 65537, 70000][:count]:
        for line in ('"' + "a" * N + '" $', " " * N + "x $", "x" + " " * N + "1.2.3.4:5 0x1f $ y", "let" + "\t" * N + "v = é$",
                     '"' + "é" * (N // 2) + '" ipv4::x ('):
            f.write(enc(line) + " " + FLUSH + "\n")
            n += 1
    return n


def gen_random_alphabet(f, rng, count):
    for _ in range(count):
        k = rng.randint(5, 10)
        f.write("".join(rng.choice(HX) for _ in range(k)) + " " + FLUSH + "\n")
    return count


def gen_multiline(f, rng, count):
    """sequences of lines for one Lexer, biased to lines that lex, with literals left pending at line ends"""
    enders = ['""', '"a"', '"b c"', '"" ', '"a" # c', '"a" // c', '"a"\t', '"a" "b"', '"a"\u00a0', '"\u00e9"\r', '"x" #"y"']
    starters = ['""', '"z"', ' "z"', '"" x', '"z";', '# "n"', '', ' ', '"z" "w" ,', ')', '// "n"', '\t"t"']
    for _ in range(count):
        lines = []
        for _ in range(rng.randint(2, 6)):
            r = rng.random()
            body = rand_line(rng, rng.choice([0.9, 0.97, 1.0]), maxfrags=6)
            if r < 0.35:
                body = body + rng.choice(enders)
            elif r < 0.6:
                body = rng.choice(starters) + body
            elif r < 0.7:
                body = rng.choice(starters) + body + rng.choice(enders)
            elif r < 0.78:
                body = rng.choice(["", " ", "# only a comment", "\t", "//", "\u00a0"])
            lines.append(body)
        if rng.random() < 0.7:
            lines.append(rng.choice([";", ")", "x", "1", '"end" ;']))
        f.write(" ".join(enc(l) for l in lines) + "\n")
    return count


# ------------------------------------------------------------------------------------------------ running

def bins():
    return os.path.join(common.HARNESS_DIR, "lexh"), common.model_bin("lex")


def classify(impl, spec):
    """a name for the first difference between the implementation's and the specification's canonical lines"""
    if "PANIC" in impl:
        return "panic"
    a, b = impl.split(), spec.split()
    for x, y in zip(a, b):
        if x == y:
            continue
        if x.startswith("ERR@") and y.startswith("ERR@"):
            return "error-column"
        if x.startswith("ERR@") or y.startswith("ERR@"):
            return "accepted-vs-rejected"
        if x == "LOC" or y == "LOC" or x in ("|", ";") or y in ("|", ";"):
            return "token-count"
        kx, _, rx = x.partition("@")
        ky, _, ry = y.partition("@")
        if "@" not in x or "@" not in y:
            return "lexer-loc" if ":" in x and ":" in y else "token-count"
        if kx != ky:
            return "string-literal-lost-or-spurious" if "StringLiteral" in (kx, ky) else "token-kind"
        lx, _, vx = rx.partition("=")
        ly, _, vy = ry.partition("=")
        if lx != ly:
            return "string-token-column" if kx == "StringLiteral" else "token-column"
        return "string-value" if kx == "StringLiteral" else "token-value"
    return "token-count"


def run_file(path, cover=None, keep_outputs=False):
    """run the three sides over a case file, comparing line by line.
    -> dict(n, errs, toks, viol=[(case, impl, spec, model)], disag=[(case, impl, model)])"""
    lexh, model = bins()
    margs = [model, "lex"] + (["--cover", cover] if cover else []) + [path]
    ps = [subprocess.Popen([lexh, path], stdout=subprocess.PIPE),
          subprocess.Popen(margs, stdout=subprocess.PIPE),
          subprocess.Popen([model, "spec", path], stdout=subprocess.PIPE)]
    res = {"n": 0, "errs": 0, "nontrivial": 0, "viol": [], "disag": [], "outputs": []}
    n = 0
    with open(path, "rb") as fin:
        for case, a, b, c in zip(fin, ps[0].stdout, ps[1].stdout, ps[2].stdout):
            n += 1
            if a != c:
                if len(res["viol"]) < 40:
                    res["viol"].append((case.decode().strip(), a.decode().strip(), c.decode().strip(), b.decode().strip()))
            elif a != b:
                if len(res["disag"]) < 40:
                    res["disag"].append((case.decode().strip(), a.decode().strip(), b.decode().strip()))
            if b"ERR@" in a:
                res["errs"] += 1
                if b"ERR@1:1 " not in a:
                    res["nontrivial"] += 1
            elif b"@" in a:
                res["nontrivial"] += 1
            if keep_outputs:
                res["outputs"].append((case.decode().strip(), a.decode().strip(), b.decode().strip(), c.decode().strip()))
    rest = [p.stdout.read() for p in ps]
    rcs = [p.wait() for p in ps]
    with open(path, "rb") as fin:
        total = sum(1 for _ in fin)
    res["n"] = n
    if n != total or any(rest) or any(rcs):
        res["broken"] = "sides produced different numbers of lines (cases %d, compared %d, exit codes %s)" % (total, n, rcs)
    return res


def _shard(job):
    """worker: generate one shard's case file, run it, delete it"""
    d, idx, kind, arg, seed, want_cover = job
    path = os.path.join(d, "shard%d.cases" % idx)
    cov = os.path.join(d, "shard%d.cover" % idx) if want_cover else None
    rng = random.Random(seed)
    with open(path, "w") as f:
        if kind == "exhaustive":
            n = gen_exhaustive(f, arg["prefixes"], arg["lens"], arg["variants"], arg["short"])
        elif kind == "keywords":
            n = gen_keyword_products(f)
        elif kind == "ipv4":
            n = gen_ipv4_products(f, rng, arg)
        elif kind == "random-lines":
            n = gen_random_lines(f, rng, arg)
        elif kind == "random-alphabet":
            n = gen_random_alphabet(f, rng, arg)
        elif kind == "very-long":
            n = gen_very_long(f, rng, arg)
        elif kind == "multiline":
            n = gen_multiline(f, rng, arg)
        else:
            raise ValueError(kind)
    res = run_file(path, cover=cov)
    res["kind"], res["generated"] = kind, n
    res["cover"] = {}
    if cov and os.path.exists(cov):
        for l in open(cov):
            a, b, c = l.split()
            res["cover"][a + " -> " + b] = int(c)
        os.unlink(cov)
    if kind != "exhaustive":
        # inputs of the non-exhaustive generators, for the distinct count
        res["inputs"] = [l.strip() for l in open(path)]
    else:
        res["inputs"] = [l.strip() for i, l in enumerate(open(path)) if i % 997 == 0]
    os.unlink(path)
    return res


def run_one(lines_hex):
    """the three sides on one case -> (impl, model, spec)"""
    d = common.workdir("c10one")
    p = os.path.join(d, "one.cases")
    with open(p, "w") as f:
        f.write(" ".join(lines_hex) + "\n")
    r = run_file(p, keep_outputs=True)
    os.unlink(p)
    if not r["outputs"]:
        return None, None, None
    _, a, b, c = r["outputs"][0]
    return a, b, c


def chars_of(h):
    return list(bytes.fromhex(h).decode("utf-8")) if h != "-" else []


def shrink(lines_hex, cls, budget=150):
    """greedy minimisation of a failing case that keeps the failure class: drop lines, then characters"""
    def bad(ls):
        a, b, c = run_one(ls)
        return a is not None and a != c and classify(a, c) == cls
    cur = list(lines_hex)
    changed = True
    while changed and budget > 0:
        changed = False
        for i in range(len(cur)):
            if len(cur) > 1:
                cand = cur[:i] + cur[i + 1:]
                budget -= 1
                if bad(cand):
                    cur, changed = cand, True
                    break
        if changed:
            continue
        for i in range(len(cur)):
            cs = chars_of(cur[i])
            for j in range(len(cs)):
                cand = cur[:i] + [enc("".join(cs[:j] + cs[j + 1:]))] + cur[i + 1:]
                budget -= 1
                if budget <= 0:
                    break
                if bad(cand):
                    cur, changed = cand, True
                    break
            if changed or budget <= 0:
                break
    return cur


def show(lines_hex):
    return [bytes.fromhex(h).decode("utf-8", "replace") if h != "-" else "" for h in lines_hex]


def report(ctx, results):
    seen = set()
    for r in results:
        if r.get("broken"):
            ctx.obligation("all three sides answered every case (%s)" % r["kind"], False, r["broken"])
    allv = sorted(((len(v[0]), v, r) for r in results for v in r["viol"]), key=lambda x: (x[0], x[1][0]))
    for _, (case, impl, spec, model), r in allv:
        cls = classify(impl, spec)
        if cls in seen:
            ctx.fail(cls, "impl differs from specification", {"lines": case.split(), "impl": impl, "spec": spec})
            continue
        seen.add(cls)
        lines = case.split()
        small = shrink(lines, cls) if len(case) > 24 else lines
        a, b, c = run_one(small)
        if a is None or a == c:
            small, a, b, c = lines, impl, model, spec
        what = {"panic": "the real lexer panicked",
                "error-column": "lex error reported at a different column than the first unmatchable character",
                "accepted-vs-rejected": "implementation and lexical rules disagree on whether the text lexes",
                "string-token-column": "merged string literal is not located at the token that ended it",
                "string-value": "merged string literal has the wrong text (pending literal lost or duplicated)",
                "string-literal-lost-or-spurious": "a string-literal token is missing or spurious (pending literal lost)",
                }.get(cls, "token stream differs from the lexical rules (%s)" % cls)
        ctx.fail(cls, "%s: lines %r: impl `%s` spec `%s`" % (what, show(small), a, c),
                 {"lines": small, "text": show(small), "impl": a, "spec": c, "model": b, "generator": r["kind"],
                  "unshrunk_lines": lines})
    for r in results:
        for case, impl, model in r["disag"]:
            ctx.fail("model-differs", "model output differs from the implementation (and the specification agrees with "
                     "the implementation): lines %r: impl `%s` model `%s`" % (show(case.split()), impl, model),
                     {"lines": case.split(), "impl": impl, "model": model}, disagreement=True)


def run(ctx):
    d = common.workdir("c10")
    maxlen = 4
    nsh = 64
    pairs = [(a, b) for a in range(len(HX)) for b in range(len(HX))]
    jobs = []
    seeds = [ctx.rng.randrange(1 << 60) for _ in range(4096)]
    idx = 0

    def add(kind, arg, cover=True):
        nonlocal idx
        jobs.append((d, idx, kind, arg, seeds[idx], cover))
        idx += 1

    for i in range(nsh):
        add("exhaustive", {"prefixes": pairs[i::nsh], "lens": list(range(2, maxlen + 1)), "variants": list(VARIANTS),
                           "short": i == 0})
    add("keywords", None)
    scale = 8 if ctx.thorough else 1
    for i in range(4 * scale):
        add("ipv4", 20000)
    for i in range(8 * scale):
        add("random-lines", 12000)
    for i in range(4 * scale):
        add("random-alphabet", 25000)
    for i in range(8 * scale):
        add("multiline", 8000)
    add("very-long", 7 if ctx.thorough else 4, cover=False)
    if ctx.thorough:
        # all strings of length exactly 5, fresh lexer only; model coverage is taken from the other generators
        n5 = 400
        for i in range(n5):
            add("exhaustive", {"prefixes": pairs[i::n5], "lens": [5], "variants": ["fresh"], "short": False}, cover=False)
    with multiprocessing.Pool(min(common.NPROC, 16)) as pool:
        results = pool.map(_shard, jobs, chunksize=1)
    cover = {}
    exh = 0
    for r in results:
        ctx.count(r["kind"], r["n"])
        if r["kind"] == "exhaustive":
            exh += r["n"]
        for k, v in r["cover"].items():
            cover[k] = cover.get(k, 0) + v
        for k in r["inputs"]:
            ctx.distinct(k)
    report(ctx, results)
    broken = [r for r in results if r.get("broken")]
    expected = sum(len(HX) ** k for k in range(maxlen + 1)) * len(VARIANTS)
    if ctx.thorough:
        expected += len(HX) ** 5
    ctx.exhaustive = (not broken) and exh == expected
    if exh != expected:
        ctx.obligation("exhaustive enumeration complete", False, "ran %d of %d cases" % (exh, expected))
    errs = sum(r["errs"] for r in results)
    nontriv = sum(r["nontrivial"] for r in results)
    total = sum(r["n"] for r in results)
    rules = sorted(set(k.split(" -> ")[0] for k in cover))
    ctx.model_coverage = {
        "what": "lexeme class the model's match_rules fired (NoMatch = lex error) -> class of the next character; counts",
        "classes_fired": "%d/22 (21 capture groups + NoMatch)" % len(rules),
        "pairs": len(cover),
        "counts": dict(sorted(cover.items())),
    }
    ctx.dist.update({
        "alphabet": [a.encode("utf-8").hex() for a in ALPHABET],
        "exhaustive_max_length": 5 if ctx.thorough else 4,
        "exhaustive_variants": list(VARIANTS) + (["fresh (length 5)"] if ctx.thorough else []),
        "exhaustive_cases": exh,
        "cases_with_lex_error": errs, "cases_total": total,
        "nontrivial_cases (>= 1 token or error beyond column 1)": nontriv,
        "multiline": "2-7 lines per case; ~45% of lines end in a string literal (empty, followed by comment/whitespace, ...)",
        "unicode": "whitespace U+0085 U+00A0 U+1680 U+2003 U+200A U+2028 U+2029 U+202F U+205F U+3000, VT, FF, CR; letters, "
                   "marks, digits (U+0660, U+FF10), connectors (U+203F, U+FF3F), ZWJ/ZWNJ, ZWSP, U+180E, BOM, emoji, controls",
    })
    for r in results:
        if r["kind"] in ("multiline", "random-lines") and r["inputs"]:
            h = r["inputs"][0].split()
            a, b, c = run_one(h)
            ctx.sample({"lines": show(h), "impl": a, "model_equal": a == b, "spec_equal": a == c}, limit=4)
    try:
        os.rmdir(d)
    except OSError:
        pass


def replay(ctx, rp):
    lines = rp["lines"]
    a, b, c = run_one(lines)
    ctx.count("replay")
    if a is None:
        return ctx.obligation("replay ran", False, "no output")
    if a != c:
        cls = classify(a, c)
        ctx.fail(cls, "replayed lines %r: impl `%s` spec `%s`" % (show(lines), a, c),
                 {"lines": lines, "text": show(lines), "impl": a, "spec": c, "model": b})
    elif a != b:
        ctx.fail("model-differs", "replayed lines %r: impl `%s` model `%s`" % (show(lines), a, b),
                 {"lines": lines, "impl": a, "model": b}, disagreement=True)
    ctx.sample({"lines": show(lines), "impl": a, "spec": c, "model": b})
