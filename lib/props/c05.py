"""C05 -- payload fidelity: the bytes a script supplies are the bytes on the wire."""
import itertools, multiprocessing, os, random, struct, subprocess
import common, diff, gen, litlib
from diff import Case
from gen import *

THEOREMS = ["C05_literal_denotes", "C05_literal_adjacent", "C05_literal_any_bytes", "C05_str_token_exact",
            "C05_coerce_be", "C05_be_value_inj", "C05_std_be64_exact",
            "C05_join_in_order", "C05_join_concat", "C05_join_between", "C05_text_concat", "C05_text_crlflines",
            "C05_text_len",
            "C05_payload_roundtrip_udp", "C05_payload_roundtrip_udp_csum", "C05_payload_roundtrip_udp_unicast",
            "C05_payload_roundtrip_tcp_message", "C05_payload_roundtrip_tcp_segment",
            "C05_payload_roundtrip_icmp_echo", "C05_payload_roundtrip_icmp_echo_reply",
            "C05_payload_roundtrip_datagram", "C05_payload_roundtrip_fragment", "C05_payload_roundtrip_frag_datagram",
            "C05_payload_roundtrip_frag_ctx", "C05_payload_roundtrip_eth_frame", "C05_payload_roundtrip_tls_record",
            "C05_bufio_partition", "C05_consecutive_concat", "C05_consecutive_read_all", "C05_bufio_from_start",
            # library level: 31 payload-carrying keys from the catalogue, histories of all eight classes, through the file,
            # nesting, sizes beyond 16 bits (Props/C05b.v)
            "C05b_walker_defs", "C05b_payload_is_concat", "C05b_payload_only_concat",
            "C05b_pay_keys", "C05b_lib_all_keys", "C05b_plan_defs",
            "C05b_tcp_methods", "C05b_tcp_plan_defs", "C05b_tcp_plans",
            "C05b_tcp_message_concat", "C05b_udp_flow_methods", "C05b_udp_flow_plans",
            "C05b_udp_unicast", "C05b_udp_broadcast", "C05b_icmp_methods",
            "C05b_icmp_plan", "C05b_datagram", "C05b_frag_methods",
            "C05b_frag_plans", "C05b_eth_frame", "C05b_stored",
            "C05b_stored_defs", "C05b_tunnel_plan_defs", "C05b_vxlan_methods",
            "C05b_gre_methods", "C05b_erspan1_methods", "C05b_erspan2_methods",
            "C05b_created_wf", "C05b_history", "C05b_history_defs",
            "C05b_tcp_history", "C05b_udp_history", "C05b_record_carries",
            "C05b_records_carry", "C05b_program_file", "C05b_file_defs",
            "C05b_peel1_implies_walker", "C05b_nested_carries", "C05b_nested_deep",
            "C05b_through_defs", "C05b_unicast_lengths", "C05b_big_check_def"]
PROPS = ["C05", "C05b"]
VO = ["theories/Props/C05.vo", "theories/Props/C05b.vo"]
MODELS = ("lit", "run")
RULE = ("string literals: EVERY literal body of up to 6 (quick) / 7 (thorough) symbols over the alphabet "
        "{a f 0 9 g A | space : - e-acute euro NBSP} through the real Buf::from_str and the model, plus random long "
        "structured literals (all six separators, all 25 White_Space characters, both digit cases, every byte value, "
        "empty sections, up to several thousand bytes) whose spelling and meaning come from the extracted Spec.Literal; "
        "the same literals as real tokens through Val::from_token.  Whole programs: every payload-carrying builder "
        "(udp unicast/broadcast/flow dgrams with and without checksum, tcp messages and segments in both directions, "
        "icmp echo/reply, ipv4::datagram, fragment contexts, eth::frame, a TLS record inside a TCP message) x payload "
        "spellings (text, hex with separators, adjacent literals split anywhere and across lines and comments, "
        "text::concat / text::crlflines nested, std::be16/32/64/u8, text::len, let-bound values, integers, addresses "
        "and packets used as bytes) x lengths 0, 1, odd/even, 255/256, 1472, and the 65507-byte maximum; histories "
        "of read(n)/read_all on io::bufio.  Non-trivial = a payload of at least one byte located in an emitted "
        "packet; distinct by program text / literal")
NOTES = ["oracle: the payload found at the protocol's offset in the IMPLEMENTATION's packet (python decoder) must equal an "
         "independent evaluation of the payload expression: literals by the extracted Spec.Literal.denote of the structure "
         "they were spelled from, helpers by their documented meaning (concatenation, CRLF between parts, big-endian "
         "encodings), buffered reads by the extracted Spec.Literal.slices_of; exhaustive short literals by a python "
         "reading of the property text (text bytes, hex digits of closed sections, reject odd/non-hex)",
         "correspondence: Buf::from_str vs Literals.decode_strlit line by line; Val::from_token vs val_of_token; whole "
         "pcap files vs the interpreter model",
         "a hex section that is never closed is outside the statement; the implementation accepts it and silently drops a "
         "dangling nibble (\"|414\" is one byte 0x41).  Such literals are compared with the model only",
         "the python spelling function used to write programs is compared with the extracted Spec.Literal.spell on every "
         "structured literal of the run"]
MODELLED = ("src/str.rs impl FromStr for Buf, src/val.rs From<Val> for Buf / from_token, src/args.rs join_extra, "
            "src/stdlib/{text,std,io}.rs, the builders' push/append paths: Lex/Literals.v, Interp/Val.v, Lib/*.v, Ez/*.v; "
            "char::is_whitespace, str::chars (UTF-8 decoding) are modelled by hand (Base/Utf8.v)")

ALPHABET = ["a", "f", "0", "9", "g", "A", "|", " ", ":", "-", "\u00e9", "\u20ac", "\u00a0"]


# ---------------------------------------------------------------- exhaustive short literals (worker processes)

def exhaustive_worker(job):
    """all literal bodies of the given length whose first symbols are `prefix`"""
    length, prefix, wd, lith, modelbin = job
    rest = length - len(prefix)
    bodies = ["".join(prefix) + "".join(t) for t in itertools.product(ALPHABET, repeat=rest)]
    tag = "ex%d_%s" % (length, "_".join("%x" % ord(c) for c in prefix))
    p = os.path.join(wd, tag + ".in")
    with open(p, "w") as f:
        f.write("\n".join(litlib.hx(b.encode("utf-8")) for b in bodies) + "\n")
    I = subprocess.run([lith, "strlit", p], stdout=subprocess.PIPE).stdout.decode().split("\n")
    M = subprocess.run([modelbin, "strlit", p], stdout=subprocess.PIPE).stdout.decode().split("\n")
    os.unlink(p)
    out = {"n": len(bodies), "viol": [], "dis": [], "accepted": 0, "rejected": 0, "unspec": 0, "err": None}
    if len(I) < len(bodies) or len(M) < len(bodies):
        out["err"] = "short output for %s: %d/%d lines for %d cases" % (tag, len(I), len(M), len(bodies))
        return out
    for b, i, m in zip(bodies, I, M):
        want = litlib.ref_decode(b)
        if want == "UNSPEC":
            out["unspec"] += 1
        elif want == "REJECT":
            out["rejected"] += 1
            if i != "ERR" and len(out["viol"]) < 5:
                out["viol"].append(("literal-accepted", b, i, "rejected (odd digit count or non-hex character in a closed section)"))
        else:
            out["accepted"] += 1
            if i != "OK " + litlib.hx(want) and len(out["viol"]) < 5:
                out["viol"].append(("literal-bytes", b, i, "OK " + litlib.hx(want)))
        if i != m and len(out["dis"]) < 5:
            out["dis"].append((b, i, m))
    return out


def literal_replay(body, got, want):
    return {"literal_body": body, "literal_body_hex": body.encode("utf-8").hex(), "impl": got, "expected": want,
            "how": "echo <literal_body_hex> | .build/htarget/debug/lith strlit -   (the real \"...\".parse::<Buf>())"}


def check_exhaustive(ctx):
    maxlen = 7 if ctx.thorough else 6
    wd = common.workdir("c05ex")
    jobs = []
    for n in range(0, maxlen + 1):
        k = min(n, n - 4 if n >= 5 else 1 if n >= 3 else 0)
        for prefix in itertools.product(ALPHABET, repeat=k):
            jobs.append((n, prefix, wd, litlib.LITH, litlib.MODEL()))
    jobs.sort(key=lambda j: -(j[0] - len(j[1])))
    with multiprocessing.Pool(min(common.NPROC, 16)) as pool:
        results = pool.map(exhaustive_worker, jobs, chunksize=1)
    errs = [r["err"] for r in results if r["err"]]
    ctx.obligation("exhaustive literal enumeration ran", not errs, "; ".join(errs[:3]))
    tot = {"accepted": 0, "rejected": 0, "unspec": 0}
    for r in results:
        ctx.count("all literal bodies up to %d symbols over a 13-symbol alphabet (exhaustive)" % maxlen, r["n"])
        for k in tot:
            tot[k] += r[k]
        for cls, body, got, want in r["viol"]:
            ctx.fail(cls, "the literal \"%s\" decodes to %s, the property says %s" % (body, got, want),
                     literal_replay(body, got, want))
        for body, i, m in r["dis"]:
            ctx.fail("literal-model-differs", "\"%s\": implementation %s, model %s" % (body, i, m),
                     literal_replay(body, i, m), disagreement=True)
    for i in range(tot["accepted"]):
        pass
    ctx.nontrivial.update(("ex", i) for i in range(min(tot["accepted"], 200000)))
    ctx.dist["exhaustive_literals"] = dict(tot, alphabet="a f 0 9 g A | space : - U+00E9 U+20AC U+00A0", max_symbols=maxlen)
    ctx.obligation("the exhaustive enumeration contains accepted, rejected and unclosed literals (non-vacuity)",
                   tot["accepted"] > 1000 and tot["rejected"] > 1000 and tot["unspec"] > 100, str(tot))


# ---------------------------------------------------------------- structured random literals

def check_structured(ctx):
    r = ctx.rng
    n = 100000 if ctx.thorough else 20000
    lists = []
    for i in range(n):
        k = r.random()
        if k < 0.45:
            segs = litlib.rand_segs(r, quotable=False)
        elif k < 0.8:
            ln = r.choice([0, 1, 2, 3, 7, 64, 255, 256, r.randint(0, 400), r.randint(0, 4000) if i % 10 == 0 else 5])
            data = bytes(r.getrandbits(8) for _ in range(ln)) if r.random() < 0.8 else bytes(range(256))
            segs = litlib.segs_for_bytes(r, data, r.choice([0.0, 0.2, 0.5]), quotable=False)
        else:
            segs = litlib.rand_segs(r, quotable=False, maxsegs=3) + [litlib.rand_bad(r, quotable=False)]
        lists.append(segs)
    spec = litlib.spec_batch(lists, "c05s")
    bad_gen = [i for i, s in enumerate(spec) if not s[0]]
    ctx.obligation("every generated literal structure is well formed for Spec.Literal (seg_ok / bad_section_ok)", not bad_gen,
                   "first: %s" % (litlib.ser_segs(lists[bad_gen[0]]) if bad_gen else ""))
    mism = [i for i, (s, l) in enumerate(zip(spec, lists)) if litlib.py_spell(l).encode("utf-8") != s[1]]
    ctx.obligation("the python spelling function agrees with the extracted Spec.Literal.spell on all %d structures" % n,
                   not mism, "first: %s" % (litlib.ser_segs(lists[mism[0]]) if mism else ""))
    # rejected sections: anything may follow the offending character
    bodies = []
    for s, l in zip(spec, lists):
        b = s[1]
        if s[2] == "REJECT" and r.random() < 0.5:
            b = b + litlib.py_spell(litlib.rand_segs(r, quotable=False, maxsegs=2)).encode("utf-8")
        bodies.append(b)
    lines = [litlib.hx(b) for b in bodies]
    I = litlib.impl("strlit", lines, "c05s")
    M = litlib.model("strlit", lines, "c05s")
    nrej = 0
    for s, b, i, m in zip(spec, bodies, I, M):
        ctx.count("random structured literals (Spec.Literal.spell of a random segment list)")
        want = "ERR" if s[2] == "REJECT" else "OK " + litlib.hx(s[2])
        nrej += s[2] == "REJECT"
        body = b.decode("utf-8")
        if i != want:
            cls = "literal-accepted" if s[2] == "REJECT" else "literal-bytes"
            ctx.fail(cls, "the literal body %r decodes to %s, Spec.Literal says %s" % (body[:200], i[:100], want[:100]),
                     literal_replay(body, i, want))
        elif i != m:
            ctx.fail("literal-model-differs", "%r: implementation %s, model %s" % (body[:200], i[:100], m[:100]),
                     literal_replay(body, i, m), disagreement=True)
        if s[2] != "REJECT" and s[2]:
            ctx.distinct(b)
    ctx.dist["structured_literals"] = {"total": n, "with_a_bad_section": nrej,
                                       "fillers": "6 separators + 25 White_Space code points", "max_bytes": 4000}
    # the same through real tokens (Val::from_token); bodies must be quotable on one source line
    lists = []
    for i in range(n // 3):
        if r.random() < 0.8:
            lists.append(litlib.rand_segs(r, quotable=True))
        else:
            lists.append(litlib.rand_segs(r, quotable=True, maxsegs=2) + [litlib.rand_bad(r, quotable=True)])
    spec = litlib.spec_batch(lists, "c05t")
    lines = ["STR " + litlib.hx(s[1]) for s in spec]
    I = litlib.impl("tok", lines, "c05t")
    M = litlib.model("tok", lines, "c05t")
    for s, i, m in zip(spec, I, M):
        ctx.count("string-literal tokens through the real lexer and Val::from_token")
        want = "ERR parse" if s[2] == "REJECT" else "OK str:" + litlib.hx(s[2])
        body = s[1].decode("utf-8")
        rp = {"literal_body": body, "literal_body_hex": s[1].hex(), "impl": i, "expected": want,
              "how": "echo 'STR <literal_body_hex>' | .build/htarget/debug/lith tok -"}
        if i.startswith("BADCASE"):
            ctx.fail("harness-badcase", "token case not usable: %s" % i, rp, disagreement=True)
        elif i != want:
            ctx.fail("literal-accepted" if s[2] == "REJECT" else "literal-bytes",
                     "the literal \"%s\" as a token gives %s, Spec.Literal says %s" % (body[:200], i[:100], want[:100]), rp)
        elif i != m:
            ctx.fail("literal-model-differs", "token \"%s\": implementation %s, model %s" % (body[:200], i[:100], m[:100]), rp,
                     disagreement=True)


# ---------------------------------------------------------------- whole programs

class Pending:
    """string literals whose spelling and meaning are still to be fetched from the extracted specification"""

    def __init__(self, rng):
        self.r, self.lits = rng, []

    def lit(self, data, psplit=0.3, fillp=None):
        e = gen.Lit("str", None, None)
        e.segs = litlib.segs_for_bytes(self.r, data, self.r.choice([0.0, 0.2, 0.5]) if fillp is None else fillp,
                                       quotable=True)
        e.psplit = psplit
        self.lits.append(e)
        return e

    def resolve(self, ctx):
        spec = litlib.spec_batch([e.segs for e in self.lits], "c05p")
        bad = 0
        for e, s in zip(self.lits, spec):
            if not s[0] or s[2] == "REJECT" or litlib.py_spell(e.segs).encode("utf-8") != s[1]:
                bad += 1
            e.value = s[2]
            e.spelling = litlib.quote_split(self.r, s[1].decode("utf-8"), e.psplit)
        ctx.obligation("program literals: python spelling agrees with Spec.Literal.spell, all structures well formed",
                       bad == 0, "%d of %d" % (bad, len(self.lits)))


def spec_eval(e, env):
    """what the payload expression means, by the documentation of the helpers and Spec.Literal for literals"""
    if isinstance(e, gen.Lit):
        if e.kind == "str":
            return e.value
        if e.kind in ("int", "hexint"):
            return e.value.to_bytes(8, "big")          # an integer literal is a 64-bit value
        if e.kind == "ip":
            return e.value.to_bytes(4, "big")
        raise ValueError(e.kind)
    if isinstance(e, gen.Ref):
        if e.mods:
            return CONST_VALUE["::".join(e.mods + e.comps)]
        return env[".".join(e.comps)]
    if isinstance(e, gen.Call):
        name = "::".join(e.mods + e.comps)
        args = [spec_eval(a, env) for _, a in e.args]
        if name == "text::concat":
            return b"".join(args)
        if name == "text::crlflines":
            return b"\r\n".join(args)
        if name == "text::len":
            return len(b"".join(args)).to_bytes(8, "big")
        if name in ("std::be16", "std::be32", "std::be64", "std::u8"):
            width = {"std::be16": 2, "std::be32": 4, "std::be64": 8, "std::u8": 1}[name]
            return e.args[0][1].value.to_bytes(width, "big")
        if name == "tls::message":
            named = {n: a for n, a in e.args if n}
            body = b"".join(spec_eval(a, env) for n, a in e.args if not n)
            return (bytes([named["content"].value]) + named["version"].value.to_bytes(2, "big")
                    + len(body).to_bytes(2, "big") + body)
    raise ValueError("no specification for %r" % (e,))


LENGTHS = [0, 1, 2, 3, 7, 8, 9, 31, 32, 33, 64, 255, 256, 257]

# documented library constants (docs/: "(u16)0x0800" ...) used as bytes: a constant contributes exactly its declared width
CONSTS = [("eth::ethertype::IPV4", bytes.fromhex("0800")), ("ipv4::proto::TCP", b"\x06"), ("ipv4::proto::UDP", b"\x11"),
          ("vxlan::DEFAULT_PORT", (4789).to_bytes(2, "big")), ("dhcp::opt::END", b"\xff"), ("dhcp::opt::MESSAGE_TYPE", b"\x35"),
          ("text::CRLF", b"\r\n"), ("eth::BROADCAST", b"\xff" * 6), ("tls::version::TLS_1_2", bytes.fromhex("0303")),
          ("tls::content::HANDSHAKE", b"\x16"), ("dns::qtype::A", bytes.fromhex("0001")), ("dns::class::IN", bytes.fromhex("0001")),
          ("arp::hrd::ETHER", (1).to_bytes(8, "big"))]
CONST_VALUE = dict(CONSTS)


def rand_data(r, big=False):
    n = r.choice(LENGTHS + [r.randint(0, 80)] * 6 + ([1399, 1472] if big else []))
    k = r.random()
    if k < 0.35:
        return bytes(r.choice(b"abcdefghijklmnopqrstuvwxyz0123456789 GET/HTTP.:-_") for _ in range(n))
    if k < 0.45:
        return bytes((i * 37 + n) & 0xff for i in range(n))
    return bytes(r.getrandbits(8) for _ in range(n))


class PayloadGen:
    def __init__(self, rng, pend):
        self.r, self.pend = rng, pend
        self.prelude = []
        self.env_exprs = {}
        self.nvar = 0

    def piece(self, depth=0):
        """one expression usable as bytes"""
        r = self.r
        k = r.random()
        if k < 0.45 or depth > 2:
            return self.pend.lit(rand_data(r), psplit=0.35)
        if k < 0.55:
            return Call("text::concat", *[self.piece(depth + 1) for _ in range(r.randint(0, 3))])
        if k < 0.65:
            return Call("text::crlflines", *[self.piece(depth + 1) for _ in range(r.randint(0, 4))])
        if k < 0.72:
            w = r.choice([16, 32, 64])
            v = r.choice([0, 1, 2 ** w - 1, 2 ** (w - 1), 0x0102030405060708 & (2 ** w - 1), r.getrandbits(w)])
            return Call("std::be%d" % w, INT(v) if r.random() < 0.5 else HEX(v))
        if k < 0.76:
            return Call("std::u8", INT(r.choice([0, 1, 127, 128, 255, r.getrandbits(8)])))
        if k < 0.82:
            return INT(r.choice([0, 1, 255, 256, 2 ** 32, 2 ** 64 - 1, r.getrandbits(64), r.getrandbits(16)]))
        if k < 0.88:
            return IP(r.choice([0, 0xffffffff, 0x01020304, r.getrandbits(32)]))
        if k < 0.90:
            return Call("text::len", *[self.piece(depth + 1) for _ in range(r.randint(0, 2))])
        if k < 0.94:
            return Ref(r.choice(CONSTS)[0])
        # a let-bound value
        self.nvar += 1
        name = "v%d" % self.nvar
        e = self.piece(depth + 1)
        self.prelude.append(Let(name, e))
        self.env_exprs[name] = e
        return Ref(name)

    def args(self):
        r = self.r
        k = r.random()
        if k < 0.3:
            return [self.pend.lit(rand_data(r, big=True), psplit=0.4)]
        if k < 0.4:
            return []
        return [self.piece() for _ in range(r.randint(1, 4))]


BUILDERS = ["udp_unicast", "udp_broadcast", "udp_client", "udp_server", "tcp_client_msg", "tcp_server_msg",
            "tcp_client_seg", "tcp_server_seg", "icmp_echo", "icmp_reply", "datagram", "frag_datagram", "frag_whole", "frag_tail0",
            "eth_frame", "tls_record"]


def build_case(name, r, pend, builder, forced_args=None):
    """-> Case with c.gen = {builder, rec, locator, raw, args: [expr], env_exprs}"""
    pg = PayloadGen(r, pend)
    args = forced_args(pg) if forced_args else pg.args()
    raw = r.random() < 0.3
    rk = {"raw": True} if raw else {}
    st = [Import(m) for m in ("ipv4", "text", "std", "eth", "tls", "vxlan", "dhcp", "dns", "arp")]
    a, b = SOCK(rand_ip(r), rand_port(r)), SOCK(rand_ip(r), rand_port(r))
    loc, rec, extra = None, 0, {}
    body = []
    if builder == "udp_unicast":
        body.append(Do(Call("ipv4::udp::unicast", a, b, _x=args, **rk)))
        loc = "udp"
    elif builder == "udp_broadcast":
        kw = dict(rk)
        if r.random() < 0.5:
            kw["srcip"] = IP(rand_ip(r))
        body.append(Do(Call("ipv4::udp::broadcast", a, SOCK(0xffffffff, rand_port(r)), _x=args, **kw)))
        loc = "udp"
    elif builder in ("udp_client", "udp_server"):
        body.append(Let("u", Call("ipv4::udp::flow", a, b, **rk)))
        kw = {}
        if r.random() < 0.4:
            kw["csum"] = False
        body.append(Do(Call("u.client_dgram" if builder == "udp_client" else "u.server_dgram", _x=args, **kw)))
        loc = "udp"
    elif builder in ("tcp_client_msg", "tcp_server_msg", "tcp_client_seg", "tcp_server_seg"):
        kw = dict(rk)
        if r.random() < 0.5:
            kw["cl_seq"] = r.choice([0, 2 ** 32 - 1, r.getrandbits(32)])
        body.append(Let("t", Call("ipv4::tcp::flow", a, b, **kw)))
        if r.random() < 0.5:
            body.append(Do(Call("t.open")))
            rec = 3
        side = "client" if "client" in builder else "server"
        if builder.endswith("msg"):
            mk = {"send_ack": False} if r.random() < 0.3 else {}
            body.append(Do(Call("t.%s_message" % side, _x=args, **mk)))
        else:
            body.append(Do(Call("t.%s_segment" % side, _x=args)))
        loc = "tcp"
    elif builder in ("icmp_echo", "icmp_reply"):
        body.append(Let("i", Call("ipv4::icmp::flow", IP(rand_ip(r)), IP(rand_ip(r)), **rk)))
        one = args[0] if len(args) == 1 else Call("text::concat", *args)
        args = [one]
        body.append(Do(Call("i.echo" if builder == "icmp_echo" else "i.echo_reply", one)))
        loc = "icmp"
    elif builder == "datagram":
        kw = {}
        if r.random() < 0.5:
            kw["proto"] = r.choice([17, 6, 1, 47, 253])
        if r.random() < 0.3:
            kw["id"] = r.getrandbits(16)
        body.append(Do(Call("ipv4::datagram", IP(rand_ip(r)), IP(rand_ip(r)), _x=args, **kw)))
        loc, raw = "ip", False
    elif builder in ("frag_datagram", "frag_whole", "frag_tail0"):
        body.append(Let("g", Call("ipv4::frag", IP(rand_ip(r)), IP(rand_ip(r)), _x=args)))
        if builder == "frag_datagram":
            body.append(Do(Call("g.datagram", **rk)))
        elif builder == "frag_tail0":
            body.append(Do(Call("g.tail", 0, **rk)))      # the tail from offset 0 is the whole payload, whatever its length mod 8
        else:
            body.append(Do(Call("g.fragment", 0, 8191, **rk)))
        loc = "ip"
    elif builder == "eth_frame":
        mac = lambda: STR(bytes(r.getrandbits(8) for _ in range(6)))
        kw = {"ethertype": r.choice([0x0800, 0x88b5, r.getrandbits(16)])} if r.random() < 0.5 else {}
        body.append(Do(Call("eth::frame", mac(), mac(), _x=args, **kw)))
        loc, raw = "eth", False
    elif builder == "tls_record":
        body.append(Let("t", Call("ipv4::tcp::flow", a, b, **rk)))
        recd = Call("tls::message", _x=args, version=INT(r.choice([0x0301, 0x0303])), content=INT(r.choice([20, 21, 22, 23])))
        args = [recd]
        body.append(Do(Call("t.client_message", recd)))
        loc = "tcp"
    c = Case()
    c.name, c.files, c.text, c.meta = name, {}, None, []
    c.stmts = st + pg.prelude + body
    c.gen = {"builder": builder, "rec": rec, "locator": loc, "raw": raw, "args": args, "env_exprs": pg.env_exprs,
             "kind": "builder x spelling"}
    return c


def locate(frame, raw, locator):
    """the payload at the protocol's offset in a frame (None when the frame is not what the builder promises)"""
    if locator == "eth":
        return frame[14:] if len(frame) >= 14 else None
    l3 = frame if raw else frame[14:]
    if len(l3) < 20 or l3[0] != 0x45:
        return None
    if locator == "ip":
        return l3[20:]
    proto = l3[9]
    if locator == "udp":
        return l3[28:] if proto == 17 and len(l3) >= 28 else None
    if locator == "icmp":
        return l3[28:] if proto == 1 and len(l3) >= 28 else None
    if locator == "tcp":
        if proto != 6 or len(l3) < 40:
            return None
        doff = (l3[32] >> 4) * 4
        return l3[20 + doff:]
    return None


def expected_payload(c):
    env = {}
    for name, e in c.gen["env_exprs"].items():
        env[name] = spec_eval(e, env)
    if c.gen.get("bound"):
        env.update(c.gen["bound"])
    return b"".join(spec_eval(a, env) for a in c.gen["args"])


def payload_replay(c, want, got):
    return diff.replay_of(c, {"builder": c.gen["builder"], "record": c.gen["rec"], "locator": c.gen["locator"],
                              "raw": c.gen["raw"], "expected_payload": want.hex(),
                              "found_payload": got.hex() if got is not None else None})


def judge_payload(ctx, c, pcap, want):
    ok, recs = common.pcap_records(pcap)
    rec = c.gen["rec"]
    if not ok or len(recs) <= rec:
        return ("payload-missing", "record %d carrying the payload is missing (%d records)" % (rec, len(recs)), None)
    got = locate(recs[rec][4], c.gen["raw"], c.gen["locator"])
    if got is None:
        return ("payload-missing", "record %d is not a %s packet" % (rec, c.gen["locator"]), None)
    if got != want:
        n = min(len(got), len(want))
        first = next((i for i in range(n) if got[i] != want[i]), n)
        return ("payload-differs", "%s: payload in the packet is %d bytes, the script supplies %d; first difference at "
                "offset %d (%s.. vs %s..)" % (c.gen["builder"], len(got), len(want), first, got[first:first + 8].hex(),
                                             want[first:first + 8].hex()), got)
    return None


def check_programs(ctx):
    r = ctx.rng
    pend = Pending(r)
    cases = []
    per = 150 if ctx.thorough else 40
    k = 0
    for b in BUILDERS:
        for _ in range(per):
            cases.append(build_case("p%d" % k, r, pend, b))
            k += 1
    # boundary lengths through the datagram builders, spelled in hex over many adjacent lines
    sizes = [0, 1, 255, 256, 1472, 8192, 9000] + ([65507] if ctx.thorough else [20000])
    for n in sizes:
        data = bytes(r.getrandbits(8) for _ in range(n))
        forced = lambda pg, data=data: [pg.pend.lit(data, psplit=1.0, fillp=0.05)]
        for b in ("udp_unicast", "datagram") + (("frag_tail0", "frag_datagram", "frag_whole") if n >= 8192 or n in (255, 1472) else ()):
            if b != "udp_unicast" and n > 65515:
                continue
            c = build_case("z%d" % k, r, pend, b, forced)
            c.gen["kind"] = "boundary length"
            cases.append(c)
            k += 1
    # every byte value in text position is impossible (text is UTF-8); every byte value in hex, every separator
    forced = lambda pg: [pg.pend.lit(bytes(range(256)), psplit=0.5, fillp=0.5), pg.pend.lit(bytes(range(255, -1, -1)), psplit=0.5)]
    for b in BUILDERS:
        c = build_case("a%d" % k, r, pend, b, forced)
        c.gen["kind"] = "all byte values"
        cases.append(c)
        k += 1
    # a packet used as bytes contributes its frame
    for i in range(40 if ctx.thorough else 10):
        c = Case()
        c.name, c.files, c.text, c.meta = "k%d" % i, {}, None, []
        inner = Call("ipv4::udp::unicast", SOCK(rand_ip(r), rand_port(r)), SOCK(rand_ip(r), rand_port(r)),
                     _x=[pend.lit(rand_data(r))], **({"raw": True} if r.random() < 0.5 else {}))
        c.stmts = [Import("ipv4"), Import("text"), Let("pk", inner), Do(Ref("pk")),
                   Do(Call("ipv4::datagram", IP("10.0.0.1"), IP("10.0.0.2"), _x=[Ref("pk"), pend.lit(b"tail")], proto=4))]
        c.gen = {"builder": "datagram", "rec": 1, "locator": "ip", "raw": False, "args": [Ref("pk"), c.stmts[-1][1].args[-1][1]],
                 "env_exprs": {}, "kind": "packet used as bytes", "pkt_from_record": ("pk", 0)}
        cases.append(c)
    # ... also when the packet expression is written in place (the value is then owned by nobody else): the same
    # expression is first emitted on its own (record 0) and then used as bytes by every kind of carrier (record 1)
    for i in range(60 if ctx.thorough else 24):
        c = Case()
        c.name, c.files, c.text, c.meta = "kk%d" % i, {}, None, []
        ik = i % 4
        pre = []
        mac = lambda: STR(bytes(r.getrandbits(8) for _ in range(6)))
        if ik == 0:
            mk = lambda: Call("ipv4::udp::unicast", SOCK("10.1.2.3:5"), SOCK("10.1.2.4:6"), _x=[STR(b"inner-%d" % i)], **({"raw": True} if i % 8 < 4 else {}))
        elif ik == 1:
            m1, m2 = mac(), mac()
            mk = lambda: Call("eth::frame", m1, m2, _x=[STR(b"framed-%d" % i)])
        elif ik == 2:
            mk = lambda: Call("ipv4::datagram", IP("10.9.9.1"), IP("10.9.9.2"), _x=[STR(b"dgram-%d" % i)])
        else:
            pre = [Let("g", Call("ipv4::frag", IP("10.8.8.1"), IP("10.8.8.2"), _x=[STR(b"0123456789abcdef-%d" % i)]))]
            mk = lambda: Call("g.fragment", 0, 1, raw=True)
        tail = pend.lit(b"tail")
        ck = (i // 4) % 6
        body = [Do(mk())]
        if ck == 0:
            body.append(Do(Call("ipv4::datagram", IP("10.0.0.1"), IP("10.0.0.2"), _x=[mk(), tail], proto=4)))
            b_, loc_, args_ = "datagram", "ip", None
        elif ck == 1:
            body += [Let("u", Call("ipv4::udp::flow", SOCK("10.0.0.1:1"), SOCK("10.0.0.2:2"))), Do(Call("u.client_dgram", _x=[mk(), tail]))]
            b_, loc_ = "udp_client", "udp"
        elif ck == 2:
            body += [Let("t", Call("ipv4::tcp::flow", SOCK("10.0.0.1:1"), SOCK("10.0.0.2:2"))), Do(Call("t.client_message", _x=[mk()]))]
            b_, loc_ = "tcp_client_msg", "tcp"
        elif ck == 3:
            body.append(Do(Call("eth::frame", mac(), mac(), _x=[mk(), tail])))
            b_, loc_ = "eth_frame", "eth"
        elif ck == 4:
            body.append(Do(Call("ipv4::udp::unicast", SOCK("10.0.0.1:1"), SOCK("10.0.0.2:2"), _x=[Call("text::concat", mk(), tail)])))
            b_, loc_ = "udp_unicast", "udp"
        else:
            body += [Let("i", Call("ipv4::icmp::flow", IP("10.0.0.1"), IP("10.0.0.2"))), Do(Call("i.echo", mk()))]
            b_, loc_ = "icmp_echo", "icmp"
        used = body[-1][1]
        c.stmts = [Import(m) for m in ("ipv4", "text", "eth")] + pre + body
        args_ = [Ref("pk")] + ([tail] if ck in (0, 1, 3, 4) else [])
        c.gen = {"builder": b_, "rec": 1, "locator": loc_, "raw": False, "args": args_, "env_exprs": {},
                 "kind": "packet written in place used as bytes", "pkt_from_record": ("pk", 0)}
        cases.append(c)
    pend.resolve(ctx)
    diff.run_both(ctx, "c05", cases)
    for c in cases:
        ctx.count(c.gen["kind"])
        bk = ctx.dist.setdefault("builders", {})
        bk[c.gen["builder"]] = bk.get(c.gen["builder"], 0) + 1
        if c.impl.status in ("crash", "timeout"):
            ctx.dist["impl_crashes_left_to_C08"] = ctx.dist.get("impl_crashes_left_to_C08", 0) + 1
            continue
        if c.impl.status != "ok":
            # every generated program is within the domain (lengths fit, types match): an error is a lost payload
            ctx.fail("payload-program-rejected", "%s: the implementation rejects a well-formed program (%s %s)"
                     % (c.gen["builder"], c.impl.kind, c.impl.loc), diff.replay_of(c))
            continue
        if c.gen.get("pkt_from_record"):
            nm, idx = c.gen["pkt_from_record"]
            ok, recs = common.pcap_records(c.impl.pcap)
            c.gen["bound"] = {nm: recs[idx][4] if ok and len(recs) > idx else b""}
        want = expected_payload(c)
        v = judge_payload(ctx, c, c.impl.pcap, want)
        if v:
            ctx.fail(v[0], v[1], payload_replay(c, want, v[2]))
            continue
        if want:
            ctx.distinct(c.text)
        ic, mc = diff.outcome_class(c)
        if ic != mc:
            ctx.fail("outcome-differs", "impl %s, model %s" % (ic, mc), diff.replay_of(c), disagreement=True)
        elif c.impl.pcap != c.model["pcap"]:
            ctx.fail("pcap-differs", "%s: the pcap differs from the model's" % c.gen["builder"], diff.replay_of(c),
                     disagreement=True)
    ctx.sample({"program": cases[3].text[:1200], "builder": cases[3].gen["builder"]})
    ctx.sample({"program": cases[len(BUILDERS) * per - 2].text[:1200]})
    return len(cases)


# ---------------------------------------------------------------- buffered reads

def check_bufio(ctx):
    r = ctx.rng
    pend = Pending(r)
    cases = []
    for i in range(600 if ctx.thorough else 150):
        parts = [rand_data(r) for _ in range(r.randint(1, 3))]
        buf = b"".join(parts)
        ops = []
        for _ in range(r.randint(1, 10)):
            if r.random() < 0.2:
                ops.append("a")
            else:
                ops.append("r%d" % r.choice([0, 1, 2, 3, 7, len(buf), len(buf) + 1, max(0, len(buf) - 1), 2 ** 32, 2 ** 64 - 1,
                                             r.randint(0, max(1, len(buf)))]))
        c = Case()
        c.name, c.files, c.text, c.meta = "b%d" % i, {}, None, []
        st = [Import("ipv4"), Import("io"), Let("b", Call("io::bufio", *[pend.lit(p) for p in parts]))]
        for op in ops:
            rd = Call("b.read_all") if op == "a" else Call("b.read", INT(int(op[1:])))
            st.append(Do(Call("ipv4::udp::unicast", SOCK("1.2.3.4:1"), SOCK("1.2.3.5:2"), rd)))
        c.stmts = st
        c.gen = {"kind": "bufio history", "buf": buf, "ops": ops}
        cases.append(c)
    pend.resolve(ctx)
    want = litlib.model("slices", ["%s %s" % (litlib.hx(c.gen["buf"]), " ".join(c.gen["ops"])) for c in cases], "c05b")
    diff.run_both(ctx, "c05b", cases)
    for c, w in zip(cases, want):
        ctx.count("bufio history")
        slices = [b"" if x == "-" else bytes.fromhex(x) for x in w.split(" ")] if w else []
        rp = diff.replay_of(c, {"buffer": c.gen["buf"].hex(), "ops": c.gen["ops"], "expected_slices": [s.hex() for s in slices]})
        if c.impl.status in ("crash", "timeout"):
            ctx.dist["impl_crashes_left_to_C08"] = ctx.dist.get("impl_crashes_left_to_C08", 0) + 1
            continue
        if c.impl.status != "ok":
            ctx.fail("bufio-program-rejected", "implementation rejects a read history (%s)" % c.impl.kind, rp)
            continue
        ok, recs = common.pcap_records(c.impl.pcap)
        got = [locate(x[4], False, "udp") for x in recs]
        if not ok or len(got) != len(slices):
            ctx.fail("bufio-slices", "%d packets for %d reads" % (len(got), len(slices)), rp)
            continue
        bad = next((j for j, (g, s) in enumerate(zip(got, slices)) if g != s), None)
        if bad is not None:
            start = sum(len(s) for s in slices[:bad])
            ctx.fail("bufio-slices", "read #%d (%s) returned %s, the slice starting where the previous read ended (offset %d) is %s"
                     % (bad, c.gen["ops"][bad], (got[bad] or b"").hex()[:40] or "nothing", start, slices[bad].hex()[:40] or "empty"),
                     rp)
            continue
        if any(slices):
            ctx.distinct(c.text)
        # the specification's consequences, checked on the implementation's own output
        cat = b"".join(got)
        if cat != c.gen["buf"][:len(cat)] or ("a" in c.gen["ops"] and cat != c.gen["buf"]):
            ctx.fail("bufio-partition", "the reads do not concatenate to a prefix of the buffer (the whole buffer after read_all)", rp)
            continue
        if c.impl.pcap != c.model["pcap"]:
            ctx.fail("pcap-differs", "bufio history: the pcap differs from the model's", rp, disagreement=True)
    ctx.sample({"program": cases[0].text[:900], "ops": cases[0].gen["ops"]})
    return len(cases)


def run(ctx):
    check_exhaustive(ctx)
    check_structured(ctx)
    n1 = check_programs(ctx)
    n2 = check_bufio(ctx)
    ctx.exhaustive = True
    ctx.obligation("whole programs ran (%d builder programs, %d read histories)" % (n1, n2), n1 > 0 and n2 > 0)


def replay(ctx, rp):
    ctx.count("replay")
    if rp.get("literal_body_hex") is not None and not rp.get("program"):
        mode = "tok" if rp.get("how", "").find("lith tok") >= 0 else "strlit"
        line = ("STR " if mode == "tok" else "") + (rp["literal_body_hex"] or "-")
        got = litlib.impl(mode, [line], "c05r")[0]
        body = bytes.fromhex(rp["literal_body_hex"]).decode("utf-8")
        want = litlib.ref_decode(body)
        exp = rp.get("expected")
        if want == "REJECT":
            exp = "ERR parse" if mode == "tok" else "ERR"
        elif want != "UNSPEC":
            exp = ("OK str:" if mode == "tok" else "OK ") + litlib.hx(want)
        if got != exp:
            ctx.fail("literal-bytes", "the literal %r decodes to %s, expected %s" % (body[:200], got, exp), rp)
        return
    d, res = common.run_programs("c05r", {"replay": rp["program"]})
    r = res["replay"]
    if r.status != "ok":
        return ctx.fail("payload-program-rejected", "impl outcome %s %s" % (r.status, r.kind), rp)
    ok, recs = common.pcap_records(r.pcap)
    if rp.get("expected_slices") is not None:
        got = [locate(x[4], False, "udp") for x in recs]
        if [g.hex() if g is not None else None for g in got] != rp["expected_slices"]:
            ctx.fail("bufio-slices", "reads returned %s, expected %s" % ([g.hex() for g in got if g is not None], rp["expected_slices"]), rp)
        return
    if rp.get("expected_payload") is not None:
        rec = rp["record"]
        got = locate(recs[rec][4], rp["raw"], rp["locator"]) if ok and len(recs) > rec else None
        if got is None or got.hex() != rp["expected_payload"]:
            ctx.fail("payload-differs", "payload in the packet is %s.., the script supplies %s.."
                     % ((got or b"").hex()[:60], rp["expected_payload"][:60]), rp)
