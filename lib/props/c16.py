"""C16 -- DNS, NetBIOS and DHCP builders emit what an independent decoder reads back."""
import os, struct, itertools
import common, diff, gen
from diff import Case
from gen import *
from props import c15

THEOREMS = ["C16_name_roundtrip", "C16_name_from_dotted", "C16_pointer_offset", "C16_dns_name_fn", "C16_flags_bits",
            "C16_flags_fn", "C16_dns_hdr", "C16_question", "C16_host_messages", "C16_host_decodes", "C16_nb_roundtrip",
            "C16_nb_refused", "C16_dhcp_layout"]
RULE = ("dns::host programs over names from a label generator (1..6 labels of arbitrary non-dot bytes including 0x00 and "
        "0xff, label lengths 1, 2, 62, 63 and random), 0..4 addresses, TTL 0/1/default/2^31/2^32-1, name-server override, raw "
        "and framed; dns::name in its three arities and incomplete + dns::pointer(0, 12, 0x3fff, random); dns::flags and "
        "netbios::ns::flags: all 2^8 flag combinations x sampled (quick) / all 16 x 16 (thorough) opcode, rcode plus "
        "opcode/rcode values above 15, 256 flag words per program; dns::hdr, dns::question, hand-built messages with "
        "compression pointers; netbios::name::encode for every name length 0..17 x suffixes x 1..3 parts and inside a DNS "
        "name; dhcp::hdr with every field at boundary/random values and chaddr/sname/file of lengths 0, 1, width-1, width, "
        "width+1, 300 or absent, followed by options.  Non-trivial = every compared case; distinct by program text")
NOTES = ["correspondence: UDP payloads (and for dns::host the address/port quadruple) of the implementation's pcap = the "
         "model's; oracle: Spec.DnsParse.parse_dns_message / parse_name / decode_flags, Spec.NbDecode.nb_decode, "
         "Spec.DhcpParse.parse_dhcp_header (extracted from Coq) on the implementation's payloads, compared field by field "
         "with what the program supplied; every decoder must consume the payload exactly",
         "the UDP/IP wrapping of the two dns::host datagrams (lengths, checksums) is C02/C03's business; here only "
         "addresses and ports are read off the frames to check 'opposite direction on the same socket pair'",
         "names with an empty label (\"\", a leading, trailing or doubled dot) are outside the quantifier: DnsName::from "
         "emits a zero length octet for the empty label, which a decoder reads as the end of the name "
         "(dns::host(c, \"a.\") sends 01 61 00 00)",
         "pointer offsets >= 0x4000 do not fit the 14-bit field (the top bits are or-ed in): compared with the model only",
         "flags: opcode and rcode arguments are u8 and are reduced to four bits; the theorem C16_flags_bits covers every "
         "value, the table behind it is the 2^8 x 16 x 16 exhaustive vm_compute check"]
MODELLED = ("pkt/src/dns.rs (dns_hdr, DnsFlags, flags::from_opcode/from_rcode, DnsName), src/stdlib/dns.rs, pkt/src/netbios.rs, "
            "src/stdlib/netbios.rs, pkt/src/dhcp.rs dhcp_hdr setters, ezpkt/src/dhcp.rs, src/stdlib/dhcp.rs HDR: Lib/ProtoLib.v")

SRC, DST = "1.2.3.4:1", "1.2.3.5:2"
FLAGS = ["response", "aa", "tc", "rd", "ra", "z", "ad", "cd"]
IMPORTS = [Import(m) for m in ("ipv4", "std", "io", "dhcp", "dns", "netbios")]


def case(cname, stmts, **g):
    c = Case()
    c.name, c.files, c.text, c.meta, c.stmts, c.gen = cname, {}, None, [], IMPORTS + stmts, g
    return c


def uni(*exprs):
    return Do(Call("ipv4::udp::unicast", SOCK(SRC), SOCK(DST), _x=list(exprs)))


def label(r, n=None):
    if n is None:
        n = r.choice([1, 1, 2, 3, 5, 8, 12, 62, 63, r.randint(1, 63)])
    k = r.random()
    if k < 0.4:
        b = bytes(r.choice(b"abcdefghijklmnopqrstuvwxyz0123456789-_") for _ in range(n))
    elif k < 0.55:
        b = bytes([r.choice([0, 255, 0x2d, 0x2f, 0xc0, 0x40])]) * n
    else:
        b = bytes(r.getrandbits(8) for _ in range(n))
    # bytes that mean something to a name encoder at either end of a label: NUL (root / terminator), 0xc0 (pointer
    # marker), 0x40, blank
    if n and r.random() < 0.25:
        b = b[:-1] + bytes([r.choice([0, 0, 0xc0, 0x40, 0x20])])
    if n and r.random() < 0.1:
        b = bytes([r.choice([0, 0xc0, 0x40])]) + b[1:]
    return b.replace(b".", b"\x2f")


def labels(r):
    return [label(r) for _ in range(r.choice([1, 1, 2, 2, 3, 4, 6]))]


def frames_of(pcap):
    """[(src, sport, dst, dport, payload, raw)] -- harness-side glue, headers are other properties' business"""
    ok, recs = common.pcap_records(pcap)
    out = []
    for r in recs:
        f = r[4]
        raw = diff.frame_is_raw(f)
        d = f if raw else f[14:]
        if len(d) < 28 or d[9] != 17:
            return None
        src, dst = struct.unpack(">II", d[12:20])
        sp, dp = struct.unpack(">HH", d[20:24])
        # the message is what the UDP length field delimits (an independent decoder of the capture sees nothing else)
        ulen = struct.unpack(">H", d[24:26])[0]
        out.append((src, sp, dst, dp, d[28:20 + ulen] if ulen >= 8 else b"", raw))
    return out if ok else None


def names_hex(ls):
    return ",".join(l.hex() for l in ls) or "@"


# ------------------------------------------------------------------ generators

def host_cases(ctx):
    r = ctx.rng
    out = []
    n = 500 if ctx.thorough else 110
    for i in range(n):
        ls = labels(r) if i >= 8 else [[b"a"], [b"x" * 63], [b"x" * 63] * 4, [b"\x00"], [b"\xff" * 63, b"\x00" * 63], [b"www", b"example", b"com"],
                                       [bytes([b]) for b in range(1, 40) if b != 46], [b"a"] * 130][i]
        addrs = [rand_ip(r) for _ in range(i % 5)]
        if 8 <= i < 50:
            # one name, 0..41 addresses: response sizes 33 + 31 n sweep the residues mod 256 (length-field carries) and
            # pass 512 bytes
            ls, addrs = [b"www", b"example", b"com"], [rand_ip(r) for _ in range(i - 8)]
        kw = {}
        k = r.random()
        ttl = None
        if k < 0.6:
            ttl = r.choice([0, 1, 229, 2 ** 31, 2 ** 32 - 1, r.getrandbits(32)])
            kw["ttl"] = INT(ttl)
        ns = None
        if r.random() < 0.4:
            ns = rand_ip(r)
            kw["ns"] = IP(ns)
        raw = r.random() < 0.3
        if raw:
            kw["raw"] = True
        elif r.random() < 0.1:
            kw["raw"] = False
        client = rand_ip(r)
        st = [Do(Call("dns::host", IP(client), STR(b".".join(ls)), _x=[IP(a) for a in addrs], **kw))]
        out.append(case("h%d" % i, st, kind="host", labels=ls, addrs=addrs, ttl=229 if ttl is None else ttl,
                        ns=ip("1.1.1.1") if ns is None else ns, raw=raw, client=client))
    return out


def name_cases(ctx):
    r = ctx.rng
    out = []
    k = 0
    for i in range(200 if ctx.thorough else 50):
        ls = labels(r)
        mode = i % 5
        tail = bytes(r.getrandbits(8) for _ in range(r.choice([0, 0, 3])))
        if mode == 0:
            e, want = Call("dns::name"), ([], "-")
        elif mode == 1:
            e, want = Call("dns::name", STR(b".".join(ls))), (ls, "-")
        elif mode == 2:
            ls = [l if r.random() < 0.7 else l[:len(l) // 2] + b"." + l[len(l) // 2:len(l) - 1] for l in (ls if len(ls) > 1 else ls + [label(r)])]
            ls = [l[:63] for l in ls]
            e, want = Call("dns::name", _x=[STR(l) for l in ls]), (ls, "-")            # one label per argument: dots allowed
        elif mode == 3:
            off = r.choice([0, 12, 0x3fff, 0x100, 0xff, r.getrandbits(14)])
            e = None
            st = [uni(Call("dns::name", _x=[STR(l) for l in ls], complete=False), Call("dns::pointer", offset=INT(off)), STR(tail))]
            want = (ls, str(off))
        else:
            off = r.choice([None, 0, 12, 0x3fff, r.getrandbits(14)])
            e = None
            st = [uni(Call("dns::pointer", **({} if off is None else {"offset": INT(off)})), STR(tail))]
            want = ([], str(12 if off is None else off))
        if e is not None:
            st = [uni(e, STR(tail))]
        out.append(case("n%d" % k, st, kind="name", want=want, tail=tail))
        k += 1
    # explicit label lists whose labels end or begin with a byte the encoder itself uses (NUL, pointer marker ...), in
    # the dotted form and in the one-label-per-argument form, complete and followed by a pointer
    for endb in (0x00, 0xc0, 0x40, 0x20, 0xff):
        for ls in ([b"www", b"ab" + bytes([endb])], [bytes([endb]) + b"x", b"y"], [bytes([endb])], [b"a", bytes([endb]) * 3, b"b" + bytes([endb])]):
            tail = b"\x07\x08"
            out.append(case("n%d" % k, [uni(Call("dns::name", _x=[STR(l) for l in ls]), STR(tail))], kind="name", want=(ls, "-"), tail=tail))
            k += 1
            out.append(case("n%d" % k, [uni(Call("dns::name", STR(b".".join(ls))), STR(tail))], kind="name", want=(ls, "-"), tail=tail))
            k += 1
            out.append(case("n%d" % k, [uni(Call("dns::name", _x=[STR(l) for l in ls], complete=False), Call("dns::pointer", offset=INT(12)), STR(tail))],
                            kind="name", want=(ls, "12"), tail=tail))
            k += 1
    for off in (0x4000, 0x8001, 0xffff):
        out.append(case("n%d" % k, [uni(Call("dns::pointer", offset=INT(off)))], kind="pointer-unfit"))
        k += 1
    return out


def flag_cases(ctx):
    r = ctx.rng
    out = []
    if ctx.thorough:
        pairs = [(o, c) for o in range(16) for c in range(16)] + [(16, 16), (255, 255), (0xf0, 0x0f), (0x1f, 0x2a)]
    else:
        pairs = [(0, 0), (15, 15), (1, 3), (2, 5), (5, 10), (8, 0), (0, 8), (4, 1), (16, 16), (255, 255), (0x1f, 0x2a),
                 (r.randrange(16), r.randrange(16)), (r.randrange(16), r.randrange(16)), (r.randrange(256), r.randrange(256))]
    for i, (oc, rc) in enumerate(pairs):
        for fn, cdname in (("dns::flags", "cd"), ("netbios::ns::flags", "b")):
            if fn != "dns::flags" and not (ctx.thorough or i < 6 or oc > 15 or rc > 15):
                continue            # (codes beyond four bits go to both helpers in both tiers: only the named field may change)
            st, words = [], []
            for hi in range(16):
                calls = []
                for lo in range(16):
                    bits = hi * 16 + lo
                    kw = {}
                    vals = []
                    for j, f in enumerate(FLAGS):
                        v = bool(bits >> j & 1)
                        vals.append(v)
                        if v or r.random() < 0.3:
                            kw[cdname if f == "cd" else f] = v
                    if rc or r.random() < 0.5:
                        kw["rcode"] = INT(rc)
                    calls.append(Call("std::be16", Call(fn, INT(oc), **kw)))
                    words.append((vals, oc, rc))
                st.append(uni(*calls))
            out.append(case("f%d%s" % (i, cdname), st, kind="flags", words=words, fn=fn))
    return out


def header_cases(ctx):
    r = ctx.rng
    out = []
    for i in range(60 if ctx.thorough else 16):
        w16 = lambda: r.choice([0, 1, 255, 256, 65535, r.getrandbits(16)])
        ident, qd, an, ns, ar = w16(), w16(), w16(), w16(), w16()
        bits = r.getrandbits(8)
        oc, rc = r.randrange(16), r.randrange(16)
        fl = {f: bool(bits >> j & 1) for j, f in enumerate(FLAGS)}
        kw = {}
        for nme, v in (("qdcount", qd), ("ancount", an), ("nscount", ns), ("arcount", ar)):
            if v or r.random() < 0.5:
                kw[nme] = INT(v)
            else:
                v = 0
        fexpr = Call("dns::flags", INT(oc), rcode=INT(rc), **{f: v for f, v in fl.items() if v})
        if i % 4 == 3:
            word = r.getrandbits(16)
            fexpr = INT(word)
            fl = {f: bool(word & m) for f, m in zip(FLAGS, [0x8000, 0x400, 0x200, 0x100, 0x80, 0x40, 0x20, 0x10])}
            oc, rc = (word >> 11) & 15, word & 15
        tail = bytes(r.getrandbits(8) for _ in range(r.choice([0, 5])))
        st = [uni(Call("dns::hdr", INT(ident), fexpr, **kw), STR(tail))]
        want = "%d %s %d %d %d %d" % (ident, flags_str(fl, oc, rc), qd, an, ns, ar)
        out.append(case("d%d" % i, st, kind="hdr", want=want, tail=tail))
    return out


def flags_str(fl, oc, rc):
    b = lambda x: "1" if x else "0"
    return " ".join([b(fl["response"]), str(oc & 15), b(fl["aa"]), b(fl["tc"]), b(fl["rd"]), b(fl["ra"]), b(fl["z"]), b(fl["ad"]),
                     b(fl["cd"]), str(rc & 15)])


def message_cases(ctx):
    """hand-built messages: header, questions, answers whose names are compression pointers back into the message"""
    r = ctx.rng
    out = []
    for i in range(80 if ctx.thorough else 20):
        ls = labels(r)[:4]
        nq = r.choice([1, 1, 2])
        nan = r.choice([0, 1, 2, 3])
        qt, qc = r.choice([1, 28, 255, 65535]), r.choice([1, 3, 255])
        ident = r.getrandbits(16)
        parts = [Call("dns::hdr", INT(ident), Call("dns::flags", INT(0), response=True, ra=True), qdcount=INT(nq), ancount=INT(nan))]
        wantq, wantrr = [], []
        for q in range(nq):
            parts.append(Call("dns::question", Call("dns::name", STR(b".".join(ls))), qtype=INT(qt), qclass=INT(qc)))
            wantq.append("%s - %d %d" % (names_hex(ls), qt, qc))
        for a in range(nan):
            ttl = r.choice([0, 229, 2 ** 32 - 1, r.getrandbits(32)])
            data = [bytes(r.getrandbits(8) for _ in range(r.choice([0, 1, 4, 16, 255, 256]))) for _ in range(r.choice([1, 1, 2]))]
            style = r.choice(["ptr", "full", "label+ptr"])
            kw = {"ttl": INT(ttl)} if ttl != 229 or r.random() < 0.5 else {}
            if style == "ptr":
                nm, wn = Call("dns::pointer"), "@ 12"
            elif style == "full":
                nm, wn = Call("dns::name", STR(b".".join(ls))), "%s -" % names_hex(ls)
            else:
                extra = label(r)
                # a name is a single argument: labels and pointer are joined in a let
                nm, wn = ("let", extra), "%s 12" % extra.hex()
            parts.append((nm, kw, data))
            wantrr.append((wn, 1, 1, ttl, b"".join(data)))
        st, exprs = [], []
        for j, p in enumerate(parts):
            if isinstance(p, tuple):
                nm, kw, data = p
                if isinstance(nm, tuple):
                    st.append(Let("nm%d" % j, Call("text::concat", _x=[Call("dns::name", _x=[STR(nm[1])], complete=False), Call("dns::pointer", offset=INT(12))])))
                    nm = Ref("nm%d" % j)
                exprs.append(Call("dns::answer", nm, _x=[STR(d) for d in data], **kw))
            else:
                exprs.append(p)
        c = case("m%d" % i, [Import("text")] + st + [uni(*exprs)], kind="message", ident=ident, nq=nq, wantq=wantq, wantrr=wantrr,
                 labels=ls)
        out.append(c)
    return out


def nb_cases(ctx):
    r = ctx.rng
    out = []
    k = 0
    for n in range(0, 18):
        for suffix in [None, 0, 0x20, 0x1b, 0xff] if (ctx.thorough or n in (0, 1, 14, 15, 16, 17)) else [None, r.choice([0, 0x20, 0xff])]:
            kind = r.random()
            if kind < 0.4:
                name = bytes(r.choice(b"ABCDEFGHIJKLMNOPQRSTUVWXYZ0123456789-") for _ in range(n))
            elif kind < 0.55:
                name = bytes([r.choice([0, 255, 0x20])]) * n
            else:
                name = bytes(r.getrandbits(8) for _ in range(n))
            cnt = r.choice([1, 1, 2, 3]) if n else r.choice([0, 1])
            cuts = sorted(r.randint(0, n) for _ in range(max(0, cnt - 1)))
            pieces = [name[a:b] for a, b in zip([0] + cuts, cuts + [n])] if cnt else []
            kw = {} if suffix is None else {"suffix": INT(suffix)}
            e = Call("netbios::name::encode", _x=[STR(p) for p in pieces], **kw)
            inside = n <= 15 and r.random() < 0.3
            st = [uni(Call("dns::name", e))] if inside else [uni(e)]
            out.append(case("b%d" % k, st, kind="netbios", name=name, suffix=0 if suffix is None else suffix, inside=inside))
            k += 1
    return out


def dhcp_cases(ctx):
    r = ctx.rng
    out = []
    widths = {"chaddr": 16, "sname": 64, "file": 128}
    for i in range(150 if ctx.thorough else 40):
        f = {"opcode": 1, "htype": 1, "hlen": 6, "hops": 0, "xid": 0, "ciaddr": 0, "yiaddr": 0, "siaddr": 0, "giaddr": 0,
             "chaddr": b"", "sname": b"", "file": b"", "magic": 0x63825363}
        kw = {}
        for nme in ("opcode", "htype", "hlen", "hops"):
            if r.random() < 0.6:
                f[nme] = r.choice([0, 1, 2, 255, r.getrandbits(8)])
                kw[nme] = INT(f[nme])
        for nme in ("xid", "magic"):
            if r.random() < (0.7 if nme == "xid" else 0.25):
                f[nme] = r.choice([0, 1, 0xffffffff, 0x63825363, r.getrandbits(32)])
                kw[nme] = INT(f[nme])
        for nme in ("ciaddr", "yiaddr", "siaddr", "giaddr"):
            if r.random() < 0.6:
                f[nme] = rand_ip(r)
                kw[nme] = IP(f[nme])
        for nme, w in widths.items():
            if r.random() < 0.75 or i < 6:
                n = r.choice([0, 1, w - 1, w, w + 1, 300, r.randint(0, 2 * w)]) if i >= 6 else [w + 1, 300, w, w - 1, 0, 1][i]
                v = bytes(r.getrandbits(8) for _ in range(n)) if r.random() < 0.7 else bytes([r.choice([0, 255, 0x41])]) * n
                f[nme] = v
                kw[nme] = STR(v)
        nopts = r.choice([0, 0, 1, 3])
        opts = [(r.randint(1, 254), bytes(r.getrandbits(8) for _ in range(r.choice([0, 1, 4, 255])))) for _ in range(nopts)]
        exprs = [Call("dhcp::hdr", **kw)] + [Call("dhcp::option", INT(c), _x=[STR(d)]) for c, d in opts]
        if nopts or r.random() < 0.3:
            exprs.append(STR(b"\xff"))
            end = True
        else:
            end = False
        out.append(case("p%d" % i, [uni(*exprs)], kind="dhcp", f=f, opts=opts, end=end, widths=widths))
    return out


# ------------------------------------------------------------------ the oracle

def unhex(s):
    return b"" if s in ("-", "@") else bytes.fromhex(s)


def run(ctx):
    c15.set_workdir("c16")
    cases = host_cases(ctx) + name_cases(ctx) + flag_cases(ctx) + header_cases(ctx) + message_cases(ctx) + nb_cases(ctx) \
        + dhcp_cases(ctx)
    check(ctx, cases, "c16")
    diff.vacuity_guard(ctx, len(cases), least=0.85)
    ctx.exhaustive = bool(ctx.thorough)         # thorough: all 2^8 x 16 x 16 flag words through the binary
    byk = {}
    for c in cases:
        byk.setdefault(c.gen["kind"], c)
    for k in ("host", "netbios", "dhcp", "message"):
        ctx.sample({"kind": k, "program": byk[k].text[:900]})


def check(ctx, cases, tag):
    diff.run_both(ctx, tag, cases)
    qs, owners = [], []
    failed = set()

    def fail(c, cls, what):
        if c.name not in failed:
            failed.add(c.name)
            ctx.fail(cls, what, diff.replay_of(c, {"gen": {k: (v.hex() if isinstance(v, bytes) else v) for k, v in c.gen.items()
                                                           if k in ("kind", "name", "suffix", "want", "ttl", "raw", "inside", "addrs", "client", "ns")},
                                                   "labels": [l.hex() for l in c.gen.get("labels", [])]}))

    def ask(c, q, what):
        qs.append(q)
        owners.append((c, what))

    for c in cases:
        g = c.gen
        ctx.count(g["kind"] if g["kind"] != "flags" else "flags(x256 words)")
        ic, mc = diff.outcome_class(c)
        if g["kind"] == "netbios" and len(g["name"]) >= 16:
            # names over 15 bytes are refused: a runtime error, nothing emitted
            ctx.dist["nb_refusals_checked"] = ctx.dist.get("nb_refusals_checked", 0) + 1
            if ic != "err:runtime":
                fail(c, "netbios-not-refused", "a %d-byte NetBIOS name is not refused (outcome %s)" % (len(g["name"]), ic))
                continue
        if not diff.triage(ctx, c):
            continue
        ctx.distinct(c.text)
        fi, fm = frames_of(c.impl.pcap), frames_of(c.model["pcap"])
        g["agree"] = fi is not None and fm is not None and [x[:5] for x in fi] == [x[:5] for x in fm]
        if fi is None:
            fail(c, "no-payload", "the output is not a sequence of UDP datagrams")
            continue
        k = g["kind"]
        if k == "host":
            if len(fi) != 2:
                fail(c, "host-count", "%d datagrams for one dns::host call" % len(fi))
                continue
            q, a = fi
            if (q[0], q[1], q[2], q[3]) != (g["client"], 32768, g["ns"], 53) or (a[0], a[1], a[2], a[3]) != (g["ns"], 53, g["client"], 32768):
                fail(c, "host-direction", "query %s:%d -> %s:%d, response %s:%d -> %s:%d: not opposite directions of client:32768 <-> ns:53"
                     % (ipstr(q[0]), q[1], ipstr(q[2]), q[3], ipstr(a[0]), a[1], ipstr(a[2]), a[3]))
                continue
            if q[5] != g["raw"] or a[5] != g["raw"]:
                fail(c, "host-raw", "raw mode not honoured")
                continue
            ask(c, "dnsmsg " + (q[4].hex() or "-"), "query")
            ask(c, "dnsmsg " + (a[4].hex() or "-"), "response")
            ctx.dist["host_answers"] = ctx.dist.get("host_answers", 0) + len(g["addrs"])
        else:
            if k == "flags":
                if len(fi) != 16:
                    fail(c, "flags-count", "%d datagrams" % len(fi))
                    continue
                pl = b"".join(x[4] for x in fi)
                if len(pl) != 512:
                    fail(c, "flags-size", "%d bytes for 256 flag words" % len(pl))
                    continue
                for j in range(256):
                    ask(c, "dnsflags %d" % struct.unpack(">H", pl[2 * j:2 * j + 2])[0], j)
                ctx.dist["flag_words"] = ctx.dist.get("flag_words", 0) + 256
                continue
            if len(fi) != 1:
                fail(c, "count", "%d datagrams" % len(fi))
                continue
            pl = fi[0][4]
            h = pl.hex() or "-"
            if k == "name":
                ask(c, "dnsname " + h, None)
            elif k == "hdr":
                ask(c, "dnshdr " + h, None)
            elif k == "message":
                ask(c, "dnsmsg " + h, "message")
                ask(c, "dnsexpand %s 12" % h, "expand")
            elif k == "netbios":
                if g["inside"]:
                    ask(c, "dnsname " + h, "outer")
                else:
                    ask(c, "nbdec " + h, "nb")
            elif k == "dhcp":
                ask(c, "dhcphdr " + h, "hdr")
    answers = common.spec_batch(qs, tag)
    second = []
    for (c, what), a in zip(owners, answers):
        if c.name in failed:
            continue
        g = c.gen
        k = g["kind"]
        t = a.split(" ")
        if t[0] != "OK":
            fail(c, "decoder-rejects:" + k, "the %s decoder does not accept the payload (%s)" % (k, what))
            continue
        if k == "host":
            secs = a[3:].split(" | ")
            hdr = secs[0].split(" ")
            want_id = g.setdefault("id", hdr[1])
            n = len(g["addrs"])
            if what == "query":
                wh = "H %s %s 1 0 0 0" % (want_id, "0 0 0 0 1 0 0 0 0 0")
                want = [wh, "Q %s - 1 1" % names_hex(g["labels"]), "REST -"]
            else:
                wh = "H %s %s 1 %d 0 0" % (want_id, "1 0 0 0 0 1 0 0 0 0", n)
                want = [wh, "Q %s - 1 1" % names_hex(g["labels"])] + \
                       ["AN %s - 1 1 %d %s" % (names_hex(g["labels"]), g["ttl"], struct.pack(">I", x).hex()) for x in g["addrs"]] + ["REST -"]
            if secs != want:
                d = next((i for i, (x, y) in enumerate(zip(secs, want)) if x != y), min(len(secs), len(want)))
                cls = "host-" + what + ":" + (want[d].split(" ")[0] if d < len(want) else "extra")
                fail(c, cls, "%s decodes to [%s], expected [%s] (section %d of %d/%d)" %
                     (what, (secs[d] if d < len(secs) else "")[:200], (want[d] if d < len(want) else "")[:200], d, len(secs), len(want)))
        elif k == "flags":
            vals, oc, rc = g["words"][what]
            fl = dict(zip(FLAGS, vals))
            if " ".join(t[1:]) != flags_str(fl, oc, rc):
                fail(c, "flag-bits", "%s(%d, %s, rcode %d) decodes to [%s], expected [%s]" %
                     (g["fn"], oc, ",".join(f for f, v in fl.items() if v), rc, " ".join(t[1:]), flags_str(fl, oc, rc)))
        elif k == "name":
            ls, ptr = g["want"]
            if (t[1], t[2], unhex(t[3])) != (names_hex(ls), ptr, g["tail"]):
                fail(c, "name-decode", "name decodes to labels %s pointer %s rest %s, expected %s / %s / %s"
                     % (t[1][:120], t[2], t[3][:20], names_hex(ls)[:120], ptr, g["tail"].hex()))
        elif k == "hdr":
            if " ".join(t[1:-1]) != g["want"] or unhex(t[-1]) != g["tail"]:
                fail(c, "hdr-decode", "header decodes to [%s], expected [%s]" % (" ".join(t[1:-1]), g["want"]))
        elif k == "message":
            if what == "expand":
                # every pointer goes to offset 12: the first question's name
                if t[1] != names_hex(g["labels"]):
                    fail(c, "pointer-target", "the name at offset 12 expands to %s, expected %s" % (t[1][:100], names_hex(g["labels"])[:100]))
                continue
            secs = a[3:].split(" | ")
            want = ["H %d 1 0 0 0 0 1 0 0 0 0 %d %d 0 0" % (g["ident"], g["nq"], len(g["wantrr"]))] + ["Q " + q for q in g["wantq"]] + \
                   ["AN %s %d %d %d %s" % (wn, ty, cl, ttl, data.hex() or "-") for wn, ty, cl, ttl, data in g["wantrr"]] + ["REST -"]
            if secs != want:
                d = next((i for i, (x, y) in enumerate(zip(secs, want)) if x != y), min(len(secs), len(want)))
                fail(c, "message-decode:" + (want[d].split(" ")[0] if d < len(want) else "extra"),
                     "section %d decodes to [%s], expected [%s]" % (d, (secs[d] if d < len(secs) else "")[:200], (want[d] if d < len(want) else "")[:200]))
        elif k == "netbios":
            if what == "outer":
                lab = t[1].split(",")
                if len(lab) != 1 or t[2] != "-" or t[3] != "-" or len(unhex(lab[0])) != 32:
                    fail(c, "netbios-in-name", "dns::name(encode(..)) is not one 32-byte label")
                else:
                    second.append((c, "nbdec " + lab[0]))
                continue
            check_nb(c, t, fail)
        elif k == "dhcp":
            f, w = g["f"], g["widths"]
            fx = lambda v, n: (v + b"\x00" * n)[:n]
            want = [f["opcode"], f["htype"], f["hlen"], f["hops"], f["xid"], 0, 0, f["ciaddr"], f["yiaddr"], f["siaddr"], f["giaddr"]]
            got = [int(x) for x in t[1:12]]
            names = ["op", "htype", "hlen", "hops", "xid", "secs", "flags", "ciaddr", "yiaddr", "siaddr", "giaddr"]
            bad = [n for n, x, y in zip(names, got, want) if x != y]
            for nme, idx in (("chaddr", 12), ("sname", 13), ("file", 14)):
                if unhex(t[idx]) != fx(f[nme], w[nme]):
                    bad.append(nme)
            if int(t[15]) != f["magic"]:
                bad.append("magic")
            if bad:
                fail(c, "dhcp-layout:" + bad[0], "fields %s are not at their RFC 2131 place / value" % bad)
                continue
            rest = unhex(t[16])
            wantrest = b"".join(bytes([cd, len(d) & 255]) + d for cd, d in g["opts"]) + (b"\xff" if g["end"] else b"")
            if rest != wantrest:
                fail(c, "dhcp-size", "%d bytes after the 240-byte header, expected %d" % (len(rest), len(wantrest)))
            elif g["end"]:
                second.append((c, "dhcpopts " + (rest.hex() or "-")))
    for (c, q), a in zip(second, common.spec_batch([q for _, q in second], tag)):
        t = a.split(" ")
        if t[0] != "OK":
            fail(c, "decoder-rejects:" + c.gen["kind"], "second-level decoder rejects: " + q[:60])
        elif c.gen["kind"] == "netbios":
            check_nb(c, t, fail)
        else:
            want = ",".join("%d:%s" % (cd, d.hex() or "-") for cd, d in c.gen["opts"]) or "@"
            if t[1] != want or t[2] != "-":
                fail(c, "dhcp-options", "options decode to %s, expected %s" % (t[1][:100], want[:100]))
    for c in cases:
        if c.gen.get("agree") is False and c.name not in failed:
            ctx.fail("payload-differs", "UDP payloads / addresses differ from the model's (%s)" % c.gen["kind"], diff.replay_of(c),
                     disagreement=True)
    ctx.dist["decoder_queries"] = len(qs) + len(second)


def check_nb(c, t, fail):
    g = c.gen
    want = (g["name"] + b" " * 15)[:15]
    if unhex(t[1]) != want or int(t[2]) != g["suffix"] or t[3] != "-":
        fail(c, "netbios-decode", "decodes to name %s suffix %s rest %s, expected %s / %d" % (t[1], t[2], t[3][:10], want.hex(), g["suffix"]))


def replay(ctx, rp):
    """re-run the program and decode whatever DNS / NetBIOS / DHCP payloads it emits"""
    ctx.count("replay")
    d, res = common.run_programs("c16r", {"replay": rp["program"]})
    r = res["replay"]
    g = rp.get("gen", {})
    if g.get("kind") == "netbios" and len(bytes.fromhex(g.get("name", ""))) >= 16:
        if not (r.status == "err" and r.kind == "runtime"):
            ctx.fail("netbios-not-refused", "an over-long NetBIOS name is not refused", {"program": rp["program"]})
        return
    if r.status != "ok":
        return ctx.fail("replay-not-ok", "impl outcome %s %s" % (r.status, r.kind), {"program": rp["program"]})
    fi = frames_of(r.pcap)
    if g.get("kind") == "host" and fi is not None and len(fi) == 2:
        ls = [bytes.fromhex(x) for x in rp.get("labels", [])]
        qa = common.spec_batch(["dnsmsg " + (fi[0][4].hex() or "-"), "dnsmsg " + (fi[1][4].hex() or "-")], "c16r")
        n = len(g.get("addrs", []))
        wq = ["Q %s - 1 1" % names_hex(ls), "REST -"]
        wa = ["Q %s - 1 1" % names_hex(ls)] + ["AN %s - 1 1 %d %s" % (names_hex(ls), g["ttl"], struct.pack(">I", x).hex()) for x in g["addrs"]] + ["REST -"]
        sq, sa = qa[0][3:].split(" | "), qa[1][3:].split(" | ")
        hq, ha = sq[0].split(" "), sa[0].split(" ")
        ok = qa[0].startswith("OK") and qa[1].startswith("OK") and sq[1:] == wq and sa[1:] == wa and hq[1] == ha[1] \
            and hq[2] == "0" and ha[2] == "1" and hq[12:] == ["1", "0", "0", "0"] and ha[12:] == ["1", str(n), "0", "0"] \
            and fi[0][:4] == (g["client"], 32768, g["ns"], 53) and fi[1][:4] == (g["ns"], 53, g["client"], 32768)
        if not ok:
            return ctx.fail("host-decode", "query [%s] response [%s] do not decode to the supplied name/addresses/TTL" % (qa[0][:150], qa[1][:150]),
                            {"program": rp["program"]})
    want = rp.get("model", {}).get("pcap")
    if want and (fi is None or [x[:5] for x in fi] != [x[:5] for x in frames_of(bytes.fromhex(want))]):
        ctx.fail("payload-differs", "payloads differ from the model output recorded in the replay", {"program": rp["program"]})
