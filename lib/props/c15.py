"""C15 -- every length-prefixed structure declares exactly the bytes that follow."""
import os, struct
import common, diff, gen
from diff import Case
from gen import *

THEOREMS = ["C15_len_u8", "C15_len_be16", "C15_len_be32", "C15_len_be64", "C15_int_helpers", "C15_tls_record",
            "C15_tls_extension", "C15_tls_extensions_sequence", "C15_tls_ciphers", "C15_client_hello_framing",
            "C15_server_hello_framing", "C15_client_hello_roundtrip", "C15_server_hello_roundtrip", "C15_sni",
            "C15_certificates", "C15_dhcp_option", "C15_dhcp_options_sequence", "C15_dns_rr",
            # every content size: exact output, "fits" is necessary as well as sufficient, explicit nesting (Props/C15b.v)
            "C15b_len_u8_exact", "C15b_len_be16_exact", "C15b_len_u8_iff", "C15b_len_be16_iff", "C15b_len_nested",
            "C15b_int_exact", "C15b_int_iff", "C15b_tls_record_iff", "C15b_tls_extension_iff", "C15b_dhcp_option_iff",
            "C15b_len_be32_exact", "C15b_len_be32_iff"]
PROPS = ["C15", "C15b"]
VO = ["theories/Props/C15.vo", "theories/Props/C15b.vo"]
RULE = ("one structure per program, sent as the payload of ipv4::udp::unicast (structures over 60000 bytes through "
        "io::bufio(...).read(60000) in several datagrams): every helper x content sizes 0, 1, 255, 256 and -- for the "
        "16/24/32/64-bit fields -- 65535 and 65536 (from data files) x 0..4 collected parts; all 16 present/absent "
        "combinations of the optional arguments of client_hello and server_hello, each with 0, 1 and 3 extensions; "
        "random nestings to depth 5 of every helper inside every helper that takes bytes (extension in hello in "
        "record, len helper in extension, sni/certificates/options/RRs inside len helpers, ...).  Sizes that do not fit "
        "the field (256 under a u8, 65536 under a be16) are outside the property: compared with the model, and a lone "
        "std::len_u8 / std::len_be16 over content that does not fit must declare the count modulo the field width and keep "
        "the whole content (C15b_len_*_exact).  "
        "Non-trivial = every case (each carries at least one length field); distinct by program text")
NOTES = ["correspondence: concatenated UDP payloads of the implementation's pcap = the model's; oracle: the extracted "
         "Spec parsers (LenPrefix/TlsParse/DhcpParse/DnsParse) walk the implementation's payload top-down along the tree "
         "the generator built: each parser must succeed, return the supplied header fields, hand its content to the "
         "parsers of the parts in order, and the last one must leave no byte over",
         "nesting needs no theorem of its own: every helper takes and returns plain bytes and each theorem quantifies over "
         "arbitrary part bytes and an arbitrary trailing rest",
         "dhcp::option(0, ...) and dhcp::option(255, ...) produce a TLV although RFC 2132 makes pad and end single octets; "
         "C15_dhcp_options_sequence is stated for codes 1..254 and the generator keeps to them inside option sequences",
         "a hello parser needs session id, cipher list and compression framed (std::len_u8, tls::ciphers, std::len_u8 or "
         "the defaults); with raw bytes in those positions only the handshake length and the extension block are checked "
         "(C15_client_hello_framing / C15_server_hello_framing)"]
MODELLED = ("src/stdlib/std.rs, tls.rs (func! bodies), dhcp.rs OPTION + pkt/src/dhcp.rs dhcp_opt::create, dns.rs DNS_ANSWER: "
            "Lib/MiscLib.v std_int_fn/std_len_fn, Lib/ProtoLib.v tls_*_fn, dhcp_option_fn, dns_answer_fn")

SRC, DST = "1.2.3.4:1", "1.2.3.5:2"
CHUNK = 60000
CLIENT_RANDOM = b"_client__random__client__random_"
SERVER_RANDOM = b"_server__random__server__random_"
INTS = {"u8": 1, "be16": 2, "be32": 4, "be64": 8, "le16": 2, "le32": 4, "le64": 8}
LENS = {1: "std::len_u8", 2: "std::len_be16", 4: "std::len_be32", 8: "std::len_be64"}


class Node:
    """kind + parameters + the nodes making up its variable-length content (kids)"""

    def __init__(self, kind, kids=(), **p):
        self.kind, self.kids, self.p = kind, list(kids), p

    # ---- expected size in bytes and whether every length fits its field
    def size(self):
        k, p = self.kind, self.p
        inner = sum(c.size() for c in self.kids)
        if k == "lit":
            return len(p["b"])
        if k == "int":
            return INTS[p["enc"]]
        if k == "len":
            return p["k"] + inner
        if k == "rec":
            return 5 + inner
        if k == "ext":
            return 4 + inner
        if k == "ciphers":
            return 2 + 2 * len(p["ids"])
        if k in ("chello", "shello"):
            return 4 + self.body_size()
        if k == "sni":
            return 6 + sum(3 + len(n) for n in p["names"])
        if k == "certs":
            return 7 + sum(3 + len(c) for c in p["certs"])
        if k == "dhcpopt":
            return 2 + inner
        if k == "answer":
            return sum(1 + len(l) for l in p["labels"]) + 1 + 10 + inner
        raise ValueError(k)

    def body_size(self):
        p = self.p
        inner = sum(c.size() for c in self.kids)
        if self.kind == "chello":
            fixed = sum((p[x].size() if p.get(x) is not None else d) for x, d in (("sid", 1), ("ciphers", 4), ("comp", 2)))
        else:
            fixed = (p["sid"].size() if p.get("sid") is not None else 1) + 3
        return 34 + fixed + (2 + inner if inner else 0)

    def fits(self):
        k, p = self.kind, self.p
        inner = sum(c.size() for c in self.kids)
        ok = all(c.fits() for c in self.kids)
        for x in ("sid", "ciphers", "comp"):
            if isinstance(p.get(x), Node):
                ok = ok and p[x].fits()
        if k == "len":
            ok = ok and inner < 256 ** p["k"]
        elif k in ("rec", "ext", "answer"):
            ok = ok and inner < 65536
        elif k == "ciphers":
            ok = ok and 2 * len(p["ids"]) < 65536
        elif k in ("chello", "shello"):
            ok = ok and inner < 65536 and self.body_size() < 2 ** 24
        elif k == "sni":
            ok = ok and self.size() - 4 < 65536
        elif k == "certs":
            ok = ok and self.size() - 4 < 2 ** 24
        elif k == "dhcpopt":
            ok = ok and inner < 256
        return ok

    # ---- the expression of the program
    def expr(self, files, tag):
        k, p = self.kind, self.p
        kx = [c.expr(files, tag) for c in self.kids]
        if k == "lit":
            return lit_expr(p["b"], files, tag)
        if k == "int":
            return Call("std::" + p["enc"], INT(p["value"]))
        if k == "len":
            return Call(LENS[p["k"]], _x=kx)
        if k == "rec":
            kw = {x: INT(p[x]) for x in ("version", "content") if p.get(x) is not None}
            return Call("tls::message", _x=kx, **kw)
        if k == "ext":
            return Call("tls::extension", INT(p["type"]), _x=kx)
        if k == "ciphers":
            return Call("tls::ciphers", _x=[INT(i) for i in p["ids"]])
        if k == "chello":
            kw = {}
            if p.get("version") is not None:
                kw["version"] = INT(p["version"])
            for x, a in (("sid", "sessionid"), ("ciphers", "ciphers"), ("comp", "compression")):
                if p.get(x) is not None:
                    kw[a] = p[x].expr(files, tag)
            return Call("tls::client_hello", _x=kx, **kw)
        if k == "shello":
            kw = {}
            if p.get("version") is not None:
                kw["version"] = INT(p["version"])
            if p.get("sid") is not None:
                kw["sessionid"] = p["sid"].expr(files, tag)
            if p.get("cipher") is not None:
                kw["cipher"] = INT(p["cipher"])
            if p.get("comp") is not None:
                kw["compression"] = INT(p["comp"])
            return Call("tls::server_hello", _x=kx, **kw)
        if k == "sni":
            return Call("tls::sni", _x=items_expr(p["names"], p.get("bufio"), files, tag))
        if k == "certs":
            return Call("tls::certificates", _x=items_expr(p["certs"], p.get("bufio"), files, tag))
        if k == "dhcpopt":
            return Call("dhcp::option", INT(p["code"]), _x=kx)
        if k == "answer":
            kw = {x: INT(p[x]) for x in ("atype", "aclass", "ttl") if p.get(x) is not None}
            name = Call("dns::name", _x=[STR(l) for l in p["labels"]])
            return Call("dns::answer", name, _x=kx, **kw)
        raise ValueError(k)

    def describe(self):
        k = self.kind
        if k == "lit":
            return "lit%d" % len(self.p["b"])
        extra = ""
        if k == "len":
            extra = str(self.p["k"] * 8)
        if k == "int":
            extra = self.p["enc"]
        return "%s%s(%s)" % (k, extra, ",".join(c.describe() for c in self.kids))


WD = [None]        # work directory of the run: data files are addressed by absolute path


def set_workdir(tag):
    WD[0] = common.BUILD + "/work/%s-%d" % (tag, os.getpid())


PRELUDE = []          # statements an expression needs in front of it (filled while a case is rendered)


def items_expr(items, via_bufio, files, tag):
    """the items as literals, or -- the way a script carves them out of one blob -- as consecutive io::bufio reads
    bound to names (each is then a piece of a larger buffer used directly as an item)"""
    if not via_bufio or not items or sum(len(x) for x in items) > 1200:
        return [lit_expr(x, files, tag) for x in items]
    k = len(PRELUDE)
    buf = "zb%d" % k
    PRELUDE.append(Let(buf, Call("io::bufio", _x=[STR(b"".join(items) + b"tail-of-the-blob")])))
    out = []
    for i, x in enumerate(items):
        nm = "zi%d_%d" % (k, i)
        PRELUDE.append(Let(nm, Call(buf + ".read", INT(len(x)))))
        out.append(Ref(nm))
    return out


_kinds = [0]


def lit_expr(b, files, tag):
    # a part need not be a string: an address is its four octets, an integer literal its eight bytes (every third such
    # part is written that way; the bytes that must follow the length are the same)
    if len(b) in (4, 8):
        _kinds[0] += 1
        if _kinds[0] % 3 == 0:
            v = int.from_bytes(b, "big")
            return gen.Lit("ip", v, "%d.%d.%d.%d" % tuple(b)) if len(b) == 4 else INT(v)
    if len(b) <= 1200:
        return STR(b)
    fn = "%s_f%d.bin" % (tag, len(files))
    files[fn] = b
    path = WD[0] + "/" + fn
    return Call("io::file", STR(path, '"%s"' % path))


def L(b):
    return Node("lit", b=bytes(b))


def to_json(v):
    if isinstance(v, Node):
        return {"node": v.kind, "p": {k: to_json(x) for k, x in v.p.items()}, "kids": [to_json(c) for c in v.kids]}
    if isinstance(v, (bytes, bytearray)):
        return {"hex": bytes(v).hex()}
    if isinstance(v, (list, tuple)):
        return [to_json(x) for x in v]
    return v


def from_json(v):
    if isinstance(v, dict) and "node" in v:
        return Node(v["node"], [from_json(c) for c in v["kids"]], **{k: from_json(x) for k, x in v["p"].items()})
    if isinstance(v, dict) and "hex" in v:
        return bytes.fromhex(v["hex"])
    if isinstance(v, list):
        return [from_json(x) for x in v]
    return v


# ------------------------------------------------------------------ the oracle: a top-down walk with the Spec parsers

class Walk:
    """Work items (case, data, seq, path): [data] must be exactly the encodings of the nodes [seq], in order."""

    def __init__(self, ctx):
        self.ctx, self.items, self.failed, self.queries = ctx, [], set(), 0

    def add(self, c, data, seq, path):
        self.items.append((c, data, list(seq), path))

    def fail(self, c, cls, what):
        if c.name not in self.failed:
            self.failed.add(c.name)
            tree = to_json(c.gen["roots"]) if c.gen.get("size", 0) < 5000 and "roots" in c.gen else None
            self.ctx.fail(cls, what, diff.replay_of(c, {"structure": c.gen.get("shape"), "tree": tree}))

    def run(self, tag="c15"):
        rounds = 0
        while self.items and rounds < 400:
            rounds += 1
            batch, self.items = self.items, []
            qs, owners = [], []
            for (c, data, seq, path) in batch:
                if c.name in self.failed:
                    continue
                # literals need no parser
                while seq and seq[0].kind == "lit":
                    b = seq[0].p["b"]
                    if data[:len(b)] != b:
                        self.fail(c, "part-not-recovered:lit", "%s: the supplied %d bytes are not at their place" % (path, len(b)))
                        break
                    data, seq = data[len(b):], seq[1:]
                else:
                    if not seq:
                        if data:
                            self.fail(c, "bytes-left-over", "%s: %d bytes left after the last part" % (path, len(data)))
                        continue
                    q = self.query(seq[0], data)
                    qs.append(q)
                    owners.append((c, data, seq, path))
            answers = common.spec_batch(qs, tag)
            self.queries += len(qs)
            for (c, data, seq, path), a in zip(owners, answers):
                self.step(c, data, seq, path, a)
        return rounds

    def query(self, n, data):
        k, h = n.kind, data.hex() or "-"
        if k == "int":
            return "int %s %s" % (n.p["enc"], h)
        if k == "len":
            return "lenp %d %s" % (n.p["k"], h)
        return {"rec": "tlsrec", "ext": "ext", "ciphers": "ciphers", "chello": "hs", "shello": "hs", "sni": "sni",
                "certs": "certs", "dhcpopt": "dhcpopt", "answer": "dnsrr", "extblock": "lenp 2",
                "chbody": "chello", "shbody": "shello"}[k] + " " + h

    def step(self, c, data, seq, path, a):
        n, rest_seq = seq[0], seq[1:]
        k, p = n.kind, n.p
        here = path + "/" + k
        t = a.split(" ")
        if t[0] != "OK":
            return self.fail(c, "parser-rejects:" + k, "%s: the %s parser does not accept the bytes (%s...)" % (here, k, data[:24].hex()))
        unhex = lambda s: b"" if s == "-" else bytes.fromhex(s)
        bad = lambda what: self.fail(c, "part-not-recovered:" + k, "%s: %s" % (here, what))
        if k in ("chbody", "shbody"):
            # the composed hello parser on the handshake body: fields against what was supplied
            if k == "chbody":
                v, rnd, sid, cs, comp = int(t[1]), unhex(t[2]), unhex(t[3]), t[4], unhex(t[5])
                ext = unhex(t[7]) if t[6] == "EXT" else None
                got = (v, rnd, sid, [] if cs == "@" else [int(x) for x in cs.split(",")], comp)
            else:
                v, rnd, sid, cs, comp = int(t[1]), unhex(t[2]), unhex(t[3]), int(t[4]), int(t[5])
                ext = unhex(t[7]) if t[6] == "EXT" else None
                got = (v, rnd, sid, cs, comp)
            if got != p["want"]:
                return bad("hello fields %s, supplied %s" % (str(got)[:200], str(p["want"])[:200]))
            if (ext is None) != (p["extlen"] == 0) or (ext is not None and len(ext) != p["extlen"]):
                return bad("extension block %s, %d extension bytes supplied" % ("absent" if ext is None else "%d bytes" % len(ext), p["extlen"]))
            return
        rest = unhex(t[-1])
        if k == "int":
            if int(t[1]) != p["value"] % (256 ** INTS[p["enc"]]):
                return bad("decodes to %s, supplied %d" % (t[1], p["value"]))
        elif k in ("len", "extblock"):
            self.add(c, unhex(t[1]), n.kids, here)
        elif k == "rec":
            want = (p["content"] if p.get("content") is not None else 22, p["version"] if p.get("version") is not None else 0x0303)
            if (int(t[1]), int(t[2])) != want:
                return bad("content/version %s/%s, supplied %s" % (t[1], t[2], want))
            self.add(c, unhex(t[3]), n.kids, here)
        elif k == "ext":
            if int(t[1]) != p["type"]:
                return bad("type %s, supplied %d" % (t[1], p["type"]))
            self.add(c, unhex(t[2]), n.kids, here)
        elif k == "ciphers":
            got = [] if t[1] == "@" else [int(x) for x in t[1].split(",")]
            if got != p["ids"]:
                return bad("ids %s, supplied %s" % (got[:8], p["ids"][:8]))
        elif k in ("chello", "shello"):
            if int(t[1]) != (1 if k == "chello" else 2):
                return bad("handshake type %s" % t[1])
            body = unhex(t[2])
            v = p["version"] if p.get("version") is not None else 0x0303
            sid = [p["sid"]] if p.get("sid") is not None else [L(b"\x00")]
            blk = [Node("extblock", n.kids)] if sum(x.size() for x in n.kids) else list(n.kids)
            if k == "chello":
                ci = [p["ciphers"]] if p.get("ciphers") is not None else [L(b"\x00\x02\x00\x00")]
                co = [p["comp"]] if p.get("comp") is not None else [L(b"\x01\x00")]
                bseq = [L(struct.pack(">H", v) + CLIENT_RANDOM)] + sid + ci + co + blk
            else:
                cs = p["cipher"] if p.get("cipher") is not None else 0
                co = p["comp"] if p.get("comp") is not None else 0
                bseq = [L(struct.pack(">H", v) + SERVER_RANDOM)] + sid + [L(struct.pack(">HB", cs, co))] + blk
            self.add(c, body, bseq, here)
            st = structured(n)
            if st is not None:
                self.add(c, body, [Node("chbody" if k == "chello" else "shbody", want=st,
                                        extlen=sum(x.size() for x in n.kids))], here)
        elif k == "sni":
            got = [] if t[1] == "@" else [(int(x.split(":")[0]), unhex(x.split(":")[1])) for x in t[1].split(",")]
            if got != [(0, nm) for nm in p["names"]]:
                return bad("names %s, supplied %d names" % (str(got)[:120], len(p["names"])))
        elif k == "certs":
            got = [] if t[1] == "@" else [unhex(x) for x in t[1].split(",")]
            if got != p["certs"]:
                return bad("%d certificates of sizes %s, supplied sizes %s" % (len(got), [len(x) for x in got][:6], [len(x) for x in p["certs"]][:6]))
        elif k == "dhcpopt":
            if int(t[1]) != p["code"]:
                return bad("code %s, supplied %d" % (t[1], p["code"]))
            self.add(c, unhex(t[2]), n.kids, here)
        elif k == "answer":
            labels = [] if t[1] == "@" else [unhex(x) for x in t[1].split(",")]
            want = (p["labels"], "-", p["atype"] if p.get("atype") is not None else 1, p["aclass"] if p.get("aclass") is not None else 1,
                    p["ttl"] if p.get("ttl") is not None else 229)
            got = (labels, t[2], int(t[3]), int(t[4]), int(t[5]))
            if got != want:
                return bad("RR header %s, supplied %s" % (str(got)[:160], str(want)[:160]))
            self.add(c, unhex(t[6]), n.kids, here)
        self.add(c, rest, rest_seq, path)


def structured(n):
    """fields a hello parser must return when session id / ciphers / compression are framed (or defaulted)"""
    p = n.p
    v = p["version"] if p.get("version") is not None else 0x0303

    def framed_u8(x):
        if x is None:
            return None
        if x.kind == "len" and x.p["k"] == 1 and all(c.kind == "lit" for c in x.kids):
            return b"".join(c.p["b"] for c in x.kids)
        return False
    sid = framed_u8(p.get("sid"))
    if sid is False:
        return None
    sid = b"" if sid is None else sid
    if n.kind == "chello":
        ci = p.get("ciphers")
        if ci is not None and ci.kind != "ciphers":
            return None
        ids = [0] if ci is None else list(ci.p["ids"])
        co = framed_u8(p.get("comp"))
        if co is False:
            return None
        co = b"\x00" if co is None else co
        return (v, CLIENT_RANDOM, sid, ids, co)
    return (v, SERVER_RANDOM, sid, p["cipher"] if p.get("cipher") is not None else 0, p["comp"] if p.get("comp") is not None else 0)


# ------------------------------------------------------------------ programs

def make_case(name, roots, kind, single=False):
    c = Case()
    c.name, c.files, c.text, c.meta = name, {}, None, []
    size = sum(n.size() for n in roots)
    del PRELUDE[:]
    exprs = [n.expr(c.files, name) for n in roots]
    st = [Import(m) for m in ("ipv4", "std", "tls", "io", "dhcp", "dns", "netbios")] + list(PRELUDE)
    if size <= CHUNK or single:
        # (single: a structure of 64 KiB or more in ONE datagram -- the UDP and IP length fields wrap, the bytes must
        # all be there: the record is read to its end, not to the UDP length)
        st.append(Do(Call("ipv4::udp::unicast", SOCK(SRC), SOCK(DST), _x=exprs)))
    else:
        st.append(Let("b", Call("io::bufio", _x=exprs)))
        for _ in range(size // CHUNK + 1):
            st.append(Do(Call("ipv4::udp::unicast", SOCK(SRC), SOCK(DST), _x=[Call("b.read", INT(CHUNK))])))
    c.stmts = st
    c.gen = {"kind": kind, "roots": roots, "size": size, "fits": all(n.fits() for n in roots),
             "shape": " ".join(n.describe() for n in roots)}
    return c


def payload_of(pcap):
    ok, recs = common.pcap_records(pcap)
    if not ok:
        return None
    out = b""
    for r in recs:
        f = r[4]
        if len(f) < 42 or f[12:14] != b"\x08\x00" or f[23] != 17:
            return None
        out += f[42:]
    return out


DELIMS = [0x2e, 0x00, 0x20, 0x0a, 0x0d, 0x2f, 0x3a, 0x09]


def rbytes(r, n):
    k = r.random()
    if k < 0.15:
        return bytes([r.choice([0, 255])]) * n
    b = bytearray(r.getrandbits(8) for _ in range(n))
    # contents that end or begin with something a "tidy" builder might strip (dot, NUL, blank, line end, slash, colon)
    if n and r.random() < 0.25:
        b[-1] = r.choice(DELIMS)
    if n and r.random() < 0.1:
        b[0] = r.choice(DELIMS)
    return bytes(b)


def parts(r, total, count):
    """[total] bytes cut into [count] literal parts (count 0 only for total 0)"""
    if count == 0:
        return []
    b = rbytes(r, total)
    cuts = sorted(r.randint(0, total) for _ in range(count - 1))
    out, prev = [], 0
    for x in cuts + [total]:
        out.append(L(b[prev:x]))
        prev = x
    return out


def helper_cases(ctx, prefix=""):
    """every framing helper x boundary sizes x counts of parts"""
    r = ctx.rng
    cases = []
    k = [0]

    def add(roots, kind, single=False):
        cases.append(make_case("%sh%d" % (prefix, k[0]), roots, kind, single=single))
        k[0] += 1

    def framers(kids):
        return [Node("len", kids, k=1), Node("len", kids, k=2), Node("len", kids, k=4), Node("len", kids, k=8),
                Node("rec", kids, version=r.choice([0x0301, 0x0303, 0xffff, 0]), content=r.choice([20, 21, 22, 23, 255])),
                Node("rec", kids), Node("ext", kids, type=r.choice([0, 11, 16, 0xffff, r.getrandbits(16)])),
                Node("dhcpopt", kids, code=r.choice([1, 12, 53, 61, 254, 0, 255, r.randint(1, 254)])),
                Node("answer", kids, labels=[b"a", b"bc"], atype=r.choice([1, 16, 28, 65535]), ttl=r.choice([0, 1, 2 ** 32 - 1])),
                Node("answer", kids, labels=[b"x" * 63])]
    small = [0, 1, 2, 255, 256]
    for size in small:
        for count in range(0, 5):
            if count == 0 and size:
                continue
            for n in framers(parts(r, size, count)):
                add([n], "helper:%s" % n.kind)
    # parts that are not strings: addresses (4 octets) and integer literals (8 bytes) among string parts
    for rep in range(3):
        typed = [b"ab", bytes([192, 168, rep, 1]), b"cd", (0x0102030405060708 + rep).to_bytes(8, "big"), bytes([10, 0, 0, 7 + rep]), b""]
        for n in framers([L(x) for x in typed[rep:] + typed[:rep]]):
            add([n], "helper-typed-parts:%s" % n.kind)
    big = [65535, 65536] if ctx.thorough else [65535]
    for size in big:
        for count in (1, 3):
            for n in framers(parts(r, size, count)):
                if n.kind == "len" and n.p["k"] == 1 or n.kind == "dhcpopt":
                    continue
                add([n], "helper-big:%s" % n.kind)
    if not ctx.thorough:
        add([Node("len", parts(r, 65536, 2), k=4)], "helper-big:len")
        add([Node("len", parts(r, 65536, 1), k=2)], "helper-big:len")
    # integers
    for enc, w in INTS.items():
        top = 256 ** w
        for v in sorted({0, 1, 255, 256, 65535, 65536, top - 1, top // 2, r.randrange(top)}):
            if v < top:
                add([Node("int", enc=enc, value=v), L(b"\xaa")], "int:" + enc)
        if w < 8:
            add([Node("int", enc=enc, value=top + 5)], "int-wraps:" + enc)      # as-cast: the walker expects the value modulo the field width (C15b_int_exact)
    # cipher lists
    for cnt in [0, 1, 2, 3, 4, 127, 128, 255, 256]:
        add([Node("ciphers", ids=[r.choice([0, 1, 0xc02f, 0xffff, r.getrandbits(16)]) for _ in range(cnt)])], "ciphers")
    # server-name lists and certificate chains
    for cnt in range(0, 5):
        for sz in [0, 1, 255, 256]:
            if cnt == 0 and sz:
                continue
            add([Node("sni", names=[rbytes(r, sz if i == 0 else r.choice([0, 1, 7, sz])) for i in range(cnt)])], "sni")
            add([Node("certs", certs=[rbytes(r, sz if i == 0 else r.choice([0, 1, 7, sz])) for i in range(cnt)])], "certs")
            add([Node("sni", names=[rbytes(r, sz if i == 0 else r.choice([0, 1, 7, sz])) for i in range(cnt)], bufio=True)], "sni")
            add([Node("certs", certs=[rbytes(r, sz if i == 0 else r.choice([0, 1, 7, sz])) for i in range(cnt)], bufio=True)], "certs")
    add([Node("sni", names=[rbytes(r, 65535 - 5 - 3)])], "sni-big")                     # list length field = 65530, total 65535 - 3... exact fit
    add([Node("sni", names=[rbytes(r, 65530)])], "sni-big")                             # 2 + 3 + 65530 = 65535: the largest that fits
    add([Node("sni", names=[rbytes(r, 65531)])], "sni-big")                             # one more: outside
    add([Node("certs", certs=[rbytes(r, 65535)])], "certs-big")
    add([Node("certs", certs=[rbytes(r, 65536)])], "certs-big")                         # 24-bit length with a non-zero high byte
    add([Node("certs", certs=[rbytes(r, 65536), rbytes(r, 300), b""])], "certs-big")
    # structures of 64 KiB and more carried by one datagram
    add([Node("len", [L(rbytes(r, 66000))], k=4)], "one-datagram-over-64k", single=True)
    add([Node("certs", certs=[rbytes(r, 66000)])], "one-datagram-over-64k", single=True)
    add([Node("len", [L(rbytes(r, 65535))], k=2)], "one-datagram-over-64k", single=True)
    if ctx.thorough:
        add([Node("certs", certs=[rbytes(r, 70000), rbytes(r, 66000)])], "certs-big")
        add([Node("rec", [Node("certs", certs=[rbytes(r, 65535 - 10)])])], "certs-big")
    # option sequences
    for cnt in range(0, 5):
        opts = [Node("dhcpopt", parts(r, r.choice([0, 1, 4, 255]), 1), code=r.randint(1, 254)) for _ in range(cnt)]
        add(opts + [L(b"\xff"), L(b"\x00\x00")], "dhcp-options")
        # the same bytes through the RFC 2132 options parser (pad / end / TLV) in one go
        want = ",".join("%d:%s" % (o.p["code"], o.kids[0].p["b"].hex() or "-") for o in opts) or "@"
        cases[-1].gen["whole"] = ("dhcpopts", "OK %s 0000" % want)
    return cases


def hello_cases(ctx, prefix=""):
    r = ctx.rng
    cases = []
    k = 0
    for which in ("chello", "shello"):
        for mask in range(16):
            for nex in (0, 1, 3):
                p = {}
                if mask & 1:
                    p["version"] = r.choice([0x0301, 0x0302, 0x0303, 0x0304, 0xffff])
                if mask & 2:
                    p["sid"] = Node("len", parts(r, r.choice([0, 1, 32, 255]), 1), k=1)
                if which == "chello":
                    if mask & 4:
                        p["ciphers"] = Node("ciphers", ids=[r.getrandbits(16) for _ in range(r.choice([0, 1, 2, 30]))])
                    if mask & 8:
                        p["comp"] = Node("len", parts(r, r.choice([0, 1, 2]), 1), k=1)
                else:
                    if mask & 4:
                        p["cipher"] = r.choice([0, 0xc030, 0xffff])
                    if mask & 8:
                        p["comp"] = r.choice([0, 1, 255])
                exts = []
                for i in range(nex):
                    kind = r.choice(["ext", "ext", "sni", "extlen", "empty"])
                    if kind == "ext":
                        exts.append(Node("ext", parts(r, r.choice([0, 1, 5, 255, 256]), r.choice([1, 2])), type=r.getrandbits(16)))
                    elif kind == "sni":
                        exts.append(Node("sni", names=[rbytes(r, r.randint(1, 20))]))
                    elif kind == "extlen":
                        exts.append(Node("ext", [Node("len", [Node("len", parts(r, 4, 1), k=1), Node("len", parts(r, 2, 1), k=1)], k=2)], type=16))
                    else:
                        exts.append(Node("ext", [], type=r.choice([23, 35, 0xff01])))
                hello = Node(which, exts, **p)
                roots = [hello] if r.random() < 0.5 else [Node("rec", [hello], version=0x0301)]
                cases.append(make_case("%so%d" % (prefix, k), roots, "hello-options:%s" % which))
                k += 1
    # raw (unframed) bytes in the positional slots; an extension block at the 16-bit boundary; a 24-bit boundary
    for i in range(6):
        p = {"sid": L(rbytes(r, r.choice([0, 3, 33]))), "version": 0x0303}
        hello = Node("chello", [Node("ext", parts(r, 10, 1), type=5)] if i % 2 else [], ciphers=L(rbytes(r, r.choice([0, 5]))),
                     comp=L(rbytes(r, r.choice([0, 1, 4]))), **p)
        cases.append(make_case("%so%d" % (prefix, k), [hello], "hello-raw"))
        k += 1
    # the smallest extension blocks: one empty extension (4 bytes), a single byte, an empty literal
    for which in ("chello", "shello"):
        for kids in ([Node("ext", [], type=35)], [L(b"\x01")], [L(b"")], [L(b""), Node("ext", [], type=0)], [L(b"\x00\x00")]):
            cases.append(make_case("%so%d" % (prefix, k), [Node(which, kids)], "hello-small-ext"))
            k += 1
    for which in ("chello", "shello"):
        for extbytes in ([65535, 65536] if ctx.thorough else [65535]):
            hello = Node(which, [Node("ext", parts(r, extbytes - 4, 2), type=21)])        # block of exactly extbytes bytes
            cases.append(make_case("%so%d" % (prefix, k), [hello], "hello-big"))
            k += 1
    return cases


def random_tree(r, depth, budget):
    """a random nesting; [budget] bounds the bytes of literals below"""
    def kids(d, b, maxn=3):
        n = r.choice([0, 1, 1, 2, 3][:maxn + 2])
        return [tree(d - 1, max(0, b // (n or 1))) for _ in range(n)]

    def tree(d, b):
        if d <= 0 or r.random() < 0.2:
            return L(rbytes(r, r.choice([0, 1, 2, 7, min(b, 40), min(b, 200)])))
        k = r.choice(["len1", "len2", "len4", "len8", "rec", "ext", "chello", "shello", "dhcpopt", "answer", "sni", "certs",
                      "ciphers", "int"])
        if k.startswith("len"):
            w = int(k[3:])
            return Node("len", kids(d, min(b, 200) if w == 1 else b), k=w)
        if k == "rec":
            p = {}
            if r.random() < 0.6:
                p["version"] = r.choice([0x0301, 0x0303])
            if r.random() < 0.6:
                p["content"] = r.choice([20, 21, 22, 23])
            return Node("rec", kids(d, b), **p)
        if k == "ext":
            return Node("ext", kids(d, b), type=r.getrandbits(16))
        if k in ("chello", "shello"):
            p = {}
            if r.random() < 0.5:
                p["version"] = r.choice([0x0301, 0x0303])
            if r.random() < 0.5:
                p["sid"] = Node("len", [L(rbytes(r, r.choice([0, 8, 32])))], k=1)
            if k == "chello":
                if r.random() < 0.5:
                    p["ciphers"] = Node("ciphers", ids=[r.getrandbits(16) for _ in range(r.randint(0, 5))])
                if r.random() < 0.4:
                    p["comp"] = Node("len", [L(b"\x00")], k=1)
            else:
                if r.random() < 0.5:
                    p["cipher"] = r.getrandbits(16)
                if r.random() < 0.3:
                    p["comp"] = r.getrandbits(8)
            ex = [Node("ext", kids(d - 1, b // 2, 2), type=r.getrandbits(16)) if r.random() < 0.7 else Node("sni", names=[rbytes(r, 9)])
                  for _ in range(r.choice([0, 1, 2, 3]))]
            return Node(k, ex, **p)
        if k == "dhcpopt":
            return Node("dhcpopt", kids(d, min(b, 120), 2), code=r.randint(1, 254))
        if k == "answer":
            labels = [rbytes(r, r.choice([1, 2, 5, 63])).replace(b".", b"-") for _ in range(r.randint(1, 3))]
            return Node("answer", kids(d, b), labels=labels, ttl=r.getrandbits(32))
        if k == "sni":
            return Node("sni", names=[rbytes(r, r.randint(0, 30)) for _ in range(r.randint(0, 3))])
        if k == "certs":
            return Node("certs", certs=[rbytes(r, r.randint(0, 60)) for _ in range(r.randint(0, 3))])
        if k == "ciphers":
            return Node("ciphers", ids=[r.getrandbits(16) for _ in range(r.randint(0, 6))])
        enc = r.choice(list(INTS))
        return Node("int", enc=enc, value=r.randrange(256 ** INTS[enc]))
    return tree(depth, budget)


def nesting_cases(ctx, n):
    r = ctx.rng
    out = []
    for i in range(n):
        roots = [random_tree(r, r.choice([2, 3, 4, 5]), r.choice([60, 300, 1500])) for _ in range(r.choice([1, 1, 2]))]
        if all(x.kind == "lit" for x in roots):
            roots.append(Node("len", [L(b"x")], k=2))
        out.append(make_case("n%d" % i, roots, "nesting"))
    # the documented example shapes
    ex = Node("rec", [Node("chello", [Node("sni", names=[b"test.local"]),
                                       Node("ext", [Node("len", [L(b"\x00\x01\x02")], k=1)], type=11),
                                       Node("ext", [Node("len", [L(bytes(range(10)))], k=2)], type=10),
                                       Node("ext", [], type=35),
                                       Node("ext", [Node("len", [Node("len", [L(b"postgresql")], k=1), Node("len", [L(b"h2")], k=1)], k=2)], type=16)],
                             ciphers=Node("ciphers", ids=[0xc02c, 0xc030, 0x00ff]), version=0x0303)],
              version=0x0301, content=22)
    out.append(make_case("n%d" % n, [ex], "nesting"))
    return out


def check_cases(ctx, cases, tag="c15"):
    diff.run_both(ctx, tag, cases)
    w = Walk(ctx)
    for c in cases:
        ctx.count(c.gen["kind"])
        if not diff.triage(ctx, c):
            continue
        ctx.distinct(c.text)
        pi, pm = payload_of(c.impl.pcap), payload_of(c.model["pcap"])
        c.gen["agree"] = (pi == pm)
        if pi is None:
            ctx.fail("no-payload", "the output is not a sequence of UDP datagrams", diff.replay_of(c))
            continue
        if c.gen["fits"]:
            if len(pi) != c.gen["size"]:
                w.fail(c, "total-size", "structure of %d bytes expected, %d bytes produced (%s)" % (c.gen["size"], len(pi), c.gen["shape"][:200]))
            else:
                w.add(c, pi, c.gen["roots"], "")
        else:
            ctx.dist["outside_fit_compared_with_model_only"] = ctx.dist.get("outside_fit_compared_with_model_only", 0) + 1
            roots = c.gen["roots"]
            if len(roots) == 1 and roots[0].kind == "len" and roots[0].p["k"] in (1, 2) and all(x.fits() for x in roots[0].kids):
                # C15b_len_u8_exact / C15b_len_be16_exact: the count modulo the width of the field, then the whole content
                k, inner = roots[0].p["k"], sum(x.size() for x in roots[0].kids)
                ctx.dist["wrapped_count_as_C15b_states"] = ctx.dist.get("wrapped_count_as_C15b_states", 0) + 1
                if len(pi) != k + inner or int.from_bytes(pi[:k], "big") != inner % (256 ** k):
                    w.fail(c, "wrapped-count", "a %d-byte count over %d bytes must declare %d and be followed by all of them; "
                           "%d bytes produced, declaring %d" % (k, inner, inner % (256 ** k), len(pi), int.from_bytes(pi[:k], "big")))
    rounds = w.run(tag)
    whole = [c for c in cases if c.gen.get("whole") and c.gen.get("agree") is not None and c.name not in w.failed]
    for c, a in zip(whole, common.spec_batch(["%s %s" % (c.gen["whole"][0], payload_of(c.impl.pcap).hex() or "-") for c in whole], tag)):
        if a != c.gen["whole"][1]:
            w.fail(c, "parser-rejects:" + c.gen["whole"][0], "whole payload: %s answers %s, expected %s" % (c.gen["whole"][0], a[:120], c.gen["whole"][1][:120]))
    for c in cases:
        if c.gen.get("agree") is False and c.name not in w.failed:
            ctx.fail("payload-differs", "UDP payload differs from the model's (%s)" % c.gen["shape"][:200], diff.replay_of(c),
                     disagreement=True)
    ctx.dist["parser_queries"] = ctx.dist.get("parser_queries", 0) + w.queries
    ctx.dist["parser_rounds"] = rounds
    return w


def dns_walk(msg, addrs, labels):
    """independent reader of a DNS response built by dns::host: None when every length field declares exactly what
    follows, the message is consumed exactly and each answer's data is the supplied address; else what is wrong"""
    def name(o):
        out = []
        while True:
            if o >= len(msg):
                return None, "name runs past the end of the message"
            l = msg[o]
            if l >= 0xc0:
                return out, o + 2
            o += 1
            if l == 0:
                return out, o
            out.append(msg[o:o + l]); o += l
    if len(msg) < 12:
        return "message shorter than its header"
    qd, an, ns, ar = struct.unpack(">HHHH", msg[4:12])
    if (qd, ns, ar) != (1, 0, 0) or an != len(addrs):
        return "counts qd=%d an=%d ns=%d ar=%d for %d supplied addresses" % (qd, an, ns, ar, len(addrs))
    q, o = name(12)
    if q is None:
        return o
    if q != labels:
        return "question name differs from the supplied one"
    o += 4
    for i, a in enumerate(addrs):
        n, o = name(o)
        if n is None:
            return "answer %d: %s" % (i, o)
        if o + 10 > len(msg):
            return "answer %d: fixed part runs past the end of the message (%d bytes)" % (i, len(msg))
        rdlen = struct.unpack(">H", msg[o + 8:o + 10])[0]
        o += 10
        if rdlen != 4 or msg[o:o + 4] != struct.pack(">I", a):
            return "answer %d: data length %d, data %s, supplied address %08x" % (i, rdlen, msg[o:o + rdlen].hex(), a)
        o += rdlen
    if o != len(msg):
        return "%d bytes follow the last announced record" % (len(msg) - o)
    return None


def host_cases(ctx):
    """dns::host: resource-record data lengths and counts for 0..45 answers (responses up to and beyond 512 bytes)"""
    r = ctx.rng
    cases = []
    counts = list(range(0, 46)) if ctx.thorough else [0, 1, 2, 7, 14, 15, 16, 17, 24, 30, 40, 45]
    for n in counts:
        labels = r.choice([[b"www", b"example", b"com"], [b"a"], [b"mirror", b"example", b"org"], [rbytes(r, 63).replace(b".", b"/")] * 2])
        addrs = [r.getrandbits(32) for _ in range(n)]
        c = Case()
        c.name, c.files, c.text, c.meta = "host%d" % n, {}, None, []
        qname = STR(b".".join(labels))
        c.stmts = [Import(m) for m in ("ipv4", "dns")] + \
            [Do(Call("dns::host", IP("10.0.0.1"), qname, _x=[gen.Lit("ip", a, "%d.%d.%d.%d" % tuple(struct.pack(">I", a))) for a in addrs]))]
        c.gen = {"kind": "dns::host answers", "addrs": addrs, "labels": labels, "shape": "dns::host with %d addresses" % n}
        cases.append(c)
    diff.run_both(ctx, "c15h", cases)
    for c in cases:
        ctx.count(c.gen["kind"])
        if not diff.triage(ctx, c):
            continue
        ctx.distinct(c.text)
        ok, recs = common.pcap_records(c.impl.pcap)
        msgs = []
        for rec in recs:
            f = rec[4]
            if len(f) >= 42 and f[12:14] == b"\x08\x00" and f[23] == 17:
                ulen = struct.unpack(">H", f[38:40])[0]
                msgs.append(f[42:34 + ulen] if ulen >= 8 else b"")
        if not ok or len(msgs) != 2:
            ctx.fail("host-shape", "dns::host did not produce a query and a response", diff.replay_of(c))
            continue
        bad = dns_walk(msgs[1], c.gen["addrs"], c.gen["labels"])
        if bad:
            ctx.fail("host-rr", "dns::host response with %d addresses: %s" % (len(c.gen["addrs"]), bad), diff.replay_of(c))
        elif c.impl.pcap != c.model["pcap"]:
            ctx.fail("payload-differs", "dns::host output differs from the model's", diff.replay_of(c), disagreement=True)
    return cases


def packet_part_cases(ctx):
    """a packet value as the part of a length-prefix helper, written in place and bound by let first: the prefix declares
    the packet's byte count and exactly the packet's bytes follow (the packet is also emitted on its own as record 0)"""
    r = ctx.rng
    cases = []
    widths = {"std::len_u8": 1, "std::len_be16": 2, "std::len_be32": 4, "std::len_be64": 8}
    k = 0
    for helper, w in sorted(widths.items()):
        for inline in (True, False):
            for raw in (True, False):
                pl = rbytes(r, r.choice([0, 1, 20, 100]))
                mk = lambda: Call("ipv4::udp::unicast", SOCK("10.1.1.1:5"), SOCK("10.1.1.2:6"), _x=[STR(pl)], **({"raw": True} if raw else {}))
                c = Case()
                c.name, c.files, c.text, c.meta = "pp%d" % k, {}, None, []
                k += 1
                st = [Import("ipv4"), Import("std"), Do(mk())]
                if inline:
                    st.append(Do(Call("ipv4::udp::unicast", SOCK(SRC), SOCK(DST), _x=[Call(helper, mk()), STR(b"end")])))
                else:
                    st += [Let("pk", mk()), Do(Call("ipv4::udp::unicast", SOCK(SRC), SOCK(DST), _x=[Call(helper, Ref("pk")), STR(b"end")]))]
                c.stmts = st
                c.gen = {"kind": "packet as a length-prefixed part", "w": w, "shape": "%s(%s packet %s)" % (helper, "raw" if raw else "framed", "in place" if inline else "let-bound")}
                cases.append(c)
    diff.run_both(ctx, "c15p", cases)
    for c in cases:
        ctx.count(c.gen["kind"])
        if not diff.triage(ctx, c):
            continue
        ctx.distinct(c.text)
        ok, recs = common.pcap_records(c.impl.pcap)
        if not ok or len(recs) != 2:
            ctx.fail("packet-part-shape", "two records expected", diff.replay_of(c))
            continue
        pk, got = recs[0][4], recs[1][4][42:]
        want = len(pk).to_bytes(c.gen["w"], "big") + pk + b"end"
        if got != want:
            ctx.fail("packet-part", "%s: %d bytes follow a prefix declaring %d; the packet has %d bytes"
                     % (c.gen["shape"], len(got) - c.gen["w"] - 3, int.from_bytes(got[:c.gen["w"]], "big"), len(pk)), diff.replay_of(c))
        elif c.impl.pcap != c.model["pcap"]:
            ctx.fail("payload-differs", "output differs from the model's (%s)" % c.gen["shape"], diff.replay_of(c), disagreement=True)


def run(ctx):
    set_workdir("c15")
    host_cases(ctx)
    packet_part_cases(ctx)
    cases = helper_cases(ctx) + hello_cases(ctx) + nesting_cases(ctx, 4000 if ctx.thorough else 300)
    if ctx.thorough:                    # the boundary and option grids again with fresh contents
        for rep in range(3):
            cases += helper_cases(ctx, "r%d" % rep) + hello_cases(ctx, "r%d" % rep)
    check_cases(ctx, cases)
    diff.vacuity_guard(ctx, len(cases), least=0.9)
    ctx.exhaustive = False
    for c in (cases[7], cases[-1]):
        ctx.sample({"program": c.text[:1500], "structure": c.gen["shape"][:300]})


def replay(ctx, rp):
    """re-run the program; when the replay carries the structure tree the parsers walk it again"""
    ctx.count("replay")
    files = {k: bytes.fromhex(v) for k, v in rp.get("files", {}).items()}
    c = Case()
    import re
    newd = common.BUILD + "/work/c15r-%d" % os.getpid()        # data files move to the replay's work directory
    prog = re.sub(r'"[^"\n]*/work/c1[56]-\d+/', '"' + newd + "/", rp["program"])
    c.name, c.text, c.files, c.meta, c.stmts = "replay", prog, files, [], []
    d, res = common.run_programs("c15r", {"replay": prog}, files=files)
    c.impl = res["replay"]
    c.model = {"status": None, "kind": None, "pcap": None}
    if c.impl.status != "ok":
        return ctx.fail("replay-not-ok", "impl outcome %s %s" % (c.impl.status, c.impl.kind), {"program": rp["program"]})
    pi = payload_of(c.impl.pcap)
    if rp.get("tree") and pi is not None:
        roots = from_json(rp["tree"])
        c.gen = {"roots": roots, "shape": rp.get("structure"), "size": sum(n.size() for n in roots)}
        w = Walk(ctx)
        if len(pi) != c.gen["size"]:
            w.fail(c, "total-size", "structure of %d bytes expected, %d bytes produced" % (c.gen["size"], len(pi)))
        else:
            w.add(c, pi, roots, "")
            w.run("c15r")
        if w.failed:
            return
    want = rp.get("model", {}).get("pcap")
    if want and pi != payload_of(bytes.fromhex(want)):
        ctx.fail("payload-differs", "UDP payload differs from the model output recorded in the replay", {"program": rp["program"]})
