"""C08 -- the compiler is total and fail-safe: success, or a diagnostic - never a panic."""
import json, os, random, re, subprocess
import common, diff, gen, progs
from diff import Case

THEOREMS = ["C08_lex_total", "C08_lexer_tokens_ok", "C08_parser_total", "C08_binder_total", "C08_handover_safe",
            "C08_handover_covers_catalogue", "C08_front_end_never_panics", "C08_pipeline_panic_only_from_execution",
            # execution half (Props/C08b.v)
            "C08_library_function_contract", "C08_library_method_contract", "C08_symbol_tables_closed",
            "C08_parser_statements_ok", "C08_state_invariant", "C08_exec_never_panics", "C08_pipeline_never_panics"]
PROPS = ["C08", "C08b"]
VO = ["theories/Props/C08.vo", "theories/Props/C08b.vo"]
RULE = ("(i) catalogue-driven: for each of the functions, methods and constants reachable from the standard library "
        "(regenerated from the running code): the documented call, calls with a missing / surplus / duplicated / unknown / "
        "misordered argument, and one value of every kind the language can produce (bool, integers at 0/255/256/65535/"
        "65536/2^32/2^64-1, empty/long/non-UTF-8 strings, address, socket, object, function, method, packet, sequence, nil, "
        "time jump) in every argument position; (ii) member/module reference shapes; (iii) byte level: random bytes, "
        "invalid UTF-8, token soup, single-token mutations of valid programs; (iv) resource corners: deep nesting, huge "
        "lines, oversize payloads; (v) several inputs on one command line, with and without -k.  Non-trivial = a program "
        "that reaches the interpreter; distinct by program text")
NOTES = ["oracle on the real binary, independent of the model: exit status 0 or 1, never a signal / 101 / 'panicked at' / "
         "timeout; status 0 <=> every input printed '<in> -> <out> ok' and has a well-formed pcap; a failing input printed "
         "'<in>[:line:col]: error: process_file: ...' with 1 <= line <= number of lines (+1 for an error at end of file) and "
         "1 <= col <= line length + 1, left no output file unless -k, and did not stop later inputs from being compiled",
         "correspondence: outcome class, error kind and reported line:col of the whole-pipeline model (run_src) against the "
         "binary on the same source bytes",
         "stack exhaustion, allocation failure and panics inside the regex crate are runtime behaviour the Gallina model "
         "cannot exhibit; deep-nesting and huge-input cases keep the direct oracle watching them"]
MODELLED = ("the whole pipeline src/cli.rs process_file -> lex.rs -> parse.rs -> program.rs -> libapi.rs -> stdlib/* -> "
            "ezpkt/pkt (Interp/Cli.v and everything below it); the CLI argument handling (clap), colour output and file "
            "system calls are not modelled")

PREAMBLE = "import ipv4; import std; import text; import io; import dns; import netbios; import dhcp; import arp; import tls;\n" \
           "import vxlan; import gre; import eth; import erspan1; import erspan2; import time;\n"

# values of every kind the language can produce (source spelling)
OBJ_SETUP = ("let o_t = ipv4::tcp::flow(1.2.3.4:1, 1.2.3.5:2);\nlet o_u = ipv4::udp::flow(1.2.3.4:1, 1.2.3.5:2);\n"
             "let o_i = ipv4::icmp::flow(1.2.3.4, 1.2.3.5);\nlet o_g = ipv4::frag(1.2.3.4, 1.2.3.5, \"0123456789abcdef\");\n"
             "let o_v = vxlan::session(1.2.3.4:1, 1.2.3.5:4789);\nlet o_r = gre::session(1.2.3.4, 1.2.3.5, 0x6558);\n"
             "let o_1 = erspan1::session(1.2.3.4, 1.2.3.5);\nlet o_2 = erspan2::session(1.2.3.4, 1.2.3.5);\n"
             "let o_b = io::bufio(\"0123456789\");\nlet v_pkt = ipv4::udp::unicast(1.2.3.4:1, 1.2.3.5:2, \"x\");\n"
             "let v_gen = o_t.open();\nlet v_nil = o_t.client_hole(0);\nlet v_jump = time::jump_nanos(1);\n")
# every object of OBJ_SETUP used once, so that counters, cursors and queues are no longer in their initial state
WARMUP = ("o_t.open();\no_t.client_message(\"abc\");\no_t.server_message(\"defg\");\no_u.client_dgram(\"x\");\n"
          "o_i.echo(\"p\");\no_i.echo_reply(\"p\");\no_g.fragment(0, 1);\no_v.encap(v_pkt);\no_r.encap(v_pkt);\n"
          "o_1.encap(v_pkt);\no_2.encap(v_pkt);\no_b.read(4);\n")
VALUES = {
    "bool": ["true", "false"], "int": ["0", "255", "256", "65535", "65536", "4294967296", "18446744073709551615", "0x10", "0X10", "0xFFFFFFFFFFFFFFFFF"],
    "str": ['""', '"x"', '"|ff 00|"', '"0123456789012345678901234567890123456789012345678901234567890123456789"'],
    "ip": ["1.2.3.4", "255.255.255.255"], "sock": ["1.2.3.4:5", "0.0.0.0/0"],
    "obj": ["o_t", "o_u", "o_g", "o_b"], "func": ["ipv4::tcp::flow", "text::concat"], "method": ["o_t.open"],
    "pkt": ["v_pkt"], "gen": ["v_gen"], "nil": ["v_nil"], "jump": ["v_jump"], "const": ["text::CRLF", "ipv4::proto::TCP"],
}
GOOD = {"Bool": "true", "U8": "7", "U16": "7", "U32": "7", "U64": "7", "Ip4": "1.2.3.4", "Sock4": "1.2.3.4:5", "Str": '"abcdef"',
        "Pkt": "v_pkt", "PktGen": "v_gen", "Type": "7"}
CLASS_OBJ = {"ipv4::tcp::TcpFlow": "o_t", "ipv4::udp::UdpFlow": "o_u", "ipv4::icmp::Icmp": "o_i", "ipv4::IpFrag": "o_g",
             "vxlan::Vxlan": "o_v", "gre::Gre": "o_r", "erspan1::Erspan1": "o_1", "erspan2::Erspan2": "o_2", "io::BufIO": "o_b"}


def callee(key):
    if "." in key:
        cls, m = key.rsplit(".", 1)
        return CLASS_OBJ[cls] + "." + m
    return key


def good_args(f):
    a = []
    for p in f["args"]:
        if p["kind"] == "pos":
            v = GOOD.get(p["type"], "7")
            if f["key"] == "io::file":
                v = '"/dev/null"'
            if f["key"] in ("eth::frame",) and p["type"] == "Str":
                v = '"|01 02 03 04 05 06|"'
            a.append(v)
    return a


def catalogue_cases(ctx, cat):
    r = ctx.rng
    out = []
    allvals = [v for k in VALUES for v in VALUES[k]]
    for f in cat["funcs"]:
        c0 = callee(f["key"])
        base = good_args(f)
        names = [p["name"] for p in f["args"]]
        opt = [p["name"] for p in f["args"] if p["kind"] == "opt"]
        shapes = [("documented", base)]
        if base:
            shapes.append(("missing", base[:-1]))
        shapes.append(("surplus", base + ['"extra"']))
        shapes.append(("surplus2", base + ["7", "1.2.3.4"]))
        if names:
            shapes.append(("dup-named", base + ["%s: 1" % names[-1], "%s: 2" % names[-1]]))
            shapes.append(("named-positional-again", base + ["%s: 3" % names[0]]))
        shapes.append(("unknown-named", base + ["nosuch: 1"]))
        if opt:
            shapes.append(("named-then-anon", base + ["%s: 1" % opt[0], '"tail"']))
            shapes.append(("all-opts", base + ["%s: %s" % (n, r.choice(allvals)) for n in opt]))
        if f["collect"] != "Void":
            shapes.append(("collect-many", base + ['"a"', '"b"', '"c"']))
            shapes.append(("collect-kinds", base + [r.choice(allvals) for _ in range(3)]))
        # one value of every kind in every position (positional and optional-by-name)
        for i, p in enumerate(f["args"]):
            kinds = list(VALUES) if ctx.thorough else r.sample(list(VALUES), 6)
            for k in kinds:
                v = r.choice(VALUES[k])
                if p["kind"] == "pos":
                    args = list(base)
                    args[i] = v
                else:
                    args = base + ["%s: %s" % (p["name"], v)]
                shapes.append(("kind:%s@%s" % (k, p["name"]), args))
        for tag, args in shapes:
            for stmt in ("%s(%s);" % (c0, ", ".join(args)), "let r = %s(%s);\nr;" % (c0, ", ".join(args))):
                out.append(("cat:" + tag.split("@")[0].split(":")[0], PREAMBLE + OBJ_SETUP + stmt + "\n"))
                if not ctx.thorough:
                    break
    # methods on objects that already have a history: integers at the width boundaries in every integer parameter,
    # the call made twice (the second call sees the state the first one left)
    for f in cat["funcs"]:
        if "." not in f["key"]:
            continue
        c0 = callee(f["key"])
        base = good_args(f)
        for i, p in enumerate(f["args"]):
            if p["type"] not in ("U8", "U16", "U32", "U64", "Type"):
                continue
            for v in VALUES["int"] + ["4294967295", "9223372036854775808"]:
                if not ctx.thorough and v not in ("0", "4294967295", "4294967296", "18446744073709551615") and r.random() < 0.5:
                    continue
                if p["kind"] == "pos":
                    args = list(base)
                    args[i] = v
                else:
                    args = base + ["%s: %s" % (p["name"], v)]
                call = "%s(%s);\n" % (c0, ", ".join(args))
                out.append(("cat:history", PREAMBLE + OBJ_SETUP + WARMUP + call + call))
    # constants and reference shapes
    for k in cat["consts"]:
        if ctx.thorough or r.random() < 0.1:
            out.append(("ref:const", PREAMBLE + "%s;\nlet c = %s;\nipv4::udp::unicast(1.2.3.4:1, 1.2.3.5:2, c);\n%s.x;\n" % (k["path"], k["path"], k["path"])))
    for ref in ["ipv4", "ipv4::tcp", "ipv4::nosuch", "nosuch::x", "ipv4::tcp::flow.x", "ipv4::tcp::TcpFlow", "ipv4::tcp::TcpFlow.open",
                "o_t.nosuch", "o_t.open.x", "v_pkt.x", "v_nil.x", "undefined", "undefined.m", "a.b.c.d", "text::CRLF.foo.bar",
                "o_t", "v_jump", "ipv4::proto", "tls::cipher::NULL_WITH_NULL_NULL.x"]:
        for form in ("%s;", "%s();", "let z = %s;", "o_t.client_message(%s);", "1.2.3.4/%s;"):
            out.append(("ref:shape", PREAMBLE + OBJ_SETUP + (form % ref) + "\n"))
    return out


def byte_cases(ctx, valid):
    r = ctx.rng
    out = []
    n = 1500 if ctx.thorough else 250
    toks = ["import", "let", "true", "false", "x", "ipv4", "(", ")", ".", "::", ":", ";", "=", ",", "/", "1.2.3.4", "\"s\"", "0x1f",
            "42", "-1", "0X1f", "0XAB", "0x", "1.2.3.04", "#c", "//c", "\n", " ", "\t", "\"", "|", "é", " ", "$", "\r"]
    for i in range(n):
        k = r.random()
        if k < 0.25:
            b = bytes(r.getrandbits(8) for _ in range(r.randint(0, 60)))
            out.append(("bytes:random", b))
        elif k < 0.4:
            s = r.choice(valid).encode()
            pos = r.randint(0, len(s))
            b = s[:pos] + bytes([r.choice([0xff, 0xc3, 0x80, 0xe2, 0xf5, 0x00])]) + s[pos:]
            out.append(("bytes:invalid-utf8", b))
        elif k < 0.7:
            out.append(("bytes:token-soup", " ".join(r.choice(toks) for _ in range(r.randint(1, 25))).encode()))
        else:
            s = r.choice(valid)
            parts = re.findall(r"[A-Za-z_0-9.]+|\"[^\"]*\"|::|\S|\s+", s)
            for _ in range(r.randint(1, 3)):
                j = r.randrange(len(parts))
                op = r.random()
                if op < 0.4:
                    parts[j] = r.choice(toks)
                elif op < 0.7:
                    del parts[j]
                else:
                    parts.insert(j, r.choice(toks))
                if not parts:
                    break
            out.append(("bytes:mutation", "".join(parts).encode()))
    return out


def corner_cases(ctx):
    out = []
    deep = 300 if not ctx.thorough else 1500
    out.append(("corner:nest-calls", (PREAMBLE + "ipv4::udp::unicast(1.2.3.4:1,1.2.3.5:2," + "text::concat(" * deep + '"x"' + ")" * deep + ");\n").encode()))
    out.append(("corner:nest-slash", (PREAMBLE + "let s = 1.2.3.4" + "/1" * 50 + ";\n").encode()))
    out.append(("corner:long-line", (PREAMBLE + "ipv4::udp::unicast(1.2.3.4:1,1.2.3.5:2," + ",".join(['"|%s|"' % ("ab" * 200)] * 100) + ");\n").encode()))
    out.append(("corner:many-statements", (PREAMBLE + "let f = ipv4::tcp::flow(1.2.3.4:1,1.2.3.5:2);\n" + "f.client_message(\"x\");\n" * 2000).encode()))
    out.append(("corner:empty", b""))
    out.append(("corner:no-newline-at-eof", b"import ipv4;\nipv4::udp::unicast(1.2.3.4:1,1.2.3.5:2,\"x\");"))
    out.append(("corner:crlf", b"import ipv4;\r\nipv4::udp::unicast(1.2.3.4:1,1.2.3.5:2,\"x\");\r\n"))
    out.append(("corner:pending-string-at-eof", b"import ipv4;\nipv4::udp::unicast(1.2.3.4:1,1.2.3.5:2,\"x\"); \"dangling\"\n"))
    out.append(("corner:unterminated-call", b"import ipv4;\nipv4::udp::unicast(1.2.3.4:1,\n"))
    out.append(("corner:time-max", (PREAMBLE + "time::jump_seconds(4294967295);\ntime::jump_seconds(4294967295);\n").encode()))
    # values that end up in a diagnostic or a warning (discarded as a statement, called like a function, a failing
    # argument): long strings whose text has a multi-byte character or undecodable bytes around the offsets where a
    # message might be cut (64, 128, 256, 1024), empty strings, and every value kind
    for cut in (16, 32, 64, 80, 128, 256, 1024):
        for fill, tag in (("a" * (cut - 1) + "\u00e9" + "b" * 40, "accent"), ("a" * (cut - 2) + "\u20ac" + "b" * 40, "euro"),
                          ("a" * (cut - 3) + "\U0001f600" + "z" * 9, "astral"), ("|" + "ff " * (cut // 3 + 2) + "|", "undecodable"),
                          ("a" * (cut - 1) + "|c3|" + "b" * 5, "truncated-sequence")):
            lit = '"%s"' % fill
            src = PREAMBLE + "let s = %s;\ns;\ntext::concat(%s);\nipv4::udp::unicast(1.2.3.4:1, 1.2.3.5:2, %s);\ns(1);\n" % (lit, lit, lit)
            out.append(("corner:diagnostic-text:%s:%d" % (tag, cut), src.encode("utf-8")))
    return out


def oversize_cases(ctx, wd):
    """payloads beyond the 65535-byte datagram limit (u16 length arithmetic) and u64 clock arithmetic"""
    out = []
    big = os.path.join(wd, "c08big.bin")
    with open(big, "wb") as f:
        f.write(b"\xab" * 65530)
    huge = os.path.join(wd, "c08huge.bin")
    with open(huge, "wb") as f:
        f.write(b"\xcd" * 70000)
    for name, path in (("65530", big), ("70000", huge)):
        pl = 'io::file("%s")' % path
        for tag, stmt in [("udp-unicast", "ipv4::udp::unicast(1.2.3.4:1,1.2.3.5:2,%s);" % pl),
                          ("tcp-message", "let f = ipv4::tcp::flow(1.2.3.4:1,1.2.3.5:2);\nf.client_message(%s);" % pl),
                          ("icmp-echo", "let i = ipv4::icmp::flow(1.2.3.4,1.2.3.5);\ni.echo(%s);" % pl),
                          ("ipv4-datagram", "ipv4::datagram(1.2.3.4,1.2.3.5,%s);" % pl),
                          ("frag-datagram", "let g = ipv4::frag(1.2.3.4,1.2.3.5,%s);\ng.datagram();" % pl),
                          ("vxlan-encap", "let s = vxlan::session(1.2.3.4:1,1.2.3.5:2);\ns.encap(eth::frame(\"|010203040506|\",\"|010203040506|\",%s));" % pl),
                          ("gre-encap", "let s = gre::session(1.2.3.4,1.2.3.5,1);\ns.encap(eth::frame(\"|010203040506|\",\"|010203040506|\",%s));" % pl),
                          ("udp-hdr", "ipv4::udp::hdr(1,2,len:65535);")]:
            out.append(("oversize:%s:%s" % (tag, name), (PREAMBLE + stmt + "\n").encode()))
    out.append(("oversize:jump-millis", (PREAMBLE + "time::jump_millis(18446744073709551615);\n").encode()))
    out.append(("oversize:clock-sum", (PREAMBLE + "time::jump_nanos(18446744073709551615);\ntime::jump_nanos(1);\n").encode()))
    # the clock a few hundred ns before 2^64, then every kind of emitting statement (one packet, a burst computed in
    # place, a stored packet, a stored burst, a tunnelled burst, a further jump): the edge must be a diagnostic whichever
    # arm of add_expr meets it, and it may fall on any packet of a burst
    emit = [("pkt", "ipv4::udp::unicast(1.2.3.4:1, 1.2.3.5:2, \"x\");"), ("burst", "o_t.open();"),
            ("message", "o_t.client_message(\"0123456789\");"), ("close", "o_t.client_close();"),
            ("stored-pkt", "v_pkt;"), ("stored-burst", "v_gen;"), ("host", "dns::host(o_u, \"a.b\", 1.1.1.1);"),
            ("tunnel-burst", "o_v.encap(v_gen);"), ("jump", "time::jump_micros(1);"), ("nil", "v_nil;")]
    for room in (0, 1, 500, 700, 1200, 1900, 2600, 5000):
        for tag, stmt in emit:
            src = PREAMBLE + OBJ_SETUP + "time::jump_nanos(%d);\n%s\n%s\n" % (2 ** 64 - 1 - room, stmt, stmt)
            out.append(("oversize:clock-edge:%s:%d" % (tag, room), src.encode()))
    return out


DIAG = re.compile(r"^(?P<f>.*?)(?::(?P<l>\d+):(?P<c>\d+))?: error: process_file: (?P<m>.*)$")


def direct_oracle(ctx, c):
    """the contract of the property, checked on the real binary's behaviour alone"""
    i = c.impl
    rp = lambda: diff.replay_of(c, {"source_hex": c.src.hex()})
    if i.status == "timeout":
        return ctx.fail("hang:" + c.gen["kind"], "the compiler did not terminate within the time limit", rp())
    if i.status == "crash":
        kind = i.kind or ""
        m = re.search(r"panicked at ([^:]+):(\d+)", kind)
        site = "%s" % (m.group(1)) if m else kind[:60]
        if "stack overflow" in kind or "rc=-6" in kind or "rc=-11" in kind:
            return ctx.fail("abort:stack-or-signal:" + c.gen["kind"], "the compiler was killed: " + kind[:160], rp())
        return ctx.fail("panic:" + site, "the compiler panicked: " + kind[:200], rp())
    if i.status == "ok":
        ok, recs = common.pcap_records(i.pcap)
        if not ok:
            return ctx.fail("ok-but-malformed-output", "success reported but the output is not a well-formed pcap", rp())
        return
    if i.status == "err":
        lines = c.src.split(b"\n")
        if i.loc is not None:
            ln, col = i.loc
            nlines = len(lines)
            if not (1 <= ln <= nlines + 1):
                return ctx.fail("diag-line-range", "diagnostic line %d outside the file (%d lines)" % (ln, nlines), rp())
            text = lines[ln - 1] if ln - 1 < len(lines) else b""
            if not (1 <= col <= len(text) + 2):
                return ctx.fail("diag-col-range", "diagnostic column %d outside line %d (length %d)" % (col, ln, len(text)), rp())
        if c.gen.get("span"):
            a, b = c.gen["span"]
            if i.loc is None or not (a <= i.loc[0] <= b):
                return ctx.fail("diag-outside-statement", "the statement that fails spans lines %d-%d, the diagnostic points at %s"
                                % (a, b, i.loc), rp())
        if i.leftover:
            return ctx.fail("leftover-output", "a failing input left its output file behind", rp())
        return
    return ctx.fail("no-verdict", "neither success nor a diagnostic was printed: %r" % (i.stdout[-200:],), rp())


def deep_probes(ctx):
    """nesting far beyond what any script uses: the parser is iterative, evaluation and drop recurse.
    Run on the implementation only (the model's own recursion has no stack to exhaust)."""
    srcs = {"deepcall": (PREAMBLE + "ipv4::udp::unicast(1.2.3.4:1,1.2.3.5:2," + "text::concat(" * 4000 + '"x"' + ")" * 4000 + ");\n").encode(),
            "deepslash": (PREAMBLE + "let s = 1.2.3.4" + "/1" * 100000 + ";\n").encode()}
    d, res = common.run_programs("c08deep", srcs, timeout=120)
    for n, src in srcs.items():
        ctx.count("corner:nest-deep")
        c = Case()
        c.name, c.src, c.files, c.gen, c.impl = n, src, {}, {"kind": "corner:nest-deep:" + n}, res[n]
        c.text = src[:200].decode() + "..."
        c.model = {"status": None, "kind": None, "loc": None, "pcap": None}
        i = c.impl
        if i.status in ("crash", "timeout"):
            ctx.fail("abort:stack-exhaustion:nesting", "nesting depth %s: %s" % ("4000 calls" if n == "deepcall" else "100000 '/' operators",
                     (i.kind or "")[:120]), {"program": "see 'generator'", "generator": "PREAMBLE + %s" % ("'text::concat(' * 4000" if n == "deepcall" else "'1.2.3.4' + '/1' * 100000"),
                                             "observed": i.kind})
        else:
            direct_oracle(ctx, c)


def position_cases():
    """run-time errors of every kind raised by a statement that spans several lines, after other statements on other
    lines: the diagnostic must point into the failing statement (kind, source, (first line, last line))"""
    pre = PREAMBLE + "let cl = ipv4::udp::flow(1.2.3.4:1, 1.2.3.5:2);\ncl.client_dgram(\"one\");\n\n"      # lines 1-5 (PREAMBLE = 2 lines)
    out = []
    bodies = {"rebind": "let cl = ipv4::udp::flow(\n    1.2.3.4:1,\n    1.2.3.5:2\n);\n",
              "name": "cl.client_dgram(\n    \"x\",\n    nosuch\n);\n",
              "type": "cl.client_dgram(\n    \"x\",\n    csum: \"yes\"\n);\n",
              "import": "import\n   nosuchmodule\n;\n",
              "member": "cl\n  .nosuchmethod(\n);\n",
              "runtime": "time::jump_seconds(\n  18446744073709551615\n);\ncl.client_dgram(\"late\");\n"}
    first = pre.count("\n") + 1
    for k, b in bodies.items():
        last = first + b.rstrip("\n").count("\n") - (1 if k == "runtime" else 0)
        out.append(("position:" + k, pre + b + "cl.client_dgram(\"after\");\n", (first, last)))
    # the same statements beyond line 65536 and beyond line 2^17 of a long (machine-written) script, and a lexical and a
    # syntax error there: line numbers do not wrap
    for pad in (65531, 131080):
        far = pre + "\n" * pad
        first = far.count("\n") + 1
        bodies2 = dict(bodies, lex="cl.client_dgram(\n  \"x\" $\n);\n", parse="cl.client_dgram(\n  \"x\" =\n);\n")
        for k, b in bodies2.items():
            last = first + b.rstrip("\n").count("\n") - (1 if k == "runtime" else 0)
            out.append(("position-far:%s:%d" % (k, pad), far + b + "cl.client_dgram(\"after\");\n", (first, last)))
    return out


def batch_contract(ctx, wd):
    """several inputs on one command line: failures do not prevent the others; -k keeps; exit status"""
    good = PREAMBLE + "ipv4::udp::unicast(1.2.3.4:1,1.2.3.5:2,\"x\");\n"
    bad = PREAMBLE + "ipv4::udp::unicast(1.2.3.4:1,1.2.3.5:2,\"x\");\nnosuch();\n"
    lexbad = PREAMBLE + "$\n"
    d = os.path.join(wd, "batch")
    os.makedirs(d, exist_ok=True)
    for n, s in (("a", good), ("b", bad), ("c", good), ("d", lexbad), ("e", good)):
        open(os.path.join(d, n + ".rsyn"), "w").write(s)
    for keep in (False, True):
        for n in "abcde":
            try:
                os.unlink(os.path.join(d, n + ".pcap"))
            except OSError:
                pass
        rc, out, err, to = common.run_resynth_batch(d, list("abcde"), keep=keep)
        ctx.count("batch")
        res = common.parse_results(d, list("abcde"), rc, out, err, to, keep=keep)
        st = {n: res[n].status for n in "abcde"}
        rp = {"program": "inputs a(ok) b(name error after one packet) c(ok) d(lex error) e(ok), keep=%s" % keep, "stdout": out[-1500:], "rc": rc}
        if rc != 1:
            ctx.fail("batch-exit-status", "exit status %d with failing inputs (expected 1)" % rc, rp)
        if st != {"a": "ok", "b": "err", "c": "ok", "d": "err", "e": "ok"}:
            ctx.fail("batch-verdicts", "verdicts %s" % st, rp)
        exists = {n: os.path.exists(os.path.join(d, n + ".pcap")) for n in "abcde"}
        want = {"a": True, "b": keep, "c": True, "d": keep, "e": True}
        if exists != want:
            ctx.fail("batch-outputs", "output files present %s, expected %s (keep=%s)" % (exists, want, keep), rp)
    # file names are byte strings: an input whose name is not valid UTF-8 is compiled like any other, a missing one
    # fails alone, and neither keeps the other inputs of the command line from being compiled
    import subprocess
    odd = [b"caf\xe9.rsyn", b"a\x80b.rsyn", "caf\u00e9-\u4e16.rsyn".encode("utf-8")]
    bd = os.fsencode(d)
    for nm in odd:
        open(os.path.join(bd, nm), "w").write(good)
    for missing in (False, True):
        for f in os.listdir(bd):
            if f.endswith(b".pcap"):
                os.unlink(os.path.join(bd, f))
        names = [b"a.rsyn"] + odd + ([b"gone\xff.rsyn"] if missing else []) + [b"c.rsyn"]
        r = subprocess.run([os.fsencode(common.RESYNTH), b"--color", b"never", b"--out-dir", bd] + [os.path.join(bd, n) for n in names],
                           stdout=subprocess.PIPE, stderr=subprocess.PIPE, cwd=d)
        ctx.count("batch")
        made = sorted(f for f in os.listdir(bd) if f.endswith(b".pcap"))
        want = sorted(n[:-5] + b".pcap" for n in names if not n.startswith(b"gone"))
        rp = {"program": "inputs %r on one command line" % names, "stdout": r.stdout.decode("utf-8", "replace")[-1500:],
              "stderr": r.stderr.decode("utf-8", "replace")[-500:], "rc": r.returncode}
        if r.returncode != (1 if missing else 0) or made != want or b"panicked" in r.stderr:
            ctx.fail("batch-non-utf8-name", "exit status %d, outputs %r (expected status %d and %r)"
                     % (r.returncode, made, 1 if missing else 0, want), rp)
    rc, out, err, to = common.run_resynth_batch(d, ["a", "c"])
    if rc != 0:
        ctx.fail("batch-exit-status", "exit status %d although every input succeeded" % rc, {"program": "a c", "stdout": out})
    # a missing input file is a failure of that input only
    rc, out, err, to = common.run_resynth_batch(d, ["a", "missing", "c"])
    res = common.parse_results(d, ["a", "missing", "c"], rc, out, err, to)
    if rc != 1 or res["a"].status != "ok" or res["c"].status != "ok" or res["missing"].status != "err":
        ctx.fail("batch-missing-input", "rc %d verdicts %s" % (rc, {k: v.status for k, v in res.items()}), {"program": "a missing c", "stdout": out})


def verdict(r):
    return (r.status, r.kind if r.status != "ok" else None, tuple(r.loc) if r.loc else None, r.pcap)


def batch_dependence(ctx, cases, c, batch=40):
    """Search for a concrete failing input behind a model/implementation difference: the cases were compiled
    several to a command line; if the same file compiled alone gives another verdict, the result depends on
    the other inputs, which the property forbids (and the files are the replay)."""
    if getattr(ctx, "_batchdep_budget", 6) <= 0:
        return False
    ctx._batchdep_budget = getattr(ctx, "_batchdep_budget", 6) - 1
    i = cases.index(c)
    start = (i // batch) * batch
    mine = {"x": c.src}
    _, solo = common.run_programs("c08solo", mine, timeout=60)
    if verdict(solo["x"]) == verdict(c.impl):
        return False
    before = cases[start:i]
    for group in ([before[-1]] if before else []), before:
        if not group:
            continue
        progs_ = {"p%03d" % j: g.src for j, g in enumerate(group)}
        progs_["q_last"] = c.src
        _, res = common.run_programs("c08pair", progs_, timeout=120)
        if verdict(res["q_last"]) != verdict(solo["x"]):
            ctx.fail("batch-dependence", "compiled alone: %s %s @%s; compiled after %d other input(s) on the same command line: %s %s @%s"
                     % (solo["x"].status, solo["x"].kind, solo["x"].loc, len(group), res["q_last"].status, res["q_last"].kind,
                        res["q_last"].loc),
                     {"program": c.src.decode("utf-8", "replace"), "source_hex": c.src.hex(),
                      "preceding_inputs_hex": [g.src.hex() for g in group],
                      "how": "write the preceding inputs and then this one to files and name them in this order on one command line"})
            return True
    return False


def run(ctx):
    cat = json.load(open(os.path.join(common.BUILD, "catalogue.json")))
    r = ctx.rng
    raw = catalogue_cases(ctx, cat)
    if not ctx.thorough:
        raw = [x for x in raw if x[0].startswith("ref") or x[0] == "cat:history" or r.random() < 0.45]
    valid = [gen.render_program(progs.random_program(random.Random(r.getrandbits(32)), maxlen=20).stmts) for _ in range(30)]
    cases = []

    def add(kind, src, files=None):
        c = Case()
        c.name, c.files, c.meta = "k%d" % len(cases), dict(files or {}), []
        if b"/dev/null" in (src if isinstance(src, bytes) else src.encode()):
            c.files["/dev/null"] = b""
        c.src = src if isinstance(src, bytes) else src.encode()
        c.gen = {"kind": kind}
        cases.append(c)
    for kind, src in raw:
        add(kind, src)
    for kind, src in byte_cases(ctx, valid):
        add(kind, src)
    for kind, src in corner_cases(ctx):
        add(kind, src)
    for kind, src, span in position_cases():
        add(kind, src)
        cases[-1].gen["span"] = span
    wd0 = common.workdir("c08files")
    bigfiles = {os.path.join(wd0, "c08big.bin"): b"\xab" * 65530, os.path.join(wd0, "c08huge.bin"): b"\xcd" * 70000}
    for kind, src in oversize_cases(ctx, wd0):
        add(kind, src, {k: v for k, v in bigfiles.items() if k.encode() in src})
    wd = diff.run_both(ctx, "c08", cases)
    reach = 0
    for c in cases:
        ctx.count(c.gen["kind"].split(":")[0] + ":" + c.gen["kind"].split(":")[1] if ":" in c.gen["kind"] else c.gen["kind"])
        before = len(ctx.violations)
        direct_oracle(ctx, c)
        ic, mc = diff.outcome_class(c)
        k = ctx.dist.setdefault("outcomes", {})
        key = ic.split(" panicked")[0][:40]
        k[key] = k.get(key, 0) + 1
        if c.impl.status in ("ok", "err") and (c.impl.kind or "") not in ("lex", "parse"):
            reach += 1
            ctx.distinct(c.src)
        if len(ctx.violations) > before:
            continue
        # correspondence with the whole-pipeline model: class, kind, and location
        m = c.model
        same = (c.impl.status == m["status"]) and (c.impl.kind == m["kind"] or c.impl.status == "ok")
        if same and c.impl.status == "err":
            iloc = c.impl.loc or (0, 0)
            if tuple(iloc) != tuple(m["loc"]):
                same = False
        if not same:
            if batch_dependence(ctx, cases, c):
                continue
            ctx.fail("outcome-differs", "impl %s @%s, model %s %s @%s" % (ic, c.impl.loc, m["status"], m["kind"], m["loc"]),
                     diff.replay_of(c, {"source_hex": c.src.hex()}), disagreement=True)
    deep_probes(ctx)
    batch_contract(ctx, wd)
    ctx.dist["reached_interpreter"] = reach
    ctx.sample({"kind": cases[0].gen["kind"], "program": cases[0].text[-300:]})
    ctx.sample({"kind": cases[-40].gen["kind"], "source_hex": cases[-40].src.hex()[:200]})


def replay(ctx, rp):
    ctx.count("replay")
    src = bytes.fromhex(rp["source_hex"]) if rp.get("source_hex") else rp["program"].encode()
    if rp.get("preceding_inputs_hex"):
        _, solo = common.run_programs("c08solo", {"x": src}, timeout=60)
        progs_ = {"p%03d" % j: bytes.fromhex(h) for j, h in enumerate(rp["preceding_inputs_hex"])}
        progs_["q_last"] = src
        _, res = common.run_programs("c08pair", progs_, timeout=120)
        if verdict(res["q_last"]) != verdict(solo["x"]):
            ctx.fail("batch-dependence", "verdict alone %s %s differs from the verdict after the preceding inputs %s %s"
                     % (solo["x"].status, solo["x"].kind, res["q_last"].status, res["q_last"].kind), rp)
        return
    c = Case()
    c.name, c.src, c.files, c.gen = "replay", src, {}, {"kind": "replay"}
    d, res = common.run_programs("c08r", {"replay": src}, timeout=60)
    c.impl = res["replay"]
    c.text = src.decode("utf-8", "replace")
    c.model = {"status": None, "kind": None, "loc": None, "pcap": None}
    direct_oracle(ctx, c)
