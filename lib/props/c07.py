"""C07 -- IP fragments of a payload always reassemble to the original datagram."""
import struct, itertools
import carry, random
import common, diff, gen, progs
from diff import Case
from gen import *

THEOREMS = ["C07_fragment_exact", "C07_tail_is_fragment", "C07_datagram_whole", "C07_reassemble_cover",
            "C07_reassemble_any_order",
            # composition, MF exactness, library level and histories (Props/C07b.v)
            "C07_requests_total", "C07_request_emitted", "C07_datagram_is_tail", "C07_zero_length_request", "C07_overlong_request", "C07_raw_honoured", "C07_mf_clear_iff", "C07_mf_cases", "C07_cover_has_last", "C07_compose_reassembles", "C07_compose_permutation", "C07_compose_same_key", "C07_frag_created", "C07_frag_methods", "C07_frag_methods_foreign", "C07_frag_functions_foreign", "C07_frag_history", "C07_frag_history_wire", "C07_history_reassembles"]
PROPS = ["C07", "C07b"]
VO = ["theories/Props/C07.vo", "theories/Props/C07b.vo"]
RULE = ("exhaustive small scope: payload lengths 0..40 (quick: 0..24) x all (offset, length) requests with offset <= 6, "
        "length <= 6 (8-byte units) x raw/framed, plus tail and datagram; random covers (shuffled, duplicated, "
        "overlapping, over-long requests) of random payloads up to 1500 bytes and of the 65515-byte maximum, with context "
        "options id/df/evil/ttl/proto and payloads that are themselves raw TCP/UDP segments.  Non-trivial = a cover with "
        ">= 2 fragments; distinct by program text")
NOTES = ["oracle on the implementation's fragments: (1) each fragment's header carries the context's addresses, protocol, "
         "id, ttl, DF/evil bits, offset field = requested offset, data = payload[8*off : min(8*(off+len), |payload|)], MF set "
         "iff payload bytes remain beyond it; (2) Spec.Reasm4.reassemble (extracted from Coq) applied to the implementation's "
         "fragments in emission order and in a shuffled order returns the original payload when the requests cover it",
         "an offset beyond the end of the payload yields an empty fragment with MF clear (after fix 8c34730); such requests "
         "are outside the property's domain and are only checked not to crash (C08)"]
MODELLED = "ezpkt/src/ip4.rs IpDgram/IpFrag, src/stdlib/ipv4/mod.rs frag/fragment/tail/datagram: Ez/Ip4.v, Lib/Ipv4Lib.v"


def frag_case(name, r, payload, reqs, opts, rawmode):
    """reqs: list of ('fragment', off, len) | ('tail', off) | ('datagram',)"""
    c = Case()
    c.name, c.files, c.text, c.meta = name, {}, None, []
    st = [Import("ipv4")]
    a, b = opts["src"], opts["dst"]
    kw = {k: v for k, v in opts.items() if k in ("id", "df", "evil", "ttl", "proto")}
    if opts.get("bound_payload"):
        # the payload is one let-bound variable (used again afterwards, so the value is shared when the context is made)
        st.append(Let("pl", STR(payload)))
        st.append(Let("g", Call("ipv4::frag", IP(a), IP(b), _x=[Ref("pl")], **kw)))
    else:
        st.append(Let("g", Call("ipv4::frag", IP(a), IP(b), _x=[STR(payload)], **kw)))
    raws = []
    # (stored: every fragment is first bound to a variable, in request order; the variables are then emitted in an order
    # of their own -- the way a script sends fragments out of order or twice; records follow the emission order)
    stored = opts.get("stored")
    emit = []
    for k, q in enumerate(reqs):
        raw = rawmode if rawmode in (True, False) else (r.random() < 0.5)
        raws.append(raw)
        rk = {"raw": True} if raw else {}
        if q[0] == "fragment":
            e = Call("g.fragment", INT(q[1]), INT(q[2]), **rk)
        elif q[0] == "tail":
            e = Call("g.tail", INT(q[1]), **rk)
        else:
            e = Call("g.datagram", **rk)
        if stored:
            st.append(Let("f%d" % k, e))
            emit.append(k)
        else:
            st.append(Do(e))
    if stored:
        emit += [r.choice(emit) for _ in range(r.randint(0, 2))] if emit else []
        r.shuffle(emit)
        st += [Do(Ref("f%d" % k)) for k in emit]
        reqs = [reqs[k] for k in emit]
        raws = [raws[k] for k in emit]
    c.stmts = st
    c.gen = {"payload": payload, "reqs": reqs, "opts": opts, "raws": raws}
    return c


def expected(payload, q):
    n = len(payload)
    if q[0] == "datagram":
        return 0, False, payload
    off = q[1]
    ln = q[2] if q[0] == "fragment" else (n & 0xffff)
    e = min(8 * (off + ln), n)
    s = min(8 * off, e)
    return off, e != n, payload[s:e]


def check(ctx, c, queries, owners):
    g = c.gen
    ok, recs = common.pcap_records(c.impl.pcap)
    if len(recs) != len(g["reqs"]):
        return ctx.fail("frag-count", "%d records for %d requests" % (len(recs), len(g["reqs"])), diff.replay_of(c))
    o = g["opts"]
    dgrams = []
    for i, (q, r, raw) in enumerate(zip(g["reqs"], recs, g["raws"])):
        fr = r[4]
        d = fr if raw else fr[14:]
        if len(d) < 20:
            return ctx.fail("frag-short", "record %d too short" % i, diff.replay_of(c))
        tot, ident, fo, ttl, proto, cs, src, dst = struct.unpack(">HHHBBHII", d[2:20])
        off, mf, data = expected(g["payload"], q)
        inside = q[0] == "datagram" or 8 * q[1] <= len(g["payload"])
        want_fo = (off & 0xffff) | (0x8000 if o.get("evil") else 0) | (0x4000 if o.get("df") else 0) | (0x2000 if mf else 0)
        got = (src, dst, proto, ident, ttl)
        want = (o["src"], o["dst"], o.get("proto", 17), o.get("id", 0), o.get("ttl", 64))
        if inside:
            # a receiver discards a fragment whose header checksum does not verify (RFC 791) before it reassembles anything
            if carry.red(carry.raw_sum(d[:20])) != 0xffff:
                return ctx.fail("frag-header-csum", "fragment %d (request %s): header %s does not verify, a receiver drops it"
                                % (i, q, d[:20].hex()), diff.replay_of(c))
            if got != want:
                return ctx.fail("frag-header", "fragment %d header fields %s, context %s" % (i, got, want), diff.replay_of(c))
            if fo != want_fo:
                return ctx.fail("frag-offset-flags", "fragment %d offset/flags field %#06x, expected %#06x (request %s)"
                                % (i, fo, want_fo, q), diff.replay_of(c))
            if d[20:] != data:
                return ctx.fail("frag-slice", "fragment %d carries %d bytes, expected payload[%d:%d]"
                                % (i, len(d) - 20, 8 * off, 8 * off + len(data)), diff.replay_of(c))
        dgrams.append(d)
    # reassembly when the requests cover the payload
    n = len(g["payload"])
    cov = [False] * n
    last = False
    for q in g["reqs"]:
        off, mf, data = expected(g["payload"], q)
        if q[0] != "datagram" and 8 * q[1] > n:
            continue
        for k in range(8 * off, 8 * off + len(data)):
            cov[k] = True
        last = last or not mf
    if all(cov) and last and dgrams:
        inside = [d for d, q in zip(dgrams, g["reqs"]) if q[0] == "datagram" or 8 * q[1] <= n]
        # the extracted RFC 791 specification places every byte by scanning the fragments: its cost is payload x fragment
        # size; sets with very large fragments are left to the per-fragment clauses above (which imply reassembly,
        # theorem C07 reassemble_cover)
        if n * max(len(d) for d in inside) > 1.2e8:
            ctx.dist["reassembly_left_to_fragment_clauses"] = ctx.dist.get("reassembly_left_to_fragment_clauses", 0) + 1
            return
        sh = list(inside)
        ctx.rng.shuffle(sh)
        for order, name in ((inside, "emission"), (sh, "shuffled")):
            queries.append("reasm " + " ".join(x.hex() for x in order))
            owners.append((c, name))


def run(ctx):
    r = ctx.rng
    cases = []
    k = 0
    maxlen = 40 if ctx.thorough else 24
    base = {"src": ip("1.2.3.4"), "dst": ip("1.2.3.5")}
    for n in range(0, maxlen + 1):
        payload = bytes((i * 7 + n) & 0xff for i in range(n))
        reqs = [("fragment", off, ln) for off in range(0, 7) for ln in range(0, 7) if 8 * off <= n] + \
               [("tail", off) for off in range(0, 7) if 8 * off <= n] + [("datagram",)]
        for raw in (False, True):
            c = frag_case("e%d" % k, r, payload, reqs, base, raw)
            c.gen["kind"] = "exhaustive"
            cases.append(c)
            k += 1
    for i in range(300 if ctx.thorough else 60):
        n = r.choice([0, 1, 7, 8, 9, 63, 64, 65, r.randint(0, 200), r.randint(0, 1500)])
        payload = bytes(r.getrandbits(8) for _ in range(n))
        opts = {"src": rand_ip(r), "dst": rand_ip(r)}
        if r.random() < 0.5:
            opts["id"] = r.getrandbits(16)
        if r.random() < 0.3:
            opts["df"] = True
        if r.random() < 0.2:
            opts["evil"] = True
        if r.random() < 0.3:
            opts["ttl"] = r.choice([0, 1, 255])
        if r.random() < 0.3:
            opts["proto"] = r.choice([1, 6, 47, 255])
        blocks = (n + 7) // 8
        reqs, pos = [], 0
        step = max(1, r.randint(1, max(1, blocks // 3 + 1)))
        while pos < blocks:
            ln = r.randint(1, step + 1)
            reqs.append(("fragment", pos, ln + r.choice([0, 0, 1, 3])))     # overlap / over-long at times
            pos += ln
        if r.random() < 0.5 or not reqs:
            reqs.append(("tail", max(0, pos - r.randint(0, 2))))
        reqs += [r.choice(reqs) for _ in range(r.randint(0, 2))]                 # duplicates
        if r.random() < 0.2:
            reqs.append(("fragment", r.randint(0, blocks), 0))                 # zero-length
        r.shuffle(reqs)
        if i % 3 == 2:
            opts["stored"] = True
        if i % 4 == 1:
            opts["bound_payload"] = True
        c = frag_case("r%d" % i, r, payload, reqs, opts, None)
        c.gen["kind"] = "random-cover" if i % 3 != 2 else "random-cover, fragments stored and emitted in another order"
        cases.append(c)
    # the maximum datagram
    # (in both tiers: offsets above 4095 blocks need the 13th bit of the offset field)
    bign = 65515 if ctx.thorough else 33400
    big = bytes(r.getrandbits(8) for _ in range(bign))
    step = 185
    reqs = [("fragment", o, step) for o in range(0, (bign + 7) // 8, step)] + [("tail", max(0, (bign // 8) - 50))] + \
           [("fragment", 4095, 2), ("fragment", 4096, 1), ("fragment", (bign // 8) - 1, 1),
            # over-long requests: the byte length 8*len does not fit 16 bits, the request is clipped to the payload
            ("fragment", 0, 8192), ("fragment", 5, 8191), ("fragment", 1, 65535), ("tail", 100), ("tail", 0)]
    r.shuffle(reqs)
    c = frag_case("max", r, big, reqs, {"src": ip("10.0.0.1"), "dst": ip("10.0.0.2"), "id": 77}, False)
    c.gen["kind"] = "max-datagram"
    cases.append(c)
    # the largest datagram, emitted whole and almost whole, framed and raw (the framed records are the longest the tool writes)
    payload = bytes(r.getrandbits(8) for _ in range(65515))
    c = frag_case("whole", r, payload, [("datagram",), ("tail", 1), ("fragment", 0, 8190), ("datagram",)],
                  {"src": ip("10.0.0.1"), "dst": ip("10.0.0.2"), "id": 5}, None)
    c.gen["kind"] = "max-datagram-whole"
    cases.append(c)
    # tails of payloads of 8192 bytes and more (8 * length passes 2^16), and of payloads that are not a multiple of 8
    for j, (n, offs) in enumerate([(8200, [0, 1, 512, 1000]), (50000, [0, 3000, 6000]), (8192, [0, 1023]), (1203, [0, 1, 150]), (43, [0, 5])]):
        payload = bytes(r.getrandbits(8) for _ in range(n))
        reqs = [("tail", o) for o in offs] + [("fragment", 0, offs[-1] or 1)]
        c = frag_case("t%d" % j, r, payload, reqs, {"src": ip("10.0.0.1"), "dst": ip("10.0.0.2"), "id": 9 + j}, None)
        c.gen["kind"] = "tails"
        cases.append(c)
    # the datagram id solved for (a first pass with id 0 measures each fragment's header words) so that the header sum of
    # one chosen fragment needs two carry folds, or is 0 modulo 0xffff -- its siblings in the same context do not
    tmpl = []
    for i in range(24 if ctx.thorough else 8):
        n = r.choice([40, 41, 64, 100, 333])
        src, dst = rand_ip(r) | (0xf000f000 if i % 2 == 0 else 0), rand_ip(r) | (0xe000e000 if i % 2 == 0 else 0)
        blocks = (n + 7) // 8
        reqs = [("fragment", o, 2) for o in range(0, blocks, 2)] + [("tail", blocks - 1), ("datagram",)]
        opts = {"src": src, "dst": dst, "id": 0}
        if i % 3 == 1:
            opts["ttl"] = 255
        if i % 4 == 2:
            opts["df"] = True
        tmpl.append((bytes(r.getrandbits(8) for _ in range(n)), reqs, opts))
    first = {"d%d" % i: gen.render_program(frag_case("d%d" % i, r, pl, reqs, opts, True).stmts, random.Random(i)) for i, (pl, reqs, opts) in enumerate(tmpl)}
    _, res1 = common.run_programs("c07first", first)
    solved = 0
    for i, (pl, reqs, opts) in enumerate(tmpl):
        x = res1["d%d" % i]
        ok1, recs1 = common.pcap_records(x.pcap) if x.status == "ok" else (False, [])
        if not ok1 or len(recs1) != len(reqs):
            continue
        j = r.randrange(len(reqs))
        h = recs1[j][4][:20]
        base_sum = carry.raw_sum(h[:10] + b"\x00\x00" + h[12:])          # id is 0 in the first pass, checksum field left out
        want_id = carry.pick(lambda v: carry.first_fold_carries(base_sum + v), 1, lo=r.randrange(0x8000)) if i % 3 else \
            carry.pick(lambda v: carry.red(base_sum + v) in (0xffff, 0), 1)
        if not want_id:
            continue
        solved += 1
        c = frag_case("d%d" % i, r, pl, reqs, dict(opts, id=want_id[0]), None)
        c.gen["kind"] = "header-sum-solved"
        cases.append(c)
    ctx.dist["fragment_headers_steered_onto_carries"] = solved
    # payloads that are themselves raw segments
    for i in range(6 if not ctx.thorough else 20):
        c = Case()
        c.name, c.files, c.text, c.meta = "s%d" % i, {}, None, []
        pl = rand_payload(r, 80)
        c.stmts = [Import("ipv4"), Let("t", Call("ipv4::tcp::flow", SOCK("1.2.3.4:1"), SOCK("1.2.3.5:2"))),
                   Let("g", Call("ipv4::frag", IP("1.2.3.4"), IP("1.2.3.5"), _x=[Call("t.client_raw_segment", _x=[STR(pl)])], proto=6)),
                   Do(Call("g.fragment", 0, 2)), Do(Call("g.tail", 2))]
        c.gen = {"kind": "segment-payload", "payload": None}
        cases.append(c)
    diff.run_both(ctx, "c07", cases)
    queries, owners = [], []
    for c in cases:
        ctx.count(c.gen["kind"])
        if not diff.triage(ctx, c):
            continue
        before = len(ctx.violations)
        if c.gen.get("payload") is not None:
            check(ctx, c, queries, owners)
            if len(c.gen["reqs"]) >= 2:
                ctx.distinct(c.text)
        if c.impl.pcap != c.model["pcap"] and len(ctx.violations) == before:
            oki, ri = common.pcap_records(c.impl.pcap)
            okm, rm = common.pcap_records(c.model["pcap"])
            strip = lambda x: [(f[4] if diff.frame_is_raw(f[4]) else f[4][14:]) for f in x]
            if strip(ri) != strip(rm):
                ctx.fail("fragments-differ", "IPv4 datagrams of the fragments differ from the model's", diff.replay_of(c),
                         disagreement=True)
    answers = common.spec_batch(queries, "c07")
    for (c, name), a in zip(owners, answers):
        want = c.gen["payload"].hex() or "-"
        if a != "OK " + want:
            ctx.fail("frag-reassembly", "Spec.Reasm4.reassemble on the fragments in %s order does not return the payload (%s)"
                     % (name, a[:60]), diff.replay_of(c))
    ctx.dist["reassemblies_checked"] = len(queries)
    diff.vacuity_guard(ctx, len(cases))
    ctx.exhaustive = True
    ctx.sample({"program": cases[5].text[:900]})
    ctx.sample({"program": cases[-10].text[:900]})


def replay(ctx, rp):
    ctx.count("replay")
    d, res = common.run_programs("c07r", {"replay": rp["program"]})
    r = res["replay"]
    if r.status != "ok":
        return ctx.fail("replay-not-ok", "impl outcome %s %s" % (r.status, r.kind), {"program": rp["program"]})
    if rp.get("model", {}).get("pcap") and r.pcap.hex() != rp["model"]["pcap"]:
        ctx.fail("fragments-differ", "fragments differ from the model output recorded in the replay", {"program": rp["program"]})
