"""C02 -- every emitted IPv4 header is self-consistent: length, fields, checksum."""
import struct
import common, diff, gen, progs, carry
from diff import Case
from gen import *

THEOREMS = ["C02_csum_set_then_verify", "C02_ip_calc_verifies", "C02_ipv4_ok_intro", "C02_tcp_open",
            "C02_tcp_client_close", "C02_tcp_server_close", "C02_tcp_client_message", "C02_tcp_server_message",
            "C02_tcp_data_segment", "C02_tcp_ack_reset", "C02_udp_addressed_push", "C02_udp_flow_dgram",
            "C02_udp_options_keep", "C02_udp_packet", "C02_vxlan", "C02_gre", "C02_erspan1", "C02_erspan2",
            "C02_icmp", "C02_fragment", "C02_frag_datagram", "C02_datagram_fn",
            # every packet-returning library key, every nesting depth, histories (Props/C02b.v)
            "C02_clause_defs", "C02_want_defs", "C02_pkt_keys", "C02_lib_all_keys", "C02_fits_defs", "C02_plan_defs", "C02_tcp_plans", "C02_tcp_methods", "C02_udp_flow_methods", "C02_udp_flow_plans", "C02_udp_unicast", "C02_udp_broadcast", "C02_datagram", "C02_dns_host", "C02_fn_plans", "C02_icmp_methods", "C02_icmp_plans", "C02_frag_methods", "C02_frag_plans", "C02_frag_word_plain", "C02_vxlan_methods", "C02_gre_methods", "C02_erspan1_methods", "C02_erspan2_methods", "C02_created_wf", "C02_layer_outer", "C02_nesting_headers", "C02_nesting_defs", "C02_history_defs", "C02_tcp_history", "C02_udp_history", "C02_icmp_history", "C02_frag_history", "C02_vxlan_history", "C02_gre_history", "C02_erspan1_history", "C02_erspan2_history"]
PROPS = ["C02", "C02b"]
VO = ["theories/Props/C02.vo", "theories/Props/C02b.vo"]
RULE = ("random programs over every builder that emits an IPv4 header (TCP flow operations, UDP flow/unicast/"
        "broadcast with frag_off/srcip/csum options, ICMP echo, ipv4::datagram with id/ttl/proto/flag/frag_off "
        "options, fragments, dns::host, VXLAN/GRE/ERSPAN outer headers nested up to depth 3), payload lengths 0, 1, "
        "odd, even, 255/256, 1400 and datagrams at the 65535-byte limit fed from data files; plus one-call "
        "ipv4::datagram programs whose requested fields are read back.  Non-trivial = at least one IPv4 header "
        "found; distinct by program text")
NOTES = ["projection compared with the model: (depth, 20 header bytes, bytes to end of datagram) of every IPv4 header "
         "at every tunnel depth of every record; oracle = Spec.Wire.ipv4_ok (extracted) on the implementation's own "
         "datagrams, and requested-field read-back for ipv4::datagram",
         "datagrams over 65535 bytes are outside the property (the builders overflow u16 arithmetic there: C08 finding)"]
MODELLED = ("pkt/src/ipv4.rs ip_hdr + ip_csum*, ezpkt/src/{tcp4,udp4,icmp4,ip4,gre,vxlan,erspan1,erspan2}.rs, "
            "src/stdlib/ipv4/mod.rs DGRAM/FRAG are modelled step by step (Pkt/Hdrs.v, Ez/*.v, Lib/Ipv4Lib.v); theorems "
            "are about the model, tied by comparison of every IPv4 header the real binary emits")


def headers(pcap, raws=None):
    ok, recs = common.pcap_records(pcap)
    out = []
    for i, r in enumerate(recs):
        raw = diff.frame_is_raw(r[4])
        for depth, d in diff.ip_datagrams(r[4], raw):
            out.append((i, depth, d))
    return ok, out


def boundary_cases(ctx):
    """datagrams at and around the size limit, through data files"""
    cases = []
    r = ctx.rng
    specs = [("udp", 65535 - 28), ("udp", 65535 - 29), ("tcp", 65535 - 40), ("icmp", 65535 - 28), ("dgram", 65535 - 20),
             ("frag", 65535 - 20), ("udp", 1472), ("tcp", 1460)]
    for i, (kind, n) in enumerate(specs):
        data = bytes(r.getrandbits(8) for _ in range(n))
        fn = "big%d.bin" % i
        c = Case()
        c.name, c.files, c.text, c.meta, c.gen = "b%d" % i, {fn: data}, None, [], {"kind": kind, "n": n}
        path = "@WD@/" + fn
        pl = Call("io::file", STR(path))
        st = [Import("ipv4"), Import("io")]
        if kind == "udp":
            st.append(Do(Call("ipv4::udp::unicast", SOCK("1.2.3.4:1"), SOCK("1.2.3.5:2"), _x=[pl])))
        elif kind == "tcp":
            st += [Let("t", Call("ipv4::tcp::flow", SOCK("1.2.3.4:1"), SOCK("1.2.3.5:2"))),
                   Do(Call("t.client_message", _x=[pl]))]
        elif kind == "icmp":
            st += [Let("i", Call("ipv4::icmp::flow", IP("1.2.3.4"), IP("1.2.3.5"))), Do(Call("i.echo", pl))]
        elif kind == "dgram":
            st.append(Do(Call("ipv4::datagram", IP("1.2.3.4"), IP("1.2.3.5"), _x=[pl], ttl=9)))
        else:
            st += [Let("g", Call("ipv4::frag", IP("1.2.3.4"), IP("1.2.3.5"), _x=[pl])), Do(Call("g.datagram")),
                   Do(Call("g.fragment", 0, 100)), Do(Call("g.tail", 100))]
        c.stmts = st
        cases.append(c)
    return cases


def field_cases(ctx, n):
    cases = []
    r = ctx.rng
    for i in range(n):
        f = {"src": rand_ip(r), "dst": rand_ip(r), "id": r.choice([0, 1, 65535, r.getrandbits(16)]),
             "ttl": r.choice([0, 1, 64, 255, r.getrandbits(8)]), "proto": r.choice([0, 1, 6, 17, 47, 255]),
             "evil": r.random() < 0.3, "df": r.random() < 0.4, "mf": r.random() < 0.4,
             "frag_off": r.choice([0, 1, 185, 8191, r.getrandbits(13)])}
        pl = rand_payload(r, 40)
        kw = {k: v for k, v in f.items() if k not in ("src", "dst")}
        if r.random() < 0.5:
            kw = {k: v for k, v in kw.items() if r.random() < 0.6}
        c = Case()
        c.name, c.files, c.text, c.meta = "f%d" % i, {}, None, []
        c.gen = {"want": f, "given": list(kw), "payload": pl}
        c.stmts = [Import("ipv4"), Do(Call("ipv4::datagram", IP(f["src"]), IP(f["dst"]), _x=[STR(pl)], **kw))]
        cases.append(c)
    return cases


def flow_history_cases(ctx):
    """histories on one TCP / UDP / ICMP flow that mix calls with and without frag_off: every datagram names the flow's
    endpoints in the direction of the call, the flow's protocol, TTL 64 -- and the fragment offset of ITS OWN call
    (none unless the call gave one), whatever an earlier call on the same flow asked for"""
    r = ctx.rng
    out = []
    for i in range(30 if ctx.thorough else 10):
        a, b, pa, pb = rand_ip(r), rand_ip(r), rand_port(r), rand_port(r)
        c = Case()
        c.name, c.files, c.text, c.meta = "h%d" % i, {}, None, []
        st = [Import("ipv4"), Let("t", Call("ipv4::tcp::flow", SOCK(a, pa), SOCK(b, pb))), Let("u", Call("ipv4::udp::flow", SOCK(a, pa), SOCK(b, pb))),
              Let("i", Call("ipv4::icmp::flow", IP(a), IP(b)))]
        exp = []
        def emit(call, recs):
            st.append(Do(call)); exp.extend(recs)
        cs, sc = (a, b), (b, a)
        if r.random() < 0.7:
            emit(Call("t.open"), [(6,) + cs + (0,), (6,) + sc + (0,), (6,) + cs + (0,)])
        for _ in range(r.randint(4, 12)):
            k = r.randrange(9)
            side = r.choice(["client", "server"])
            d = cs if side == "client" else sc
            off = r.choice([1, 3, 185, 8191, r.getrandbits(13) or 1])
            pl = STR(rand_payload(r, 24))
            if k == 0:
                emit(Call("t.%s_message" % side, _x=[pl], frag_off=off, send_ack=False), [(6,) + d + (off,)])
            elif k == 1:
                emit(Call("t.%s_message" % side, _x=[pl], send_ack=False), [(6,) + d + (0,)])
            elif k == 2:
                emit(Call("t.%s_segment" % side, _x=[pl]), [(6,) + d + (0,)])
            elif k == 3:
                emit(Call("t.%s_ack" % side), [(6,) + d + (0,)])
            elif k == 4:
                emit(Call("u.%s_dgram" % side, _x=[pl], frag_off=off), [(17,) + d + (off,)])
            elif k == 5:
                emit(Call("u.%s_dgram" % side, _x=[pl]), [(17,) + d + (0,)])
            elif k == 6:
                emit(Call("i.echo", pl), [(1,) + cs + (0,)])
            elif k == 7:
                emit(Call("i.echo_reply", pl), [(1,) + sc + (0,)])
            else:
                emit(Call("t.%s_message" % side, _x=[pl]), [(6,) + d + (0,), (6,) + (d[1], d[0]) + (0,)])
        c.stmts = st
        c.gen = {"kind": "flow-history", "expect": exp}
        out.append(c)
    return out


def frag_field_cases(ctx):
    """fragments and tails of fragmentation contexts: offset, more-fragments flag and total length as requested (the
    field clauses of the statement), for payloads up to the sizes where 8 * length no longer fits 16 bits"""
    from props import c07
    r = ctx.rng
    out = []
    for j, (n, reqs) in enumerate([(8200, [("tail", 185), ("tail", 0), ("fragment", 0, 8192), ("fragment", 1000, 8200)]),
                                   (20, [("fragment", 0, 1), ("fragment", 1, 1), ("tail", 2), ("datagram",), ("tail", 0), ("fragment", 0, 3)]),
                                   (43, [("tail", 0), ("tail", 5), ("fragment", 2, 2)]),
                                   (17000, [("tail", 2000), ("fragment", 2100, 40)]),
                                   # requests that start beyond the end of the payload: an empty fragment AT THE REQUESTED OFFSET
                                   (20, [("tail", 5), ("fragment", 9, 1), ("fragment", 100, 3), ("fragment", 3, 0), ("tail", 8191)]),
                                   (0, [("tail", 1), ("fragment", 7, 2), ("datagram",)])]):
        payload = bytes(r.getrandbits(8) for _ in range(n))
        c = c07.frag_case("g%d" % j, r, payload, reqs, {"src": ip("10.0.0.1"), "dst": ip("10.0.0.2"), "id": 300 + j,
                                                         "df": j % 2 == 0, "evil": j % 3 == 0}, None)
        c.gen["fragcheck"] = True
        out.append(c)
    return out


def run(ctx):
    n = 500 if ctx.thorough else 90
    cases = []
    for i in range(n):
        g = progs.random_program(ctx.rng, jumps=0.03, tunnels=0.35, maxlen=80, big=0.05 if ctx.thorough else 0.02)
        c = Case()
        c.name, c.stmts, c.files, c.text, c.meta, c.gen = "p%d" % i, g.stmts, {}, None, g.meta, None
        cases.append(c)
    fcs = field_cases(ctx, 120 if ctx.thorough else 40)
    bcs = boundary_cases(ctx)
    kcs = carry.ip_id_cases(ctx, 24 if ctx.thorough else 8) + carry.tunnel_len_cases(ctx, 48 if ctx.thorough else 12) + frag_field_cases(ctx) \
        + flow_history_cases(ctx)
    cases += fcs + bcs + kcs
    # data files are addressed by absolute path: patch the placeholder once the work dir is known
    wd = common.workdir("c02pre")
    for c in bcs:
        for s in c.stmts:
            pass
    fix_paths(bcs, common.BUILD + "/work/c02-%d" % __import__("os").getpid())
    diff.run_both(ctx, "c02", cases)
    queries, owners = [], []
    for c in cases:
        ctx.count("boundary" if c.name[0] == "b" else "fields" if c.name[0] == "f" else "carry-directed" if c.name[0] in "ku" else "frag-fields" if c.name[0] == "g" else "flow-history" if c.name[0] == "h" else "random")
        if not diff.triage(ctx, c):
            continue
        oki, hi = headers(c.impl.pcap)
        okm, hm = headers(c.model["pcap"])
        if hi:
            ctx.distinct(c.text)
        for (rec, depth, d) in hi:
            if len(d) <= 65535:
                queries.append("ipv4 " + d.hex())
                owners.append((c, rec, depth, d))
        pi = [(r, dp, d[:20], len(d)) for r, dp, d in hi]
        pm = [(r, dp, d[:20], len(d)) for r, dp, d in hm]
        c.gen = c.gen or {}
        c.gen["proj_equal"] = (pi == pm)
        if (c.gen or {}).get("fragcheck") and hi:
            from props import c07
            for q, (rec, depth, d) in zip(c.gen["reqs"], [x for x in hi if x[1] == 0]):
                tot, ident, fo, ttl, proto, cs, src, dst = struct.unpack(">HHHBBHII", d[2:20])
                off, mf, data = c07.expected(c.gen["payload"], q)
                o = c.gen["opts"]
                want_fo = (off & 0x1fff) | (0x8000 if o.get("evil") else 0) | (0x4000 if o.get("df") else 0) | (0x2000 if mf else 0)
                if fo != want_fo or tot != 20 + len(data):
                    ctx.fail("ipv4-frag-fields", "request %s: flags/offset %#06x total length %d, expected %#06x and %d"
                             % (q, fo, tot, want_fo, 20 + len(data)), diff.replay_of(c))
                    break
        if (c.gen or {}).get("kind") == "flow-history":
            top = [d for (rec, depth, d) in hi if depth == 0]
            if len(top) != len(c.gen["expect"]):
                ctx.fail("ipv4-flow-history-count", "%d datagrams, the history builds %d" % (len(top), len(c.gen["expect"])), diff.replay_of(c))
            else:
                for k, (d, (proto, src, dst, off)) in enumerate(zip(top, c.gen["expect"])):
                    tot, ident, frag, ttl, pr, cs_, s_, d_ = struct.unpack(">HHHBBHII", d[2:20])
                    if (pr, s_, d_, frag, ttl) != (proto, src, dst, off, 64):
                        ctx.fail("ipv4-flow-field", "datagram %d of the history: proto %d %08x -> %08x offset/flags %#06x ttl %d, its call designates "
                                 "proto %d %08x -> %08x offset %#06x ttl 64" % (k, pr, s_, d_, frag, ttl, proto, src, dst, off), diff.replay_of(c))
                        break
        if c.name[0] == "f" and hi:
            want, given, d = c.gen["want"], c.gen["given"], hi[0][2]
            tot, ident, frag, ttl, proto, cs, src, dst = struct.unpack(">HHHBBHII", d[2:20])
            exp = {"src": want["src"], "dst": want["dst"], "id": want["id"] if "id" in given else 0,
                   "ttl": want["ttl"] if "ttl" in given else 64, "proto": want["proto"] if "proto" in given else 17}
            flags = (0x8000 if want["evil"] and "evil" in given else 0) | (0x4000 if want["df"] and "df" in given else 0) \
                | (0x2000 if want["mf"] and "mf" in given else 0)
            expfrag = flags | (want["frag_off"] if "frag_off" in given else 0)
            got = {"src": src, "dst": dst, "id": ident, "ttl": ttl, "proto": proto}
            if got != exp or frag != expfrag or d[20:] != c.gen["payload"]:
                ctx.fail("ipv4-field", "ipv4::datagram header fields differ from the request: got %s frag %#x, want %s frag %#x"
                         % (got, frag, exp, expfrag), diff.replay_of(c))
    answers = common.spec_batch(queries, "c02")
    bad_cases = set()
    for (c, rec, depth, d), a in zip(owners, answers):
        if a != "1" and c.name not in bad_cases:
            bad_cases.add(c.name)
            tot = struct.unpack(">H", d[2:4])[0]
            why = "total length %d but %d bytes to the end of the datagram" % (tot, len(d)) if tot != len(d) else \
                "header checksum does not verify"
            cls = ("ipv4-totlen" if tot != len(d) else "ipv4-csum") + ":proto=%d:depth=%d" % (d[9], depth)
            ctx.fail(cls, "record %d depth %d: %s (header %s)" % (rec, depth, why, d[:20].hex()), diff.replay_of(c))
    for c in cases:
        if c.gen and c.gen.get("proj_equal") is False and c.name not in bad_cases:
            ctx.fail("ipv4-headers-differ", "IPv4 header projection differs from the model", diff.replay_of(c),
                     disagreement=True)
    ctx.dist["ipv4_headers_checked"] = len(queries)
    diff.vacuity_guard(ctx, len(cases))
    for c in cases[:1] + fcs[:1]:
        ctx.sample({"program": c.text[:1500]})


def fix_paths(cases, wd):
    """io::file needs an absolute path: the work directory of diff.run_both('c02', ...)"""
    def walk(e):
        if isinstance(e, Lit) and e.kind == "str" and e.value.startswith(b"@WD@/"):
            e.value = (wd + "/" + e.value[5:].decode()).encode()
        elif isinstance(e, Call):
            for _, a in e.args:
                walk(a)
        elif isinstance(e, Slash):
            walk(e.a)
            walk(e.b)
    for c in cases:
        for s in c.stmts:
            if s[0] in ("let",):
                walk(s[2])
            elif s[0] == "expr":
                walk(s[1])


def replay(ctx, rp):
    c = Case()
    c.name, c.text, c.files, c.meta, c.gen, c.stmts = "replay", rp["program"], {}, [], None, []
    d, res = common.run_programs("c02r", {"replay": c.text},
                                 files={k: bytes.fromhex(v) for k, v in rp.get("files", {}).items()})
    c.impl = res["replay"]
    c.model = {"status": None, "kind": None, "pcap": None}
    ctx.count("replay")
    if c.impl.status != "ok":
        return ctx.fail("replay-not-ok", "impl outcome %s %s" % (c.impl.status, c.impl.kind), {"program": c.text})
    oki, hi = headers(c.impl.pcap)
    qs = ["ipv4 " + d.hex() for _, _, d in hi if len(d) <= 65535]
    for q, a in zip(qs, common.spec_batch(qs, "c02r")):
        if a != "1":
            ctx.fail("ipv4-csum", "an IPv4 header fails Spec.Wire.ipv4_ok", {"program": c.text, "datagram": q[5:45]})
            return
