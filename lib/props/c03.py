"""C03 -- transport headers verify: TCP/UDP/ICMP checksums, UDP length, ICMP echo fields."""
import struct
import common, diff, gen, progs, carry
from diff import Case
from gen import *

THEOREMS = ["C03_tcp_csum_verifies", "C03_tcp_ops_checksummed", "C03_tcp_good_verifies", "C03_udp_csum_verifies",
            "C03_udp_len_exact", "C03_icmp_layout", "C03_icmp_verifies", "C03_icmp_seq_counts",
            # library-method level (Props/C03b.v)
            "C03_tcp_methods_checksummed", "C03_tcp_history", "C03_tcp_history_verifies", "C03_tcp_flow_created_wf", "C03_icmp_methods", "C03_icmp_history", "C03_icmp_flow_created_wf", "C03_udp_flow_methods", "C03_udp_unicast_csum_absent", "C03_udp_broadcast_csum_absent", "C03_vxlan_csum_absent", "C03_dns_host_checksummed", "C03_udp_flow_created_wf", "C03_family_methods_foreign", "C03_family_functions_foreign"]
PROPS = ["C03", "C03b"]
VO = ["theories/Props/C03.vo", "theories/Props/C03b.vo"]
RULE = ("random programs over TCP flow operations (with and without seq/ack overrides), UDP flow/unicast/broadcast/"
        "dns::host datagrams with csum on/off, ICMP echo histories, raw and framed, inside tunnels; payloads of every "
        "parity including ones solved for so that the UDP sum folds to 0x0000 (must be sent as 0xffff) and sums that "
        "carry twice.  Non-trivial = at least one transport header checked; distinct by program text")
NOTES = ["projection compared with the model: every TCP/UDP/ICMP header (20/8/8 bytes) at every depth; oracle = "
         "Spec.Wire.tcp_ok / udp_len_ok / udp_csum_ok / icmp_ok (extracted from Coq) on the implementation's bytes, "
         "plus echo id/seq/type/code against the generator's history",
         "client_hdr/server_hdr return a bare TCP header for a payload the flow never sees (checksum field 0 by "
         "construction); they are byte strings, not segments emitted by the flow, and are outside the statement",
         "UDP datagrams built by unicast/broadcast/VXLAN carry checksum 0 ('none') by design: only the length is checked"]
MODELLED = ("ezpkt/src/tcp4.rs tcp_csum/csum_len, udp4.rs csum/push, icmp4.rs ping/pong + flow counters, "
            "src/stdlib/ipv4/{tcp,udp,icmp}.rs, src/stdlib/dns.rs host: modelled in Ez/*.v, Lib/*.v")


def transports(pcap):
    """[(rec, depth, kind, src, dst, l4bytes)] for unfragmented datagrams"""
    ok, recs = common.pcap_records(pcap)
    out = []
    for i, r in enumerate(recs):
        raw = diff.frame_is_raw(r[4])
        for depth, d in diff.ip_datagrams(r[4], raw):
            tot, ident, frag, ttl, proto, cs, src, dst = struct.unpack(">HHHBBHII", d[2:20])
            if tot != len(d) and not (depth == 0 and len(d) > 65535 and tot == len(d) % 65536):
                continue            # (a top-level datagram beyond 65535 bytes: the 16-bit total length wraps, the record holds it whole)
            if frag & 0x3fff:
                # a flow datagram given an explicit frag_off is still a whole UDP datagram (header + payload) under a
                # non-zero offset field: recognised by its own length field; slices of fragmentation contexts are not
                l4 = d[20:]
                if not (proto == 17 and len(l4) >= 8 and struct.unpack(">H", l4[4:6])[0] == len(l4)):
                    continue
            if proto in (6, 17, 1):
                out.append((i, depth, proto, src, dst, d[20:]))
    return ok, out


def zero_sum_payload(src, sp, dst, dp, rng):
    """2k-byte payload making the UDP ones-complement sum fold to zero (checksum must become 0xffff)"""
    body = bytes(rng.getrandbits(8) for _ in range(rng.choice([0, 2, 4, 10])))
    ln = 8 + len(body) + 2
    ps = struct.pack(">IIBBH", src, dst, 0, 17, ln) + struct.pack(">HHHH", sp, dp, ln, 0) + body
    s = diff.ones_sum(ps)
    # need total sum == 0xffff  => last word w with s + w == 0xffff (mod 0xffff), w in 0..0xffff
    w = (0xffff - s) % 0xffff
    return body + struct.pack(">H", w)


def special_cases(ctx):
    cases = []
    r = ctx.rng
    for i in range(30 if ctx.thorough else 10):
        src, dst, sp, dp = rand_ip(r), rand_ip(r), rand_port(r), rand_port(r)
        pl = zero_sum_payload(src, sp, dst, dp, r)
        c = Case()
        c.name, c.files, c.text, c.meta, c.gen = "z%d" % i, {}, None, [], {"kind": "udp-zero-fold"}
        c.stmts = [Import("ipv4"), Let("u", Call("ipv4::udp::flow", SOCK(src, sp), SOCK(dst, dp))),
                   Do(Call("u.client_dgram", _x=[STR(pl)]))]
        cases.append(c)
    # ICMP histories
    for i in range(20 if ctx.thorough else 6):
        c = Case()
        c.name, c.files, c.text, c.meta = "i%d" % i, {}, None, []
        hist = [r.choice(["echo", "echo_reply"]) for _ in range(r.randint(1, 12))]
        c.gen = {"kind": "icmp-history", "hist": hist}
        c.stmts = [Import("ipv4"), Let("i", Call("ipv4::icmp::flow", IP(rand_ip(r)), IP(rand_ip(r)),
                                               **({"raw": True} if r.random() < 0.3 else {})))]
        for h in hist:
            c.stmts.append(Do(Call("i." + h, STR(rand_payload(r, 40)))))
        cases.append(c)
    # one flow used for more than 2^16 requests: the 16-bit sequence number wraps to 0
    if True:            # (both tiers: a narrowing of the counters shows only past the 65536th message)
        c = Case()
        c.name, c.files, c.text, c.meta = "iwrap", {}, None, []
        hist = ["echo"] * 65538 + ["echo_reply", "echo", "echo_reply"]
        c.gen = {"kind": "icmp-history", "hist": hist}
        c.stmts = [Import("ipv4"), Let("i", Call("ipv4::icmp::flow", IP(rand_ip(r)), IP(rand_ip(r))))] + \
                  [Do(Call("i." + h, STR(b"p"))) for h in hist]
        cases.append(c)
    # segments and datagrams beyond 65535 bytes (read from data files): every byte is under the checksum
    for i, n in enumerate([65535, 65536, 70000, 66001] if ctx.thorough else [65536, 70000]):
        c = Case()
        c.name, c.text, c.meta, c.gen = "ov%d" % i, None, [], {"kind": "oversize"}
        fn = "c03ov%d.bin" % i
        c.files = {fn: bytes(r.getrandbits(8) for _ in range(n))}
        f = Call("io::file", STR("@WD@/" + fn))
        c.stmts = [Import("ipv4"), Import("io"), Let("t", Call("ipv4::tcp::flow", SOCK("1.2.3.4:1"), SOCK("1.2.3.5:2"))),
                   Do(Call("t.open")), Do(Call("t.client_message", _x=[f])), Do(Call("t.server_segment", _x=[f])),
                   Let("u", Call("ipv4::udp::flow", SOCK("1.2.3.4:1"), SOCK("1.2.3.5:2"))), Do(Call("u.client_dgram", _x=[f]))]
        cases.append(c)
    from props.c02 import fix_paths
    import os
    fix_paths([c for c in cases if c.gen.get("kind") == "oversize"], common.BUILD + "/work/c03-%d" % os.getpid())
    # payloads written as several arguments of odd and even lengths (the checksum is over the joined bytes: an odd piece
    # in the middle shifts every later 16-bit word), through every transport builder
    for i in range(24 if ctx.thorough else 8):
        c = Case()
        c.name, c.files, c.text, c.meta, c.gen = "mp%d" % i, {}, None, [], {"kind": "multi-piece-payload"}
        pieces = lambda: [STR(bytes(r.getrandbits(8) for _ in range(n))) for n in r.choice([(3, 4), (1, 1, 1), (5, 0, 2, 7), (21, 11), (2, 3, 2), (7,), (1, 2)])]
        ia, ib = rand_ip(r), rand_ip(r)
        a, b = SOCK(ia, rand_port(r)), SOCK(ib, rand_port(r))
        c.stmts = [Import("ipv4"), Let("u", Call("ipv4::udp::flow", a, b)), Let("t", Call("ipv4::tcp::flow", a, b)),
                   Do(Call("u.client_dgram", _x=pieces())), Do(Call("u.server_dgram", _x=pieces())),
                   Do(Call("ipv4::udp::unicast", a, b, _x=pieces())),
                   Do(Call("t.client_message", _x=pieces())), Do(Call("t.server_segment", _x=pieces())),
                   # (a raw datagram is checksummed for the flow's own addresses: it goes on the wire between them)
                   Do(Call("ipv4::datagram", IP(ia), IP(ib), _x=[Call("u.client_raw_dgram", _x=pieces())]))]
        cases.append(c)
    # datagrams handed out without their IP header (client_raw_dgram / server_raw_dgram) and put on the wire by hand
    # between the flow's own addresses: the same UDP length and checksum rules
    for i in range(40 if ctx.thorough else 12):
        src, dst, sp, dp = rand_ip(r), rand_ip(r), rand_port(r), rand_port(r)
        c = Case()
        c.name, c.files, c.text, c.meta = "rd%d" % i, {}, None, []
        c.stmts = [Import("ipv4"), Let("u", Call("ipv4::udp::flow", SOCK(src, sp), SOCK(dst, dp)))]
        want = []
        for j in range(r.randint(1, 5)):
            side = r.choice(["client", "server"])
            a, b = (src, dst) if side == "client" else (dst, src)
            kw = {"csum": False} if r.random() < 0.25 else {}
            pl = zero_sum_payload(a, sp if side == "client" else dp, b, dp if side == "client" else sp, r) if r.random() < 0.2 \
                else bytes(r.getrandbits(8) for _ in range(r.choice([0, 1, 2, 3, 40, 255, 256])))
            inner = Call("u.%s_raw_dgram" % side, _x=[STR(pl)], **kw)
            if r.random() < 0.3:
                c.stmts.append(Do(Call("u.%s_dgram" % side, _x=[STR(rand_payload(r, 9))])))
                want.append(False)
            if r.random() < 0.7:
                c.stmts.append(Do(Call("ipv4::datagram", IP(a), IP(b), _x=[inner], **({"proto": 17} if r.random() < 0.5 else {}))))
            else:
                c.stmts += [Let("g%d" % j, Call("ipv4::frag", IP(a), IP(b), _x=[inner], proto=17)), Do(Call("g%d.datagram" % j))]
            want.append("csum" not in kw)
        c.gen = {"kind": "udp-raw-dgram", "csum_on": want}
        cases.append(c)
    # sums that carry twice: payload of 0xff bytes, odd and even lengths
    for i, n in enumerate([1, 2, 3, 255, 256, 1399, 1400]):
        c = Case()
        c.name, c.files, c.text, c.meta, c.gen = "c%d" % i, {}, None, [], {"kind": "carry"}
        c.stmts = [Import("ipv4"), Let("t", Call("ipv4::tcp::flow", SOCK("255.255.255.255:65535"), SOCK("255.255.255.254:65535"),
                                               cl_seq=0xffffffff, sv_seq=0xfffffffe)),
                   Do(Call("t.open")), Do(Call("t.client_message", _x=[STR(b"\xff" * n)])),
                   Do(Call("t.server_message", _x=[STR(b"\xff" * n)])), Do(Call("t.client_reset")),
                   Let("u", Call("ipv4::udp::flow", SOCK("255.255.255.255:65535"), SOCK("255.255.255.254:65535"))),
                   Do(Call("u.server_dgram", _x=[STR(b"\xff" * n)]))]
        cases.append(c)
    return cases


def run(ctx):
    n = 450 if ctx.thorough else 80
    cases = []
    for i in range(n):
        g = progs.random_program(ctx.rng, feats=["tcp", "tcp", "udp", "icmp", "dnshost"], jumps=0.02, tunnels=0.25,
                                 maxlen=70, overrides=0.25)
        c = Case()
        c.name, c.stmts, c.files, c.text, c.meta, c.gen = "p%d" % i, g.stmts, {}, None, g.meta, None
        cases.append(c)
    cases += special_cases(ctx)
    cases += carry.l4_cases(ctx, 60 if ctx.thorough else 24)
    diff.run_both(ctx, "c03", cases)
    queries, owners = [], []
    for c in cases:
        ctx.count((c.gen or {}).get("kind", "random"))
        if not diff.triage(ctx, c):
            continue
        oki, ti = transports(c.impl.pcap)
        okm, tm = transports(c.model["pcap"])
        if ti:
            ctx.distinct(c.text)
        hl = {6: 20, 17: 8, 1: 8}
        c.gen = c.gen or {}
        c.gen["proj_equal"] = [(a, b, k, s, d, l4[:hl[k]], len(l4)) for a, b, k, s, d, l4 in ti] == \
                              [(a, b, k, s, d, l4[:hl[k]], len(l4)) for a, b, k, s, d, l4 in tm]
        for (rec, depth, proto, src, dst, l4) in ti:
            if proto == 6:
                queries.append("tcp %d %d %s" % (src, dst, l4.hex()))
                owners.append((c, rec, depth, "tcp-csum", l4))
            elif proto == 17:
                if len(l4) <= 65535:
                    queries.append("udplen " + l4.hex())
                    owners.append((c, rec, depth, "udp-len", l4))
                if len(l4) >= 8 and l4[6:8] != b"\x00\x00":
                    queries.append("udpcsum %d %d %s" % (src, dst, l4.hex()))
                    owners.append((c, rec, depth, "udp-csum", l4))
            else:
                queries.append("icmp " + l4.hex())
                owners.append((c, rec, depth, "icmp-csum", l4))
        # checksumming enabled => checksum present: every flow datagram whose call did not say csum: false
        npks = [m.get("npk", 0) for m in (c.meta or [])]
        if c.meta and c.stmts and len(c.meta) == len(c.stmts) and sum(npks) == len(common.pcap_records(c.impl.pcap)[1]):
            owner, k = {}, 0
            for st, n in zip(c.stmts, npks):
                for _ in range(n):
                    owner[k] = st
                    k += 1
            for (rec, depth, proto, src, dst, l4) in ti:
                st = owner.get(rec)
                call = st[-1] if st is not None and st[0] == "expr" and isinstance(st[-1], gen.Call) else None
                if depth == 0 and proto == 17 and call is not None and call.comps[-1] in ("client_dgram", "server_dgram") \
                        and not any(k == "csum" for k, _ in call.args) and l4[6:8] == b"\x00\x00":
                    ctx.fail("udp-csum-missing", "record %d: UDP flow datagram built with checksumming enabled carries checksum 0"
                             % rec, diff.replay_of(c))
                    break
        if c.gen.get("kind") == "udp-raw-dgram":
            us = [t for t in ti if t[2] == 17]
            if len(us) != len(c.gen["csum_on"]):
                ctx.fail("udp-raw-dgram-shape", "%d UDP datagrams on the wire, the program builds %d" % (len(us), len(c.gen["csum_on"])),
                         diff.replay_of(c))
            else:
                for on, t in zip(c.gen["csum_on"], us):
                    if on and t[5][6:8] == b"\x00\x00":
                        ctx.fail("udp-csum-missing", "record %d: a raw datagram built with checksumming enabled carries checksum 0" % t[0],
                                 diff.replay_of(c))
                        break
        # ... and the flow datagrams of the special cases
        if c.gen.get("kind") == "udp-zero-fold":
            for (rec, depth, proto, src, dst, l4) in ti:
                if proto == 17 and l4[6:8] == b"\x00\x00":
                    ctx.fail("udp-csum-zero", "UDP datagram built with checksumming carries checksum 0 (sum folds to zero)",
                             diff.replay_of(c))
        if c.gen.get("kind") == "icmp-history":
            hist = c.gen["hist"]
            ic = [t for t in ti if t[2] == 1]
            if len(ic) == len(hist):
                nreq = nrep = 0
                ids = set()
                for h, t in zip(hist, ic):
                    typ, code, cs, ident, seq = struct.unpack(">BBHHH", t[5][:8])
                    ids.add(ident)
                    want_typ, want_seq = (8, nreq % 65536) if h == "echo" else (0, nrep % 65536)
                    if h == "echo":
                        nreq += 1
                    else:
                        nrep += 1
                    if typ != want_typ or code != 0 or seq != want_seq:
                        ctx.fail("icmp-echo-fields", "%s: type %d code %d seq %d, expected type %d code 0 seq %d"
                                 % (h, typ, code, seq, want_typ, want_seq), diff.replay_of(c))
                        break
                if len(ids) > 1:
                    ctx.fail("icmp-id", "more than one identifier on one flow: %s" % sorted(ids), diff.replay_of(c))
    answers = common.spec_batch(queries, "c03")
    bad = set()
    for (c, rec, depth, what, l4), a in zip(owners, answers):
        if a != "1" and (c.name, what) not in bad:
            bad.add((c.name, what))
            flags = l4[13] if what == "tcp-csum" and len(l4) > 13 else 0
            cls = what + (":flags=%#04x" % flags if what == "tcp-csum" else "")
            ctx.fail(cls, "record %d depth %d: %s fails the specification predicate (header %s)"
                     % (rec, depth, what, l4[:20].hex()), diff.replay_of(c))
    badnames = {n for n, _ in bad}
    for c in cases:
        if c.gen and c.gen.get("proj_equal") is False and c.name not in badnames:
            ctx.fail("transport-headers-differ", "transport header projection differs from the model", diff.replay_of(c),
                     disagreement=True)
    ctx.dist["transport_headers_checked"] = len(queries)
    diff.vacuity_guard(ctx, len(cases))
    ctx.sample({"program": cases[0].text[:1200]})
    ctx.sample({"program": cases[n].text[:600], "kind": "udp payload solved for a zero fold"})


def replay(ctx, rp):
    c = Case()
    c.name, c.text, c.files, c.meta, c.gen, c.stmts = "replay", rp["program"], {}, [], None, []
    d, res = common.run_programs("c03r", {"replay": c.text})
    c.impl = res["replay"]
    ctx.count("replay")
    if c.impl.status != "ok":
        return ctx.fail("replay-not-ok", "impl outcome %s %s" % (c.impl.status, c.impl.kind), {"program": c.text})
    oki, ti = transports(c.impl.pcap)
    qs = []
    for (rec, depth, proto, src, dst, l4) in ti:
        if proto == 6:
            qs.append("tcp %d %d %s" % (src, dst, l4.hex()))
        elif proto == 1:
            qs.append("icmp " + l4.hex())
        else:
            qs.append("udplen " + l4.hex())
            if l4[6:8] != b"\x00\x00":
                qs.append("udpcsum %d %d %s" % (src, dst, l4.hex()))
    for q, a in zip(qs, common.spec_batch(qs, "c03r")):
        if a != "1":
            return ctx.fail("transport", "a transport header fails its specification predicate: " + q[:80], {"program": c.text})
