"""C12 -- record timestamps never go backwards and time jumps are exact."""
import copy
import common, diff, gen, progs
from diff import Case

THEOREMS = ["C12_ts_monotone", "C12_nsec_lt_1e9", "C12_sec_nsec_exact", "C12_sec_nsec_monotone",
            "C12_strict_between_statements", "C12_gap_local", "C12_jump_shift", "C12_jump_units",
            "C12_interpreter_refines"]
RULE = ("random programs over every packet builder with time jumps in all four units at random positions "
        "(magnitudes 0, 1, second-boundary crossers, random), stored packets re-emitted; each program also in a "
        "variant with one extra jump inserted (relational check).  A case is non-trivial when it emits >= 2 "
        "records; distinct = distinct (program text) hashes")
NOTES = ["projection compared: (sec, nsec, caplen) of every record; the oracle (monotone, nsec < 1e9, strict between "
         "emitting statements, exact shift under an inserted jump) runs on the implementation's pcap alone",
         "clock overflow beyond 2^64 ns (u64 `+=` in Program::update_time, `*` in time::jump_*) panics in the debug "
         "build: outside the property's 2^32 s bound, watched by C08"]
MODELLED = ("src/program.rs update_time/add_expr, pkt/src/pcap.rs ts_to_secs/ts_to_nsecs/write_packet, "
            "pkt/src/packet.rs bit_time, src/stdlib/time.rs are modelled (Interp/Eval.v, Pkt/Pcap.v, Lib/MiscLib.v); "
            "theorems are about the model, tied by byte-for-byte comparison of whole pcap files")


def times(pcap):
    ok, recs = common.pcap_records(pcap)
    return ok, [(r[0], r[1], r[2]) for r in recs]


def oracle(ctx, c, base=None):
    """spec checks on the implementation's own output"""
    ok, recs = common.pcap_records(c.impl.pcap)
    if not ok:
        return ctx.fail("malformed-pcap", "output is not a well-formed pcap", diff.replay_of(c))
    ts = [r[0] * 10**9 + r[1] for r in recs]
    for i, r in enumerate(recs):
        if r[1] >= 10**9:
            return ctx.fail("nsec-range", "record %d has nsec %d" % (i, r[1]), diff.replay_of(c))
    for i in range(1, len(ts)):
        if ts[i] < ts[i - 1]:
            return ctx.fail("ts-decrease", "record %d time %d < previous %d" % (i, ts[i], ts[i - 1]), diff.replay_of(c))
    # strict between emitting statements, using the generator's per-statement packet counts
    npks = [m["npk"] for m in c.meta if m["npk"]]
    if sum(npks) == len(ts):
        i, prev = 0, None
        for n in npks:
            grp = ts[i:i + n]
            if prev is not None and not (min(grp) > prev):
                return ctx.fail("ts-not-strict", "statement group starting at record %d not strictly later" % i,
                                diff.replay_of(c))
            prev = max(grp)
            i += n
    if base is not None:
        # c = base with a jump of d ns inserted before emitting-statement index k
        okb, recsb = common.pcap_records(base.impl.pcap)
        tb = [r[0] * 10**9 + r[1] for r in recsb]
        d, nbefore = c.gen["d"], c.gen["nbefore"]
        if len(tb) != len(ts):
            return ctx.fail("jump-changes-records", "inserting a jump changed the number of records",
                            diff.replay_of(c, {"base_program": base.text}))
        for i in range(len(ts)):
            want = tb[i] + (d if i >= nbefore else 0)
            if ts[i] != want or recs[i][4] != recsb[i][4]:
                return ctx.fail("jump-shift", "record %d: time %d, expected %d after inserting a %d ns jump at record %d"
                                % (i, ts[i], want, d, nbefore), diff.replay_of(c, {"base_program": base.text}))


def make_cases(ctx, n):
    cases = []
    for i in range(n):
        g = progs.random_program(ctx.rng, jumps=0.3, tunnels=0.15, maxlen=48)
        c = Case()
        c.name, c.stmts, c.files, c.text, c.meta, c.gen = "p%d" % i, g.stmts, {}, None, g.meta, None
        cases.append(c)
        # relational variant: one more jump at a random position
        pos = ctx.rng.randint(0, len(g.stmts))
        unit, mult = ctx.rng.choice([("seconds", 10**9), ("millis", 10**6), ("micros", 10**3), ("nanos", 1)])
        mag = ctx.rng.choice([0, 1, 999, 1000, 999999999, ctx.rng.randint(0, 100000)])
        if ctx.rng.random() < 0.3:
            # counts that do not fit 32 bits, totals still below the pcap limit of 2^32 seconds
            mag = ctx.rng.choice({"seconds": [2**31, 4 * 10**9], "millis": [2**32, 2**32 + 250, 10**12],
                                  "micros": [2**32, 5 * 10**9, 10**15], "nanos": [2**32, 2**32 + 1, 10**18]}[unit])
        v = Case()
        v.name = "p%dj" % i
        v.stmts = g.stmts[:pos] + [gen.Do(gen.Call("time::jump_" + unit, gen.INT(mag)))] + g.stmts[pos:]
        v.meta = g.meta[:pos] + [{"kind": "expr", "npk": 0, "what": "jump", "ns": mag * mult}] + g.meta[pos:]
        v.files, v.text = {}, None
        v.gen = {"d": mag * mult, "nbefore": sum(m["npk"] for m in g.meta[:pos]), "base": c.name}
        cases.append(v)
    return cases


def run(ctx):
    n = 400 if ctx.thorough else 60
    cases = make_cases(ctx, n)
    diff.run_both(ctx, "c12", cases)
    byname = {c.name: c for c in cases}
    for c in cases:
        ctx.count("random+jump-variant")
        if not diff.triage(ctx, c):
            continue
        base = byname.get(c.gen["base"]) if c.gen else None
        if base is not None and base.impl.status != "ok":
            base = None
        before = len(ctx.violations)
        oracle(ctx, c, base)
        oki, ti = times(c.impl.pcap)
        okm, tm = times(c.model["pcap"])
        if ti != tm and len(ctx.violations) == before:
            ctx.fail("timestamps-differ", "timestamp projection differs from the model", diff.replay_of(c),
                     disagreement=True)
        if len(ti) >= 2:
            ctx.distinct(c.text)
    diff.vacuity_guard(ctx, len(cases))
    ctx.dist.update({"statements_per_program": "0..14 steps + objects",
                "jump_units": ["seconds", "millis", "micros", "nanos"]})
    for c in cases[:2]:
        ctx.sample({"program": c.text, "impl_times": times(c.impl.pcap)[1][:6] if c.impl.pcap else None})


def replay(ctx, rp):
    c = Case()
    c.name, c.text, c.files, c.meta, c.gen, c.stmts = "replay", rp["program"], {}, [], None, []
    d, res = common.run_programs("c12r", {"replay": c.text})
    c.impl = res["replay"]
    c.model = {"status": "ok", "kind": None, "pcap": None}
    if c.impl.status != "ok":
        return ctx.fail("replay-not-ok", "impl outcome %s %s" % (c.impl.status, c.impl.kind), {"program": c.text})
    base = None
    if rp.get("base_program"):
        base = Case()
        base.text = rp["base_program"]
        d2, r2 = common.run_programs("c12rb", {"base": base.text})
        base.impl = r2["base"]
        c.gen = {"d": 0, "nbefore": 0}
        log = None
    oracle(ctx, c, None)
    ctx.count("replay")
