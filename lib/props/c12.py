"""C12 -- record timestamps never go backwards and time jumps are exact."""
import copy
import common, diff, gen, progs
from diff import Case

THEOREMS = ["C12_ts_monotone", "C12_nsec_lt_1e9", "C12_sec_nsec_exact", "C12_sec_nsec_monotone",
            "C12_strict_between_statements", "C12_gap_local", "C12_jump_shift", "C12_jump_units",
            "C12_interpreter_refines",
            # whole programs, any library; the real jump calls after `import time` (Props/C12b.v)
            "C12b_eval_ignores_clock", "C12b_values_independent_of_clock", "C12b_clock_fits", "C12b_jump_insertion",
            "C12b_jump_removal", "C12b_jump_calls", "C12b_jump_table", "C12b_import_time_available",
            "C12b_real_jump_insertion", "C12b_file_records_sorted"]
PROPS = ["C12", "C12b"]
VO = ["theories/Props/C12.vo", "theories/Props/C12b.vo"]
RULE = ("random programs over every packet builder with time jumps in all four units at random positions "
        "(magnitudes 0, 1, second-boundary crossers, random), stored packets re-emitted; each program also in a "
        "variant with one extra jump inserted (relational check).  A case is non-trivial when it emits >= 2 "
        "records; distinct = distinct (program text) hashes")
NOTES = ["projection compared: (sec, nsec, caplen) of every record; the oracle (monotone, nsec < 1e9, strict between "
         "emitting statements, exact shift under an inserted jump) runs on the implementation's pcap alone",
         "clock overflow beyond 2^64 ns (u64 `+=` in Program::update_time, `*` in time::jump_*) panics in the debug "
         "build: outside the property's 2^32 s bound, watched by C08"]
MODELLED = ("src/program.rs update_time/add_expr, pkt/src/pcap.rs ts_to_secs/ts_to_nsecs/write_packet, "
            "pkt/src/packet.rs bit_time, src/stdlib/time.rs are modelled (Interp/Eval.v, Pkt/Pcap.v, Lib/MiscLib.v); "
            "theorems are about the model, tied by byte-for-byte comparison of whole pcap files")


def times(pcap):
    ok, recs = common.pcap_records(pcap)
    return ok, [(r[0], r[1], r[2]) for r in recs]


def oracle(ctx, c, base=None):
    """spec checks on the implementation's own output"""
    ok, recs = common.pcap_records(c.impl.pcap)
    if not ok:
        return ctx.fail("malformed-pcap", "output is not a well-formed pcap", diff.replay_of(c))
    ts = [r[0] * 10**9 + r[1] for r in recs]
    for i, r in enumerate(recs):
        if r[1] >= 10**9:
            return ctx.fail("nsec-range", "record %d has nsec %d" % (i, r[1]), diff.replay_of(c))
    for i in range(1, len(ts)):
        if ts[i] < ts[i - 1]:
            return ctx.fail("ts-decrease", "record %d time %d < previous %d" % (i, ts[i], ts[i - 1]), diff.replay_of(c))
    # strict between emitting statements, using the generator's per-statement packet counts
    npks = [m["npk"] for m in c.meta if m["npk"]]
    if sum(npks) == len(ts):
        i, prev = 0, None
        for n in npks:
            grp = ts[i:i + n]
            if prev is not None and not (min(grp) > prev):
                return ctx.fail("ts-not-strict", "statement group starting at record %d not strictly later" % i,
                                diff.replay_of(c))
            prev = max(grp)
            i += n
    if base is not None:
        # c = base with a jump of d ns inserted before emitting-statement index k
        okb, recsb = common.pcap_records(base.impl.pcap)
        tb = [r[0] * 10**9 + r[1] for r in recsb]
        d, nbefore = c.gen["d"], c.gen["nbefore"]
        if len(tb) != len(ts):
            return ctx.fail("jump-changes-records", "inserting a jump changed the number of records",
                            diff.replay_of(c, {"base_program": base.text}))
        for i in range(len(ts)):
            want = tb[i] + (d if i >= nbefore else 0)
            if ts[i] != want or recs[i][4] != recsb[i][4]:
                return ctx.fail("jump-shift", "record %d: time %d, expected %d after inserting a %d ns jump at record %d"
                                % (i, ts[i], want, d, nbefore), diff.replay_of(c, {"base_program": base.text}))


def make_cases(ctx, n):
    cases = []
    for i in range(n):
        g = progs.random_program(ctx.rng, jumps=0.3, tunnels=0.15, maxlen=48)
        c = Case()
        c.name, c.stmts, c.files, c.text, c.meta, c.gen = "p%d" % i, g.stmts, {}, None, g.meta, None
        cases.append(c)
        # relational variant: one more jump at a random position
        pos = ctx.rng.randint(0, len(g.stmts))
        unit, mult = ctx.rng.choice([("seconds", 10**9), ("millis", 10**6), ("micros", 10**3), ("nanos", 1)])
        mag = ctx.rng.choice([0, 1, 999, 1000, 999999999, ctx.rng.randint(0, 100000)])
        if ctx.rng.random() < 0.3:
            # counts that do not fit 32 bits, totals still below the pcap limit of 2^32 seconds
            mag = ctx.rng.choice({"seconds": [2**31, 4 * 10**9], "millis": [2**32, 2**32 + 250, 10**12],
                                  "micros": [2**32, 5 * 10**9, 10**15], "nanos": [2**32, 2**32 + 1, 10**18]}[unit])
        v = Case()
        v.name = "p%dj" % i
        v.stmts = g.stmts[:pos] + [gen.Do(gen.Call("time::jump_" + unit, gen.INT(mag)))] + g.stmts[pos:]
        v.meta = g.meta[:pos] + [{"kind": "expr", "npk": 0, "what": "jump", "ns": mag * mult}] + g.meta[pos:]
        v.files, v.text = {}, None
        v.gen = {"d": mag * mult, "nbefore": sum(m["npk"] for m in g.meta[:pos]), "base": c.name}
        if i % 3 == 1:
            # several statements on one line, statements broken over lines: time is the order of the statements, not of the lines
            from props.c14 import render
            lay = ("groups", "one", "split")[i % 9 // 3]
            c.text = render(c.stmts, __import__("random").Random(ctx.rng.getrandbits(32)), lay)[0]
            v.text = render(v.stmts, __import__("random").Random(ctx.rng.getrandbits(32)), lay)[0]
        cases.append(v)
    return cases


def boundary_cases(ctx, n):
    """jumps solved for (after a first pass through the real binary that measures the packet times) so that a record
    lands exactly on a second boundary, one nanosecond before / after it, and in the last representable second
    before 2^32 s"""
    r = ctx.rng
    bases = []
    for i in range(n):
        pk = lambda: gen.Do(gen.Call("ipv4::udp::unicast", gen.SOCK("1.2.3.4:1"), gen.SOCK("1.2.3.5:2"),
                                     _x=[gen.STR(bytes(r.getrandbits(8) for _ in range(r.choice([0, 1, 30, 500]))))]))
        b = Case()
        b.name, b.files, b.text, b.gen = "b%d" % i, {}, None, None
        b.stmts = [gen.Import("ipv4"), gen.Import("time"), pk(), pk(), pk()]
        b.meta = [{"kind": "import", "npk": 0}, {"kind": "import", "npk": 0}] + [{"kind": "expr", "npk": 1}] * 3
        if i % 2:
            # a clock of realistic dates (beyond 2^53 ns, where 64-bit floating point no longer holds every nanosecond)
            epoch = r.choice([1700000000, 9007200, 4000000000])
            b.stmts.insert(2, gen.Do(gen.Call("time::jump_seconds", gen.INT(epoch))))
            b.meta.insert(2, {"kind": "expr", "npk": 0, "what": "jump", "ns": epoch * 10**9})
        bases.append(b)
    _, res = common.run_programs("c12pre", {b.name: gen.render_program(b.stmts) for b in bases})
    out = []
    for b in bases:
        out.append(b)
        rr = res[b.name]
        if rr.status != "ok":
            continue
        ok, recs = common.pcap_records(rr.pcap)
        t = [x[0] * 10**9 + x[1] for x in recs]
        if len(t) != 3:
            continue
        S = 10**9
        LIM = 2**32 * S
        cand = [("nanos", (-t[1]) % S + S * r.choice([0, 1, 7])), ("nanos", (-t[1] - 1) % S), ("nanos", (-t[1] + 1) % S + S),
                ("nanos", (-t[2]) % S + 3 * S), ("nanos", (-t[1] - 50) % S), ("nanos", (-t[1] - 200) % S)]
        if t[2] < S:
            cand += [("seconds", 4294967295), ("millis", 4294967295999), ("nanos", LIM - 1 - t[2]), ("micros", (LIM - 1 - t[2]) // 1000)]
        for j, (unit, mag) in enumerate(cand):
            mult = {"seconds": 10**9, "millis": 10**6, "micros": 10**3, "nanos": 1}[unit]
            off = len(b.stmts) - 5              # 1 when the base starts with an epoch jump
            pos = (3 if j != 3 else 4) + off    # before the second (third) packet
            v = Case()
            v.name, v.files, v.text = "%sv%d" % (b.name, j), {}, None
            v.stmts = b.stmts[:pos] + [gen.Do(gen.Call("time::jump_" + unit, gen.INT(mag)))] + b.stmts[pos:]
            v.meta = b.meta[:pos] + [{"kind": "expr", "npk": 0, "what": "jump", "ns": mag * mult}] + b.meta[pos:]
            v.gen = {"d": mag * mult, "nbefore": pos - 2 - off, "base": b.name, "directed": True}
            out.append(v)
    ctx.dist["directed_boundary_variants"] = len(out) - len(bases)
    return out


def big_frame_cases(ctx):
    """frames around and above 65512 bytes (wire length 65536 and more) between small ones, each big packet also stored
    and emitted twice: time must still advance strictly from statement to statement, and the two emissions of the same
    packet add the same gap"""
    import os
    from props.c02 import fix_paths
    r = ctx.rng
    out = []
    sizes = [65469, 65470, 65471, 65500, 65507] if ctx.thorough else [65470, r.choice([65469, 65471, 65500, 65507])]
    for i, n in enumerate(sizes):
        fn = "c12big%d.bin" % i
        small = lambda t: gen.Do(gen.Call("ipv4::udp::unicast", gen.SOCK("1.2.3.4:1"), gen.SOCK("1.2.3.5:2"), _x=[gen.STR(t)]))
        big = gen.Call("ipv4::udp::unicast", gen.SOCK("1.2.3.4:1"), gen.SOCK("1.2.3.5:2"), _x=[gen.Call("io::file", gen.STR("@WD@/" + fn))])
        c = Case()
        c.name, c.files, c.text = "big%d" % i, {fn: bytes(r.getrandbits(8) for _ in range(n))}, None
        c.stmts = [gen.Import("ipv4"), gen.Import("io"), small(b"before"), gen.Let("bp", big), gen.Do(gen.Ref("bp")), small(b"between"),
                   gen.Do(gen.Ref("bp")), small(b"after")]
        c.meta = [{"kind": "import", "npk": 0}, {"kind": "import", "npk": 0}, {"kind": "expr", "npk": 1}, {"kind": "let", "npk": 0},
                  {"kind": "expr", "npk": 1}, {"kind": "expr", "npk": 1}, {"kind": "expr", "npk": 1}, {"kind": "expr", "npk": 1}]
        c.gen = {"big": True, "base": None}
        out.append(c)
    fix_paths(out, common.BUILD + "/work/c12-%d" % os.getpid())
    return out


def consecutive_jump_cases(ctx):
    """two to five time jumps in a row (no packet between them) whose sub-second parts add up to several seconds, in all
    four units, between packets: every record still has nsec < 10^9 and the seconds are all there"""
    r = ctx.rng
    out = []
    pk = lambda t: gen.Do(gen.Call("ipv4::udp::unicast", gen.SOCK("1.2.3.4:1"), gen.SOCK("1.2.3.5:2"), _x=[gen.STR(t)]))
    subs = [("millis", 700), ("millis", 800), ("millis", 999), ("micros", 999999), ("nanos", 999999999), ("nanos", 500000000),
            ("micros", 1700000), ("millis", 2900), ("seconds", 1)]
    for i in range(16 if ctx.thorough else 6):
        c = Case()
        c.name, c.files, c.text = "cj%d" % i, {}, None
        c.stmts, c.meta = [gen.Import("ipv4"), gen.Import("time")], [{"kind": "import", "npk": 0}, {"kind": "import", "npk": 0}]
        for blk in range(r.randint(2, 4)):
            c.stmts.append(pk(b"p%d" % blk)); c.meta.append({"kind": "expr", "npk": 1})
            for _ in range(r.randint(2, 5)):
                u, m = r.choice(subs)
                c.stmts.append(gen.Do(gen.Call("time::jump_" + u, gen.INT(m))))
                c.meta.append({"kind": "expr", "npk": 0, "what": "jump"})
        c.stmts.append(pk(b"last")); c.meta.append({"kind": "expr", "npk": 1})
        c.gen = {"directed": False, "base": None, "kind": "consecutive-jumps"}
        out.append(c)
    return out


def run(ctx):
    n = 400 if ctx.thorough else 60
    cases = make_cases(ctx, n) + boundary_cases(ctx, 12 if ctx.thorough else 4) + big_frame_cases(ctx) + consecutive_jump_cases(ctx)
    diff.run_both(ctx, "c12", cases)
    byname = {c.name: c for c in cases}
    for c in cases:
        ctx.count("directed-boundary" if (c.gen or {}).get("directed") or c.name[0] == "b" else "random+jump-variant")
        if (c.gen or {}).get("directed") and c.impl.status != "ok" and c.model["status"] == "ok":
            ctx.fail("jump-rejected", "a jump that keeps the clock below 2^32 s is not compiled: %s %s" % (c.impl.status, c.impl.kind),
                     diff.replay_of(c))
            continue
        if not diff.triage(ctx, c):
            continue
        base = byname.get(c.gen["base"]) if c.gen else None
        if base is not None and base.impl.status != "ok":
            base = None
        before = len(ctx.violations)
        oracle(ctx, c, base)
        if (c.gen or {}).get("big") and len(ctx.violations) == before:
            okb, rb = common.pcap_records(c.impl.pcap)
            tb = [x[0] * 10**9 + x[1] for x in rb]
            if len(tb) == 5 and (tb[1] - tb[0]) != (tb[3] - tb[2]):
                ctx.fail("gap-not-local", "the same stored %d-byte packet adds %d ns the first time and %d ns the second"
                         % (len(rb[1][4]), tb[1] - tb[0], tb[3] - tb[2]), diff.replay_of(c))
        oki, ti = times(c.impl.pcap)
        okm, tm = times(c.model["pcap"])
        if ti != tm and len(ctx.violations) == before:
            ctx.fail("timestamps-differ", "timestamp projection differs from the model", diff.replay_of(c),
                     disagreement=True)
        if len(ti) >= 2:
            ctx.distinct(c.text)
    diff.vacuity_guard(ctx, len(cases))
    ctx.dist.update({"statements_per_program": "0..14 steps + objects",
                "jump_units": ["seconds", "millis", "micros", "nanos"]})
    for c in cases[:2]:
        ctx.sample({"program": c.text, "impl_times": times(c.impl.pcap)[1][:6] if c.impl.pcap else None})


def replay(ctx, rp):
    c = Case()
    c.name, c.text, c.files, c.meta, c.gen, c.stmts = "replay", rp["program"], {}, [], None, []
    d, res = common.run_programs("c12r", {"replay": c.text})
    c.impl = res["replay"]
    c.model = {"status": "ok", "kind": None, "pcap": None}
    if c.impl.status != "ok":
        return ctx.fail("replay-not-ok", "impl outcome %s %s" % (c.impl.status, c.impl.kind), {"program": c.text})
    base = None
    if rp.get("base_program"):
        base = Case()
        base.text = rp["base_program"]
        d2, r2 = common.run_programs("c12rb", {"base": base.text})
        base.impl = r2["base"]
        c.gen = {"d": 0, "nbefore": 0}
        log = None
    oracle(ctx, c, None)
    ctx.count("replay")
