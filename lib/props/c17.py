"""C17 -- literals denote exactly what is written, or are rejected."""
import itertools, re, struct
import common, diff, gen, litlib
from diff import Case
from gen import *

THEOREMS = ["C17_dec_exact", "C17_dec_only", "C17_dec_rejects_minus", "C17_hex_exact", "C17_hex_only",
            "C17_int_token_exact", "C17_hex_token_exact", "C17_quad_exact", "C17_octet_rejects_padded",
            "C17_octet_rejects_big", "C17_bool_exact", "C17_ip_token_exact", "C17_sock_colon_exact",
            "C17_sock_literal_exact", "C17_sock_literal_rejects", "C17_sock_slash_exact",
            "C17_hex_section_rejects", "C17_str_token_rejects", "C17_str_token_total"]
MODELS = ("lit", "run")
RULE = ("integers: boundary values 0, 2^8, 2^16-1, 2^16, 2^32-1, 2^32, 2^63, 2^64-1, 2^64, 2^64+1, 10^30 and random "
        "ones, in decimal with 0..25 leading zeros and in 0x hexadecimal with 1..20 digits in lower, upper and mixed case, "
        "negative spellings; dotted quads: EVERY combination of the octet spellings {0 00 1 01 9 10 099 100 199 200 249 "
        "250 255 256 260 300 999} in the four positions (83521) plus malformed shapes; ports 0, 1, 80 with leading "
        "zeros, 65535, 65536, 65537, 2^32, 2^64 and random ones in both socket spellings a:p and a/p; true/false; "
        "string literals with a closed section holding an odd digit count or a non-hex character.  Each spelling goes "
        "(1) through the std parsers the code calls, (2) as a real token through Val::from_token, (3) as the statement "
        "`let x = <literal>;` through the real lexer and parser, (4) inside a program through the binary, the value "
        "read back from the emitted packet (std::be64(n) in a UDP payload, addresses and ports in the IP/UDP headers). "
        "Non-trivial = an accepted literal whose value was read back; distinct by spelling")
NOTES = ["oracle: \"denotes exactly the written value, or is rejected with a diagnostic\", the value computed from the "
         "spelling by python big integers (int(digits), octets <= 255 without zero padding, port <= 65535) -- never by "
         "the model; a crash is not a diagnostic",
         "correspondence: u64::from_str / from_str_radix / Ipv4Addr::from_str / bool::from_str vs the hand-written "
         "models, Val::from_token vs val_of_token, real lexer+parser vs Scanner+Automaton on whole statements, "
         "whole pcap files vs the interpreter model",
         "u64::from_str accepts one leading '+'; no token can start with '+', so this is visible only at the std level "
         "(theorems C17_dec_only / C17_hex_only keep it explicit)",
         "a:p takes only a decimal port (a hexadecimal one is a parse error); a/p takes any integral value, so "
         "1.2.3.4/0x50 and 1.2.3.4/true denote ports 80 and 1"]
MODELLED = ("src/val.rs Val::from_token and integer conversions, src/parse.rs state_ipv4_colon / reduce_sockaddr, "
            "src/program.rs Expr::Slash, src/str.rs: Lex/Literals.v, Parse/Automaton.v, Interp/Eval.v; the std parsers "
            "u64::from_str, u64::from_str_radix, Ipv4Addr::from_str, bool::from_str are modelled by hand")

OCTETS = ["0", "00", "1", "01", "9", "10", "099", "100", "199", "200", "249", "250", "255", "256", "260", "300", "999"]
BOUNDARY = [0, 1, 9, 10, 255, 256, 2 ** 16 - 1, 2 ** 16, 2 ** 16 + 1, 2 ** 31, 2 ** 32 - 1, 2 ** 32, 2 ** 32 + 1, 2 ** 63,
            2 ** 64 - 1, 2 ** 64, 2 ** 64 + 1, 2 ** 64 + 2 ** 16, 2 ** 65, 10 ** 19, 10 ** 20 - 1, 10 ** 30, 2 ** 128]
PORTS = [0, 1, 80, 443, 32768, 65534, 65535, 65536, 65537, 65536 + 80, 2 ** 17, 2 ** 32, 2 ** 32 + 53, 2 ** 64 - 1, 2 ** 64,
         2 ** 64 + 80]


def mixcase(rng, s):
    return "".join(c.upper() if rng.random() < 0.5 else c.lower() for c in s)


def int_spellings(rng, n_random):
    """[(text, kind)] kind = INT | HEX"""
    out = []
    vals = list(BOUNDARY) + [rng.getrandbits(rng.choice([8, 16, 32, 48, 63, 64, 65, 70, 100])) for _ in range(n_random)]
    for v in vals:
        d = str(v)
        out.append((d, "INT"))
        out.append(("0" * rng.choice([1, 2, 5, 25]) + d, "INT"))
        out.append(("-" + d, "INT"))
        h = "%x" % v
        out.append(("0x" + h, "HEX"))
        out.append(("0x" + h.upper(), "HEX"))
        out.append(("0x" + mixcase(rng, h), "HEX"))
        out.append(("0x" + "0" * rng.choice([1, 3, 9]) + mixcase(rng, h), "HEX"))
    for nd in range(1, 21):
        out.append(("0x" + "f" * nd, "HEX"))
        out.append(("0x" + "F" * nd, "HEX"))
        out.append(("0x1" + "0" * (nd - 1), "HEX"))
        out.append(("0x" + "".join(rng.choice("0123456789abcdefABCDEF") for _ in range(nd)), "HEX"))
    return out


def expect_int(text, kind):
    v = litlib.ref_dec(text) if kind == "INT" else litlib.ref_hex(text)
    return v


def let_line(lit):
    return "let x = %s;" % lit


def hexline(s):
    return litlib.hx(s.encode("utf-8"))


# ---------------------------------------------------------------- (1) the std parsers

def check_std(ctx):
    r = ctx.rng
    cases = []          # (kind, text)
    L = 6 if ctx.thorough else 5
    for n in range(0, L + 1):
        for t in itertools.product("019+-a ", repeat=n):
            cases.append(("dec", "".join(t)))
        for t in itertools.product("09afFg+x", repeat=n):
            cases.append(("hex", "".join(t)))
    for v in BOUNDARY + [r.getrandbits(r.choice([16, 64, 65, 80])) for _ in range(300)]:
        for pre in ("", "+", "-", "00", "+000", " "):
            cases.append(("dec", pre + str(v)))
            cases.append(("hex", pre + mixcase(r, "%x" % v)))
        cases.append(("dec", str(v) + " "))
        cases.append(("hex", "0x%x" % v))
    for q in itertools.product(["0", "00", "1", "01", "10", "099", "255", "256", "1000", "", "+1", "1 ", "a"], repeat=4):
        cases.append(("ip4", ".".join(q)))
    for t in ["1.2.3", "1.2.3.4.5", "1.2.3.4.", ".1.2.3.4", "1..2.3", "", ".", "...", "1.2.3.4 ", " 1.2.3.4", "0x1.2.3.4", "1.2.3.-4",
              "255.255.255.255", "0.0.0.0", "1.2.3.4/5", "١.2.3.4", "1.2.3.４"]:
        cases.append(("ip4", t))
    for t in ["true", "false", "True", "FALSE", "", "t", "1", "0", "true ", " false", "truefalse", "yes"]:
        cases.append(("bool", t))
    lines = ["%s %s" % (k, hexline(t)) for k, t in cases]
    I = litlib.impl("std", lines, "c17std")
    M = litlib.model("std", lines, "c17std")
    for (k, t), i, m in zip(cases, I, M):
        ctx.count("std parsers on short strings (exhaustive) and boundary spellings")
        # the written value, if the text is a digit string (optionally signed with '+') of that radix
        want = None
        if k == "dec" and re.fullmatch(r"\+?[0-9]+", t):
            want = int(t, 10)
        elif k == "hex" and re.fullmatch(r"\+?[0-9a-fA-F]+", t):
            want = int(t, 16)
        elif k == "ip4":
            want = litlib.ref_quad(t)
        elif k == "bool":
            want = {"true": 1, "false": 0}.get(t)
        if want is not None and k in ("dec", "hex") and want >= 2 ** 64:
            want = None
        exp = "ERR" if want is None else "OK %d" % want
        rp = {"parser": k, "text": t, "impl": i, "expected": exp,
              "how": "echo '%s <hex of text>' | .build/htarget/debug/lith std -" % k}
        if i != exp:
            ctx.fail("std-parser-value", "%s(%r) = %s, the text denotes %s" % (k, t, i, exp), rp)
        elif i != m:
            ctx.fail("std-model-differs", "%s(%r): implementation %s, model %s" % (k, t, i, m), rp, disagreement=True)
        if want is not None:
            ctx.distinct((k, t))


# ---------------------------------------------------------------- (2) tokens, (3) statements

def check_tokens_and_statements(ctx):
    r = ctx.rng
    ints = int_spellings(r, 5000 if ctx.thorough else 1000)
    # --- tokens
    tok_lines, tok_meta = [], []
    for text, kind in ints:
        tok_lines.append("%s %s" % (kind, hexline(text)))
        v = expect_int(text, kind)
        tok_meta.append((kind, text, "ERR parse" if v is None else "OK u64:%d" % v))
    quads = [".".join(q) for q in itertools.product(OCTETS, repeat=4)]
    if not ctx.thorough:
        quads = [q for q in quads if r.random() < 0.5] + [".".join(["1"] * i + [o] + ["1"] * (3 - i)) for o in OCTETS for i in range(4)]
    for q in quads:
        tok_lines.append("IP4 " + hexline(q))
        v = litlib.ref_quad(q)
        tok_meta.append(("IP4", q, "ERR parse" if v is None else "OK ip4:%d" % v))
    for b in ("true", "false"):
        tok_lines.append("BOOL " + hexline(b))
        tok_meta.append(("BOOL", b, "OK bool:%d" % (1 if b == "true" else 0)))
    I = litlib.impl("tok", tok_lines, "c17tok")
    M = litlib.model("tok", tok_lines, "c17tok")
    nbad = 0
    for (kind, text, exp), i, m in zip(tok_meta, I, M):
        ctx.count("literal tokens through the real lexer and Val::from_token")
        rp = {"token_kind": kind, "token_text": text, "impl": i, "expected": exp,
              "how": "echo '%s <hex of token_text>' | .build/htarget/debug/lith tok -" % kind}
        if i.startswith("BADCASE"):
            nbad += 1            # the lexer does not make one token of this kind out of the text (e.g. 256.1.1.1)
            continue
        if i != exp:
            cls = ("literal-wrong-value" if exp.startswith("OK") else "literal-accepted") if i.startswith("OK") else \
                  "literal-rejected" if exp.startswith("OK") else "literal-wrong-diagnostic"
            ctx.fail(cls, "the %s token %s gives %s, it denotes %s" % (kind, text, i, exp), rp)
        elif i != m:
            ctx.fail("token-model-differs", "%s %s: implementation %s, model %s" % (kind, text, i, m), rp, disagreement=True)
        if exp.startswith("OK"):
            ctx.distinct((kind, text))
    ctx.dist["token_texts_the_lexer_splits_differently"] = nbad

    # --- statements `let x = <literal>;`
    st = []         # (literal text, expected line or None for "any diagnostic")
    for text, kind in ints:
        v = expect_int(text, kind)
        st.append((text, "ERR parse" if v is None else "OK 1 let@1:5(x,lit@1:9(u64:%d))" % v))
    for q in [".".join(t) for t in itertools.product(OCTETS, repeat=4)]:
        v = litlib.ref_quad(q)
        st.append((q, None if v is None else "OK 1 let@1:5(x,lit@1:9(ip4:%d))" % v))
    for q in ["1.2.3", "1.2.3.4.5", "1.2.3.4.", "1..2.3", "1.2.3.-4", "1.2.3.0x4", "1.2.3.4e"]:
        st.append((q, None))
    addrs = ["1.2.3.4", "255.255.255.255", "0.0.0.0", "10.0.0.1", "01.2.3.4", "1.2.3.256", "1.2.3.04"]
    ports = PORTS + [r.randint(0, 65535) for _ in range(40)] + [r.randint(65536, 2 ** 20) for _ in range(40)] + \
        [r.getrandbits(r.choice([32, 63, 64, 65])) for _ in range(20)]
    for a in addrs:
        av = litlib.ref_quad(a)
        for p in ports:
            for ptxt in (str(p), "0" * r.choice([1, 3]) + str(p)):
                ok = av is not None and p <= 65535
                st.append(("%s:%s" % (a, ptxt), ("OK 1 let@1:5(x,lit@1:9(sock4:%d:%d))" % (av, p)) if ok else (None if av is None else "ERR parse")))
                if av is None:
                    st.append(("%s/%s" % (a, ptxt), None))
                elif p < 2 ** 64:
                    col = 9 + len(a) + 1
                    st.append(("%s/%s" % (a, ptxt), "OK 1 let@1:5(x,slash(lit@1:9(ip4:%d),lit@1:%d(u64:%d)))" % (av, col, p)))
                else:
                    st.append(("%s/%s" % (a, ptxt), "ERR parse"))
        st.append(("%s:0x50" % a, None if av is None else "ERR parse"))
        st.append(("%s:-1" % a, None if av is None else "ERR parse"))
        st.append(("%s:true" % a, None if av is None else "ERR parse"))
        st.append(("%s:" % a, None if av is None else "ERR parse"))
    for b, v in (("true", 1), ("false", 0)):
        st.append((b, "OK 1 let@1:5(x,lit@1:9(bool:%d))" % v))
    # string literals: well-formed ones and ones with a bad closed section
    lists = []
    for i in range(15000 if ctx.thorough else 3000):
        if i % 3 == 0:
            lists.append(litlib.rand_segs(r, quotable=True))
        else:
            lists.append(litlib.rand_segs(r, quotable=True, maxsegs=2) + [litlib.rand_bad(r, quotable=True)])
    spec = litlib.spec_batch(lists, "c17s")
    ctx.obligation("every generated literal structure is well formed for Spec.Literal", all(s[0] for s in spec))
    for s in spec:
        body = s[1].decode("utf-8")
        if s[2] == "REJECT":
            tail = litlib.py_spell(litlib.rand_segs(r, quotable=True, maxsegs=2)) if r.random() < 0.5 else ""
            st.append(('"%s%s"' % (body, tail), "ERR parse"))
        else:
            st.append(('"%s"' % body, "OK 1 let@1:5(x,lit@1:9(str:%s))" % litlib.hx(s[2])))
    lines = [hexline(let_line(t)) for t, _ in st]
    I = litlib.impl("prog", lines, "c17prog")
    M = litlib.model("prog", lines, "c17prog")
    noloc = lambda x: re.sub(r"@\d+:\d+", "", x)          # source positions are C10's / C09's business
    for (t, exp), i, m in zip(st, I, M):
        exp, i, m = (noloc(exp) if exp else exp), noloc(i), noloc(m)
        ctx.count("statements `let x = <literal>;` through the real lexer and parser")
        rp = {"statement": let_line(t), "impl": i, "expected": exp or "a diagnostic (ERR lex | ERR parse)",
              "how": "echo <hex of statement> | .build/htarget/debug/lith prog -"}
        before = len(ctx.violations)
        if i.startswith("PANIC"):
            ctx.fail("literal-crash", "the parser panicked on %s" % let_line(t), rp)
        elif exp is None:
            if not i.startswith("ERR"):
                ctx.fail("literal-accepted", "%s has no value but is accepted: %s" % (ascii(t)[:200], i[:200]), rp)
        elif i != exp:
            cls = "literal-wrong-value" if i.startswith("OK") and exp.startswith("OK") else \
                  "literal-accepted" if i.startswith("OK") else "literal-rejected"
            ctx.fail(cls, "%s: the parser gives %s, the literal denotes %s" % (ascii(let_line(t))[:200], i[:200], exp[:200]), rp)
        if i != m and len(ctx.violations) == before:
            ctx.fail("statement-model-differs", "%s: implementation %s, model %s" % (ascii(let_line(t))[:200], i[:200], m[:200]), rp,
                     disagreement=True)
        if exp and exp.startswith("OK"):
            ctx.distinct(t)
    ctx.dist["statements"] = {"total": len(st), "dotted_quads": len(OCTETS) ** 4,
                              "octet_spellings": OCTETS, "ports": [str(p) for p in PORTS]}


# ---------------------------------------------------------------- (4) whole programs through the binary

def prog_case(name, stmts, **g):
    c = Case()
    c.name, c.files, c.text, c.meta = name, {}, None, []
    c.stmts = stmts
    c.gen = g
    return c


def udp_fields(pcap, rec=0):
    ok, recs = common.pcap_records(pcap)
    if not ok or len(recs) <= rec:
        return None
    f = recs[rec][4]
    raw = diff.frame_is_raw(f)
    l3 = f if raw else f[14:]
    if len(l3) < 28 or l3[0] != 0x45 or l3[9] != 17:
        return None
    src, dst = struct.unpack(">II", l3[12:20])
    sp, dp = struct.unpack(">HH", l3[20:24])
    return {"src": src, "dst": dst, "sport": sp, "dport": dp, "payload": l3[28:], "raw": raw}


def check_programs(ctx):
    r = ctx.rng
    good, bad = [], []          # good: Case (tree for the model); bad: (name, text, allowed error kinds, what)
    k = 0
    pre = [Import("ipv4"), Import("std")]
    # integers read back through std::be64 in a UDP payload
    for text, kind in int_spellings(r, 300 if ctx.thorough else 60):
        v = expect_int(text, kind)
        k += 1
        if v is not None:
            lit = gen.Lit("int", v, text)
            c = prog_case("n%d" % k, pre + [Do(Call("ipv4::udp::unicast", SOCK("1.2.3.4:1"), SOCK("1.2.3.5:2"), Call("std::be64", lit)))],
                          kind="integer read back from a payload", want={"payload": v.to_bytes(8, "big")}, what=text)
            good.append(c)
        else:
            bad.append(("n%d" % k, "import ipv4;\nimport std;\nipv4::udp::unicast(1.2.3.4:1, 1.2.3.5:2, std::be64(%s));\n" % text,
                        ("parse",), "integer literal %s" % text))
    # addresses: every octet spelling in every position
    quads = [".".join(["7"] * i + [o] + ["7"] * (3 - i)) for o in OCTETS for i in range(4)]
    quads += [".".join(r.choice(OCTETS) for _ in range(4)) for _ in range(1000 if ctx.thorough else 200)]
    for q in quads:
        v = litlib.ref_quad(q)
        k += 1
        if v is not None:
            c = prog_case("q%d" % k, pre + [Do(Call("ipv4::udp::unicast", Slash(gen.Lit("ip", v, q), 7), SOCK("1.2.3.5:2"), STR(b"x", '"x"')))],
                          kind="address read back from the IP header", want={"src": v, "sport": 7}, what=q)
            good.append(c)
        else:
            bad.append(("q%d" % k, "import ipv4;\nipv4::udp::unicast(%s/7, 1.2.3.5:2, \"x\");\n" % q, ("parse", "lex"),
                        "dotted quad %s" % q))
    # ports, both spellings, also let-bound and hexadecimal
    ports = PORTS + [r.randint(0, 65535) for _ in range(150 if ctx.thorough else 30)] + \
        [r.randint(65536, 2 ** 24) for _ in range(150 if ctx.thorough else 30)] + [65536 * j + 53 for j in (1, 2, 255, 65535)]
    for p in ports:
        for ptxt in (str(p), "00" + str(p)):
            a = r.choice(["10.1.2.3", "192.168.0.1", "1.2.3.4"])
            av = litlib.ref_quad(a)
            k += 1
            # a:p as the source, b/p as the destination
            if p <= 65535:
                src = gen.Lit("sock", (av, p), "%s:%s" % (a, ptxt))
                dst = Slash(IP("1.2.3.5"), gen.Lit("int", p, ptxt))
                good.append(prog_case("s%d" % k, pre + [Do(Call("ipv4::udp::unicast", src, dst, STR(b"x", '"x"')))],
                                      kind="port read back from the UDP header", what="%s:%s and 1.2.3.5/%s" % (a, ptxt, ptxt),
                                      want={"src": av, "sport": p, "dst": ip("1.2.3.5"), "dport": p}))
                good.append(prog_case("t%d" % k, pre + [Let("pt", gen.Lit("int", p, ptxt)),
                                                        Do(Call("ipv4::udp::unicast", SOCK("1.2.3.4:9"), Slash(IP("1.2.3.5"), Ref("pt")), STR(b"x", '"x"')))],
                                      kind="port read back from the UDP header", what="let pt = %s; 1.2.3.5/pt" % ptxt,
                                      want={"dport": p}))
                good.append(prog_case("h%d" % k, pre + [Do(Call("ipv4::udp::unicast", SOCK("1.2.3.4:9"), Slash(IP("1.2.3.5"), gen.Lit("hexint", p, "0x%X" % p)), STR(b"x", '"x"')))],
                                      kind="port read back from the UDP header", what="1.2.3.5/0x%X" % p, want={"dport": p}))
            else:
                perr = ("parse",)
                serr = ("type",) if p < 2 ** 64 else ("parse",)
                bad.append(("s%d" % k, "import ipv4;\nipv4::udp::unicast(%s:%s, 1.2.3.5:2, \"x\");\n" % (a, ptxt), perr,
                            "socket literal %s:%s" % (a, ptxt)))
                bad.append(("t%d" % k, "import ipv4;\nipv4::udp::unicast(1.2.3.4:9, %s/%s, \"x\");\n" % (a, ptxt), serr,
                            "socket expression %s/%s" % (a, ptxt)))
                bad.append(("u%d" % k, "import ipv4;\nlet pt = %s;\nipv4::udp::unicast(1.2.3.4:9, %s/pt, \"x\");\n" % (ptxt, a), serr,
                            "let pt = %s; %s/pt" % (ptxt, a)))
                if p < 2 ** 64:
                    bad.append(("h%d" % k, "import ipv4;\nipv4::udp::unicast(1.2.3.4:9, %s/0x%x, \"x\");\n" % (a, p), ("type",),
                                "socket expression %s/0x%x" % (a, p)))
    # booleans: as the raw flag, and as an integral port
    for b in (True, False):
        good.append(prog_case("b%d" % b, pre + [Do(Call("ipv4::udp::unicast", SOCK("1.2.3.4:9"), SOCK("1.2.3.5:2"), _x=[STR(b"x", '"x"')], raw=BOOL(b)))],
                              kind="boolean read back from the framing", what="raw: %s" % ("true" if b else "false"),
                              want={"raw": b}))
        good.append(prog_case("c%d" % b, pre + [Do(Call("ipv4::udp::unicast", SOCK("1.2.3.4:9"), Slash(IP("1.2.3.5"), BOOL(b)), STR(b"x", '"x"')))],
                              kind="port read back from the UDP header", what="1.2.3.5/%s" % ("true" if b else "false"),
                              want={"dport": 1 if b else 0}))
    # string literals with a bad closed section
    lists = [litlib.rand_segs(r, quotable=True, maxsegs=2) + [litlib.rand_bad(r, quotable=True)] for _ in range(60 if ctx.thorough else 20)]
    for s in litlib.spec_batch(lists, "c17p"):
        k += 1
        bad.append(("x%d" % k, "import ipv4;\nipv4::udp::unicast(1.2.3.4:9, 1.2.3.5:2, \"%s\");\n" % s[1].decode("utf-8"), ("parse",),
                    "string literal with a bad hex section"))
        # the same literal written as adjacent pieces on several lines (blank, whitespace-only and comment lines between
        # them): it is still one literal with a bad section
        sp = litlib.quote_split(r, s[1].decode("utf-8"), 1.0)
        bad.append(("y%d" % k, "import ipv4;\nipv4::udp::unicast(1.2.3.4:9, 1.2.3.5:2,\n%s\n);\n" % sp, ("parse",),
                    "string literal with a bad hex section, written in pieces: %s" % sp))
    # well-formed string literals written in pieces over several lines denote the bytes of the joined literal
    glists = [litlib.rand_segs(r, quotable=True, maxsegs=3) for _ in range(60 if ctx.thorough else 20)]
    for s in litlib.spec_batch(glists, "c17g"):
        if not s[0] or s[2] == "REJECT" or not s[1]:
            continue
        k += 1
        sp = litlib.quote_split(r, s[1].decode("utf-8"), 1.0)
        good.append(prog_case("g%d" % k, pre + [Do(Call("ipv4::udp::unicast", SOCK("1.2.3.4:9"), SOCK("1.2.3.5:2"), STR(s[2], sp)))],
                              kind="string literal in pieces read back from a payload", what=sp, want={"payload": s[2]}))
    diff.run_both(ctx, "c17", good)
    for c in good:
        ctx.count(c.gen["kind"])
        what, want = c.gen["what"], c.gen["want"]
        rp = diff.replay_of(c, {"literal": what, "expected_fields": {k2: (v.hex() if isinstance(v, bytes) else v) for k2, v in want.items()}})
        if c.impl.status in ("crash", "timeout"):
            ctx.fail("literal-crash", "the binary crashed on %s (%s)" % (what, c.impl.kind), rp)
            continue
        if c.impl.status != "ok":
            ctx.fail("literal-rejected", "%s denotes a value but the program is rejected (%s)" % (what, c.impl.kind), rp)
            continue
        f = udp_fields(c.impl.pcap)
        if f is None:
            ctx.fail("literal-wrong-value", "%s: no UDP datagram emitted" % what, rp)
            continue
        wrong = {k2: (f[k2], v) for k2, v in want.items() if f[k2] != v}
        if wrong:
            k2, (got, v) = sorted(wrong.items())[0]
            ctx.fail("literal-wrong-value", "%s: %s in the emitted packet is %s, written %s"
                     % (what, k2, got.hex() if isinstance(got, bytes) else got, v.hex() if isinstance(v, bytes) else v), rp)
            continue
        ctx.distinct(what)
        ic, mc = diff.outcome_class(c)
        if ic != mc or c.impl.pcap != c.model["pcap"]:
            ctx.fail("pcap-differs", "%s: outcome/pcap differ from the model's (%s / %s)" % (what, ic, mc), rp, disagreement=True)
    d, res = common.run_programs("c17bad", {n: t for n, t, _, _ in bad})
    for n, t, kinds, what in bad:
        ctx.count("programs holding a literal without a value: diagnostic class")
        x = res[n]
        rp = {"program": t, "literal": what, "impl": {"status": x.status, "kind": x.kind, "loc": x.loc},
              "expected": "rejected with " + " or ".join("%s error" % kk for kk in kinds),
              "how": "write 'program' to a .rsyn file and run /verif/.build/target/debug/resynth on it"}
        if x.status in ("crash", "timeout"):
            ctx.fail("literal-crash", "the binary crashed on %s (%s)" % (what, x.kind), rp)
        elif x.status == "ok":
            f = udp_fields(x.pcap)
            ctx.fail("literal-accepted", "%s has no value but the program runs; emitted %s" % (what, {kk: vv for kk, vv in (f or {}).items() if kk != "payload"}), rp)
        elif x.kind not in kinds:
            ctx.fail("literal-wrong-diagnostic", "%s is rejected as %s, expected %s" % (what, x.kind, "/".join(kinds)), rp,
                     disagreement=True)
    ctx.dist["programs"] = {"accepted_literals": len(good), "rejected_literals": len(bad)}
    if good:
        ctx.sample({"program": good[0].text, "literal": good[0].gen["what"]})
        ctx.sample({"program": good[len(good) // 2].text, "literal": good[len(good) // 2].gen["what"]})
    if bad:
        ctx.sample({"program": bad[-1][1][:600], "expected": bad[-1][2]})
        ctx.sample({"program": bad[len(bad) // 2][1], "expected": bad[len(bad) // 2][2]})


def run(ctx):
    check_std(ctx)
    check_tokens_and_statements(ctx)
    check_programs(ctx)
    ctx.exhaustive = True


def replay(ctx, rp):
    ctx.count("replay")
    if rp.get("program"):
        d, res = common.run_programs("c17r", {"replay": rp["program"]})
        x = res["replay"]
        if x.status in ("crash", "timeout"):
            return ctx.fail("literal-crash", "the binary crashed (%s)" % x.kind, rp)
        if rp.get("expected_fields"):
            if x.status != "ok":
                return ctx.fail("literal-rejected", "program rejected (%s)" % x.kind, rp)
            f = udp_fields(x.pcap) or {}
            for k, v in rp["expected_fields"].items():
                got = f.get(k)
                got = got.hex() if isinstance(got, bytes) else got
                if got != v:
                    return ctx.fail("literal-wrong-value", "%s in the emitted packet is %s, written %s" % (k, got, v), rp)
        elif x.status == "ok":
            return ctx.fail("literal-accepted", "a literal without a value is accepted", rp)
        return
    if rp.get("statement"):
        i = litlib.impl("prog", [hexline(rp["statement"])], "c17r")[0]
        exp = rp.get("expected", "")
        if i.startswith("PANIC") or (exp.startswith(("OK", "ERR")) and i != exp) or (not exp.startswith(("OK", "ERR")) and not i.startswith("ERR")):
            ctx.fail("literal-wrong-value", "%s gives %s, expected %s" % (rp["statement"][:200], i[:200], exp[:200]), rp)
        return
    if rp.get("token_kind"):
        i = litlib.impl("tok", ["%s %s" % (rp["token_kind"], hexline(rp["token_text"]))], "c17r")[0]
        if i != rp["expected"]:
            ctx.fail("literal-wrong-value", "token %s gives %s, expected %s" % (rp["token_text"], i, rp["expected"]), rp)
        return
    if rp.get("parser"):
        i = litlib.impl("std", ["%s %s" % (rp["parser"], hexline(rp["text"]))], "c17r")[0]
        if i != rp["expected"]:
            ctx.fail("std-parser-value", "%s(%r) = %s, expected %s" % (rp["parser"], rp["text"], i, rp["expected"]), rp)
