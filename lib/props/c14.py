"""C14 -- language semantics: single assignment, explicit imports, ordered evaluation, deferred emission,
inlining of let-bound plain values."""
import copy, random
import common, diff, gen, progs
from diff import Case
from gen import *

THEOREMS = ["C14_rebind_rejected", "C14_assign_ok", "C14_assign_fail_binds_nothing", "C14_regs_nodup",
            "C14_binding_permanent",
            "C14_unbound_is_name_error", "C14_unimported_is_name_error", "C14_import_unknown", "C14_import_again",
            "C14_bound_only_by_let", "C14_visible_only_by_import", "C14_use_before_let", "C14_use_before_import",
            "C14_double_import_harmless",
            "C14_stmts_in_order", "C14_call_in_order", "C14_args_left_to_right", "C14_call_exactly_once", "C14_call_at_most_once",
            "C14_arg_failure_stops", "C14_eval_frame",
            "C14_stored_ref_emits", "C14_stored_refs_no_recompute", "C14_stored_refs_output", "C14_let_then_emit",
            "C14_inline_expr", "C14_inline_plain_let", "C14_inline_and_drop",
            "C14_unused_let_irrelevant", "C14_loc_irrelevant",
            "C14_run_rebind", "C14_run_inline", "C14_run_inline_drop", "C14_run_unused_let", "C14_run_double_import"]
RULE = ("metamorphic families over random programs, every program run through the real binary (whole pipeline from "
        "source text) and through the model's whole pipeline: (prefix) every statement prefix of a random program; "
        "(rebind) a second `let` of an already bound name at every statement position, right-hand side a literal, a "
        "stateful call, an emission-capable call or an expression that would fail differently if evaluated; (dup-let) "
        "a copy of a let placed right before it; (use-before) a reference / member call / call / argument use of a "
        "name bound only later or never, at every kind of position; (import) removed, postponed, unknown and repeated "
        "imports; (unused-let) a let of a plain literal to a fresh name at a random position; (nest) programs whose "
        "statements nest calls on shared TCP/UDP/ICMP/fragment/tunnel objects inside argument lists and lets, with "
        "the explicitly sequenced variant (every nested call hoisted to its own let in left-to-right post-order) and "
        "the right-to-left control; (perm) stored packet values emitted in random permutations with repetitions, "
        "followed by probe calls on every object; (inline) let-bound plain values (numbers, booleans, addresses, "
        "sockets, strings) outlined from random programs and inlined again at every single use, at all uses, and "
        "with the let dropped.  Non-trivial = the case exercises the relation on a program that emits >= 1 record "
        "or ends in the prescribed diagnostic; distinct by program text")
NOTES = ["oracle = the property's relation evaluated on the implementation's outputs alone: prescribed diagnostic kind "
         "and line for rebind/use-before/import variants with the partial pcap (-k) equal to the output of the "
         "statements before the offending one; byte-identical pcap for repeated import, unused let, sequenced and "
         "inlined variants; for permutations the records must be the concatenation of the single-emission frames with "
         "timestamps equal to the running sum of the single-emission gaps, and the probes after them must equal the "
         "probes of the program without any emission",
         "correspondence: outcome class, diagnostic kind, reported line:column, pcap bytes and partial pcap bytes are "
         "compared with the model on every case; the model's library-call trace of the nested program must equal "
         "the trace of its sequenced variant",
         "the theorems hold for every value, the check inlines only values that have a literal syntax (plain values)",
         "Expr::Nil is never produced by the parser; the theorems cover it anyway (state equality up to the current "
         "location where it matters)"]
MODELLED = ("src/program.rs (Program::add_stmt/add_assign/add_import/add_expr/eval/eval_args/eval_callable) is modelled "
            "statement by statement in Interp/Eval.v; theorems are about that model for every library, tied to the binary "
            "by whole-pipeline differential runs (source bytes in, pcap/diagnostic out) on every generated variant")

NHEAD = 10          # ProgGen programs start with ten imports


# ---------------------------------------------------------------- syntax helpers

LAYOUTS = ["lines", "one", "groups", "split"]


def split_points(t):
    """offsets of the blank after a comma or an `=` outside string literals"""
    out, q = [], False
    for k, ch in enumerate(t):
        if ch == '"':
            q = not q
        elif not q and ch == " " and k > 0 and t[k - 1] in ",=":
            out.append(k)
    return out


def render(stmts, rng, layout="lines"):
    """-> (text, spans): spans[i] = [first line, last line] (1-based) of statement i.
    layout: 'lines' one statement per line; 'one' everything on one line; 'groups' 2..5 statements per line;
    'split' statements broken across lines, the next statement starting on the line where the previous ends"""
    texts = [gen.render_program([s], rng).rstrip("\n") for s in stmts]
    seps = []
    if layout == "groups":
        left = 0
    for k, t in enumerate(texts):
        if layout == "lines":
            seps.append("\n")
        elif layout == "one":
            seps.append(" ")
        elif layout == "groups":
            if left == 0:
                left = rng.randint(2, 5)
            left -= 1
            seps.append("\n" if left == 0 else " ")
        else:
            pts = split_points(t) if "\n" not in t else []
            if pts and rng.random() < 0.8:
                for c in sorted(rng.sample(pts, min(len(pts), rng.choice([1, 1, 2]))), reverse=True):
                    t = t[:c] + "\n  " + t[c + 1:]
                texts[k] = t
                seps.append(" ")
            else:
                seps.append(rng.choice([" ", " ", "\n"]))
    out, spans, ln = [], [], 1
    for t, sep in zip(texts, seps):
        a = ln
        ln += t.count("\n")
        spans.append([a, ln])
        ln += sep.count("\n")
        out.append(t + sep)
    text = "".join(out)
    if not text.endswith("\n"):
        text = text.rstrip(" ") + "\n"
    return text, spans


def map_expr(e, f):
    """rebuild e bottom-up; f(node) is called on every rebuilt node and returns its replacement"""
    if isinstance(e, Call):
        n = copy.copy(e)
        n.args = [(k, map_expr(a, f)) for k, a in e.args]
        return f(n)
    if isinstance(e, Slash):
        n = copy.copy(e)
        n.a, n.b = map_expr(e.a, f), map_expr(e.b, f)
        return f(n)
    return f(e)


def stmt_expr(s):
    return s[2] if s[0] == "let" else s[1] if s[0] == "expr" else None


def with_expr(s, e):
    return ("let", s[1], e) if s[0] == "let" else ("expr", e)


def walk(e, out):
    out.append(e)
    if isinstance(e, Call):
        for _, a in e.args:
            walk(a, out)
    elif isinstance(e, Slash):
        walk(e.a, out)
        walk(e.b, out)
    return out


def local_heads(s):
    """names a statement looks up in the register file"""
    e = stmt_expr(s)
    if e is None:
        return set()
    return {n.comps[0] for n in walk(e, []) if isinstance(n, (Ref, Call)) and not n.mods}


def modules_used(s):
    e = stmt_expr(s)
    if e is None:
        return set()
    return {n.mods[0] for n in walk(e, []) if isinstance(n, (Ref, Call)) and n.mods}


def let_names(stmts):
    return [s[1] for s in stmts if s[0] == "let"]


# ---------------------------------------------------------------- the relations (oracle), on implementation results

def same_outcome(a, b):
    return a.status == b.status and a.kind == b.kind


def recs(pcap):
    ok, r = common.pcap_records(pcap)
    return ok, [(x[0] * 10**9 + x[1], x[4]) for x in r]


def relation(kind, info, res):
    """res: role -> ImplResult.  Returns None when the relation holds, else (class, message)."""
    v = res["variant"]
    for r in res.values():
        if r.status in ("crash", "timeout", "notrun"):
            return None                     # C08's business
    if kind == "prefix":
        full = res["base"]
        if v.status != "ok":
            return ("prefix-fails", "a prefix of a program that runs fails: %s %s" % (v.status, v.kind))
        if full.pcap is None or v.pcap is None or not full.pcap.startswith(v.pcap):
            return ("prefix-output", "the output of the first %d statements is not a prefix of the whole output" % info["pos"])
        return None
    if kind in ("rebind", "dup-let", "use-before", "arg-fail", "import-missing", "import-late", "import-unknown", "ns-no-import"):
        want = info["want_kind"]
        if res["prefix"].status != "ok":
            return None
        if v.status != "err" or v.kind != want:
            return (kind + "-not-rejected", "expected diagnostic %s at line %s, got %s %s %s"
                    % (want, info["line"], v.status, v.kind, v.loc))
        lo, hi = info["line"] if isinstance(info["line"], (list, tuple)) else (info["line"], info["line"])
        if v.loc is None or not (lo <= v.loc[0] <= hi):
            return (kind + "-line", "diagnostic %s reported at %s, the offending statement is on lines %d..%d"
                    % (want, v.loc, lo, hi))
        p = res["prefix"]
        if v.pcap != p.pcap:
            return (kind + "-partial-output", "output kept after the diagnostic differs from the output of the statements "
                    "before the offending one (%s vs %s bytes)" % (len(v.pcap or b""), len(p.pcap or b"")))
        return None
    if kind == "use-after-let":
        b = res["base"]
        if b.status != "ok":
            return None
        if v.status != "ok":
            return ("use-after-let-fails", "`%s` (holding %s) is not usable after its let: %s %s %s"
                    % (info["name"], info["bound_kind"], v.status, v.kind, v.loc))
        if info["silent"] and v.pcap != b.pcap:
            return ("use-after-let-output", "a use of `%s` (holding %s) changed the output" % (info["name"], info["bound_kind"]))
        return None
    if kind in ("import-again", "unused-let", "hoist", "inline-all", "inline-one", "inline-drop", "outline",
                "ns-import-let", "ns-let-import", "kinds-direct", "layout"):
        b = res["base"]
        if not same_outcome(v, b):
            return (kind + "-outcome", "outcome %s %s, the related program gives %s %s" % (v.status, v.kind, b.status, b.kind))
        if v.pcap != b.pcap:
            return (kind + "-output", "pcap differs from the related program's (%s vs %s bytes)"
                    % (len(v.pcap or b""), len(b.pcap or b"")))
        return None
    if kind == "perm":
        if v.status != "ok":
            return ("perm-fails", "emitting stored values failed: %s %s" % (v.status, v.kind))
        okv, rv = recs(v.pcap)
        want, now = [], 0
        for k in info["sigma"]:
            item = info["items"][k]
            if item["jump"] is not None:
                now += item["jump"]
                continue
            s = res["single%d" % k]
            if s.status != "ok":
                return None
            oks, rs = recs(s.pcap)
            gap = rs[0][0] if rs else 0
            now += gap
            want += [(now, f) for _, f in rs]
        pr = res["probe"]
        if pr.status != "ok":
            return None
        okp, rp = recs(pr.pcap)
        prev = 0
        for t, f in rp:
            want.append((now + t, f))
        if [f for _, f in rv] != [f for _, f in want]:
            n = min(len(rv), len(want))
            i = next((j for j in range(n) if rv[j][1] != want[j][1]), n)
            return ("perm-frames", "record %d of %d differs from the frame predicted from single emissions (%d predicted)"
                    % (i, len(rv), len(want)))
        if [t for t, _ in rv] != [t for t, _ in want]:
            i = next(j for j in range(len(rv)) if rv[j][0] != want[j][0])
            return ("perm-times", "record %d has time %d, the running sum of single-emission gaps is %d"
                    % (i, rv[i][0], want[i][0]))
        return None
    raise ValueError(kind)


# ---------------------------------------------------------------- case bookkeeping

class Fam:
    """one relation instance: a variant program, the programs it is related to, and the expectation"""

    def __init__(self, kind, info, roles):
        self.kind, self.info, self.roles = kind, info, roles      # roles: role -> case name


class Pool:
    def __init__(self, rng):
        self.rng = rng
        self.cases, self.byname, self.bytext, self.fams = [], {}, {}, []
        self.stmts_of, self.layouts = {}, {}

    def add(self, stmts, layout=None):
        """register a program in a random (or the given) layout; identical texts share one case.
        Returns (name, spans)"""
        rr = random.Random(self.rng.getrandbits(32))
        if layout is None:
            layout = rr.choice(["lines", "lines", "lines", "one", "groups", "groups", "split", "split"])
        text, lines = render(stmts, rr, layout)
        self.layouts[layout] = self.layouts.get(layout, 0) + 1
        if text in self.bytext:
            self.stmts_of[self.bytext[text]] = (stmts, layout)
            return self.bytext[text], lines
        c = Case()
        c.name = "c%d" % len(self.cases)
        c.src, c.files, c.meta, c.gen = text.encode("utf-8"), {}, [], None
        self.cases.append(c)
        self.byname[c.name] = c
        self.bytext[text] = c.name
        self.stmts_of[c.name] = (stmts, layout)
        return c.name, lines

    def fam(self, kind, info, **roles):
        self.fams.append(Fam(kind, info, roles))
        # the same statement list in another layout: outcome, diagnostic kind and (partial) pcap must not depend on it
        if kind in RELAYOUT and self.rng.random() < RELAYOUT[kind]:
            stmts, lay = self.stmts_of[roles["variant"]]
            for other in self.rng.sample([l for l in LAYOUTS if l != lay], 1 if kind != "import-late" else 2):
                v2, _ = self.add(stmts, layout=other)
                self.fams.append(Fam("layout", {"of": kind, "layouts": [lay, other]}, {"variant": v2, "base": roles["variant"]}))


RELAYOUT = {"import-late": 1.0, "import-missing": 1.0, "use-before": 0.7, "ns-no-import": 0.7, "rebind": 0.12, "dup-let": 0.3,
            "arg-fail": 0.3, "import-unknown": 0.5, "import-again": 0.3, "hoist": 0.3, "perm": 0.3, "kinds-direct": 1.0,
            "ns-let-import": 0.3, "prefix": 0.08}


PLAIN = [lambda r: INT(r.choice([0, 1, 7, 255, 65535, r.getrandbits(32)])), lambda r: BOOL(r.random() < 0.5),
         lambda r: IP(rand_ip(r)), lambda r: SOCK(rand_ip(r), rand_port(r)), lambda r: STR(rand_payload(r, 12)),
         lambda r: HEX(r.getrandbits(16))]


def plain_lit(r):
    return r.choice(PLAIN)(r)


# ---------------------------------------------------------------- families over random programs

def rvalue_for_rebind(r, g, bound):
    """right-hand sides whose evaluation would be visible: a different error, a state change, a library call"""
    k = r.random()
    if k < 0.25:
        return plain_lit(r), "literal"
    if k < 0.5:
        return Ref("undefined_name_%d" % r.randint(0, 9)), "would-be-name-error"
    if k < 0.6:
        return Call("ipv4::no_such_function", INT(1)), "would-be-name-error"
    if k < 0.7:
        return Slash(INT(5), INT(6)), "would-be-type-error"
    if g.tcp and k < 0.85:
        return Call(r.choice(g.tcp) + ".client_message", STR(b"leak")), "stateful-call"
    if g.icmp:
        return Call(r.choice(g.icmp) + ".echo", STR(b"leak")), "stateful-call"
    return Call("ipv4::tcp::flow", SOCK("9.9.9.9", 1), SOCK("9.9.9.8", 2)), "constructor"


HEADER = ["ipv4", "time", "vxlan", "gre", "erspan1", "erspan2", "eth", "dns", "std", "text"]     # = ProgGen's
WHAT_KIND = {"tcpflow": "obj", "udpflow": "obj", "icmpflow": "obj", "fragctx": "obj", "tunnel": "obj", "store": "pkt-or-pktgen"}
SILENT = ("nil", "int", "bool", "str", "ip", "sock", "obj", "func", "method")      # kinds whose `x;` writes nothing


class Base:
    """a base program with the value kind of every let-bound name"""
    pass


def random_base(r, idx, thorough):
    """ProgGen program; calls made for their effect only (TcpFlow.client_hole/server_hole, the functions of the
    catalogue that return nothing) are bound by a let half of the time, so that names holding nil exist"""
    g = progs.random_program(r, nsteps=r.randint(2, 10 if thorough else 8), jumps=0.1, tunnels=0.15, lets=0.45, maxlen=20)
    b = Base()
    b.tcp, b.icmp = g.tcp, g.icmp
    st, kinds = [], {}
    for s_, m in zip(g.stmts, g.meta):
        if m.get("what") == "hole" and r.random() < 0.6:
            name = "n%d_%d" % (idx, len(st))
            st.append(Let(name, s_[1]))
            kinds[name] = "nil"
        else:
            st.append(s_)
            if s_[0] == "let":
                kinds[s_[1]] = WHAT_KIND.get(m.get("what"), "?")
    if g.tcp and not any(k == "nil" for k in kinds.values()) and r.random() < 0.6:
        f = r.choice(g.tcp)
        i = next(k for k, s_ in enumerate(st) if s_[0] == "let" and s_[1] == f)
        name = "n%d_x" % idx
        st.insert(r.randint(i + 1, len(st)), Let(name, Call(f + "." + r.choice(["client_hole", "server_hole"]),
                                                           INT(r.choice([0, 1, 100, 1460])))))
        kinds[name] = "nil"
    b.stmts, b.kinds, b.direct = st, kinds, None
    return b


def kinds_base(r, idx):
    """one let for every kind of value the language can bind, then a use of every name"""
    b = Base()
    t, i = "t%d" % idx, "i%d" % idx
    b.tcp, b.icmp = [t], [i]
    st = [Import(m) for m in HEADER]
    st.append(Let(t, Call("ipv4::tcp::flow", SOCK(rand_ip(r), rand_port(r)), SOCK(rand_ip(r), rand_port(r)))))
    st.append(Let(i, Call("ipv4::icmp::flow", IP(rand_ip(r)), IP(rand_ip(r)))))
    kinds = {t: "obj", i: "obj"}
    mk = {
        "nil": lambda: Call(t + "." + r.choice(["client_hole", "server_hole"]), INT(r.choice([0, 1, 100, 1460]))),
        "int": lambda: r.choice([INT(r.getrandbits(16)), HEX(r.getrandbits(8))]),
        "bool": lambda: BOOL(r.random() < 0.5),
        "str": lambda: STR(rand_payload(r, 10)),
        "ip": lambda: IP(rand_ip(r)),
        "sock": lambda: SOCK(rand_ip(r), rand_port(r)),
        "obj": lambda: r.choice([Call("ipv4::udp::flow", SOCK(rand_ip(r), 1), SOCK(rand_ip(r), 2)), Ref(t), Ref(i)]),
        "func": lambda: Ref(r.choice(["ipv4::datagram", "text::concat", "ipv4::tcp::flow", "std::be32"])),
        "method": lambda: Ref(r.choice([t + ".client_message", t + ".client_hole", i + ".echo"])),
        "pkt": lambda: Call(i + ".echo", STR(rand_payload(r, 8))),
        "pktgen": lambda: r.choice([Call(t + ".open"), Call(t + ".client_message", STR(rand_payload(r, 8)))]),
        "timejump": lambda: Call("time::jump_" + r.choice(["millis", "micros"]), INT(r.randint(0, 5000))),
    }
    order = list(mk)
    r.shuffle(order)
    names = []
    for k in order:
        name = "%s%d" % ({"nil": "nl", "int": "nm", "bool": "bl", "str": "sr", "ip": "ad", "sock": "sk", "obj": "ob",
                          "func": "fn", "method": "mt", "pkt": "pk", "pktgen": "pg", "timejump": "tj"}[k], idx)
        st.append(Let(name, mk[k]()))
        kinds[name] = k
        names.append(name)
        if r.random() < 0.3:
            st.append(Do(Call(i + ".echo", STR(b"between"))))
    direct = list(st)
    uses = list(names) + [r.choice(names) for _ in range(3)]
    r.shuffle(uses)
    for x in uses:
        st.append(Do(Ref(x)))
        if kinds[x] not in SILENT:
            direct.append(Do(Ref(x)))
    # values used: plain ones as arguments, function and method values called
    e1 = Call("ipv4::datagram", Ref("ad%d" % idx), IP("9.9.9.9"), _x=[Ref("sr%d" % idx), Ref("nm%d" % idx), Ref("pk%d" % idx)])
    st.append(Do(e1))
    direct.append(Do(e1))
    fe = next(s_[2] for s_ in st if s_[0] == "let" and s_[1] == "fn%d" % idx)
    fargs = {"datagram": ([IP("1.1.1.1"), IP("2.2.2.2"), Ref("sr%d" % idx)], True), "concat": ([STR(b"a"), Ref("sr%d" % idx)], False),
             "flow": ([Ref("sk%d" % idx), SOCK("3.3.3.3", 3)], False), "be32": ([Ref("nm%d" % idx)], False)}[fe.comps[-1]]
    st.append(Do(Call("fn%d" % idx, *fargs[0])))
    direct.append(Do(Call("::".join(fe.mods + fe.comps), *fargs[0])))
    me = next(s_[2] for s_ in st if s_[0] == "let" and s_[1] == "mt%d" % idx)
    margs = [INT(7)] if me.comps[-1] == "client_hole" else [Ref("sr%d" % idx)]
    st.append(Do(Call("mt%d" % idx, *margs)))
    direct.append(Do(Call(".".join(me.comps), *margs)))
    st.append(Do(Call(t + ".client_segment", STR(b"tail"))))
    direct.append(Do(Call(t + ".client_segment", STR(b"tail"))))
    b.stmts, b.kinds, b.direct = st, kinds, direct
    return b


# a statement that needs module m to be visible: (statement builder, is a let)
def module_use(m, r, tag):
    pay = {"std": Call("std::be16", INT(513)), "text": Ref("text::CRLF"), "ipv4": Ref("ipv4::proto::GRE"),
           "dns": Ref("dns::rcode::NXDOMAIN"), "netbios": Ref("netbios::ns::rrtype::NB"), "dhcp": Ref("dhcp::CLIENT_PORT"),
           "arp": Ref("arp::hrd::ETHER"), "tls": Ref("tls::version::SSL_2"), "vxlan": Ref("vxlan::DEFAULT_PORT"),
           "eth": Ref("eth::ethertype::VLAN")}
    if m in pay:
        return pay[m], None
    if m == "time":
        return None, Do(Call("time::jump_millis", INT(2)))
    if m == "io":
        return None, Let("mu_%s" % tag, Call("io::bufio", STR(b"abc")))
    if m == "gre":
        return None, Let("mu_%s" % tag, Call("gre::session", IP("7.7.7.7"), IP("7.7.7.8"), INT(0x6558)))
    return None, Let("mu_%s" % tag, Call(m + "::session", IP("7.7.7.7"), IP("7.7.7.8")))


MODULES = ["std", "text", "io", "ipv4", "dns", "netbios", "dhcp", "arp", "tls", "vxlan", "gre", "eth", "erspan1", "erspan2", "time"]


def namespace_families(pool, st, idx, thorough):
    """variables and modules are separate name spaces: a variable called like a module, bound before or after the
    import, with both used afterwards, behaves as a variable with any other name"""
    r = pool.rng
    n = len(st)
    for rep_ in range(3 if thorough else 2):
        m = r.choice(MODULES)
        uses_m = [i for i in range(NHEAD, n) if m in modules_used(st[i])]
        fu = uses_m[0] if uses_m else n
        i = r.randint(NHEAD, fu)
        vk = r.choice(["str", "int", "ip", "obj", "pkt"]) if m != "ipv4" else r.choice(["str", "int", "ip"])
        if vk in ("obj", "pkt") and "ipv4" not in [s_[1] for s_ in st[:NHEAD]]:
            vk = "str"
        val = {"str": lambda: STR(b"hello"), "int": lambda: INT(r.getrandbits(16)), "ip": lambda: IP(rand_ip(r)),
               "obj": lambda: Call("ipv4::udp::flow", SOCK("10.0.0.1", 4000), SOCK("10.0.0.2", 5000)),
               "pkt": lambda: Call("ipv4::datagram", IP("4.4.4.4"), IP("5.5.5.5"), STR(b"stored"))}[vk]()
        pay, stm = module_use(m, r, "%d_%d" % (idx, rep_))

        def build(name, order):
            """order: 'import-let' | 'let-import' | 'no-import'"""
            head = [s_ for s_ in st[:NHEAD] if s_ != Import(m)]
            out = head + ([Import(m)] if order == "import-let" else []) + st[NHEAD:i] + [Let(name, val)]
            if order == "let-import":
                out.append(Import(m))
            after = []
            # uses of the variable and of the module
            var = Ref(name)
            if vk == "obj":
                after.append(Do(Call(name + ".client_dgram", STR(b"x"), *([pay] if pay is not None else []))))
                if stm is not None:
                    after.append(stm)
            elif vk == "pkt":
                after.append(Do(var))
                after.append(Do(Call("ipv4::datagram", IP("1.1.1.1"), IP("2.2.2.2"), var, *([pay] if pay is not None else []))) if pay is not None else stm)
            else:
                after.append(Do(Call("ipv4::datagram", IP("1.1.1.1"), IP("2.2.2.2"), var, *([pay] if pay is not None else []))))
                if stm is not None:
                    after.append(stm)
            k = r_pos
            body = st[i:]
            out2 = out + body[:k] + after + body[k:]
            first_mod_use = len(out) + k + next(j for j, a in enumerate(after) if m in modules_used(a))
            if uses_m:
                first_mod_use = min(first_mod_use, len(out) + (uses_m[0] - i) + (len(after) if uses_m[0] - i >= k else 0))
            return out2, first_mod_use
        r_pos = r.randint(0, n - i)
        fresh = "nsv_%d_%d" % (idx, rep_)
        b_st, _ = build(fresh, "import-let")
        base, _ = pool.add(b_st)
        info = {"module": m, "value": vk, "pos": i}
        for order in ("import-let", "let-import"):
            v_st, _ = build(m, order)
            v, _ = pool.add(v_st)
            pool.fam("ns-" + order, info, variant=v, base=base)
        # the variable does not make the module visible
        v_st, k = build(m, "no-import")
        v, lines = pool.add(v_st)
        pool.fam("ns-no-import", dict(info, want_kind="name", line=lines[k]), variant=v, prefix=pool.add(v_st[:k])[0])


def program_families(ctx, pool, idx, thorough):
    r = pool.rng
    g = kinds_base(r, idx) if idx % 4 == 3 else random_base(r, idx, thorough)
    st = g.stmts
    base, blines = pool.add(st)
    if g.direct is not None:
        d, _ = pool.add(g.direct)
        pool.fam("kinds-direct", {"kinds": sorted(set(g.kinds.values()))}, variant=base, base=d)
    n = len(st)
    positions = list(range(NHEAD, n + 1))
    prefixes = {}

    def prefix(pos):
        if pos not in prefixes:
            prefixes[pos] = pool.add(st[:pos])[0]
        return prefixes[pos]

    # (c) top to bottom: every prefix
    for pos in positions[:-1]:
        pool.fam("prefix", {"pos": pos}, variant=prefix(pos), base=base)
    # (a) re-binding at every position
    for pos in positions:
        bound = let_names(st[:pos])
        if not bound:
            continue
        nils = [b_ for b_ in bound if g.kinds.get(b_) == "nil"]
        x = r.choice(nils) if nils and r.random() < 0.35 else r.choice(bound)
        rv, what = rvalue_for_rebind(r, g, bound)
        tail = st[pos:] if r.random() < 0.7 else []
        v, lines = pool.add(st[:pos] + [Let(x, rv)] + tail)
        pool.fam("rebind", {"want_kind": "reassign:" + x, "line": lines[pos], "name": x, "rvalue": what, "pos": pos,
                            "bound_kind": g.kinds.get(x, "?")}, variant=v, prefix=prefix(pos))
    # a copy of a let right before it: the copy binds, the original is rejected
    lets = [i for i in range(NHEAD, n) if st[i][0] == "let"]
    nil_lets = [i for i in lets if g.kinds.get(st[i][1]) == "nil"]
    for i in set(r.sample(lets, min(len(lets), 2)) + nil_lets[:2]):
        v, lines = pool.add(st[:i] + [st[i]] + st[i:])
        pool.fam("dup-let", {"want_kind": "reassign:" + st[i][1], "line": lines[i + 1], "name": st[i][1], "pos": i,
                             "bound_kind": g.kinds.get(st[i][1], "?")}, variant=v, prefix=prefix(i))
    # (b) a name is usable after its let, whatever it holds
    picks = set(r.sample(lets, min(len(lets), 3 if thorough else 2)) + nil_lets[:2])
    for i in picks:
        x, k = st[i][1], g.kinds.get(st[i][1], "?")
        pos = r.randint(i + 1, n)
        form = r.choice(["stmt", "arg"]) if k in ("int", "str", "ip", "pkt") else "stmt"
        s_ = Do(Ref(x)) if form == "stmt" else Let("ual_%d_%d" % (idx, i), Call("text::concat", STR(b"a"), Ref(x)))
        v, _ = pool.add(st[:pos] + [s_] + st[pos:])
        pool.fam("use-after-let", {"name": x, "bound_kind": k, "form": form, "pos": pos,
                                   "silent": k in SILENT or form == "arg"}, variant=v, base=base)
    namespace_families(pool, st, idx, thorough)
    # (b) use before let
    for _ in range(3 if thorough else 2):
        pos = r.choice(positions)
        later = let_names(st[pos:])
        x = r.choice(later) if later and r.random() < 0.7 else "never_bound%d" % r.randint(0, 99)
        form = r.choice(["ref", "member", "call", "arg", "let", "named-arg", "self-let", "self-let-arg"])
        if form == "ref":
            s = Do(Ref(x))
        elif form == "member":
            s = Do(Call(x + ".client_message", STR(b"abc")))
        elif form == "call":
            s = Do(Call(x, INT(1)))
        elif form == "arg":
            s = Do(Call("text::concat", STR(b"a"), Ref(x), Ref("also_unbound")))
        elif form == "named-arg":
            s = Do(Call("ipv4::datagram", IP("1.1.1.1"), IP("2.2.2.2"), ttl=Ref(x)))
        elif form == "self-let":
            s = Let(x, Ref(x))
        elif form == "self-let-arg":
            s = Let(x, Call("text::concat", STR(b"a"), Ref(x)))
        else:
            s = Let("fresh_q%d" % idx, Ref(x))
        v, lines = pool.add(st[:pos] + [s] + st[pos:])
        pool.fam("use-before", {"want_kind": "name", "line": lines[pos], "name": x, "form": form, "pos": pos,
                                "bound_later": x in later}, variant=v, prefix=prefix(pos))
    # (b') a reference through a BOUND name with more than two components names nothing: a variable has methods, methods
    # have no members
    for _ in range(2):
        pos = r.choice(positions)
        bound = [x for x in let_names(st[:pos])]
        if not bound:
            continue
        x = r.choice(bound)
        form = r.choice(["call3", "call4", "ref3", "let3", "arg3"])
        mid = r.choice(["nosuch", "server", "open", "client_message", x])
        if form == "call3":
            s = Do(Call("%s.%s.client_message" % (x, mid), STR(b"abc")))
        elif form == "call4":
            s = Do(Call("%s.%s.peer.open" % (x, mid)))
        elif form == "ref3":
            s = Do(Ref("%s.%s.open" % (x, mid)))
        elif form == "let3":
            s = Let("deep_q%d" % idx, Ref("%s.%s.open" % (x, mid)))
        else:
            s = Do(Call("text::concat", STR(b"a"), Ref("%s.%s.echo" % (x, mid))))
        v, lines = pool.add(st[:pos] + [s] + st[pos:])
        pool.fam("use-before", {"want_kind": "name", "line": lines[pos], "name": x, "form": "deep:" + form, "pos": pos,
                                "bound_later": False}, variant=v, prefix=prefix(pos))
    # (c) the leftmost failing argument decides; nothing to its right is evaluated
    for _ in range(3 if thorough else 2):
        pos = r.choice(positions)
        bads = {"name": lambda: Ref("unbound_arg%d" % r.randint(0, 9)), "type": lambda: r.choice([Ref("ipv4::tcp"), Slash(INT(5), INT(6))])}
        k1, k2 = r.choice([("name", "type"), ("type", "name")])
        good = [STR(b"ok"), Call("text::concat", STR(b"x"))]
        bound = set(let_names(st[:pos]))
        for f in g.icmp:
            if f in bound:
                good.append(Call(f + ".echo", STR(b"arg")))
        for f in g.tcp:
            if f in bound:
                good.append(Call(f + ".client_segment", STR(b"arg")))
        b1 = bads[k1]()
        if r.random() < 0.4:
            b1 = Call("text::concat", r.choice(good), b1)          # the failure sits inside a nested call
        shape = r.choice(["collect", "named-right", "named-left", "slash", "named-permuted", "named-permuted"])
        if shape == "slash":
            flat = {"name": lambda: Ref("unbound_arg%d" % r.randint(0, 9)), "type": lambda: Ref("ipv4::tcp")}
            e = Slash(flat[k1](), flat[k2]())
        elif shape == "named-permuted":
            # two keyword arguments written in the reverse of their declaration order
            fn, lead, decl = r.choice([("ipv4::datagram", [IP("1.1.1.1"), IP("2.2.2.2")], ["id", "evil", "df", "mf", "ttl", "frag_off", "proto"]),
                                       ("eth::frame", [], ["src", "dst", "ethertype"]),
                                       ("ipv4::tcp::flow", [SOCK("1.1.1.1", 1), SOCK("2.2.2.2", 2)], ["cl_seq", "sv_seq", "raw"]),
                                       ("dns::host", [IP("1.1.1.1"), STR(b"a.b")], ["ttl", "ns", "raw"])])
            i1, i2 = sorted(r.sample(range(len(decl)), 2))
            e = Call(fn, *lead, _x=[r.choice(good)] if fn != "ipv4::tcp::flow" and r.random() < 0.5 else [],
                     **{decl[i2]: bads[k1](), decl[i1]: bads[k2]()})
        elif shape == "collect":
            args = [r.choice(good) for _ in range(r.randint(0, 2))] + [b1] + [r.choice(good) for _ in range(r.randint(0, 1))] \
                   + [bads[k2]()] + [r.choice(good) for _ in range(r.randint(0, 1))]
            e = Call("text::concat", *args)
        elif shape == "named-right":
            e = Call("ipv4::datagram", IP("1.1.1.1"), b1, ttl=bads[k2]())
        else:
            e = Call("ipv4::datagram", IP("1.1.1.1"), IP("2.2.2.2"), ttl=b1, _x=[r.choice(good), bads[k2]()])
        s = Do(e) if r.random() < 0.6 else Let("fresh_a%d_%d" % (idx, pos), e)
        v, lines = pool.add(st[:pos] + [s] + st[pos:])
        pool.fam("arg-fail", {"want_kind": k1, "line": lines[pos], "shape": shape, "pos": pos}, variant=v, prefix=prefix(pos))
    # (b) imports
    used = [(i, m) for i in range(NHEAD, n) for m in sorted(modules_used(st[i]))]
    if used:
        first = {}
        for i, m in used:
            first.setdefault(m, i)
        m = r.choice(sorted(first))
        i = first[m]
        hd = [s for s in st[:NHEAD] if s != Import(m)]
        v, lines = pool.add(hd + st[NHEAD:])
        pool.fam("import-missing", {"want_kind": "name", "line": lines[i - 1], "module": m, "pos": i}, variant=v, prefix=prefix(i))
        j = r.randint(i + 1, n)
        v, lines = pool.add(hd + st[NHEAD:j] + [Import(m)] + st[j:])
        pool.fam("import-late", {"want_kind": "name", "line": lines[i - 1], "module": m, "pos": i}, variant=v, prefix=prefix(i))
    pos = r.choice(positions)
    bogus = r.choice(["nosuchmodule", "ipv5", "Ipv4", "tcp", "std2", "ipv4x"])
    v, lines = pool.add(st[:pos] + [Import(bogus)] + st[pos:])
    pool.fam("import-unknown", {"want_kind": "import:" + bogus, "line": lines[pos], "module": bogus, "pos": pos},
             variant=v, prefix=prefix(pos))
    for _ in range(2):
        pos = r.choice(positions)
        m = r.choice([s[1] for s in st[:NHEAD]])
        v, lines = pool.add(st[:pos] + [Import(m)] + st[pos:])
        pool.fam("import-again", {"module": m, "pos": pos}, variant=v, base=base)
    # (f) an unused let of a literal
    for _ in range(2):
        pos = r.choice(positions)
        v, lines = pool.add(st[:pos] + [Let("unused_%d_%d" % (idx, pos), plain_lit(r))] + st[pos:])
        pool.fam("unused-let", {"pos": pos}, variant=v, base=base)
    # (e) outlining / inlining of plain values
    inline_families(pool, st, base, idx, thorough)
    return g


def literal_sites(st):
    """(statement index, path) of literal arguments of calls; path = argument indices from the statement's expression"""
    out = []

    def go(e, i, path):
        if isinstance(e, Call):
            for k, (nm, a) in enumerate(e.args):
                if isinstance(a, Lit):
                    out.append((i, path + (k,)))
                else:
                    go(a, i, path + (k,))
    for i in range(NHEAD, len(st)):
        e = stmt_expr(st[i])
        if e is not None:
            go(e, i, ())
    return out


def get_at(e, path):
    for k in path:
        e = e.args[k][1]
    return e


def set_at(e, path, new):
    if not path:
        return new
    n = copy.copy(e)
    n.args = list(e.args)
    nm, a = n.args[path[0]]
    n.args[path[0]] = (nm, set_at(a, path[1:], new))
    return n


def inline_families(pool, st, base, idx, thorough):
    r = pool.rng
    sites = literal_sites(st)
    if not sites:
        return
    chosen = r.sample(sites, min(len(sites), r.randint(1, 4)))
    # group: sometimes one let serves several equal literals
    lets, uses = [], []            # lets: (name, Lit, insert position); uses: (stmt index, path, name)
    for k, (i, path) in enumerate(sorted(chosen)):
        lit = get_at(stmt_expr(st[i]), path)
        name = None
        for (nm, l2, pos2) in lets:
            if l2.kind == lit.kind and l2.value == lit.value and pos2 <= i and r.random() < 0.7:
                name = nm
        if name is None:
            name = "k%d_%d" % (idx, k)
            lets.append((name, Lit(lit.kind, lit.value), r.randint(NHEAD, i)))
        uses.append((i, path, name))

    def build(inlined, drop=False):
        """program with the lets outlined; uses in `inlined` keep their literal"""
        body = list(st)
        for u, (i, path, name) in enumerate(uses):
            if u in inlined:
                lit = get_at(stmt_expr(st[i]), path)
                new = Lit(lit.kind, lit.value)         # fresh spelling
            else:
                new = Ref(name)
            body[i] = with_expr(body[i], set_at(stmt_expr(body[i]), path, new))
        out = []
        for i, s in enumerate(body):
            if not drop:
                for (nm, lit, pos) in lets:
                    if pos == i:
                        out.append(Let(nm, lit))
            out.append(s)
        return out
    outlined, _ = pool.add(build(set()))
    info = {"lets": len(lets), "uses": len(uses), "kinds": sorted({l.kind for _, l, _ in lets})}
    pool.fam("outline", info, variant=outlined, base=base)
    allv, _ = pool.add(build(set(range(len(uses)))))
    pool.fam("inline-all", info, variant=allv, base=outlined)
    singles = list(range(len(uses))) if thorough else r.sample(range(len(uses)), min(2, len(uses)))
    for u in singles:
        v, _ = pool.add(build({u}))
        pool.fam("inline-one", dict(info, use=u), variant=v, base=outlined)
    d, _ = pool.add(build(set(range(len(uses))), drop=True))
    pool.fam("inline-drop", info, variant=d, base=outlined)


# ---------------------------------------------------------------- (iii) nested stateful calls

class World:
    """shared mutable objects and expressions over them"""

    def __init__(self, r, tag):
        self.r, self.tag = r, tag
        self.decls, self.tcp, self.udp, self.icmp, self.frag, self.tun = [], [], [], [], [], []
        for i in range(r.randint(1, 2)):
            n = "t%d" % i
            self.decls.append(Let(n, Call("ipv4::tcp::flow", SOCK(rand_ip(r), rand_port(r)), SOCK(rand_ip(r), rand_port(r)),
                                          cl_seq=r.choice([1, 1000, 2**32 - 5]), sv_seq=r.choice([7, 5000, 2**32 - 2]))))
            self.tcp.append(n)
        for i in range(r.randint(1, 2)):
            n = "i%d" % i
            self.decls.append(Let(n, Call("ipv4::icmp::flow", IP(rand_ip(r)), IP(rand_ip(r)))))
            self.icmp.append(n)
        # a second name for the same object: state is shared behind the reference
        if r.random() < 0.5:
            self.decls.append(Let("ta", Ref(r.choice(self.tcp))))
            self.tcp.append("ta")
        if r.random() < 0.5:
            self.decls.append(Let("ia", Ref(r.choice(self.icmp))))
            self.icmp.append("ia")
        if r.random() < 0.7:
            self.decls.append(Let("u0", Call("ipv4::udp::flow", SOCK(rand_ip(r), rand_port(r)), SOCK(rand_ip(r), rand_port(r)))))
            self.udp.append("u0")
        if r.random() < 0.5:
            pl = bytes(r.getrandbits(8) for _ in range(r.randint(8, 40)))
            self.decls.append(Let("g0", Call("ipv4::frag", IP(rand_ip(r)), IP(rand_ip(r)), _x=[STR(pl)])))
            self.frag.append(("g0", len(pl)))
        for i in range(r.randint(0, 2)):
            kind = r.choice(["gre", "erspan2", "vxlan", "erspan1"])
            n = "s%d" % i
            if kind == "vxlan":
                e = Call("vxlan::session", SOCK(rand_ip(r), rand_port(r)), SOCK(rand_ip(r), 4789))
            elif kind == "gre":
                e = Call("gre::session", IP(rand_ip(r)), IP(rand_ip(r)), INT(0x6558))
            else:
                e = Call(kind + "::session", IP(rand_ip(r)), IP(rand_ip(r)))
            self.decls.append(Let(n, e))
            self.tun.append((n, kind))
        self.header = [Import(m) for m in ("ipv4", "text", "eth", "gre", "erspan1", "erspan2", "vxlan", "time", "std", "io", "tls")]
        self.nbuf = 0
        self.named_out_of_order = 0
        self.nest_count = 0

    def text(self):
        r = self.r
        return STR(bytes(r.choice(b"abcdefghij") for _ in range(r.randint(0, 6))))

    def payload(self, depth):
        """0..3 byte-valued arguments: literals, pure helpers, or nested single-packet calls on shared objects"""
        r, out = self.r, []
        for _ in range(r.choice([1, 1, 2, 2, 3])):
            k = r.random()
            if depth > 0 and k < 0.6:
                self.nest_count += 1
                out.append(self.pkt(depth - 1))
            elif depth > 0 and k < 0.7:
                out.append(Call("text::concat", *self.payload(depth - 1)))
            else:
                out.append(self.text())
        return out

    def pkt(self, depth):
        """a call returning one packet"""
        r = self.r
        k = r.random()
        if k < 0.35:
            f = r.choice(self.icmp)
            return Call(f + "." + r.choice(["echo", "echo_reply"]), Call("text::concat", *self.payload(depth)))
        if k < 0.7:
            f = r.choice(self.tcp)
            return Call(f + "." + r.choice(["client_segment", "server_segment"]), _x=self.payload(depth))
        if k < 0.8 and self.udp:
            return Call(self.udp[0] + "." + r.choice(["client_dgram", "server_dgram"]), _x=self.payload(depth))
        if k < 0.86 and self.frag:
            name, plen = self.frag[0]
            return Call(name + ".fragment", INT(r.randint(0, plen // 8)), INT(r.randint(0, 3)))
        if k < 0.93:
            return Call("ipv4::datagram", IP(rand_ip(r)), IP(rand_ip(r)), _x=self.payload(depth))
        mac = lambda: STR(bytes(r.getrandbits(8) for _ in range(6)))
        return Call("eth::frame", mac(), mac(), _x=self.payload(depth))

    def emittable(self, depth):
        """(expression, is a stored-value candidate)"""
        r = self.r
        k = r.random()
        if k < 0.2:
            f = r.choice(self.tcp)
            return Call(f + "." + r.choice(["client_message", "server_message"]), _x=self.payload(depth))
        e = self.pkt(depth)
        if self.tun and r.random() < 0.35:
            for _ in range(r.randint(1, 2)):
                n, kind = r.choice(self.tun)
                e = Call(n + ".encap", e)
        return e

    def named_stmts(self):
        """[let b = io::bufio(..), statement]: a call whose NAMED arguments, written in a random permutation of the
        declaration order, each hold a call on shared objects (buffer reads, and through them every other argument);
        leading positional arguments before and a collected tail after them"""
        r = self.r
        self.nbuf += 1
        b = "b%d" % self.nbuf
        decl = Let(b, Call("io::bufio", STR(bytes(r.getrandbits(8) for _ in range(r.randint(16, 60)))), STR(b"0123456789ab")))
        rd = lambda k: Call(b + ".read", INT(k))
        ln = lambda: Call("text::len", r.choice([rd(r.randint(1, 9)), rd(r.randint(1, 9)), Call(b + ".read_all")]))
        tail = []
        for _ in range(r.randint(0, 2)):
            tail.append(r.choice([rd(r.randint(1, 5)), self.text(), self.pkt(0)]))
        shape = r.choice(["datagram", "datagram", "frame", "hello", "segment", "tcpflow"])
        if shape == "datagram":
            decl_order = ["id", "evil", "df", "mf", "ttl", "frag_off", "proto"]
            names = r.sample(["id", "ttl", "frag_off", "proto"], r.randint(2, 4))
            kw = {n: ln() for n in names}
            e = Call("ipv4::datagram", IP(rand_ip(r)), IP(rand_ip(r)), _x=tail, **kw)
        elif shape == "frame":
            decl_order = ["src", "dst", "ethertype"]
            names = r.sample(decl_order, r.choice([2, 3]))
            kw = {n: (ln() if n == "ethertype" else rd(6)) for n in names}
            lead = []
            if "src" not in names:             # src positional, the rest by name
                lead = [rd(6)]
            elif "dst" not in names:
                names = [n for n in names if n != "src"] ; kw.pop("src"); lead = [rd(6)]; kw["dst"] = rd(6); names = list(kw)
            e = Call("eth::frame", *lead, _x=tail, **{n: kw[n] for n in names})
        elif shape == "hello":
            decl_order = ["version", "sessionid", "ciphers", "compression"]
            names = r.sample(decl_order, r.randint(2, 4))
            kw = {n: (ln() if n == "version" else rd(r.randint(1, 4))) for n in names}
            e = Call("ipv4::datagram", IP(rand_ip(r)), IP(rand_ip(r)), Call("tls::client_hello", _x=tail, **kw))
        elif shape == "segment":
            decl_order = ["seq", "ack"]
            names = r.sample(decl_order, 2)
            kw = {n: ln() for n in names}
            e = Call(r.choice(self.tcp) + "." + r.choice(["client_segment", "server_segment", "client_message"]), _x=tail or [self.text()], **kw)
        else:
            decl_order = ["cl_seq", "sv_seq", "raw"]
            names = r.sample(["cl_seq", "sv_seq"], 2)
            kw = {n: ln() for n in names}
            f = "tn%d" % self.nbuf
            flow = Let(f, Call("ipv4::tcp::flow", SOCK(rand_ip(r), 1), SOCK(rand_ip(r), 2), **kw))
            idx = [decl_order.index(n) for n in names]
            if idx != sorted(idx):
                self.named_out_of_order += 1
            return [decl, flow, Do(Call(f + ".open"))]
        idx = [decl_order.index(n) for n in names if n in decl_order]
        if idx != sorted(idx):
            self.named_out_of_order += 1
        return [decl, Do(e)]

    def probes(self):
        out = []
        for f in self.tcp:
            out.append(Do(Call(f + ".client_segment", STR(b"probe"))))
            out.append(Do(Call(f + ".server_segment", STR(b"PROBE"))))
        for f in self.icmp:
            out.append(Do(Call(f + ".echo", STR(b"probe"))))
        for f in self.udp:
            out.append(Do(Call(f + ".client_dgram", STR(b"probe"))))
        for n, kind in self.tun:
            out.append(Do(Call(n + ".encap", Call("eth::frame", STR(b"\x01" * 6), STR(b"\x02" * 6), STR(b"probe")))))
        return out


def hoist(stmts, start, order, prefix="h"):
    """every call nested inside another call becomes its own let, in evaluation order (post-order, arguments
    left to right) for order='ltr'; siblings reversed for 'rtl'"""
    out, count = [], [0]

    def go(e, top, pre):
        if isinstance(e, Call):
            n = copy.copy(e)
            idxs = list(range(len(e.args)))
            if order == "rtl":
                idxs.reverse()
            new = dict()
            for k in idxs:
                new[k] = go(e.args[k][1], False, pre)
            n.args = [(e.args[k][0], new[k]) for k in range(len(e.args))]
            if top:
                return n
            count[0] += 1
            name = "%s%d" % (prefix, count[0])
            pre.append(Let(name, n))
            return Ref(name)
        if isinstance(e, Slash):
            n = copy.copy(e)
            n.a = go(e.a, False, pre)
            n.b = go(e.b, False, pre)
            return n
        return e
    for i, s in enumerate(stmts):
        e = stmt_expr(s)
        if e is None or i < start:
            out.append(s)
            continue
        pre = []
        ne = go(e, True, pre)
        out += pre + [with_expr(s, ne)]
    return out, count[0]


def nest_families(ctx, pool, idx, thorough):
    r = pool.rng
    w = World(r, idx)
    body, stored = [], []
    for k in range(r.randint(2, 6)):
        if r.random() < 0.3:
            body += w.named_stmts()
            continue
        e = w.emittable(r.choice([1, 2, 2, 3]))
        q = r.random()
        if q < 0.3:
            name = "v%d" % k
            body.append(Let(name, e))
            stored.append(name)
        elif q < 0.4 and stored:
            body.append(Do(Ref(r.choice(stored))))
        else:
            body.append(Do(e))
    for nme in stored:
        if r.random() < 0.7:
            body.insert(r.randint(body.index(next(s for s in body if s[0] == "let" and s[1] == nme)) + 1, len(body)), Do(Ref(nme)))
    st = w.header + w.decls + body
    start = len(w.header) + len(w.decls)
    base, _ = pool.add(st)
    hl, nh = hoist(st, start, "ltr")
    if nh == 0:
        return None
    v, _ = pool.add(hl)
    pool.fam("hoist", {"hoisted": nh, "nested_stateful": w.nest_count}, variant=v, base=base)
    hr, _ = hoist(st, start, "rtl")
    ctl, _ = pool.add(hr)
    return (base, v, ctl, nh, w.nest_count, w.named_out_of_order)


# ---------------------------------------------------------------- (iv) stored values in any order

def perm_families(ctx, pool, idx, thorough):
    r = pool.rng
    w = World(r, idx)
    items, lets = [], []
    for k in range(r.randint(2, 5)):
        name = "p%d" % k
        if r.random() < 0.12:
            unit, mult = r.choice([("millis", 10**6), ("micros", 10**3), ("nanos", 1), ("seconds", 10**9)])
            mag = r.choice([0, 1, 999, r.randint(0, 5000)])
            lets.append(Let(name, Call("time::jump_" + unit, INT(mag))))
            items.append({"name": name, "jump": mag * mult})
        else:
            q = r.random()
            if q < 0.2:
                e = Call(r.choice(w.tcp) + "." + r.choice(["open", "client_close", "server_close"]))
            else:
                e = w.emittable(r.choice([0, 1, 2]))
            lets.append(Let(name, e))
            items.append({"name": name, "jump": None})
    pre = w.header + w.decls + lets
    probes = w.probes()
    sigma = [r.randrange(len(items)) for _ in range(r.randint(1, 8))]
    v, _ = pool.add(pre + [Do(Ref(items[k]["name"])) for k in sigma] + probes)
    roles = {"variant": v, "probe": pool.add(pre + probes)[0]}
    for k in set(sigma):
        if items[k]["jump"] is None:
            roles["single%d" % k] = pool.add(pre + [Do(Ref(items[k]["name"]))])[0]
    pool.fam("perm", {"sigma": sigma, "items": items}, **roles)
    return sigma


def slash_families(pool, thorough):
    """inlining inside `address / port`: both operands literal, one or both bound by let first -- the same value, the
    same outcome (also for ports beyond 16 bits, which must be refused in every spelling)"""
    r = pool.rng
    ports = [0, 80, 65535, 65536, 65616, 2 ** 32 + 80, 2 ** 64 - 1] + ([r.getrandbits(17) for _ in range(4)] if thorough else [r.getrandbits(17)])
    for n, pt in enumerate(ports):
        a = r.choice(["10.0.0.1", "192.168.7.9", "1.2.3.4"])
        plit = lambda: (INT(pt) if n % 2 == 0 else gen.Lit("hexint", pt, "0x%x" % pt))
        head = [Import("ipv4")]
        call = lambda x: Do(Call("ipv4::udp::unicast", x, SOCK("10.0.0.2:53"), STR(b"payload")))
        both = head + [call(Slash(IP(a), plit()))]
        base, _ = pool.add(both)
        for kind, prog in (("port", head + [Let("sp", plit()), call(Slash(IP(a), Ref("sp")))]),
                           ("address", head + [Let("sa", IP(a)), call(Slash(Ref("sa"), plit()))]),
                           ("both", head + [Let("sa", IP(a)), Let("sp", plit()), call(Slash(Ref("sa"), Ref("sp")))]),
                           ("socket", head + [Let("ss", Slash(IP(a), plit())), call(Ref("ss"))])):
            v, _ = pool.add(prog)
            pool.fam("inline-all", {"lets": 1, "uses": 1, "kinds": ["slash-" + kind], "port": pt}, variant=base, base=v)


# ---------------------------------------------------------------- driver

def run(ctx):
    r = ctx.rng
    thorough = ctx.thorough
    pool = Pool(r)
    nprog, nnest, nperm = (600, 1400, 1000) if thorough else (90, 280, 200)
    for i in range(nprog):
        program_families(ctx, pool, i, thorough)
    slash_families(pool, thorough)
    nests = [x for x in (nest_families(ctx, pool, i, thorough) for i in range(nnest)) if x]
    sigmas = [perm_families(ctx, pool, i, thorough) for i in range(nperm)]
    diff.run_both(ctx, "c14", pool.cases, keep=True, model_verbose=True)
    C = pool.byname

    # correspondence on every program
    bad_cases = set()
    oc = ctx.dist.setdefault("outcomes", {})
    for c in pool.cases:
        ic, mc = diff.outcome_class(c)
        oc[ic] = oc.get(ic, 0) + 1
        if c.impl.status in ("crash", "timeout", "notrun"):
            ctx.dist["impl_crashes_left_to_C08"] = ctx.dist.get("impl_crashes_left_to_C08", 0) + 1
            continue
        d = None
        if ic != mc:
            d = "outcome: impl %s, model %s" % (ic, mc)
        elif c.impl.status == "err" and c.model["loc"] is not None and c.impl.loc != c.model["loc"]:
            d = "diagnostic location: impl %s, model %s" % (c.impl.loc, c.model["loc"])
        elif c.impl.pcap is not None and c.model["pcap"] is not None and c.impl.pcap != c.model["pcap"]:
            d = "pcap bytes differ (%s)" % ic
        if d:
            bad_cases.add(c.name)
            c.gen = d

    # the relations, on the implementation's outputs
    failed_progs = set()
    per_kind, nontrivial = {}, {}
    for f in pool.fams:
        ctx.count(f.kind)
        res = {role: C[nm].impl for role, nm in f.roles.items()}
        per_kind[f.kind] = per_kind.get(f.kind, 0) + 1
        bad = relation(f.kind, f.info, res)
        v = C[f.roles["variant"]]
        if bad:
            failed_progs.update(f.roles.values())
            rp = diff.replay_of(v, {"kind": f.kind, "info": f.info,
                                    "related": {role: C[nm].text for role, nm in f.roles.items() if role != "variant"}})
            ctx.fail(bad[0], bad[1], rp)
            continue
        ok, rv = recs(v.impl.pcap) if v.impl.pcap else (False, [])
        if v.impl.status == "err" or rv:
            ctx.distinct((f.kind, v.text))
            nontrivial[f.kind] = nontrivial.get(f.kind, 0) + 1
    for name in sorted(bad_cases):
        if name not in failed_progs:
            c = C[name]
            ctx.fail("model-differs", c.gen, diff.replay_of(c, {"kind": "single", "info": {}}), disagreement=True)

    # the model's call trace: nested == sequenced (the theorems' "exactly once, left to right")
    differs = 0
    for base, v, ctl, nh, ns, noo in nests:
        tb, tv = C[base].model.get("trace"), C[v].model.get("trace")
        if C[base].model["status"] == "ok" and tb != tv and base not in failed_progs:
            ctx.fail("trace-differs", "the model's library-call trace of the nested program differs from its sequenced variant",
                     diff.replay_of(C[v], {"kind": "hoist", "info": {}, "related": {"base": C[base].text}}), disagreement=True)
        if C[ctl].impl.status == "ok" and C[base].impl.status == "ok" and C[ctl].impl.pcap != C[base].impl.pcap:
            differs += 1
    ok_cases = sum(1 for c in pool.cases if c.impl.status == "ok")
    err_cases = sum(1 for c in pool.cases if c.impl.status == "err")
    ctx.dist.update({
        "programs_run": len(pool.cases), "layouts_rendered": pool.layouts,
        "layout_pairs_by_family": _hist(f.info["of"] for f in pool.fams if f.kind == "layout"), "relations_checked": per_kind, "relations_nontrivial": nontrivial,
        "impl_ok": ok_cases, "impl_err": err_cases,
        "nest_programs": len(nests), "nest_hoisted_calls_total": sum(x[3] for x in nests),
        "nest_stateful_nested_calls_total": sum(x[4] for x in nests),
        "nest_calls_with_named_args_out_of_declaration_order": sum(x[5] for x in nests),
        "nest_order_matters_fraction": round(differs / max(1, len(nests)), 3),
        "perm_programs": len(sigmas),
        "perm_not_in_definition_order_fraction": round(sum(1 for s in sigmas if s != sorted(s)) / max(1, len(sigmas)), 3),
        "perm_with_repetition_fraction": round(sum(1 for s in sigmas if len(set(s)) < len(s)) / max(1, len(sigmas)), 3),
        "rebind_rvalue_kinds": _hist(f.info["rvalue"] for f in pool.fams if f.kind == "rebind"),
        "use_before_forms": _hist(f.info["form"] for f in pool.fams if f.kind == "use-before"),
        "use_before_bound_later_fraction": round(sum(1 for f in pool.fams if f.kind == "use-before" and f.info["bound_later"])
                                                 / max(1, per_kind.get("use-before", 0)), 3),
        "rebind_bound_kinds": _hist(f.info["bound_kind"] for f in pool.fams if f.kind in ("rebind", "dup-let")),
        "use_after_let_kinds": _hist(f.info["bound_kind"] for f in pool.fams if f.kind == "use-after-let"),
        "namespace_modules": _hist(f.info["module"] for f in pool.fams if f.kind == "ns-let-import"),
        "namespace_value_kinds": _hist(f.info["value"] for f in pool.fams if f.kind == "ns-let-import"),
        "inline_literal_kinds": _hist(k for f in pool.fams if f.kind == "outline" for k in f.info["kinds"]),
    })
    ctx.obligation("right-to-left sequencing changes the output in at least 30%% of the nested programs (%d of %d): "
                   "argument order is observable in the generated cases" % (differs, len(nests)),
                   not nests or differs >= 0.3 * len(nests))
    ctx.obligation("at least half of the permutation cases emit out of definition order",
                   not sigmas or sum(1 for s in sigmas if s != sorted(s)) >= 0.5 * len(sigmas))
    ctx.obligation("at least 80%% of the %d base programs ran on both sides" % len(pool.cases),
                   ok_cases + err_cases >= 0.8 * len(pool.cases))
    for f in pool.fams:
        if f.kind in ("hoist", "perm", "rebind", "inline-all"):
            if len(ctx.samples) < 6 and not any(s.get("kind") == f.kind for s in ctx.samples):
                ctx.sample({"kind": f.kind, "info": {k: v for k, v in f.info.items() if k != "items"},
                            "program": C[f.roles["variant"]].text[-900:]})


def _hist(it):
    h = {}
    for x in it:
        h[x] = h.get(x, 0) + 1
    return h


def replay(ctx, rp):
    ctx.count("replay")
    kind, info = rp.get("kind", "single"), rp.get("info", {})
    programs = {"variant": rp["program"]}
    programs.update(rp.get("related") or {})
    d, res = common.run_programs("c14r", programs, keep=True)
    if kind == "single":
        v = res["variant"]
        want = rp.get("model", {})
        got = "ok" if v.status == "ok" else "%s:%s" % (v.status, v.kind)
        wm = "ok" if want.get("status") == "ok" else "%s:%s" % (want.get("status"), want.get("kind"))
        if got != wm or (want.get("pcap") and v.pcap is not None and v.pcap.hex() != want["pcap"]):
            ctx.fail("model-differs", "implementation gives %s, the model gave %s (or different pcap bytes)" % (got, wm),
                     {"program": rp["program"]}, disagreement=True)
        return
    bad = relation(kind, info, res)
    if bad:
        ctx.fail(bad[0], bad[1], {"program": rp["program"], "kind": kind, "info": info, "related": rp.get("related")})
