"""C06 -- tunnels are transparent: inner frames survive VXLAN/GRE/ERSPAN encapsulation."""
import os, struct, random
import common, diff, gen, progs
from diff import Case
from gen import *

THEOREMS = ["C06_vxlan_transparent", "C06_vxlan_header_decodes", "C06_gre_transparent", "C06_erspan1_transparent",
            "C06_erspan2_transparent", "C06_erspan2_counts", "C06_one_per_packet",
            # nesting to any depth, library level, sequence numbers over histories (Props/C06b.v)
            "C06_nesting_transparent", "C06_nesting_total", "C06_nesting_injective", "C06_lib_vxlan_encap", "C06_lib_vxlan_dgram",
            "C06_lib_erspan1_encap", "C06_lib_gre_encap", "C06_lib_erspan2_encap", "C06_lib_defs", "C06_lib_is_layer",
            "C06_lib_dispatch", "C06_erspan2_history", "C06_erspan2_history_fresh", "C06_gre_history", "C06_other_calls_frame"]
PROPS = ["C06", "C06b"]
VO = ["theories/Props/C06.vo", "theories/Props/C06b.vo"]
RULE = ("relational pairs: a program emitting inner packets (any builder, single packets and sequences, sizes from the "
        "14-byte bare frame up to 1400 bytes, raw and framed) and the same program with every emission wrapped in 1..4 "
        "nested tunnel sessions (VXLAN dgram/encap, GRE, ERSPAN I, ERSPAN II) in random order with random session "
        "parameters (ports, VNI < 2^24, ethertype, port index, raw); sessions are reused across statements so that "
        "sequence numbers advance.  Non-trivial = at least two encapsulated records; distinct by program text")
NOTES = ["oracle on the implementation's output: peeling the layers of each record of the wrapped program with the "
         "specification Spec.TunnelPeel.peel (extracted from Coq; made of the Spec.Tunnel decoders and the Spec.Wire readers only, "
         "and proved against the builders for every nesting depth in Props/C06b.v: C06_nesting_transparent) must give "
         "exactly the corresponding record of the plain program, one outer packet per inner packet in the same order; "
         "each tunnel header must carry the session's parameters (VXLAN: I flag, VNI, UDP ports; GRE: protocol type; "
         "ERSPAN: 0x88be, for type II the S flag, version 1, port index) and, where present, the sequence number must "
         "count the session's packets from zero"]
MODELLED = ("ezpkt/src/{vxlan,gre,erspan1,erspan2}.rs, pkt/src/{vxlan,gre,erspan2}.rs, src/stdlib/{vxlan,gre,erspan1,erspan2}.rs: "
            "Pkt/Hdrs.v, Ez/Udp.v (vxlan), Ez/Gre.v, Lib/MiscLib.v")


class Sess:
    def __init__(self, r, i):
        self.kind = r.choice(["vxlan", "gre", "erspan1", "erspan2"])
        self.name = "s%d" % i
        self.raw = r.random() < 0.3
        self.a, self.b = rand_ip(r), rand_ip(r)
        self.pa, self.pb = rand_port(r), r.choice([4789, rand_port(r)])
        self._vni = r.choice([0, 1, 2**24 - 1, r.getrandbits(24)])
        self.et = r.choice([0x6558, 0x0800, 0x88be, r.getrandbits(16)])
        self.count = 0
        # how the session's options are written: by name, by position, or left to their defaults (VNI 0, framed)
        self.style = r.choice(["named", "named", "positional", "default"])

    @property
    def vni(self):
        # (the kind may be reassigned after construction: decided when asked)
        return 0 if (self.style == "default" and self.kind == "vxlan") else self._vni

    def decl(self):
        raw_written = self.raw or (self.style != "default" and self.kind != "vxlan" and hash(self.name) % 3 == 0)
        if self.style == "positional":
            if self.kind == "vxlan":
                return Let(self.name, Call("vxlan::session", SOCK(self.a, self.pa), SOCK(self.b, self.pb), INT(self.vni), BOOL(self.raw)))
            if self.kind == "gre":
                return Let(self.name, Call("gre::session", IP(self.a), IP(self.b), INT(self.et), *([BOOL(self.raw)] if raw_written else [])))
            return Let(self.name, Call(self.kind + "::session", IP(self.a), IP(self.b), *([BOOL(self.raw)] if raw_written else [])))
        kw = {"raw": self.raw} if raw_written else {}
        if self.kind == "vxlan":
            if self.style == "default":
                return Let(self.name, Call("vxlan::session", SOCK(self.a, self.pa), SOCK(self.b, self.pb), **kw))
            return Let(self.name, Call("vxlan::session", SOCK(self.a, self.pa), SOCK(self.b, self.pb), sessionid=self.vni, **kw))
        if self.kind == "gre":
            return Let(self.name, Call("gre::session", IP(self.a), IP(self.b), INT(self.et), **kw))
        return Let(self.name, Call(self.kind + "::session", IP(self.a), IP(self.b), **kw))


def inner_expr(r, g):
    """(expr, npk) -- a fresh inner packet expression built with the program generator's helpers"""
    k = r.random()
    if k < 0.2:
        mac = lambda: STR(bytes(r.getrandbits(8) for _ in range(6)))
        n = r.choice([0, 0, 1, 2, 30])
        return Call("eth::frame", mac(), mac(), _x=[STR(bytes(r.getrandbits(8) for _ in range(n)))]), 1
    e, npk, isgen = g.base_expr()
    return e, npk


def corner_pairs(ctx, first):
    """(a) inner frames so large that the outer IPv4 total length passes 65535 (every tunnel kind must still carry them
    whole), (b) one session used for more than 2^16 packets (sequence numbers are 32 bits wide)"""
    r = ctx.rng
    out = []
    i = first
    sizes = [65457, 65458, 65470, 65507] if ctx.thorough else [65458, 65507]
    for kind in ("vxlan", "gre", "erspan1", "erspan2"):
        for n in sizes:
            rr = random.Random(r.getrandbits(32))
            s = Sess(rr, 0)
            s.kind = kind
            fn = "c06big%d.bin" % i
            data = bytes(rr.getrandbits(8) for _ in range(n))
            e = Call("ipv4::udp::unicast", SOCK("1.2.3.4:1"), SOCK("1.2.3.5:2"), _x=[Call("io::file", STR("@WD@/" + fn))])
            head = [Import(m) for m in ("ipv4", "io", "vxlan", "gre", "erspan1", "erspan2", "eth")] + [s.decl()]
            plan = [(1, [(s, 0, 0)])]
            for tag, body in (("p", [Do(e)]), ("w", [Do(Call(s.name + ".encap", e))])):
                c = Case()
                c.name, c.stmts, c.files, c.text, c.meta = "%s%d" % (tag, i), head + body, {fn: data}, None, []
                c.gen = {"kind": "plain" if tag == "p" else "wrapped", "plan": plan, "pair": i, "corner": "inner-frame-%d" % (n + 42)}
                out.append(c)
            i += 1
    for kind in (("erspan2", "gre") if ctx.thorough else ("erspan2",)):
        rr = random.Random(r.getrandbits(32))
        s = Sess(rr, 0)
        s.kind = kind
        npk = 65540
        head = [Import(m) for m in ("ipv4", "vxlan", "gre", "erspan1", "erspan2", "eth")] + [s.decl()] + \
               [Let("q", Call("eth::frame", STR(b"\x02" * 6), STR(b"\x04" * 6), _x=[STR(b"xy")]))]
        plan = [(1, [(s, 0, k)]) for k in range(npk)]
        for tag, body in (("p", [Do(Ref("q"))] * npk), ("w", [Do(Call(s.name + ".encap", Ref("q")))] * npk)):
            c = Case()
            c.name, c.stmts, c.files, c.text, c.meta = "%s%d" % (tag, i), head + body, {}, None, []
            c.gen = {"kind": "plain" if tag == "p" else "wrapped", "plan": plan, "pair": i, "corner": "long-session", "sample": True}
            out.append(c)
        i += 1
    return out


def run(ctx):
    r = ctx.rng
    cases = []
    n = 300 if ctx.thorough else 60
    for i in range(n):
        seed = r.getrandbits(32)
        rr = random.Random(seed)
        sessions = [Sess(rr, k) for k in range(rr.randint(1, 4))]
        g = progs.ProgGen(rr, feats=["tcp", "udp", "icmp", "dgram", "frag", "dnshost"], tunnels=0.0, lets=0.0, jumps=0.0, maxlen=40)
        plain, wrapped, plan = [], [], []
        for _ in range(rr.randint(1, 6)):
            before = len(g.stmts)
            e, npk = inner_expr(rr, g)
            new = g.stmts[before:]               # object declarations the expression needs
            del g.stmts[before:]
            plain += new + [Do(e)]
            chain = [rr.choice(sessions) for _ in range(rr.randint(1, 4))]
            w = e
            layers = []
            for s in chain:
                kw = {}
                pix = None
                if s.kind == "erspan2" and rr.random() < 0.6:
                    pix = rr.choice([0, 1, 0xfffff, rr.getrandbits(20)])
                    kw["port_index"] = pix
                if s.kind == "vxlan" and npk == 1 and rr.random() < 0.4 and not layers:
                    w = Call(s.name + ".dgram", w)
                else:
                    w = Call(s.name + ".encap", w, **kw)
                layers.append((s, pix or 0, s.count))
                s.count += npk
            wrapped += new + [Do(w)]
            plan.append((npk, layers))
        head = g.stmts + [s.decl() for s in sessions]
        for tag, body in (("p", plain), ("w", wrapped)):
            c = Case()
            c.name, c.stmts, c.files, c.text, c.meta = "%s%d" % (tag, i), head + body, {}, None, []
            c.gen = {"kind": "plain" if tag == "p" else "wrapped", "plan": plan, "pair": i}
            cases.append(c)
    cases += corner_pairs(ctx, n)
    from props.c02 import fix_paths
    fix_paths([c for c in cases if c.files], common.BUILD + "/work/c06-%d" % os.getpid())
    diff.run_both(ctx, "c06", cases)
    byname = {c.name: c for c in cases}
    queries, owners = [], []
    for c in cases:
        ctx.count(c.gen["kind"])
        if c.gen["kind"] == "wrapped" and c.impl.status in ("crash", "timeout") and c.model["status"] == "ok":
            # every inner frame, from the smallest upward, must come out encapsulated: no output is a failure
            ctx.fail("tunnel-crash", "the compiler crashed while encapsulating: " + str(c.impl.kind)[:200], diff.replay_of(c))
        if not diff.triage(ctx, c):
            continue
        if c.gen["kind"] != "wrapped":
            continue
        p = byname["p%d" % c.gen["pair"]]
        if p.impl.status != "ok":
            continue
        okw, rw = common.pcap_records(c.impl.pcap)
        okp, rp = common.pcap_records(p.impl.pcap)
        before = len(ctx.violations)
        if len(rw) != len(rp):
            ctx.fail("tunnel-count", "%d outer packets for %d inner packets" % (len(rw), len(rp)), diff.replay_of(c, {"plain_program": p.text}))
            continue
        idx = 0
        nplan = len(c.gen["plan"])
        for pi, (npk, layers) in enumerate(c.gen["plan"]):
            for j in range(npk):
                if c.gen.get("sample") and not (pi < 3 or pi % 4099 == 0 or pi > 65530):
                    idx += 1
                    continue
                outer, inner = rw[idx][4], rp[idx][4]
                queries.append("peel " + outer.hex() + " " + " ".join(
                    "%s:%d:%d:%d:%d:%d:%d:%s:%d:%d" % (s.kind, 1 if s.raw else 0, s.pa, s.pb, s.vni, s.et, pix,
                                                      (cnt + j) % 2**32 if s.kind == "erspan2" else "-", s.a, s.b)
                    for (s, pix, cnt) in reversed(layers)))
                owners.append((c, p, idx, inner))
                idx += 1
        if len(rw) >= 2:
            ctx.distinct(c.text)
        if c.impl.pcap != c.model["pcap"]:
            okm, rm = common.pcap_records(c.model["pcap"])
            c.gen["model_equal"] = [x[4] for x in rw] == [x[4] for x in rm]
    answers = common.spec_batch(queries, "c06")
    bad = set()
    for (c, p, idx, inner), a in zip(owners, answers):
        if c.name in bad:
            continue
        if not a.startswith("OK "):
            bad.add(c.name)
            ctx.fail("tunnel-header:" + a.split(" ")[1] if a.startswith("BAD ") else "tunnel-header",
                     "record %d: %s" % (idx, a), diff.replay_of(c, {"plain_program": p.text}))
        elif a[3:] != (inner.hex() or "-"):
            bad.add(c.name)
            ctx.fail("tunnel-payload", "record %d: the tunnel payload differs from the inner frame" % idx,
                     diff.replay_of(c, {"plain_program": p.text}))
    for c in cases:
        if c.gen.get("model_equal") is False and c.name not in bad:
            ctx.fail("tunnel-frames-differ", "encapsulated frames differ from the model's", diff.replay_of(c), disagreement=True)
    ctx.dist["records_peeled"] = len(queries)
    diff.vacuity_guard(ctx, len(cases))
    ctx.sample({"plain": cases[0].text[-700:], "wrapped": cases[1].text[-900:]})


def replay(ctx, rp):
    ctx.count("replay")
    progs_ = {"wrapped": rp["program"]}
    if rp.get("plain_program"):
        progs_["plain"] = rp["plain_program"]
    d, res = common.run_programs("c06r", progs_)
    if res["wrapped"].status != "ok":
        return ctx.fail("replay-not-ok", "impl outcome %s" % res["wrapped"].status, {"program": rp["program"]})
    if rp.get("model", {}).get("pcap") and res["wrapped"].pcap.hex() != rp["model"]["pcap"]:
        ctx.fail("tunnel-frames-differ", "output differs from the model output recorded in the replay", {"program": rp["program"]})
