"""Program syntax trees: construction, rendering to .rsyn text, serialisation for the model driver."""
import random

# ---------------------------------------------------------------- expressions


class E:
    pass


class Lit(E):
    """kind: bool | int | hexint | ip | sock | str ; value: python value (bytes for str)"""

    def __init__(self, kind, value, spelling=None):
        self.kind, self.value, self.spelling = kind, value, spelling


class Ref(E):
    def __init__(self, path):
        mods, comps = split_path(path)
        self.mods, self.comps = mods, comps


class Call(E):
    """Call(path, *leading, _x=[collected...], **named): rendered as leading, named, collected --
    the only order in which a function with a variable tail accepts named arguments."""

    def __init__(self, path, *args, _x=(), **kw):
        mods, comps = split_path(path)
        self.mods, self.comps = mods, comps
        self.args = []
        for a in args:
            if isinstance(a, tuple):
                self.args.append((a[0], lift(a[1])))
            else:
                self.args.append((None, lift(a)))
        for k, v in kw.items():
            self.args.append((k, lift(v)))
        for a in _x:
            self.args.append((None, lift(a)))


class Slash(E):
    def __init__(self, a, b):
        self.a, self.b = lift(a), lift(b)


def split_path(path):
    """'ipv4::tcp::flow' -> (['ipv4','tcp'], ['flow']);  'f.open' -> ([], ['f','open'])"""
    parts = path.split("::")
    mods = parts[:-1]
    comps = parts[-1].split(".")
    return mods, comps


def ip(s):
    a = [int(x) for x in s.split(".")]
    return (a[0] << 24) | (a[1] << 16) | (a[2] << 8) | a[3]


def ipstr(v):
    return "%d.%d.%d.%d" % (v >> 24, (v >> 16) & 255, (v >> 8) & 255, v & 255)


def IP(s):
    return Lit("ip", ip(s) if isinstance(s, str) else s)


def SOCK(s, port=None):
    if port is None:
        a, p = s.split(":")
        return Lit("sock", (ip(a), int(p)))
    return Lit("sock", (ip(s) if isinstance(s, str) else s, port))


def STR(b, spelling=None):
    if isinstance(b, str):
        b = b.encode("utf-8")
    return Lit("str", bytes(b), spelling)


def INT(v):
    return Lit("int", v)


def HEX(v):
    return Lit("hexint", v)


def BOOL(v):
    return Lit("bool", bool(v))


def lift(x):
    if isinstance(x, E):
        return x
    if isinstance(x, bool):
        return BOOL(x)
    if isinstance(x, int):
        return INT(x)
    if isinstance(x, (bytes, bytearray)):
        return STR(bytes(x))
    if isinstance(x, str):
        return STR(x)
    raise TypeError(x)


# ---------------------------------------------------------------- statements

def Import(name):
    return ("import", name)


def Let(name, e):
    return ("let", name, lift(e))


def Do(e):
    return ("expr", lift(e))


# ---------------------------------------------------------------- rendering to source text

PRINTABLE = set(range(0x20, 0x7f)) - {ord('"'), ord('|')}


def render_bytes(b, rng=None, style=None):
    """A string literal denoting exactly the bytes b."""
    if style is None:
        if rng is None:
            style = "auto"
        else:
            style = rng.choice(["auto", "hex", "mixed"])
    if style == "auto":
        style = "text" if b and all(c in PRINTABLE for c in b) else "hex"
    if style == "text" and all(c in PRINTABLE for c in b):
        return '"' + b.decode("ascii") + '"'
    if style == "mixed" and rng is not None:
        out, i = [], 0
        while i < len(b):
            n = rng.randint(1, 6)
            chunk = b[i:i + n]
            if all(c in PRINTABLE for c in chunk) and rng.random() < 0.6:
                out.append(chunk.decode("ascii"))
            else:
                sep = rng.choice(["", " ", ":", "-", "."])
                out.append("|" + sep.join("%02x" % c for c in chunk) + "|")
            i += n
        return '"' + "".join(out) + '"'
    if not b:
        return '""'
    # long hex strings are split into adjacent literals of at most 32 bytes per line
    if len(b) <= 32:
        return '"|' + " ".join("%02x" % c for c in b) + '|"'
    parts = []
    for i in range(0, len(b), 32):
        parts.append('"|' + " ".join("%02x" % c for c in b[i:i + 32]) + '|"')
    return "\n    ".join(parts)


def render_expr(e, rng=None):
    if isinstance(e, Lit):
        if e.spelling is not None:
            return e.spelling
        if e.kind == "bool":
            return "true" if e.value else "false"
        if e.kind == "int":
            return str(e.value)
        if e.kind == "hexint":
            return "0x%x" % e.value
        if e.kind == "ip":
            return ipstr(e.value)
        if e.kind == "sock":
            return "%s:%d" % (ipstr(e.value[0]), e.value[1])
        if e.kind == "str":
            return render_bytes(e.value, rng)
        raise ValueError(e.kind)
    if isinstance(e, Ref):
        return "::".join(e.mods + [".".join(e.comps)])
    if isinstance(e, Call):
        args = []
        for n, a in e.args:
            s = render_expr(a, rng)
            args.append(("%s: %s" % (n, s)) if n else s)
        return "::".join(e.mods + [".".join(e.comps)]) + "(" + ", ".join(args) + ")"
    if isinstance(e, Slash):
        return render_expr(e.a, rng) + "/" + render_expr(e.b, rng)
    raise TypeError(e)


def render_program(stmts, rng=None):
    lines = []
    for s in stmts:
        if s[0] == "import":
            lines.append("import %s;" % s[1])
        elif s[0] == "let":
            lines.append("let %s = %s;" % (s[1], render_expr(s[2], rng)))
        elif s[0] == "expr":
            lines.append("%s;" % render_expr(s[1], rng))
        elif s[0] == "raw":
            lines.append(s[1])
    return "\n".join(lines) + "\n"


# ---------------------------------------------------------------- serialisation for the model driver

def ser_expr(e):
    if isinstance(e, Lit):
        if e.kind == "bool":
            return "lit b%d" % (1 if e.value else 0)
        if e.kind in ("int", "hexint"):
            return "lit u64:%d" % e.value
        if e.kind == "ip":
            return "lit ip:%d" % e.value
        if e.kind == "sock":
            return "lit sock:%d:%d" % e.value
        if e.kind == "str":
            return "lit str:%s" % (e.value.hex() or "-")
    if isinstance(e, Ref):
        return "ref %d %s %d %s" % (len(e.mods), " ".join(e.mods), len(e.comps), " ".join(e.comps))
    if isinstance(e, Call):
        parts = ["call %d %s %d %s %d" % (len(e.mods), " ".join(e.mods), len(e.comps), " ".join(e.comps),
                                          len(e.args))]
        for n, a in e.args:
            parts.append((n or "_") + " " + ser_expr(a))
        return " ".join(parts)
    if isinstance(e, Slash):
        return "slash " + ser_expr(e.a) + " " + ser_expr(e.b)
    raise TypeError(e)


def ser_case(cid, stmts, files=None):
    out = ["CASE %s" % cid]
    for p, c in (files or {}).items():
        out.append("FILE %s %s" % (p.encode().hex(), c.hex() or "-"))
    for s in stmts:
        if s[0] == "import":
            out.append("S import %s" % s[1])
        elif s[0] == "let":
            out.append("S let %s %s" % (s[1], ser_expr(s[2])))
        elif s[0] == "expr":
            out.append("S expr %s" % ser_expr(s[1]))
    out.append("END")
    return "\n".join(out) + "\n"


# ---------------------------------------------------------------- random ingredients

BOUNDARY_IPS = ["1.2.3.4", "1.2.3.5", "0.0.0.0", "255.255.255.255", "10.0.0.1", "192.168.1.254", "127.0.0.1",
                "224.0.0.251", "8.8.8.8", "172.16.254.3"]


def rand_ip(rng):
    if rng.random() < 0.7:
        return ip(rng.choice(BOUNDARY_IPS))
    return rng.getrandbits(32)


def rand_port(rng):
    return rng.choice([0, 1, 2, 53, 80, 443, 1024, 32768, 65535, rng.randint(0, 65535)])


def rand_payload(rng, maxlen=64):
    r = rng.random()
    if r < 0.15:
        n = 0
    elif r < 0.3:
        n = 1
    elif r < 0.9:
        n = rng.randint(2, maxlen)
    else:
        n = rng.choice([maxlen, maxlen * 2 + 1, 255, 256, 1400])
    k = rng.random()
    if k < 0.3:
        return bytes(rng.choice(b"abcdefghijklmnopqrstuvwxyz0123456789 ") for _ in range(n))
    if k < 0.4:
        return bytes([rng.choice([0, 255])]) * n
    return bytes(rng.getrandbits(8) for _ in range(n))
