"""Differential execution: the same programs through the real binary and the extracted model."""
import os, random, struct
import common, gen


class Case:
    """One program.  Either `stmts` (a syntax tree: rendered to text for the binary, serialised for the model)
    or `src` (source bytes: the same bytes go to the binary and to the model's whole pipeline, lexer included)."""
    __slots__ = ("name", "stmts", "files", "text", "impl", "model", "meta", "gen", "src", "_wd")

    def __init__(self):
        self.src = None
        self.stmts = None
        self.files = None
        self.text = None
        self.meta = None
        self.gen = None


def run_both(ctx, tag, cases, keep=False, model_verbose=False):
    """cases: list of Case with name, stmts, files (dict relname->bytes) set.  Fills text/impl/model."""
    d = common.workdir(tag)
    programs, case_text = {}, []
    allfiles = {}
    for c in cases:
        for fn, content in (c.files or {}).items():
            allfiles[fn] = content
    for c in cases:
        if c.src is not None:
            c.text = c.src.decode("utf-8", "replace")
            programs[c.name] = c.src
            continue
        if c.text is None:
            c.text = gen.render_program(c.stmts, random.Random(hash(c.name) & 0xffffffff))
        programs[c.name] = c.text
    # data files are referred to by absolute path inside the work directory
    wd, impl = common.run_programs(tag, programs, files=allfiles, keep=keep)
    for c in cases:
        mfiles = {os.path.join(wd, fn): content for fn, content in (c.files or {}).items()}
        if c.src is not None:
            lines = ["CASE %s" % c.name]
            for pth, content in mfiles.items():
                lines.append("FILE %s %s" % (pth.encode().hex(), content.hex() or "-"))
            lines += ["SRC %s" % (c.src.hex() or "-"), "END"]
            case_text.append("\n".join(lines) + "\n")
        else:
            case_text.append(gen.ser_case(c.name, c.stmts, mfiles))
    # (always verbose: the trace of library calls and the partial pcap of a failing run are part of what is recorded)
    model = common.run_model(tag, "".join(case_text), verbose=True)
    for c in cases:
        c.impl = impl[c.name]
        c.model = common.model_result(model.get(c.name, ["MISSING"]))
        c._wd = wd
    if ctx is not None:
        # T3: which library entry points the compared runs went through (the model's own call trace)
        keys = set(ctx.dist.get("library_keys_exercised_by_the_model", []))
        for c in cases:
            keys.update(k for k in (c.model.get("trace") or []) if k)
        ctx.dist["library_keys_exercised_by_the_model"] = sorted(keys)
        ctx.dist["library_keys_exercised_count"] = len(keys)
    if ctx is not None and not os.environ.get("VERIF_NO_RECHECK"):
        common.coq_recheck(ctx, tag, cases)
    return wd


def fix_file_paths(cases, wd):
    pass


def outcome_class(c):
    """(impl outcome class, model outcome class) for comparison"""
    i = c.impl
    if i.status == "ok":
        ic = "ok"
    elif i.status == "err":
        ic = "err:" + (i.kind or "")
    else:
        ic = i.status + ":" + (i.kind or "")
    m = c.model
    if m["status"] == "ok":
        mc = "ok"
    elif m["status"] == "err":
        mc = "err:" + m["kind"]
    else:
        mc = m["status"] + ":" + (m["kind"] or "")
    return ic, mc


def replay_of(c, extra=None):
    r = {"program": c.text if isinstance(c.text, str) else c.text.decode("utf-8", "replace"),
         "files": {k: v.hex() for k, v in (c.files or {}).items()},
         "impl": {"status": c.impl.status, "kind": c.impl.kind, "loc": c.impl.loc,
                  "pcap": c.impl.pcap.hex() if c.impl.pcap else None, "stdout": c.impl.stdout[-2000:]},
         "model": {"status": c.model["status"], "kind": c.model["kind"],
                   "pcap": c.model["pcap"].hex() if c.model.get("pcap") else None},
         "how": "write 'program' to a .rsyn file and run /verif/.build/target/debug/resynth on it"}
    if extra:
        r.update(extra)
    return r


# ---------------------------------------------------------------- a small independent decoder (harness glue)

def decode_frame(frame, raw=False):
    """-> list of layers [(name, dict)] ; tolerant, never raises"""
    out = []
    try:
        off = 0
        if not raw:
            if len(frame) < 14:
                return [("short", {})]
            out.append(("eth", {"dst": frame[0:6], "src": frame[6:12], "type": struct.unpack(">H", frame[12:14])[0]}))
            if out[-1][1]["type"] != 0x0800:
                return out
            off = 14
        return out + decode_ip(frame, off)
    except Exception as e:   # noqa
        return out + [("error", {"e": repr(e)})]


def decode_ip(b, off):
    out = []
    if len(b) < off + 20 or b[off] != 0x45:
        return [("notip", {})]
    tot, ident, frag, ttl, proto, csum, src, dst = struct.unpack(">HHHBBHII", b[off + 2:off + 20])
    out.append(("ip", {"off": off, "tot_len": tot, "id": ident, "frag": frag, "ttl": ttl, "proto": proto, "csum": csum,
                       "src": src, "dst": dst, "hdr": b[off:off + 20], "rest": len(b) - off}))
    l4 = off + 20
    if frag & 0x3fff:
        return out
    if proto == 6 and len(b) >= l4 + 20:
        sp, dp, seq, ack, doff, flags, win, cs, urp = struct.unpack(">HHIIBBHHH", b[l4:l4 + 20])
        out.append(("tcp", {"sport": sp, "dport": dp, "seq": seq, "ack": ack, "flags": flags, "csum": cs,
                            "payload": b[l4 + 20:], "seg": b[l4:]}))
    elif proto == 17 and len(b) >= l4 + 8:
        sp, dp, ln, cs = struct.unpack(">HHHH", b[l4:l4 + 8])
        out.append(("udp", {"sport": sp, "dport": dp, "len": ln, "csum": cs, "payload": b[l4 + 8:], "dgram": b[l4:]}))
        if len(b) >= l4 + 16 and b[l4 + 8] == 8 and (dp == 4789 or True) and False:
            pass
    elif proto == 1 and len(b) >= l4 + 8:
        typ, code, cs, ident2, seq = struct.unpack(">BBHHH", b[l4:l4 + 8])
        out.append(("icmp", {"type": typ, "code": code, "csum": cs, "id": ident2, "seq": seq, "payload": b[l4 + 8:],
                             "msg": b[l4:]}))
    elif proto == 47 and len(b) >= l4 + 4:
        fl, pr = struct.unpack(">HH", b[l4:l4 + 4])
        o = l4 + 4
        seq = None
        if fl & 0x1000:
            seq = struct.unpack(">I", b[o:o + 4])[0]
            o += 4
        out.append(("gre", {"flags": fl, "proto": pr, "seq": seq, "payload": b[o:]}))
    return out


def ones_sum(b):
    s = 0
    for i in range(0, len(b) - 1, 2):
        s += (b[i] << 8) | b[i + 1]
    if len(b) & 1:
        s += b[-1] << 8
    while s >> 16:
        s = (s & 0xffff) + (s >> 16)
    return s


def verifies(b):
    return ones_sum(b) == 0xffff


def triage(ctx, c):
    """True when both sides succeeded and the case is to be compared.  An implementation crash is
    C08's business: it is counted, not compared.  Any other difference in outcome class is a
    broken correspondence."""
    ic, mc = outcome_class(c)
    sk = ctx.dist.setdefault("outcomes", {})
    sk[ic] = sk.get(ic, 0) + 1
    if c.impl.status in ("crash", "timeout"):
        ctx.dist["impl_crashes_left_to_C08"] = ctx.dist.get("impl_crashes_left_to_C08", 0) + 1
        return False
    if ic == "ok" and mc == "ok":
        ctx.dist["compared"] = ctx.dist.get("compared", 0) + 1
        return True
    if ic == mc:
        return False
    ctx.fail("outcome-differs", "impl %s, model %s" % (ic, mc), replay_of(c), disagreement=True)
    return False


def vacuity_guard(ctx, total, least=0.5):
    n = ctx.dist.get("compared", 0)
    ctx.obligation("at least %d%% of the %d generated cases succeeded on both sides and were compared (%d)"
                   % (int(least * 100), total, n), total == 0 or n >= least * total)


def ip_datagrams(frame, raw, depth=0, maxdepth=6):
    """All IPv4 datagrams in a frame, at every tunnel depth: [(depth, datagram-bytes-to-end, layers)]"""
    out = []
    off = 0
    if not raw:
        if len(frame) < 34 or frame[12:14] != b"\x08\x00":
            return out
        off = 14
    if len(frame) < off + 20 or frame[off] != 0x45:
        return out
    d = frame[off:]
    out.append((depth, d))
    if depth >= maxdepth:
        return out
    proto = d[9]
    frag = struct.unpack(">H", d[6:8])[0]
    if frag & 0x1fff:
        return out
    inner = None
    if proto == 17 and len(d) >= 36 and d[28:32] == b"\x08\x00\x00\x00":
        inner = d[36:]
    elif proto == 47 and len(d) >= 24:
        fl, pr = struct.unpack(">HH", d[20:24])
        o = 24 + (4 if fl & 0x1000 else 0)
        if pr == 0x88be and fl & 0x1000:
            o += 8
        inner = d[o:]
    if inner is not None:
        if len(inner) >= 34 and inner[12:14] == b"\x08\x00" and inner[14] == 0x45:
            out += ip_datagrams(inner, False, depth + 1, maxdepth)
        elif len(inner) >= 20 and inner[0] == 0x45:
            out += ip_datagrams(inner, True, depth + 1, maxdepth)
    return out


def frame_is_raw(frame):
    """records produced with raw: true start with the IPv4 header"""
    if len(frame) >= 34 and frame[12:14] == b"\x08\x00" and frame[14] == 0x45:
        return False
    return len(frame) >= 20 and frame[0] == 0x45
