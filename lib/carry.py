"""Directed inputs for one's-complement arithmetic: a first pass through the real binary measures the sums of
everything but one free 16-bit word, then the free word is solved for so that the sums land on the carry
boundaries a random input meets about once in 65536 packets."""
import struct
import common, diff
from diff import Case
from gen import *


def raw_sum(b):
    s = 0
    for i in range(0, len(b) - 1, 2):
        s += (b[i] << 8) | b[i + 1]
    if len(b) & 1:
        s += b[-1] << 8
    return s


def red(s):
    while s >> 16:
        s = (s & 0xffff) + (s >> 16)
    return s


def first_fold_carries(s):
    """the 16-bit fold of s itself carries (two folds needed)"""
    return (s & 0xffff) + (s >> 16) >= 0x10000


def pick(pred, limit=2, lo=0):
    out = []
    for x in range(lo, 0x10000):
        if pred(x):
            out.append(x)
            if len(out) >= limit:
                break
    return out


def ip_id_cases(ctx, n):
    """ipv4::datagram with the id solved for: header sums whose fold carries, or that are 0 mod 0xffff"""
    r = ctx.rng
    tmpl = []
    for i in range(n):
        src, dst = rand_ip(r), rand_ip(r)
        if i % 2 == 0:                      # large words make the high half of the sum big
            src |= 0xf000f000; dst |= 0xf000f000
        pl = rand_payload(r, 30)
        kw = {"ttl": r.choice([64, 255, r.getrandbits(8)]), "proto": r.choice([1, 6, 17, 255])}
        tmpl.append((src, dst, pl, kw))
    progs1 = {}
    for i, (src, dst, pl, kw) in enumerate(tmpl):
        progs1["q%d" % i] = render_program([Import("ipv4"), Do(Call("ipv4::datagram", IP(src), IP(dst), _x=[STR(pl)], id=0, **kw))])
    _, res = common.run_programs("carry-ip", progs1)
    cases, hits = [], {"fold-carry": 0, "zero-mod": 0}
    for i, (src, dst, pl, kw) in enumerate(tmpl):
        rr = res["q%d" % i]
        if rr.status != "ok":
            continue
        ok, recs = common.pcap_records(rr.pcap)
        if not recs:
            continue
        h = recs[0][4][14:34]
        s0 = raw_sum(h[:10] + b"\0\0" + h[12:])
        xs = [("fold-carry", x) for x in pick(lambda x: first_fold_carries(s0 + x))] + \
             [("zero-mod", x) for x in pick(lambda x: (s0 + x) % 0xffff == 0, 1)]
        for kind, x in xs:
            hits[kind] += 1
            c = Case()
            c.name, c.files, c.text, c.meta = "k%d_%d" % (i, x), {}, None, []
            c.gen = {"kind": "ip-carry", "carry": kind}
            c.stmts = [Import("ipv4"), Do(Call("ipv4::datagram", IP(src), IP(dst), _x=[STR(pl)], id=x, **kw))]
            cases.append(c)
    ctx.dist["ip_carry_directed"] = dict(hits)
    return cases


def l4_cases(ctx, n):
    """TCP / UDP / ICMP messages whose last payload word is solved for: payload partial sums whose fold carries,
    totals of the three partial sums that need the second fold (0x1ffff, 0x2fffe ...), totals that are 0 mod 0xffff"""
    r = ctx.rng
    tmpl = []
    for i in range(n):
        kind = ("tcp", "udp", "icmp")[i % 3]
        src, dst = rand_ip(r) | 0x80008000, rand_ip(r) | 0x80008000
        sp, dp = rand_port(r) | 0x8000, rand_port(r) | 0x8000
        body = bytes(r.getrandbits(8) for _ in range(r.choice([0, 2, 10, 100, 1398])))
        tmpl.append((kind, src, dst, sp, dp, body))

    def stmts(t, x):
        kind, src, dst, sp, dp, body = t
        pl = STR(body + struct.pack(">H", x))
        if kind == "tcp":
            return [Import("ipv4"), Let("t", Call("ipv4::tcp::flow", SOCK(src, sp), SOCK(dst, dp))), Do(Call("t.client_message", _x=[pl]))]
        if kind == "udp":
            return [Import("ipv4"), Let("u", Call("ipv4::udp::flow", SOCK(src, sp), SOCK(dst, dp))), Do(Call("u.client_dgram", _x=[pl]))]
        return [Import("ipv4"), Let("i", Call("ipv4::icmp::flow", IP(src), IP(dst))), Do(Call("i.echo", pl))]

    _, res = common.run_programs("carry-l4", {"q%d" % i: render_program(stmts(t, 0)) for i, t in enumerate(tmpl)})
    cases, hits = [], {"payload-fold-carry": 0, "total-second-fold": 0, "total-zero-mod": 0}
    for i, t in enumerate(tmpl):
        rr = res["q%d" % i]
        if rr.status != "ok":
            continue
        ok, recs = common.pcap_records(rr.pcap)
        if not recs:
            continue
        d = recs[0][4][14:]
        l4 = d[20:]
        kind, body = t[0], t[5]
        hl = {"tcp": 20, "udp": 8, "icmp": 8}[kind]
        co = {"tcp": 16, "udp": 6, "icmp": 2}[kind]
        hdr = l4[:co] + b"\0\0" + l4[co + 2:hl]
        pseudo = d[12:20] + struct.pack(">BBH", 0, d[9], len(l4))
        B = raw_sum(body)
        if kind == "icmp":
            whole = raw_sum(hdr) + B
            xs = [("payload-fold-carry", x) for x in pick(lambda x: first_fold_carries(whole + x))] + \
                 [("total-zero-mod", x) for x in pick(lambda x: (whole + x) % 0xffff == 0, 1)]
        else:
            P, H = red(raw_sum(pseudo)), red(raw_sum(hdr))
            tot = lambda x: P + H + red(B + x)
            xs = [("payload-fold-carry", x) for x in pick(lambda x: first_fold_carries(B + x), 1)] + \
                 [("total-second-fold", x) for x in pick(lambda x: first_fold_carries(tot(x)))] + \
                 [("total-zero-mod", x) for x in pick(lambda x: tot(x) % 0xffff == 0, 1)]
        for k, x in xs:
            hits[k] += 1
            c = Case()
            c.name, c.files, c.text, c.meta = "y%d_%d" % (i, x), {}, None, []
            c.gen = {"kind": "l4-carry", "carry": k}
            c.stmts = stmts(t, x)
            cases.append(c)
    ctx.dist["l4_carry_directed"] = dict(hits)
    return cases


def tunnel_len_cases(ctx, n):
    """GRE / ERSPAN / VXLAN outer headers whose word sum is steered (through the low half of the session's destination
    address, measured in a first pass) onto the residues 0, 1, 2, 0xfffe mod 0xffff and onto sums whose fold carries:
    the cases an incrementally updated or once-folded checksum gets wrong"""
    r = ctx.rng
    tmpl = []
    for i in range(n):
        kind = ("gre", "erspan1", "erspan2", "vxlan")[i % 4]
        a, b = rand_ip(r) | (0xf000f000 if i % 3 == 0 else 0), rand_ip(r) & 0xffff0000
        tmpl.append((kind, a, b, r.choice([0, 1, 58, 100, 333])))

    def stmts(t, w):
        kind, a, b, ln = t
        b = b | w
        decl = {"gre": Call("gre::session", IP(a), IP(b), INT(0x6558)), "erspan1": Call("erspan1::session", IP(a), IP(b)),
                "erspan2": Call("erspan2::session", IP(a), IP(b)),
                "vxlan": Call("vxlan::session", SOCK(a, 4789), SOCK(b, 4789))}[kind]
        inner = Call("ipv4::udp::unicast", SOCK("1.2.3.4:1"), SOCK("1.2.3.5:2"), _x=[STR(b"\x5a" * ln)])
        return [Import(m) for m in ("ipv4", "gre", "erspan1", "erspan2", "vxlan")] + [Let("s", decl), Do(Call("s.encap", inner))]

    _, res = common.run_programs("carry-tun", {"q%d" % i: render_program(stmts(t, 0)) for i, t in enumerate(tmpl)})
    cases, hits = [], {}
    for i, t in enumerate(tmpl):
        rr = res["q%d" % i]
        if rr.status != "ok":
            continue
        ok, recs = common.pcap_records(rr.pcap)
        if not recs:
            continue
        h = recs[0][4][14:34]
        s0 = raw_sum(h[:10] + b"\0\0" + h[12:])
        want = [("residue-%d" % resid, (resid - s0) % 0xffff) for resid in (0, 1, 2, 0xfffe)]
        want += [("fold-carry", x) for x in pick(lambda x: first_fold_carries(s0 + x), 1)]
        for k, w in want:
            hits[k] = hits.get(k, 0) + 1
            c = Case()
            c.name, c.files, c.text, c.meta = "u%d_%d" % (i, w), {}, None, []
            c.gen = {"kind": "tunnel-carry", "carry": k}
            c.stmts = stmts(t, w)
            cases.append(c)
    ctx.dist["tunnel_carry_directed"] = dict(hits)
    return cases
