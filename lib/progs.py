"""Random packet programs over the whole builder surface, with per-statement annotations.

Every random choice comes from the rng handed in, so a (seed, index) pair replays exactly."""
from gen import *


class ProgGen:
    """Builds one program.  meta[i] describes statement i: {'kind', 'npk', ...}"""

    def __init__(self, rng, feats=None, maxlen=64, overrides=0.0, jumps=0.15, tunnels=0.2, lets=0.25,
                 raw=0.25, big=0.0):
        self.r = rng
        self.stmts = [Import("ipv4"), Import("time"), Import("vxlan"), Import("gre"), Import("erspan1"),
                      Import("erspan2"), Import("eth"), Import("dns"), Import("std"), Import("text")]
        self.meta = [{"kind": "import", "npk": 0} for _ in self.stmts]
        self.feats = feats or ["tcp", "udp", "icmp", "dgram", "frag", "frame", "dnshost"]
        self.maxlen, self.p_over, self.p_jump, self.p_tun, self.p_let, self.p_raw = maxlen, overrides, jumps, tunnels, lets, raw
        self.p_big = big
        self.n = 0
        self.tcp, self.udp, self.icmp, self.frag, self.tun = [], [], [], [], []
        self.stored = []      # (name, npk)
        self.files = {}

    def fresh(self, p):
        self.n += 1
        return "%s%d" % (p, self.n)

    def add(self, stmt, **meta):
        self.stmts.append(stmt)
        m = {"kind": stmt[0], "npk": 0}
        m.update(meta)
        self.meta.append(m)

    def payload(self):
        if self.p_big and self.r.random() < self.p_big:
            n = self.r.choice([1400, 1472, 4000, 9000])
            return bytes(self.r.getrandbits(8) for _ in range(n))
        return rand_payload(self.r, self.maxlen)

    def payload_args(self):
        """payload as 0..3 collected arguments, sometimes via helpers or coerced values"""
        r = self.r
        k = r.random()
        if k < 0.6:
            return [STR(self.payload())]
        if k < 0.75:
            return [STR(self.payload()), STR(self.payload())]
        if k < 0.8:
            return []
        if k < 0.88:
            return [Call("text::concat", STR(self.payload()), STR(self.payload()))]
        if k < 0.94:
            return [Call("std::be32", INT(r.getrandbits(32))), STR(self.payload())]
        return [INT(r.getrandbits(16)), IP(rand_ip(r))]

    def rawflag(self):
        return self.r.random() < self.p_raw

    # ---- object creation
    def endpoints(self):
        """two sockets; now and then the same port on both sides, or the same host on both sides (never both): a flow is
        told from its reverse by the pair, not by the port or the address alone"""
        r = self.r
        a, b, pa, pb = rand_ip(r), rand_ip(r), rand_port(r), rand_port(r)
        k = r.random()
        if k < 0.12:
            pb = pa
            if a == b:
                b ^= 1
        elif k < 0.17:
            b = a
            if pa == pb:
                pb ^= 1
        return SOCK(a, pa), SOCK(b, pb)

    def new_tcp(self):
        r = self.r
        name = self.fresh("t")
        kw = {}
        if r.random() < 0.5:
            kw["cl_seq"] = r.choice([0, 1, 1000, 2**31, 2**32 - 1, 2**32 - 3, r.getrandbits(32)])
        if r.random() < 0.5:
            kw["sv_seq"] = r.choice([0, 1, 5000, 2**31 - 1, 2**32 - 1, 2**32 - 2, r.getrandbits(32)])
        if self.rawflag():
            kw["raw"] = True
        self.add(Let(name, Call("ipv4::tcp::flow", *self.endpoints(), **kw)),
                 what="tcpflow")
        self.tcp.append(name)
        return name

    def new_udp(self):
        r = self.r
        name = self.fresh("u")
        kw = {"raw": True} if self.rawflag() else {}
        self.add(Let(name, Call("ipv4::udp::flow", *self.endpoints(), **kw)),
                 what="udpflow")
        self.udp.append(name)
        return name

    def new_icmp(self):
        r = self.r
        name = self.fresh("i")
        kw = {"raw": True} if self.rawflag() else {}
        self.add(Let(name, Call("ipv4::icmp::flow", IP(rand_ip(r)), IP(rand_ip(r)), **kw)), what="icmpflow")
        self.icmp.append(name)
        return name

    def new_frag(self):
        r = self.r
        name = self.fresh("g")
        kw = {}
        if r.random() < 0.4:
            kw["id"] = r.getrandbits(16)
        if r.random() < 0.3:
            kw["df"] = True
        if r.random() < 0.2:
            kw["evil"] = True
        if r.random() < 0.3:
            kw["ttl"] = r.choice([0, 1, 64, 255])
        if r.random() < 0.3:
            kw["proto"] = r.choice([1, 6, 17, 47, 255])
        pl = rand_payload(r, self.maxlen * 2)
        self.add(Let(name, Call("ipv4::frag", IP(rand_ip(r)), IP(rand_ip(r)), _x=[STR(pl)], **kw)), what="fragctx")
        self.frag.append((name, len(pl)))
        return name, len(pl)

    def new_tunnel(self):
        r = self.r
        kind = r.choice(["vxlan", "gre", "erspan1", "erspan2"])
        name = self.fresh("s")
        kw = {"raw": True} if self.rawflag() else {}
        if kind == "vxlan":
            if r.random() < 0.7:
                kw["sessionid"] = r.choice([0, 1, 0xabcdef, 2**24 - 1, r.getrandbits(24)])
            e = Call("vxlan::session", SOCK(rand_ip(r), rand_port(r)), SOCK(rand_ip(r), r.choice([4789, rand_port(r)])), **kw)
        elif kind == "gre":
            e = Call("gre::session", IP(rand_ip(r)), IP(rand_ip(r)), INT(r.choice([0x6558, 0x0800, 0x88be, r.getrandbits(16)])), **kw)
        else:
            e = Call("%s::session" % kind, IP(rand_ip(r)), IP(rand_ip(r)), **kw)
        self.add(Let(name, e), what="tunnel", tkind=kind)
        self.tun.append((name, kind))
        return name, kind

    # ---- packet-valued expressions: return (expr, npk, isgen)
    def overrides(self):
        kw = {}
        r = self.r
        if r.random() < self.p_over:
            kw["seq"] = r.choice([0, 1, 1000, 2**32 - 1, r.getrandbits(32)])
        if r.random() < self.p_over:
            kw["ack"] = r.choice([0, 7, 2**31, 2**32 - 1, r.getrandbits(32)])
        return kw

    def tcp_expr(self):
        r = self.r
        f = r.choice(self.tcp) if self.tcp and r.random() < 0.8 else self.new_tcp()
        op = r.choice(["open", "client_message", "server_message", "client_message", "server_message",
                       "client_segment", "server_segment", "client_ack", "server_ack", "client_close",
                       "server_close", "client_reset", "server_reset"])
        if op in ("open", "client_close", "server_close"):
            return Call(f + "." + op), 3, True
        if op in ("client_reset", "server_reset"):
            return Call(f + "." + op), 1, False
        if op in ("client_ack", "server_ack"):
            return Call(f + "." + op, **self.overrides()), 1, False
        if op in ("client_segment", "server_segment"):
            return Call(f + "." + op, _x=self.payload_args(), **self.overrides()), 1, False
        kw = self.overrides()
        npk = 2
        if r.random() < 0.3:
            kw["send_ack"] = False
            npk = 1
        if r.random() < 0.1:
            kw["frag_off"] = r.choice([0, 1, 185, 8191])
        return Call(f + "." + op, _x=self.payload_args(), **kw), npk, True

    def udp_expr(self):
        r = self.r
        k = r.random()
        if k < 0.5:
            f = r.choice(self.udp) if self.udp and r.random() < 0.8 else self.new_udp()
            kw = {}
            if r.random() < 0.2:
                kw["frag_off"] = r.choice([0, 5, 8191])
            if r.random() < 0.25:
                kw["csum"] = False
            return Call(f + "." + r.choice(["client_dgram", "server_dgram"]), _x=self.payload_args(), **kw), 1, False
        kw = {"raw": True} if self.rawflag() else {}
        if k < 0.8:
            return Call("ipv4::udp::unicast", SOCK(rand_ip(r), rand_port(r)), SOCK(rand_ip(r), rand_port(r)),
                        _x=self.payload_args(), **kw), 1, False
        if r.random() < 0.4:
            kw["srcip"] = IP(rand_ip(r))
        return Call("ipv4::udp::broadcast", SOCK(rand_ip(r), rand_port(r)), SOCK(ip("255.255.255.255"), rand_port(r)),
                    _x=self.payload_args(), **kw), 1, False

    def icmp_expr(self):
        r = self.r
        f = r.choice(self.icmp) if self.icmp and r.random() < 0.8 else self.new_icmp()
        return Call(f + "." + r.choice(["echo", "echo_reply"]), STR(self.payload())), 1, False

    def dgram_expr(self):
        r = self.r
        kw = {}
        if r.random() < 0.4:
            kw["id"] = r.getrandbits(16)
        for b in ("evil", "df", "mf"):
            if r.random() < 0.25:
                kw[b] = True
        if r.random() < 0.3:
            kw["ttl"] = r.choice([0, 1, 128, 255])
        if r.random() < 0.3:
            kw["frag_off"] = r.choice([0, 1, 100, 8191])
        if r.random() < 0.4:
            kw["proto"] = r.choice([1, 6, 17, 47, 0, 255])
        return Call("ipv4::datagram", IP(rand_ip(r)), IP(rand_ip(r)), _x=self.payload_args(), **kw), 1, False

    def frag_expr(self):
        r = self.r
        if self.frag and r.random() < 0.7:
            name, plen = r.choice(self.frag)
        else:
            name, plen = self.new_frag()
        blocks = (plen + 7) // 8
        kw = {"raw": True} if self.rawflag() else {}
        k = r.random()
        if k < 0.6:
            off = r.randint(0, max(0, plen // 8))
            ln = r.choice([0, 1, 2, blocks, blocks + 3, r.randint(0, blocks + 1)])
            return Call(name + ".fragment", INT(off), INT(ln), **kw), 1, False
        if k < 0.8:
            return Call(name + ".tail", INT(r.randint(0, max(0, plen // 8))), **kw), 1, False
        return Call(name + ".datagram", **kw), 1, False

    def frame_expr(self):
        r = self.r
        kw = {}
        if r.random() < 0.5:
            kw["ethertype"] = r.choice([0x0800, 0x86dd, 0x8100, r.getrandbits(16)])
        # a hand-made frame must not look like a tool-built IPv4 datagram to the frame walker of the oracles
        # (which recognises one by a leading 0x45): neither MAC nor the payload starts with 0x45
        no45 = lambda b: bytes([b[0] ^ 1]) + b[1:] if b[:1] == b"\x45" else b
        mac = lambda: STR(no45(bytes(r.getrandbits(8) for _ in range(6))))
        lead = STR(no45(bytes([r.getrandbits(8)])))
        return Call("eth::frame", mac(), mac(), _x=[lead] + self.payload_args(), **kw), 1, False

    def dnshost_expr(self):
        r = self.r
        labels = [bytes(r.choice(b"abcdefghijklmnopqrstuvwxyz0123456789-") for _ in range(r.randint(1, 12)))
                  for _ in range(r.randint(1, 4))]
        kw = {}
        if r.random() < 0.3:
            kw["ttl"] = r.getrandbits(32)
        if r.random() < 0.3:
            kw["ns"] = IP(rand_ip(r))
        if self.rawflag():
            kw["raw"] = True
        addrs = [IP(rand_ip(r)) for _ in range(r.choice([0, 1, 1, 2, 3]))]
        return Call("dns::host", IP(rand_ip(r)), STR(b".".join(labels)), _x=addrs, **kw), 2, True

    def base_expr(self):
        f = self.r.choice(self.feats)
        return getattr(self, f + "_expr")()

    def pkt_expr(self, depth=0):
        r = self.r
        if self.stored and r.random() < 0.15:
            name, npk, isgen = r.choice(self.stored)
            e, npk, isgen = Ref(name), npk, isgen
        else:
            e, npk, isgen = self.base_expr()
        while depth < 3 and r.random() < self.p_tun:
            if self.tun and r.random() < 0.7:
                name, kind = r.choice(self.tun)
            else:
                name, kind = self.new_tunnel()
            if kind == "vxlan" and not isgen and r.random() < 0.5:
                e = Call(name + ".dgram", e)
            else:
                kw = {}
                if kind == "erspan2" and r.random() < 0.5:
                    kw["port_index"] = r.choice([0, 1, 0xfffff, r.getrandbits(20), r.getrandbits(32)])
                e, isgen = Call(name + ".encap", e, **kw), True
            depth += 1
        return e, npk, isgen

    def jump(self):
        r = self.r
        unit = r.choice(["seconds", "millis", "micros", "nanos"])
        mag = r.choice([0, 1, 999, 1000, 999999, 1000000, 999999999, 1000000000, r.randint(0, 5000),
                        r.randint(0, 3000000)])
        if unit == "seconds":
            mag = r.choice([0, 1, 2, 59, 3600, r.randint(0, 100000)])
        ns = mag * {"seconds": 10**9, "millis": 10**6, "micros": 10**3, "nanos": 1}[unit]
        self.add(Do(Call("time::jump_" + unit, INT(mag))), what="jump", ns=ns)

    def step(self):
        r = self.r
        if r.random() < self.p_jump:
            return self.jump()
        k = r.random()
        if self.tcp and k < 0.06:
            f = r.choice(self.tcp)
            return self.add(Do(Call(f + "." + r.choice(["client_hole", "server_hole"]),
                                    INT(r.choice([0, 1, 100, 1460, 2**32 - 1, r.getrandbits(16)])))), what="hole")
        if self.stored and k < 0.2:
            name, npk, isgen = r.choice(self.stored)
            return self.add(Do(Ref(name)), npk=npk, what="emit-stored")
        e, npk, isgen = self.pkt_expr()
        if r.random() < self.p_let:
            name = self.fresh("p")
            self.add(Let(name, e), what="store")
            self.stored.append((name, npk, isgen))
        else:
            self.add(Do(e), npk=npk, what="emit")

    def build(self, nsteps):
        for _ in range(nsteps):
            self.step()
        return self


def random_program(rng, nsteps=None, **kw):
    g = ProgGen(rng, **kw)
    g.build(nsteps if nsteps is not None else rng.randint(0, 14))
    return g
