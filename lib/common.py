"""Shared machinery for the per-property checks: builds, running both sides, evidence."""
import random, shutil, fcntl, hashlib, json, os, re, shutil, subprocess, sys, time

VERIF = os.path.dirname(os.path.dirname(os.path.abspath(__file__)))
# VERIF_REPO / VERIF_BUILD are used only by self-tests that point the machinery at a scratch copy of
# the repository; registered checks run with the defaults (/repo, /verif/.build).
REPO = os.environ.get("VERIF_REPO", "/repo")
BUILD = os.environ.get("VERIF_BUILD", os.path.join(VERIF, ".build"))
COQ = os.path.join(VERIF, "coq")
HOOK_FLAGS = "--cfg resynth_verif"
NPROC = os.cpu_count() or 4

ENV = dict(os.environ)
ENV.update({"CARGO_NET_OFFLINE": "true", "RUSTFLAGS": HOOK_FLAGS, "LC_ALL": "C"})


def log(*a):
    print(*a, file=sys.stderr, flush=True)


def sh(cmd, cwd=None, env=None, timeout=3600, check=True, capture=True):
    r = subprocess.run(cmd, cwd=cwd, env=env or ENV, timeout=timeout, shell=isinstance(cmd, str),
                       stdout=subprocess.PIPE if capture else None,
                       stderr=subprocess.STDOUT if capture else None)
    out = r.stdout.decode("utf-8", "replace") if capture else ""
    if check and r.returncode != 0:
        raise BuildError("command failed (%d): %s\n%s" % (r.returncode, cmd, out[-4000:]))
    return r.returncode, out


class BuildError(Exception):
    pass


class Lock:
    """One lock for everything that writes shared build products (cargo targets, .vo files, model binaries)."""

    def __init__(self, name="lock"):
        os.makedirs(BUILD, exist_ok=True)
        os.makedirs(os.path.join(VERIF, ".build"), exist_ok=True)
        self.path = os.path.join(VERIF, ".build", name)

    def __enter__(self):
        self.f = open(self.path, "w")
        fcntl.flock(self.f, fcntl.LOCK_EX)
        return self

    def __exit__(self, *a):
        fcntl.flock(self.f, fcntl.LOCK_UN)
        self.f.close()


def write_if_changed(path, text):
    try:
        if open(path).read() == text:
            return False
    except OSError:
        pass
    tmp = path + ".tmp%d" % os.getpid()
    with open(tmp, "w") as f:
        f.write(text)
    os.replace(tmp, path)
    return True


RESYNTH = os.path.join(BUILD, "target", "debug", "resynth")
HARNESS_DIR = os.path.join(BUILD, "htarget", "debug")
MODEL_DIR = os.path.join(VERIF, ".build", "model")      # the model does not depend on the repository copy
MODEL = os.path.join(MODEL_DIR, "rsmodel_run")


def model_bin(name):
    return os.path.join(MODEL_DIR, "rsmodel_" + name)


def coq_sources():
    out = []
    for root, _, files in os.walk(os.path.join(COQ, "theories")):
        for f in sorted(files):
            if f.endswith(".v"):
                out.append(os.path.relpath(os.path.join(root, f), COQ))
    return sorted(out)


def ensure_coq_makefile():
    """_CoqProject lists every theories/*.v plus the generated files; regenerate Makefile if it changed."""
    files = coq_sources()
    gen = sorted("gen/" + f for f in os.listdir(os.path.join(COQ, "gen")) if f.endswith(".v"))
    proj = "-Q theories RS\n-Q gen RSGen\n" \
           "-arg -w -arg -notation-overridden,-deprecated-hint-without-locality,-deprecated-instance-without-locality,-unknown-option\n" \
           + "\n".join(gen + files) + "\n"
    changed = write_if_changed(os.path.join(COQ, "_CoqProject"), proj)
    if changed or not os.path.exists(os.path.join(COQ, "Makefile")):
        sh("coq_makefile -f _CoqProject -o Makefile", cwd=COQ)


def build_rust():
    t = time.time()
    sh(["cargo", "build", "--offline", "--target-dir", os.path.join(BUILD, "target")], cwd=REPO, timeout=1800)
    # the harness crate is instantiated for the repository being checked (path dependencies)
    hsrc = os.path.join(VERIF, "harness")
    hdir = os.path.join(BUILD, "harness")
    os.makedirs(os.path.join(hdir, "src", "bin"), exist_ok=True)
    os.makedirs(os.path.join(hdir, ".cargo"), exist_ok=True)
    write_if_changed(os.path.join(hdir, "Cargo.toml"),
                     open(os.path.join(hsrc, "Cargo.toml.in")).read().replace("@REPO@", REPO))
    write_if_changed(os.path.join(hdir, ".cargo", "config.toml"), "[net]\noffline = true\n")
    write_if_changed(os.path.join(hdir, "Cargo.lock"), open(os.path.join(REPO, "Cargo.lock")).read())
    keep = set()
    for root, _, files in os.walk(os.path.join(hsrc, "src")):
        for f in files:
            if f.endswith(".rs"):
                rel = os.path.relpath(os.path.join(root, f), hsrc)
                keep.add(rel)
                os.makedirs(os.path.dirname(os.path.join(hdir, rel)), exist_ok=True)
                write_if_changed(os.path.join(hdir, rel), open(os.path.join(root, f)).read())
    for root, _, files in os.walk(os.path.join(hdir, "src")):
        for f in files:
            rel = os.path.relpath(os.path.join(root, f), hdir)
            if rel not in keep:
                os.unlink(os.path.join(root, f))
    sh(["cargo", "build", "--offline", "--target-dir", os.path.join(BUILD, "htarget")], cwd=hdir, timeout=1800)
    return time.time() - t


def _gen_tables(gendir):
    """run the translators against the current build; returns the path of catalogue.json"""
    os.makedirs(gendir, exist_ok=True)
    rc, out = sh([os.path.join(HARNESS_DIR, "catalogue")])
    cat = os.path.join(BUILD, "catalogue.json")
    write_if_changed(cat, out)
    tmp = os.path.join(BUILD, "Catalogue.v.new")
    sh([sys.executable, os.path.join(VERIF, "translators", "catalogue.py"), cat, tmp])
    write_if_changed(os.path.join(gendir, "Catalogue.v"), open(tmp).read())
    for name in ("execscripts.py", "registry.py"):
        tr = os.path.join(VERIF, "translators", name)
        if os.path.exists(tr):
            sh([sys.executable, tr, REPO, gendir])
    return cat


def regen_tables():
    """T1: tables regenerated from the running code."""
    global COQ
    if "VERIF_REPO" not in os.environ or os.environ.get("VERIF_SELFTEST_REGEN"):
        _gen_tables(os.path.join(COQ, "gen"))
        return
    # self-test against a scratch copy of the repository: the shared coq/gen keeps describing /repo.  The tables
    # of the scratch tree are generated aside; when they differ from the shared ones (a change to a signature,
    # a constant, a doc comment, an exec body) the whole Coq project is copied into this run's build directory
    # and rebuilt there with the new tables, exactly as ./check would do on /repo itself.
    probe = os.path.join(BUILD, "gen_probe")
    shutil.rmtree(probe, ignore_errors=True)
    _gen_tables(probe)
    shared = os.path.join(COQ, "gen")
    same = True
    for f in sorted(os.listdir(probe)):
        if f.endswith(".v"):
            a = open(os.path.join(probe, f)).read()
            b = open(os.path.join(shared, f)).read() if os.path.exists(os.path.join(shared, f)) else None
            if a != b:
                same = False
    if same:
        return
    priv = os.path.join(BUILD, "coq")
    sh(["rsync", "-a", "--delete", COQ + "/", priv + "/"])
    for f in os.listdir(probe):
        if f.endswith(".v"):
            write_if_changed(os.path.join(priv, "gen", f), open(os.path.join(probe, f)).read())
    COQ = priv
    # ... and the executable models extracted from it are private too
    global MODEL_DIR, MODEL
    MODEL_DIR = os.path.join(BUILD, "model")
    MODEL = os.path.join(MODEL_DIR, "rsmodel_run")
    os.makedirs(MODEL_DIR, exist_ok=True)
    log("self-test: regenerated tables differ from the shared ones; Coq project rebuilt privately in " + priv)


def build_coq(targets=None, timeout=3000):
    ensure_coq_makefile()
    t = time.time()
    cmd = ["make", "-j%d" % NPROC]
    if targets:
        cmd += targets
    # a runaway tactic must not take the machine (or the shared lock) hostage: 12 GB per coqc
    shcmd = "ulimit -v 12000000; exec timeout %d %s" % (timeout, " ".join(cmd))
    rc, out = sh(shcmd, cwd=COQ, check=False, timeout=timeout + 60)
    return rc, out, time.time() - t


def build_model(names=None):
    """Extraction + ocamlopt of coq/extract/<name>/ when a compiled theory or a driver source is newer
    than the binary rsmodel_<name>."""
    newest_vo = 0
    for root, _, files in os.walk(os.path.join(COQ, "theories")):
        for f in files:
            if f.endswith(".vo"):
                newest_vo = max(newest_vo, os.path.getmtime(os.path.join(root, f)))
    for f in os.listdir(os.path.join(COQ, "gen")):
        if f.endswith(".vo"):
            newest_vo = max(newest_vo, os.path.getmtime(os.path.join(COQ, "gen", f)))
    xdir = os.path.join(COQ, "extract")
    for name in sorted(os.listdir(xdir)):
        d = os.path.join(xdir, name)
        if not os.path.isfile(os.path.join(d, "Extract.v")) or (names and name not in names):
            continue
        newest = max([newest_vo, os.path.getmtime(os.path.join(xdir, "common.ml")),
                      os.path.getmtime(os.path.join(xdir, "build.sh"))]
                     + [os.path.getmtime(os.path.join(d, f)) for f in os.listdir(d) if f.endswith((".ml", ".v"))])
        b = model_bin(name)
        if os.path.exists(b) and os.path.getmtime(b) >= newest:
            continue
        sh([os.path.join(xdir, "build.sh"), name, MODEL_DIR], timeout=1200)


MODEL_VOS = ["theories/Interp/Run.vo", "theories/Spec/Wire.vo", "theories/Spec/PcapRead.vo", "theories/Spec/Reasm4.vo", "theories/Spec/Tunnel.vo", "theories/Spec/TunnelPeel.vo",
             "theories/Spec/Timeline.vo", "theories/Spec/TcpAccount.vo", "theories/Lex/Scanner.vo", "theories/Lex/LexSpec.vo",
             "theories/Lib/DocsStd.vo", "theories/Spec/Registry.vo", "theories/Spec/DocCall.vo", "theories/Bind/Binder.vo",
             "theories/Spec/Literal.vo", "theories/Lex/Literals.vo", "theories/Parse/Automaton.vo",
             "theories/Spec/LenPrefix.vo", "theories/Spec/TlsParse.vo", "theories/Spec/DhcpParse.vo", "theories/Spec/DnsParse.vo",
             "theories/Spec/NbDecode.vo"]


def build_everything(extra_vo=(), models=("run",)):
    """Rebuild from /repo's working tree.  Returns (ok, message)."""
    with Lock():
        build_rust()
        regen_tables()
        rc, out, _ = build_coq(MODEL_VOS + list(extra_vo))
        if rc != 0:
            return False, out[-6000:]
        build_model(list(models))
    return True, ""


# ---------------------------------------------------------------- running the implementation

def workdir(tag):
    d = os.path.join(BUILD, "work", "%s-%d" % (tag, os.getpid()))
    shutil.rmtree(d, ignore_errors=True)
    os.makedirs(d)
    return d


ERR_RE = re.compile(r"^(.*?)(?::(\d+):(\d+))?: error: process_file: (.*)$")


def classify_msg(msg):
    m = msg.strip()
    table = {"Lex Error": "lex", "Parse Error": "parse", "Memory Error": "memory", "Name Error": "name",
             "Type Error": "type", "Runtime Error": "runtime"}
    if m in table:
        return table[m]
    if m.startswith("Import Error: Unknown module '"):
        return "import:" + m[len("Import Error: Unknown module '"):-1]
    if m.startswith("Variable '") and m.endswith("' reassigned"):
        return "reassign:" + m[len("Variable '"):-len("' reassigned")]
    return "io"


class ImplResult:
    __slots__ = ("status", "kind", "loc", "pcap", "stdout", "rc", "warnings", "leftover")

    def __repr__(self):
        return "ImplResult(%s %s %s)" % (self.status, self.kind, self.loc)


def run_resynth_batch(d, names, keep=False, timeout=120, env=None, cwd=None, binary=None):
    """Run the binary once over several inputs in directory d.  Returns (rc, stdout, timed_out)."""
    args = [binary or RESYNTH, "--color", "never"]
    if keep:
        args.append("-k")
    args += ["--out-dir", d] + [os.path.join(d, n + ".rsyn") for n in names]
    try:
        r = subprocess.run(args, cwd=cwd or d, stdout=subprocess.PIPE, stderr=subprocess.PIPE, timeout=timeout,
                           env=env)
        return r.returncode, r.stdout.decode("utf-8", "replace"), r.stderr.decode("utf-8", "replace"), False
    except subprocess.TimeoutExpired as e:
        return -999, (e.stdout or b"").decode("utf-8", "replace"), "", True


def parse_results(d, names, rc, out, err, timed_out, keep=False):
    """Attribute stdout lines to inputs.  Inputs after a crash have status 'notrun'."""
    res = {}
    lines = out.splitlines()
    for n in names:
        r = ImplResult()
        r.status, r.kind, r.loc, r.pcap, r.stdout, r.rc, r.warnings, r.leftover = "notrun", None, None, None, "", rc, [], False
        res[n] = r
    for n in names:
        path = os.path.join(d, n + ".rsyn")
        pcap = os.path.join(d, n + ".pcap")
        mine = [l for l in lines if l.startswith(path)]
        r = res[n]
        r.stdout = "\n".join(mine)
        for l in mine:
            if l.startswith(path + " -> ") and l.rstrip().endswith(" ok"):
                r.status = "ok"
                try:
                    r.pcap = open(pcap, "rb").read()
                except OSError:
                    r.pcap = None
            else:
                m = ERR_RE.match(l)
                if m and m.group(1) == path:
                    if m.group(4).startswith("delete:"):
                        continue
                    r.status = "err"
                    r.kind = classify_msg(m.group(4))
                    r.loc = (int(m.group(2)), int(m.group(3))) if m.group(2) else None
                    r.leftover = os.path.exists(pcap)
                    if keep and r.leftover:
                        r.pcap = open(pcap, "rb").read()
                elif ": warning: " in l:
                    m2 = re.match(r"^.*?:(\d+):(\d+): warning: ", l[len(path) - len(path):])
                    m3 = re.match(re.escape(path) + r"(?::(\d+):(\d+))?: warning: ", l)
                    if m3:
                        r.warnings.append((int(m3.group(1)), int(m3.group(2))) if m3.group(1) else None)
    crashed = timed_out or rc not in (0, 1)
    if crashed:
        # the first input without a verdict is the one that crashed
        for n in names:
            if res[n].status == "notrun":
                res[n].status = "timeout" if timed_out else "crash"
                first = re.sub(r"\(\d+\) ", "", err.strip().splitlines()[0][:200]) if err.strip() else ""
                res[n].kind = ("rc=%d %s" % (rc, first)).strip()
                res[n].leftover = os.path.exists(os.path.join(d, n + ".pcap"))
                break
    return res


STALE_OUTPUT = bytes(range(256)) * 256          # 64 KiB that is not a pcap


def run_programs(tag, programs, files=None, keep=False, batch=40, timeout=120):
    """programs: dict name -> source text (str or bytes).  files: dict relative-name -> bytes, written
    into the work directory (programs refer to them by absolute path).  Returns dict name -> ImplResult."""
    d = workdir(tag)
    for fn, content in (files or {}).items():
        if fn.startswith("/dev/"):
            continue
        with open(os.path.join(d, fn), "wb") as f:
            f.write(content)
    names = list(programs)
    for n in names:
        src = programs[n]
        with open(os.path.join(d, n + ".rsyn"), "wb") as f:
            f.write(src if isinstance(src, bytes) else src.encode("utf-8"))
        # the output path already exists and is longer than most outputs: the compiler must replace it, not overwrite its head
        with open(os.path.join(d, n + ".pcap"), "wb") as f:
            f.write(STALE_OUTPUT)
    results = {}
    pending = [names[i:i + batch] for i in range(0, len(names), batch)]
    while pending:
        chunk = pending.pop(0)
        rc, out, err, to = run_resynth_batch(d, chunk, keep=keep, timeout=timeout)
        res = parse_results(d, chunk, rc, out, err, to, keep=keep)
        rest = []
        for n in chunk:
            if res[n].status == "notrun":
                rest.append(n)
            else:
                results[n] = res[n]
        if rest:
            pending.insert(0, rest)
    return d, results


def run_model(tag, case_text, verbose=False, timeout=1800, shards=None):
    """Feed serialised cases to the extracted model; returns dict id -> result tuple."""
    d = os.path.join(BUILD, "work")
    os.makedirs(d, exist_ok=True)
    cases, cur = [], []
    for ln in case_text.splitlines(keepends=True):
        cur.append(ln)
        if ln.rstrip("\n") == "END":
            cases.append("".join(cur)); cur = []
    if "".join(cur).strip():
        cases.append("".join(cur) + "END\n")
    shards = shards or min(NPROC, max(1, len(cases) // 8))
    procs = []
    for i in range(shards):
        part = "".join(cases[i::shards])
        p = os.path.join(d, "%s-%d-%d.cases" % (tag, os.getpid(), i))
        with open(p, "w") as f:
            f.write(part)
        args = [MODEL, "run"] + (["-v"] if verbose else []) + [p]
        procs.append((p, subprocess.Popen(args, stdout=subprocess.PIPE, stderr=subprocess.PIPE)))
    out = {}
    for p, pr in procs:
        so, se = pr.communicate(timeout=timeout)
        os.unlink(p)
        if pr.returncode != 0:
            raise BuildError("model driver failed: " + se.decode()[-2000:])
        for l in so.decode().splitlines():
            t = l.split(" ")
            if len(t) >= 3 and t[0] == "CASE":
                out[t[1]] = t[2:]
    return out


def model_result(toks):
    """-> dict(status, kind, loc, pcap, warnings, trace)"""
    r = {"status": None, "kind": None, "loc": None, "pcap": None, "warnings": [], "trace": None}
    if toks[0] == "OK":
        r["status"] = "ok"
        r["pcap"] = b"" if toks[1] == "-" else bytes.fromhex(toks[1])
        if len(toks) > 3 and toks[3] != "-":
            r["warnings"] = [tuple(int(x) for x in w.split(":")) for w in toks[3].split(",")]
        if len(toks) > 5:
            r["trace"] = toks[5].split(",") if toks[5] else []
    elif toks[0] == "ERR":
        r["status"] = "err"
        r["kind"] = toks[1]
        l = toks[2].lstrip("@").split(":")
        r["loc"] = (int(l[0]), int(l[1]))
        if len(toks) > 4:
            r["pcap"] = b"" if toks[4] == "-" else bytes.fromhex(toks[4])
    elif toks[0] == "PANIC":
        r["status"] = "panic"
        r["kind"] = " ".join(toks[1:])
    else:
        r["status"] = "bad"
        r["kind"] = " ".join(toks)
    return r


# ---------------------------------------------------------------- pcap helpers (harness-side glue)

def pcap_records(b):
    """-> (ok, [(sec, nsec, caplen, length, frame)]) little-endian nanosecond pcap"""
    import struct
    if b is None or len(b) < 24:
        return False, []
    magic, vmaj, vmin, _, _, _, link = struct.unpack("<IHHIIII", b[:24])
    if magic != 0xa1b23c4d or vmaj != 2 or vmin != 4 or link != 1:
        return False, []
    off, recs = 24, []
    while off < len(b):
        if off + 16 > len(b):
            return False, recs
        sec, nsec, cap, ln = struct.unpack("<IIII", b[off:off + 16])
        off += 16
        if off + cap > len(b):
            return False, recs
        recs.append((sec, nsec, cap, ln, b[off:off + cap]))
        off += cap
    return True, recs


# ---------------------------------------------------------------- known findings

def load_known():
    p = os.path.join(VERIF, "KNOWN_FINDINGS.json")
    try:
        return json.load(open(p))["findings"]
    except OSError:
        return []


def spec_batch(queries, tag="spec"):
    """Run specification-side predicates (extracted from Spec/*.v) over implementation bytes."""
    if not queries:
        return []
    d = os.path.join(BUILD, "work")
    os.makedirs(d, exist_ok=True)
    shards = min(NPROC, max(1, len(queries) // 200))
    procs = []
    for i in range(shards):
        part = queries[i::shards]
        p = os.path.join(d, "%s-%d-%d.q" % (tag, os.getpid(), i))
        with open(p, "w") as f:
            f.write("\n".join(part) + "\n")
        procs.append((p, len(part), subprocess.Popen([MODEL, "spec", p], stdout=subprocess.PIPE)))
    answers = [None] * len(queries)
    for i, (p, n, pr) in enumerate(procs):
        so, _ = pr.communicate()
        os.unlink(p)
        lines = so.decode().splitlines()
        if len(lines) < n:
            raise BuildError("spec driver returned %d answers for %d queries" % (len(lines), n))
        for j in range(n):
            answers[i + j * shards] = lines[j]
    return answers


# ---------------------------------------------------------------- the extracted model against evaluation inside Coq

def coq_recheck(ctx, tag, cases, limit=None):
    """Guard against extraction and driver bugs (DESIGN 2.4): a sample of the cases just run through the extracted OCaml
    model is evaluated again by `vm_compute` inside coqc -- `run_src` on the source BYTES the implementation compiled, so
    for statement-level cases this also ties the text rendering to the syntax tree the extracted model was given -- and
    must give the same outcome class, error position and (partial) pcap.  Recorded as one proof obligation."""
    import re
    if limit is None:
        limit = int(os.environ.get("VERIF_RECHECK", "300" if ctx.thorough else "32"))
    pick = []
    for c in cases:
        m = getattr(c, "model", None)
        if not m or m.get("status") not in ("ok", "err"):
            continue
        src = c.src if getattr(c, "src", None) is not None else (c.text.encode("utf-8") if isinstance(c.text, str) else c.text)
        if src is None or len(src) > 6000 or len(m.get("pcap") or b"") > 40000:
            continue
        if sum(len(v) for v in (c.files or {}).values()) > 4000:
            continue
        pick.append((c, src))
    if not pick:
        return
    rng = random.Random(len(pick) * 7919 + len(tag))
    if len(pick) > limit:
        pick = rng.sample(pick, limit)
    wd = os.path.join(BUILD, "work", "recheck-%s-%d" % (tag, os.getpid()))
    shutil.rmtree(wd, ignore_errors=True)
    os.makedirs(wd)
    lst = lambda b: "[" + ";".join(str(x) for x in b) + "]"
    shards = min(NPROC, max(1, len(pick) // 12))
    procs = []
    for k in range(shards):
        part = pick[k::shards]
        rows = []
        for c, src in part:
            m = c.model
            base = None
            for fn in (c.files or {}):
                base = True
            # data files are named by absolute path inside the work directory of the run, exactly as the driver was told
            files = []
            for fn, content in (c.files or {}).items():
                pth = os.path.join(getattr(c, "_wd", ""), fn) if getattr(c, "_wd", None) else fn
                files.append("(%s, %s)" % (lst(pth.encode()), lst(content)))
            if m["status"] == "ok":
                want = "(0, 0, 0, %s)" % lst(m["pcap"] or b"")
                how = "proj"
            else:
                # (the position is comparable only when the extracted model lexed the same bytes itself)
                l, col = (m["loc"] or (0, 0)) if getattr(c, "src", None) is not None else (0, 0)
                if m.get("pcap") is None:
                    want, how = "(1, %d, %d, [])" % (l, col), "proj_nopcap"
                else:
                    want, how = "(1, %d, %d, %s)" % (l, col, lst(m["pcap"])), "proj"
            if m["status"] == "err" and getattr(c, "src", None) is None:
                how += "_noloc"
            rows.append("  eqr (%s (run_src [%s] %s)) %s" % (how, "; ".join(files), lst(src), want))
        v = os.path.join(wd, "cases%d.v" % k)
        with open(v, "w") as f:
            f.write("""From RS Require Import Base.Bytes Base.Outcome Interp.Eval Interp.Run.
From Coq Require Import NArith List Bool. Import ListNotations.
Open Scope N_scope.
Definition R := (N * N * N * bytes)%%type.
Definition proj (r : run_result) : R := match r with RunOk p _ _ => (0, 0, 0, p) | RunErr _ l p => (1, fst l, snd l, p) | RunPanic _ => (2, 0, 0, []) end.
Definition proj_nopcap (r : run_result) : R := match proj r with (a, b, c, _) => (a, b, c, []) end.
Definition proj_noloc (r : run_result) : R := match proj r with (a, _, _, p) => (a, 0, 0, p) end.
Definition proj_nopcap_noloc (r : run_result) : R := match proj r with (a, _, _, _) => (a, 0, 0, []) end.
Fixpoint eqb (a b : bytes) : bool := match a, b with [], [] => true | x :: a', y :: b' => N.eqb x y && eqb a' b' | _, _ => false end.
Definition eqr (x y : R) : bool := match x, y with (a, b, c, p), (a', b', c', p') => N.eqb a a' && N.eqb b b' && N.eqb c c' && eqb p p' end.
Definition checks : list bool := [
%s
].
Eval vm_compute in checks.
""" % ";\n".join(rows))
        cmd = "ulimit -s unlimited 2>/dev/null; ulimit -v 12000000; exec timeout 900 coqc -noglob -Q %s/theories RS -Q %s/gen RSGen %s" % (COQ, COQ, v)
        procs.append((part, subprocess.Popen(cmd, shell=True, cwd=wd, stdout=subprocess.PIPE, stderr=subprocess.PIPE)))
    bad, n, err = [], 0, ""
    for part, pr in procs:
        so, se = pr.communicate()
        flags = re.findall(r"\b(true|false)\b", so.decode())
        if pr.returncode != 0 or len(flags) != len(part):
            err = (se.decode() or so.decode())[-400:]
            bad += [c.name for c, _ in part][:3]
            continue
        for (c, _), fl in zip(part, flags):
            n += 1
            if fl != "true":
                bad.append(c.name)
    if bad:
        # keep the evidence: source and model outcome of the first differing case
        for c, src in pick:
            if c.name == bad[0]:
                err += " | source %s | model %s %s pcap %d bytes" % (src[:300].hex(), c.model.get("status"), c.model.get("loc"),
                                                                    len(c.model.get("pcap") or b""))
    if not os.environ.get("VERIF_RECHECK_KEEP"):
        shutil.rmtree(wd, ignore_errors=True)
    ctx.dist["rechecked_inside_coq"] = ctx.dist.get("rechecked_inside_coq", 0) + n
    ctx.obligation("extracted model = evaluation inside Coq (vm_compute of run_src on the compiled source bytes): %d sampled cases of %s"
                   % (len(pick), tag), not bad, ("differs on " + ", ".join(bad[:5]) + " " + err) if bad else "")
