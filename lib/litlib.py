"""Shared by the C05 and C17 checks: running the literal harness (lith), the extracted literal model and
specification (rsmodel_lit), structured-literal generation, and the python reference readings of the
property text that serve as oracles (never derived from the model)."""
import os, re, subprocess
import common

LITH = os.path.join(common.HARNESS_DIR, "lith")


def MODEL():
    return common.model_bin("lit")


# ---------------------------------------------------------------- running line tools

def run_tool(cmd, lines, tag, shards=None, timeout=3000):
    """Feed `lines` (no newlines inside) to `cmd FILE` in parallel shards; returns the output lines in order."""
    n = len(lines)
    if n == 0:
        return []
    d = os.path.join(common.BUILD, "work")
    os.makedirs(d, exist_ok=True)
    shards = shards or max(1, min(common.NPROC, n // 2000))
    procs = []
    for i in range(shards):
        part = lines[i::shards]
        p = os.path.join(d, "%s-%d-%d.in" % (tag, os.getpid(), i))
        with open(p, "w") as f:
            f.write("\n".join(part) + "\n")
        procs.append((p, len(part), subprocess.Popen(list(cmd) + [p], stdout=subprocess.PIPE, stderr=subprocess.PIPE)))
    out = [None] * n
    for i, (p, cnt, pr) in enumerate(procs):
        so, se = pr.communicate(timeout=timeout)
        os.unlink(p)
        if pr.returncode != 0:
            raise common.BuildError("%s exited %d: %s" % (" ".join(cmd), pr.returncode, se.decode("utf-8", "replace")[-800:]))
        res = so.decode("utf-8", "replace").split("\n")
        if res and res[-1] == "":
            res.pop()
        if len(res) != cnt:
            raise common.BuildError("%s returned %d lines for %d cases" % (" ".join(cmd), len(res), cnt))
        for j in range(cnt):
            out[i + j * shards] = res[j]
    return out


def impl(mode, lines, tag="lith", shards=None):
    return run_tool([LITH, mode], lines, tag + "-i", shards)


def model(mode, lines, tag="lit", shards=None):
    return run_tool([MODEL(), mode], lines, tag + "-m", shards)


def hx(b):
    return b.hex() or "-"


# ---------------------------------------------------------------- characters

SEPARATORS = [ord(c) for c in ":._-'`"]
WHITE_SPACE = [9, 10, 11, 12, 13, 32, 0x85, 0xa0, 0x1680] + list(range(0x2000, 0x200b)) + [0x2028, 0x2029, 0x202f, 0x205f, 0x3000]
FILLERS = SEPARATORS + WHITE_SPACE
HEXCHARS = set("0123456789abcdefABCDEF")


def is_filler_char(ch):
    return ord(ch) in FILLERS


# ---------------------------------------------------------------- the property's reading of a literal body
# "text in a string literal contributes its source bytes, |..| sections contribute the hex-decoded bytes
#  (separators and spaces ignored)"; "a closed |..| section [with] an odd number of hex digits or a non-hex
#  character is rejected".  A section that is never closed is outside the statement: UNSPEC.

def ref_decode(s):
    out = bytearray()
    i, n = 0, len(s)
    while i < n:
        j = s.find("|", i)
        if j < 0:
            out += s[i:].encode("utf-8")
            break
        out += s[i:j].encode("utf-8")
        k = s.find("|", j + 1)
        if k < 0:
            return "UNSPEC"
        digits = [c for c in s[j + 1:k] if not is_filler_char(c)]
        if len(digits) % 2 or any(c not in HEXCHARS for c in digits):
            return "REJECT"
        out += bytes.fromhex("".join(digits))
        i = k + 1
    return bytes(out)


# ---------------------------------------------------------------- structured literals (Spec/Literal.v: list seg)
# python form: ("T", [cps]) | ("H", [(pre, hiU, mid, loU, val)], trail) | ("O", items, pre, u, d, trail)
#            | ("B", items, pre, dang, cp) with dang = None | (u, d, [cps])

def _cps(l):
    return ",".join(str(c) for c in l)


def _items(items):
    return ";".join("%s/%d/%s/%d/%d" % (_cps(p), 1 if hu else 0, _cps(m), 1 if lu else 0, v) for p, hu, m, lu, v in items)


def ser_segs(segs):
    out = []
    for s in segs:
        if s[0] == "T":
            out.append("T:" + _cps(s[1]))
        elif s[0] == "H":
            out.append("H:%s:%s" % (_items(s[1]), _cps(s[2])))
        elif s[0] == "O":
            out.append("O:%s:%s:%d:%d:%s" % (_items(s[1]), _cps(s[2]), 1 if s[3] else 0, s[4], _cps(s[5])))
        elif s[0] == "B":
            dg = "-" if s[3] is None else "%d/%d/%s" % (1 if s[3][0] else 0, s[3][1], _cps(s[3][2]))
            out.append("B:%s:%s:%s:%d" % (_items(s[1]), _cps(s[2]), dg, s[4]))
    return " ".join(out) if out else "T:"


def spec_batch(seg_lists, tag="spec"):
    """-> [(wellformed, spelling bytes, denoted bytes | 'REJECT')] from the extracted Spec.Literal"""
    res = model("spec", [ser_segs(s) for s in seg_lists], tag)
    out = []
    for l in res:
        t = l.split(" ")
        if len(t) != 3 or t[0] not in ("0", "1"):
            raise common.BuildError("spec driver: " + l[:200])
        sp = b"" if t[1] == "-" else bytes.fromhex(t[1])
        dn = "REJECT" if t[2] == "REJECT" else (b"" if t[2] == "-" else bytes.fromhex(t[2]))
        out.append((t[0] == "1", sp, dn))
    return out


def hexdigit(upper, v):
    return "0123456789ABCDEF"[v] if upper else "0123456789abcdef"[v]


def py_spell(segs):
    """the same spelling function written in python; cross-checked against the extracted one on every run"""
    out = []
    fill = lambda l: "".join(chr(c) for c in l)
    its = lambda items: "".join(fill(p) + hexdigit(hu, v >> 4) + fill(m) + hexdigit(lu, v & 15) for p, hu, m, lu, v in items)
    for s in segs:
        if s[0] == "T":
            out.append(fill(s[1]))
        elif s[0] == "H":
            out.append("|" + its(s[1]) + fill(s[2]) + "|")
        elif s[0] == "O":
            out.append("|" + its(s[1]) + fill(s[2]) + hexdigit(s[3], s[4]) + fill(s[5]) + "|")
        elif s[0] == "B":
            dg = "" if s[3] is None else hexdigit(s[3][0], s[3][1]) + fill(s[3][2])
            out.append("|" + its(s[1]) + fill(s[2]) + dg + chr(s[4]))
    return "".join(out)


TEXT_POOL = [ord(c) for c in "abcxyzGET /HTTP1.0:\\'`-_~!@#$%^&*()[]{}<>?,;=+\t"] + [0xe9, 0xdf, 0x20ac, 0x4e2d, 0x1f600, 0x7f, 0x80, 0x7ff,
                                                                                      0x800, 0xffff, 0x10000, 0x10ffff, 0xd7ff, 0xe000, 0xa0, 0x3000, 0]


def rand_fill(rng, p=0.3, quotable=True):
    out = []
    while rng.random() < p:
        c = rng.choice(FILLERS)
        if quotable and c == 10:
            continue
        out.append(c)
    return out


def rand_text(rng, maxlen=12, quotable=True):
    n = rng.randint(0, maxlen)
    out = []
    for _ in range(n):
        r = rng.random()
        if r < 0.7:
            c = rng.choice(TEXT_POOL)
        elif r < 0.85:
            c = rng.randint(1, 0x7e)
        else:
            c = rng.randint(0x80, 0x10ffff)
        if c == 0x7c or 0xd800 <= c < 0xe000:
            continue
        if quotable and c in (0x22, 10):
            continue
        out.append(c)
    return out


def rand_items(rng, data, fillp=0.3, quotable=True):
    return [(rand_fill(rng, fillp, quotable), rng.random() < 0.5, rand_fill(rng, fillp / 3, quotable), rng.random() < 0.5, b)
            for b in data]


def segs_for_bytes(rng, data, fillp=0.3, quotable=True, text_ok=True):
    """a random spelling of the byte string `data`: printable ASCII runs may go in text, anything in hex"""
    segs, i = [], 0
    while i < len(data):
        n = rng.randint(1, 9)
        chunk = data[i:i + n]
        printable = all(0x20 <= c < 0x7f and c not in (0x22, 0x7c) for c in chunk)
        if text_ok and printable and rng.random() < 0.6:
            segs.append(("T", list(chunk)))
        else:
            segs.append(("H", rand_items(rng, chunk, fillp, quotable), rand_fill(rng, fillp, quotable)))
        i += n
    if rng.random() < 0.15:
        segs.insert(rng.randint(0, len(segs)), ("H", [], rand_fill(rng, 0.5, quotable)))     # an empty section
    return segs


def rand_segs(rng, quotable=True, maxsegs=5):
    segs = []
    for _ in range(rng.randint(0, maxsegs)):
        if rng.random() < 0.5:
            segs.append(("T", rand_text(rng, 12, quotable)))
        else:
            data = bytes(rng.getrandbits(8) for _ in range(rng.choice([0, 1, 2, 3, rng.randint(0, 24)])))
            segs.append(("H", rand_items(rng, data, rng.choice([0.0, 0.3, 0.6]), quotable), rand_fill(rng, 0.3, quotable)))
    return segs


BAD_CHARS = [ord(c) for c in "gGxzZ!/\\\"(),;=+*#@~[]{}<>?%&^$"] + [0xe9, 0x20ac, 0x1f600, 0x200b, 0xfeff, 0x180e, 0x1c, 0x1f, 0x7f, 0, 0xff10, 0xff21, 0x661]


def rand_bad(rng, quotable=True):
    data = bytes(rng.getrandbits(8) for _ in range(rng.randint(0, 4)))
    items = rand_items(rng, data, 0.3, quotable)
    pre = rand_fill(rng, 0.3, quotable)
    if rng.random() < 0.5:
        return ("O", items, pre, rng.random() < 0.5, rng.randint(0, 15), rand_fill(rng, 0.3, quotable))
    dang = None if rng.random() < 0.6 else (rng.random() < 0.5, rng.randint(0, 15), rand_fill(rng, 0.3, quotable))
    while True:
        cp = rng.choice(BAD_CHARS) if rng.random() < 0.8 else rng.randint(0, 0x10ffff)
        if cp in FILLERS or cp == 0x7c or 0xd800 <= cp < 0xe000 or (cp < 128 and chr(cp) in HEXCHARS):
            continue
        if quotable and cp in (0x22, 10):
            continue
        return ("B", items, pre, dang, cp)


def quote_split(rng, body, psplit=0.0):
    """source text of a literal with body `body` (a str without double quotes or newlines), possibly split into
    adjacent literals separated by blanks, comments and line breaks -- anywhere, also inside a hex section"""
    if not body or rng.random() >= psplit:
        return '"' + body + '"'
    cuts = sorted(set(rng.randint(0, len(body)) for _ in range(rng.randint(1, 4))))
    parts, prev = [], 0
    for c in cuts + [len(body)]:
        parts.append(body[prev:c])
        prev = c
    out = '"' + parts[0] + '"'
    for p in parts[1:]:
        # (also truly empty lines, whitespace-only lines and comment-only lines between two pieces)
        out += rng.choice([" ", "\n", "\n    ", "  \n\t", " # split here\n  ", "", "\n// c\n", "\n\n", "\n\n\n  ", "\n \t \n",
                           "\n# only a comment\n", " // c\n\n"]) + '"' + p + '"'
    return out


# ---------------------------------------------------------------- numbers, read independently from the spelling

def ref_dec(text):
    """decimal integer literal: (value | None).  None = no 64-bit value, must be rejected."""
    if not re.fullmatch(r"[0-9]+", text):
        return None
    v = int(text, 10)
    return v if v < 2 ** 64 else None


def ref_hex(text):
    if not re.fullmatch(r"0x[0-9a-fA-F]+", text):
        return None
    v = int(text[2:], 16)
    return v if v < 2 ** 64 else None


def ref_quad(text):
    parts = text.split(".")
    if len(parts) != 4:
        return None
    v = 0
    for p in parts:
        if not re.fullmatch(r"0|[1-9][0-9]{0,2}", p) or int(p) > 255:
            return None
        v = v * 256 + int(p)
    return v
