(* `lex` / `spec`: one case per input line = the source lines fed to one Lexer, hex-encoded
   ("-" = empty line), separated by spaces.  One canonical output line per case:
     <line result> | <line result> | ... ; LOC l:c
   line result = OK {kind@l:c[=hexval]}  or  ERR@l:c (the run of the case stops there).
   `lex` runs the extracted scanner model (Scanner.lex_line), `spec` the extracted specification
   (LexSpec.spec_line).  --cover FILE (lex only): counts of (class fired, class of the next
   character) over all lexemes the model cut, written to FILE. *)
open Common
module M = Rsmodel

let kind_name (t : M.toktype) : string =
  match t with
  | M.TEof -> "Eof" | M.TLParen -> "LParen" | M.TRParen -> "RParen" | M.TDot -> "Dot"
  | M.TDoubleColon -> "DoubleColon" | M.TColon -> "Colon" | M.TSemiColon -> "SemiColon"
  | M.TEquals -> "Equals" | M.TComma -> "Comma" | M.TSlash -> "Slash"
  | M.TImport -> "ImportKeyword" | M.TLet -> "LetKeyword" | M.TBoolLit -> "BooleanLiteral"
  | M.TIdent -> "Identifier" | M.TIPv4Lit -> "IPv4Literal" | M.TStringLit -> "StringLiteral"
  | M.THexLit -> "HexIntegerLiteral" | M.TIntLit -> "IntegerLiteral"

let class_name (k : M.lexclass) : string =
  match k with
  | M.KWhitespace -> "Whitespace" | M.KHashComment -> "HashComment" | M.KCppComment -> "CppComment"
  | M.KNewLine -> "NewLine" | M.KTok t -> kind_name t

let loc_str ((l, c) : M.n * M.n) : string = dec_of_n l ^ ":" ^ dec_of_n c

let tok_str (b : Buffer.t) (t : M.token) : unit =
  Buffer.add_char b ' ';
  Buffer.add_string b (kind_name t.M.tk_type);
  Buffer.add_char b '@';
  Buffer.add_string b (loc_str t.M.tk_loc);
  match t.M.tk_val with
  | None -> ()
  | Some v -> Buffer.add_char b '='; Buffer.add_string b (hex_of_bytes v)

(* --- coverage (outside the verified code) --- *)
let cover : (string, int) Hashtbl.t = Hashtbl.create 512
let bump k = Hashtbl.replace cover k (1 + try Hashtbl.find cover k with Not_found -> 0)

let next_class (s : M.n list) : string =
  match s with
  | [] -> "end"
  | c :: _ ->
    let c = int_of_n c in
    if c = 10 then "nl"
    else if c = 32 || (c >= 9 && c <= 13) then "ascii-space"
    else if c >= 48 && c <= 57 then "digit"
    else if (c >= 65 && c <= 90) || (c >= 97 && c <= 122) || c = 95 then "identchar"
    else if c = 34 then "quote"
    else if c = 35 then "hash"
    else if c = 45 then "minus"
    else if c = 47 then "slash"
    else if c = 46 then "dot"
    else if c = 58 then "colon"
    else if c = 40 || c = 41 || c = 59 || c = 61 || c = 44 then "punct"
    else if c < 128 then "ascii-other"
    else if c = 0xc2 then "nonascii-c2"       (* NBSP, NEL, Latin-1 symbols *)
    else if c = 0xc3 then "nonascii-letter"
    else "nonascii-other"

let rec drop (n : M.nat) (s : 'a list) : 'a list =
  match n, s with
  | M.O, _ -> s
  | M.S m, _ :: r -> drop m r
  | _, [] -> []

let cover_line (line : M.n list) : unit =
  let classify = M.match_rules M.default_nonascii_word in
  let (ls, rest) = M.lexemes classify (M.length line) line in
  let s = ref line in
  List.iter (fun (k, w) ->
      s := drop (M.length w) !s;
      bump (class_name k ^ " " ^ next_class !s)) ls;
  (match rest with [] -> () | _ -> bump ("NoMatch " ^ next_class rest))

let run_case_lex (cov : bool) (lines : M.n list list) (b : Buffer.t) : unit =
  let rec go lx lno lines first =
    match lines with
    | [] -> Buffer.add_string b (" ; LOC " ^ loc_str lx.M.lx_loc)
    | l :: r ->
      if not first then Buffer.add_string b " | ";
      if cov then cover_line l;
      let (lx', res) = M.lex_line lx (n_of_int lno) l in
      (match res with
       | M.Ok toks ->
         Buffer.add_string b "OK"; List.iter (tok_str b) toks; go lx' (lno + 1) r false
       | M.Err _ ->
         Buffer.add_string b ("ERR@" ^ loc_str lx'.M.lx_loc);
         Buffer.add_string b (" ; LOC " ^ loc_str lx'.M.lx_loc)
       | M.Panic site -> Buffer.add_string b ("MODELPANIC " ^ ostring site)
       | M.OutOfFuel -> Buffer.add_string b "MODELFUEL") in
  go M.lexer_init 1 lines true

let run_case_spec (lines : M.n list list) (b : Buffer.t) : unit =
  let rec go (lc, pend) lno lines first =
    match lines with
    | [] -> Buffer.add_string b (" ; LOC " ^ loc_str lc)
    | l :: r ->
      if not first then Buffer.add_string b " | ";
      let (st', res) = M.spec_line pend (n_of_int lno) l in
      (match res with
       | M.Ok toks ->
         Buffer.add_string b "OK"; List.iter (tok_str b) toks; go st' (lno + 1) r false
       | M.Err _ ->
         Buffer.add_string b ("ERR@" ^ loc_str (fst st'));
         Buffer.add_string b (" ; LOC " ^ loc_str (fst st'))
       | M.Panic site -> Buffer.add_string b ("MODELPANIC " ^ ostring site)
       | M.OutOfFuel -> Buffer.add_string b "MODELFUEL") in
  go ((M.N0, M.N0), None) 1 lines true

let main (cmd : string) (args : string list) : unit =
  let cov_file = ref None and file = ref "-" in
  let rec parse = function
    | "--cover" :: f :: r -> cov_file := Some f; parse r
    | f :: r -> file := f; parse r
    | [] -> () in
  parse args;
  let ic = if !file = "-" then stdin else open_in !file in
  let out = Buffer.create 65536 in
  let cov = !cov_file <> None in
  (try
     while true do
       let l = input_line ic in
       let lines = List.map bytes_of_hex (split_ws l) in
       (if cmd = "lex" then run_case_lex cov lines out else run_case_spec lines out);
       Buffer.add_char out '\n';
       if Buffer.length out > 60000 then (print_string (Buffer.contents out); Buffer.clear out)
     done
   with End_of_file -> ());
  print_string (Buffer.contents out);
  (match !cov_file with
   | Some f ->
     let oc = open_out f in
     Hashtbl.iter (fun k v -> Printf.fprintf oc "%s %d\n" k v) cover;
     close_out oc
   | None -> ())
