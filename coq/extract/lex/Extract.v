(** Extraction of the lexer model and of the lexical specification.  ExtrOcamlBasic only. *)
From Coq Require Import ExtrOcamlBasic.
From RS Require Import Base.Bytes Base.Outcome Lex.Tokens Lex.LexClass Lex.Scanner Lex.LexSpec.

Extraction "rsmodel.ml" lexer_init lex_line spec_line match_rules default_nonascii_word lexemes first_class.
