let () =
  match Array.to_list Sys.argv with
  | _ :: ("lex" | "spec" as cmd) :: rest -> Cmd_lex.main cmd rest
  | _ -> prerr_endline "usage: rsmodel_lex <lex|spec> [--cover FILE] [CASEFILE|-]"; exit 2
