let () =
  match Array.to_list Sys.argv with
  | _ :: "faults" :: rest -> Cmd_io.main rest
  | _ :: "session" :: rest -> Cmd_io.main_session rest
  | _ -> prerr_endline "usage: rsmodel_io <faults|session> [file]"; exit 2
