(* `faults`: whole programs under creation / input / write faults.
   input, one block per case:
     CASE <id>
     FILE <hexpath> <hexcontent>          (zero or more data files)
     KEEP 0|1|both                        (both: two output lines per limit, ids suffixed k / n)
     XCHECK <n>                           (optional: every n-th limit is also computed directly)
     CREATE 0|1
     INPUT noopen | unreadable | src <hex>
     LIMITS none | <l1>,<l2>,...          (one output line per limit)
     END
   output: CASE <id> <limit|none> <status> X=<exit> F=<-|len:md5> D=<0|1> W=<0|1>
     status: OK | ERR:<kind>@<line>:<col> | PANIC:<site with _ for spaces>
   `session`: record lists:  S <id> <keep> <create> <old 0|1> <limit|none> <hexrec>,<hexrec>,...   *)
open Common
module M = Rsmodel

let string_of_bytes (l : M.n list) : string =
  let b = Buffer.create 256 in
  List.iter (fun x -> Buffer.add_char b (Char.chr (int_of_n x))) l;
  Buffer.contents b

let show_file (f : M.n list option) : string =
  match f with
  | None -> "-"
  | Some l ->
    let s = string_of_bytes l in
    Printf.sprintf "%d:%s" (String.length s) (Digest.to_hex (Digest.string s))

let show_status (st : M.status) : string =
  match st with
  | M.StOk -> "OK"
  | M.StErr ((l, c), e) -> Printf.sprintf "ERR:%s@%d:%d" (error_name e) (int_of_n l) (int_of_n c)
  | M.StPanic s -> "PANIC:" ^ String.map (fun ch -> if ch = ' ' then '_' else ch) (ostring s)

let show_report (r : M.report) : string =
  Printf.sprintf "%s X=%d F=%s D=%d" (show_status r.M.rp_status) (int_of_n r.M.rp_exit)
    (show_file r.M.rp_file) (if r.M.rp_delete_diag then 1 else 0)

let parse_limits (s : string) : (string * M.n option) list =
  if s = "none" then [("none", None)]
  else List.map (fun t -> if t = "none" then ("none", None) else (t, Some (n_of_dec t))) (String.split_on_char ',' s)

let main (args : string list) : unit =
  let ic = match args with [f] -> open_in f | _ -> stdin in
  let id = ref "" and files = ref [] and keeps = ref [false] and create = ref true
  and input = ref M.InNoOpen and limits = ref [] and xcheck = ref 0 in
  (try
    while true do
      let line = input_line ic in
      match split_ws line with
      | [] -> ()
      | "CASE" :: i :: _ ->
        id := i; files := []; keeps := [false]; create := true; input := M.InNoOpen; limits := []; xcheck := 0
      | "FILE" :: p :: c :: _ -> files := (bytes_of_hex p, bytes_of_hex c) :: !files
      | "KEEP" :: k :: _ -> keeps := (match k with "1" -> [true] | "both" -> [true; false] | _ -> [false])
      | "CREATE" :: k :: _ -> create := (k = "1")
      | "INPUT" :: "noopen" :: _ -> input := M.InNoOpen
      | "INPUT" :: "unreadable" :: _ -> input := M.InUnreadable
      | "INPUT" :: "src" :: h :: _ -> input := M.InSrc (bytes_of_hex h)
      | "LIMITS" :: l :: _ -> limits := parse_limits l
      | "XCHECK" :: n :: _ -> xcheck := int_of_string n
      | "END" :: _ ->
        (* the fault-free trace once, then one replay per limit (compile_via_trace); every XCHECK-th
           limit is also computed by compile_with_faults itself and compared *)
        let fs = List.rev !files in
        let tr = M.trace_file fs !input in
        List.iteri (fun i (name, lim) ->
          let v = M.replay_file M.cAP lim !create tr in
          List.iter (fun keep ->
            let (r, wf) = M.report_of_verdict keep v in
            let line = Printf.sprintf "%s W=%d" (show_report r) (if wf then 1 else 0) in
            let line =
              if !xcheck > 0 && i mod !xcheck = 0 then begin
                let (r2, wf2) = M.compile_with_faults keep lim !create fs !input in
                let line2 = Printf.sprintf "%s W=%d" (show_report r2) (if wf2 then 1 else 0) in
                if line2 = line then line else "XMISMATCH direct=[" ^ line2 ^ "] trace=[" ^ line ^ "]"
              end else line in
            Printf.printf "CASE %s%s %s %s\n" !id (if keep then "k" else "n") name line) !keeps) !limits
      | _ -> Printf.printf "CASE %s BADLINE\n" !id
    done
  with End_of_file -> ());
  flush stdout

let main_session (args : string list) : unit =
  let ic = match args with [f] -> open_in f | _ -> stdin in
  (try
    while true do
      let line = input_line ic in
      match split_ws line with
      | "S" :: id :: keep :: create :: old :: lim :: recs :: _ ->
        let recs = if recs = "-" then [] else List.map bytes_of_hex (String.split_on_char ',' recs) in
        let lim = if lim = "none" then None else Some (n_of_dec lim) in
        let f = if old = "1" then M.session_old else M.session in
        let r = f (keep = "1") lim (create = "1") recs in
        Printf.printf "S %s %s\n" id (show_report r)
      | "P" :: id :: recs :: _ ->
        let recs = if recs = "-" then [] else List.map bytes_of_hex (String.split_on_char ',' recs) in
        Printf.printf "P %s %s\n" id
          (String.concat "," (List.map (fun x -> string_of_int (int_of_n x)) (M.pushed_sizes M.cAP recs)))
      | _ -> ()
    done
  with End_of_file -> ());
  flush stdout
