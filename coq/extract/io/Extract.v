(** Extraction of the I/O failure model (C19): the pipeline with a fallible writer, the session over
    a list of records, and the fault-free buffer occupancy.  ExtrOcamlBasic only. *)
From Coq Require Import ExtrOcamlBasic.
From RS Require Import Base.Bytes Base.Outcome Interp.Io Interp.IoRun.
Extraction "rsmodel.ml" compile_with_faults trace_file replay_file report_of_verdict session session_old session_io pushed_sizes first_above CAP.
