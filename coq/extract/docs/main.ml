let () =
  match Array.to_list Sys.argv with
  | [_; "tree"] -> Cmd_docs.tree ()
  | [_; "judge"; f] -> Cmd_docs.judge_file f
  | [_; "table"] -> Cmd_docs.table ()
  | [_; "unregistered"] -> Cmd_docs.unregistered ()
  | [_; "registries"] -> Cmd_docs.registries ()
  | [_; "calls"] -> Cmd_docs.calls ()
  | _ -> prerr_endline "usage: rsmodel_docs (tree | judge <file> | table | unregistered | registries | calls)"; exit 2
