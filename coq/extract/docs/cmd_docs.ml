(* rsmodel_docs tree                  -> FILE <relative path> <hex of contents>   (one line per generated file)
   rsmodel_docs judge <file>          -> lines "<path> num <decimal>" | "<path> bytes <hex>"
                                         answers "<path> REGISTERED <n>" | "<path> ALIAS <n> <registry row>" |
                                         "<path> NOREGISTRY" | "<path> BYTESOK" | "<path> WRONG <why>"
   rsmodel_docs table                 -> the same judgement for every constant of the regenerated table
   rsmodel_docs unregistered          -> "<path>\t<registry row or ->\t<note>"
   rsmodel_docs registries            -> "<module>\t<kind>\t<row name>\t<number or hex>"  (the specification tables)
   rsmodel_docs calls                 -> "<function key> <positional verdict> <named verdict>" *)
open Common
module M = Rsmodel

let hex_of_string (s : string) : string =
  if s = "" then "-" else String.concat "" (List.map (fun c -> Printf.sprintf "%02x" (Char.code c)) (List.of_seq (String.to_seq s)))

let tree () =
  match M.stdlib_docs with
  | M.Ok files -> List.iter (fun (p, c) -> Printf.printf "FILE %s %s\n" (ostring p) (hex_of_string (ostring c))) files
  | M.Err e -> Printf.printf "ERR %s\n" (error_name e)
  | M.Panic s -> Printf.printf "PANIC %s\n" (ostring s)
  | M.OutOfFuel -> print_endline "PANIC out-of-fuel"

let show_verdict (v : M.verdict) : string =
  match v with
  | M.Registered n -> "REGISTERED " ^ dec_of_n n
  | M.Alias (row, n) -> "ALIAS " ^ dec_of_n n ^ " " ^ ostring row
  | M.NoRegistry -> "NOREGISTRY"
  | M.BytesOk -> "BYTESOK"
  | M.Wrong why -> "WRONG " ^ ostring why

let judge_file (path : string) =
  let ic = open_in path in
  List.iter (fun line ->
    match split_ws line with
    | [p; "num"; d] -> Printf.printf "%s %s\n" p (show_verdict (M.judge (cstring p) (M.CNum (n_of_dec d))))
    | [p; "bytes"; h] -> Printf.printf "%s %s\n" p (show_verdict (M.judge (cstring p) (M.CBytes (bytes_of_hex h))))
    | [p; "other"] -> Printf.printf "%s %s\n" p (show_verdict (M.judge (cstring p) M.COther))
    | [] -> ()
    | _ -> Printf.printf "BAD %s\n" line) (read_lines ic);
  close_in ic

let table () =
  List.iter (fun (p, d) ->
    Printf.printf "%s %s %s\n" (ostring p) (show_verdict (M.judge p (M.cvalue_of d))) (ostring (M.show_constant d)))
    M.constant_table

let unregistered () =
  List.iter (fun (u : M.unregistered) ->
    Printf.printf "%s\t%s\t%s\n" (ostring u.M.u_path)
      (match u.M.u_near with Some r -> ostring r | None -> "-") (ostring u.M.u_note)) M.unregistered_names

let registries () =
  List.iter (fun (m, r) ->
    match r with
    | M.RNum (family, rows) ->
      List.iter (fun (k, v) -> Printf.printf "%s\tnum:%s\t%s\t%s\n" (ostring m) (ostring family) (ostring k) (dec_of_n v)) rows
    | M.RCsv rows ->
      List.iter (fun (k, v) -> Printf.printf "%s\tcsv\t%s\t%s\n" (ostring m) (ostring k) (dec_of_n v)) rows
    | M.RBytes rows ->
      List.iter (fun (k, v) -> Printf.printf "%s\tbytes\t%s\t%s\n" (ostring m) (ostring k) (hex_of_bytes v)) rows)
    M.registries

let calls () =
  List.iter (fun (f : M.funcdef) ->
    let verdict by_name =
      match M.documented_call_model by_name f with
      | M.Ok (slots, extra) -> if slots = M.expected_slots f && extra = [] then "OK" else "WRONGSLOTS"
      | M.Err e -> "ERR:" ^ error_name e
      | M.Panic s -> "PANIC"
      | M.OutOfFuel -> "PANIC" in
    Printf.printf "%s %s %s %d\n" (ostring f.M.fd_key) (verdict false) (verdict true)
      (List.length (M.mandatory_params f.M.fd_args))) M.catalogue
