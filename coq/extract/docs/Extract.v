(** Extraction of the documentation generator model, of the registry judgement (specification side
    of C20) and of the documented call of every signature. *)
From Coq Require Import ExtrOcamlBasic.
From RS Require Import Base.Bytes Base.Outcome Bind.Types Bind.Binder Bind.BindSpec Spec.DocCall Spec.Registry
  Lib.Docs Lib.DocsStd.
From RSGen Require Import Catalogue RegistryCsv.

(** a value is its type (all the binder looks at) *)
Definition tval_of_valdef (d : valdef) : vtype := valdef_type' d.

(** the documented call of [f] with one value of exactly the documented type per mandatory
    parameter, by position and by name; result: number of bound slots *)
Definition documented_call_model (by_name : bool) (f : funcdef) : outcome (list vtype * list vtype) :=
  let ps := mandatory_params (fd_args f) in
  let vals := map snd ps in
  argvec vtype (fun t => t) tval_of_valdef f
         (if by_name then named_call vtype (map fst ps) vals else positional_call vtype vals).

Definition expected_slots (f : funcdef) : list vtype :=
  map snd (mandatory_params (fd_args f)) ++ map tval_of_valdef (optional_defaults (fd_args f)).

Extraction "rsmodel.ml" stdlib_docs judge unregistered_names registries constant_table cvalue_of catalogue
  documented_call_model expected_slots mandatory_params show_constant.
