let () =
  match Array.to_list Sys.argv with
  | _ :: "auto" :: rest -> Cmd_parse.main `Auto rest
  | _ :: "ref" :: rest -> Cmd_parse.main `Ref rest
  | _ -> prerr_endline "usage: rsmodel_parse <auto|ref> [-cov FILE] <cases|->"; exit 2
