(* `auto`: the automaton model of src/parse.rs on token cases; `ref`: the reference parser.
   Input: one case per line, tokens separated by blanks:
     KIND[=hex-of-token-text][@line:col]     or     |     (line break: get_results is called here)
   The driver feeds the tokens, then EOF.  Output per case:
     OK n stmt ... | ERR idx | MORE | PANIC idx
   With -cov FILE (auto only) the (state, token kind) dispatch entries exercised are appended to FILE
   as "state-index kind-index count" lines (instrumentation outside the verified code). *)
open Common
module M = Rsmodel

let kind_of (s : string) : M.toktype =
  match s with
  | "EOF" -> M.TEof | "LP" -> M.TLParen | "RP" -> M.TRParen | "DOT" -> M.TDot | "DC" -> M.TDoubleColon
  | "COLON" -> M.TColon | "SEMI" -> M.TSemiColon | "EQ" -> M.TEquals | "COMMA" -> M.TComma
  | "SLASH" -> M.TSlash | "IMPORT" -> M.TImport | "LET" -> M.TLet | "BOOL" -> M.TBoolLit
  | "ID" -> M.TIdent | "IP4" -> M.TIPv4Lit | "STR" -> M.TStringLit | "HEX" -> M.THexLit
  | "INT" -> M.TIntLit
  | _ -> failwith ("unknown token kind " ^ s)

let has_text (k : M.toktype) : bool =
  match k with
  | M.TBoolLit | M.TIdent | M.TIPv4Lit | M.TStringLit | M.THexLit | M.TIntLit -> true
  | _ -> false

(* a case = list of lines, each a list of tokens *)
let parse_case (line : string) : M.token list list =
  let lines = ref [] and cur = ref [] and lno = ref 1 and idx = ref 0 in
  List.iter (fun w ->
    if w = "|" then begin lines := List.rev !cur :: !lines; cur := []; incr lno; idx := 0 end
    else begin
      let body, loc = match String.index_opt w '@' with
        | Some i -> String.sub w 0 i, Some (String.sub w (i + 1) (String.length w - i - 1))
        | None -> w, None in
      let k, text = match String.index_opt body '=' with
        | Some i -> String.sub body 0 i, Some (String.sub body (i + 1) (String.length body - i - 1))
        | None -> body, None in
      let kind = kind_of k in
      let l, c = match loc with
        | Some s -> (match String.split_on_char ':' s with
                     | [l; c] -> int_of_string l, int_of_string c
                     | _ -> failwith "bad loc")
        | None -> !lno, !idx + 1 in
      incr idx;
      let tok =
        if kind = M.TEof then M.eof_token
        else
          { M.tk_type = kind; M.tk_loc = (n_of_int l, n_of_int c);
            M.tk_val = (if has_text kind then
                          Some (match text with Some h -> bytes_of_hex h | None -> failwith "token needs a text")
                        else None) } in
      cur := tok :: !cur
    end) (split_ws line);
  List.rev (List.rev !cur :: !lines)

(* ---------------------------------------------------------------- canonical rendering *)
let loc ((l, c) : M.n * M.n) : string = Printf.sprintf "@%s:%s" (dec_of_n l) (dec_of_n c)

let rval (v : M.val0) : string =
  match v with
  | M.VNil -> "nil"
  | M.VBool b -> if b then "bool:1" else "bool:0"
  | M.VU8 n -> "u8:" ^ dec_of_n n
  | M.VU16 n -> "u16:" ^ dec_of_n n
  | M.VU32 n -> "u32:" ^ dec_of_n n
  | M.VU64 n -> "u64:" ^ dec_of_n n
  | M.VIp4 a -> "ip4:" ^ dec_of_n a
  | M.VSock4 (a, p) -> "sock4:" ^ dec_of_n a ^ ":" ^ dec_of_n p
  | M.VStr b -> "str:" ^ hex_of_bytes b
  | _ -> "other"

let path ms cs = String.concat "::" (List.map ostring ms) ^ "|" ^ String.concat "." (List.map ostring cs)

let rec rexpr (b : Buffer.t) (e : M.expr) : unit =
  match e with
  | M.ENil -> Buffer.add_string b "nil"
  | M.ELit (l, v) -> Buffer.add_string b (Printf.sprintf "lit%s(%s)" (loc l) (rval v))
  | M.ERef (l, ms, cs) -> Buffer.add_string b (Printf.sprintf "ref%s(%s)" (loc l) (path ms cs))
  | M.ECall (l, ms, cs, args) ->
    Buffer.add_string b (Printf.sprintf "call%s(%s;" (loc l) (path ms cs));
    List.iteri (fun i (n, a) ->
      if i > 0 then Buffer.add_char b ',';
      (match n with Some s -> Buffer.add_string b (ostring s) | None -> Buffer.add_char b '_');
      Buffer.add_char b '=';
      rexpr b a) args;
    Buffer.add_char b ')'
  | M.ESlash (x, y) ->
    Buffer.add_string b "slash("; rexpr b x; Buffer.add_char b ','; rexpr b y; Buffer.add_char b ')'

let rstmt (s : M.stmt) : string =
  let b = Buffer.create 64 in
  (match s with
   | M.SImport (l, n) -> Buffer.add_string b (Printf.sprintf "import%s(%s)" (loc l) (ostring n))
   | M.SAssign (l, x, e) ->
     Buffer.add_string b (Printf.sprintf "let%s(%s," (loc l) (ostring x)); rexpr b e; Buffer.add_char b ')'
   | M.SExpr e -> Buffer.add_string b "expr("; rexpr b e; Buffer.add_char b ')');
  Buffer.contents b

let rverdict (v : M.verdict) : string =
  match v with
  | M.VAccept ss -> String.concat " " (Printf.sprintf "OK %d" (List.length ss) :: List.map rstmt ss)
  | M.VReject i -> Printf.sprintf "ERR %d" (int_of_nat i)
  | M.VMore -> "MORE"
  | M.VPanic i -> Printf.sprintf "PANIC %d" (int_of_nat i)

(* ---------------------------------------------------------------- coverage instrumentation *)
let index_of x l = let rec go i = function [] -> -1 | y :: r -> if y = x then i else go (i + 1) r in go 0 l
let nstates = List.length M.all_states
let nkinds = List.length M.all_toktypes
let cov = Array.make (nstates * nkinds) 0

let rec cov_feed (p : M.parser0) (t : M.token) : M.parser0 option =
  let si = index_of p.M.p_state M.all_states and ki = index_of t.M.tk_type M.all_toktypes in
  cov.(si * nkinds + ki) <- cov.(si * nkinds + ki) + 1;
  match M.dispatch p t with
  | M.Ok (p', a) ->
    (match a with
     | M.AGoto st -> cov_feed (M.set_state p' st) t
     | M.ADiscard st -> Some (M.set_state p' st)
     | M.AShift (st, n) -> Some (M.set_state (M.push n p') st)
     | M.AAccept -> Some (M.set_state p' M.StAccept))
  | _ -> None

let cov_case (toks : M.token list) : unit =
  let rec go p = function
    | [] -> ()
    | t :: r -> (match cov_feed p t with Some p' -> go p' r | None -> ()) in
  go M.parser_init toks

let main (which : [`Auto | `Ref]) (args : string list) : unit =
  let covfile, args = match args with "-cov" :: f :: r -> Some f, r | _ -> None, args in
  let ic = match args with [] | ["-"] -> stdin | f :: _ -> open_in f in
  let out = Buffer.create (1 lsl 16) in
  (try
     while true do
       let line = input_line ic in
       let res =
         try
           let lines = parse_case line in
           (match which with
            | `Auto ->
              if covfile <> None then cov_case (List.concat lines @ [M.eof_token]);
              rverdict (M.run_lines (lines @ [[M.eof_token]]))
            | `Ref -> rverdict (M.rd_parse (List.concat lines @ [M.eof_token])))
         with Failure m -> "BADCASE " ^ m in
       Buffer.add_string out res; Buffer.add_char out '\n';
       if Buffer.length out > 1 lsl 20 then begin print_string (Buffer.contents out); Buffer.clear out end
     done
   with End_of_file -> ());
  print_string (Buffer.contents out);
  (match covfile with
   | Some f ->
     let oc = open_out f in
     Array.iteri (fun i c -> if c > 0 then Printf.fprintf oc "%d %d %d\n" (i / nkinds) (i mod nkinds) c) cov;
     close_out oc
   | None -> ())
