(** Extraction of the executable parser model (automaton + reference parser).  ExtrOcamlBasic only. *)
From Coq Require Import ExtrOcamlBasic.
From RS Require Import Base.Bytes Base.Outcome Lex.Tokens Lex.Literals Interp.Val Interp.Ast.
From RS Require Import Parse.Verdict Parse.Automaton Parse.Grammar Parse.RefParser.

Extraction "rsmodel.ml" parser_init feed dispatch set_state push get_results run_lines run_tokens
  all_states all_toktypes eof_token rd_parse erase_stmt.
