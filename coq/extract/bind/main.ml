let () =
  match Array.to_list Sys.argv with
  | _ :: "bind" :: rest -> Cmd_bind.main false rest
  | _ :: "spec" :: rest -> Cmd_bind.main true rest
  | _ -> prerr_endline "usage: rsmodel_bind (bind|spec) <cases-file>"; exit 2
