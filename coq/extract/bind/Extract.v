(** Extraction of the executable binder model and of the calling-convention specification (C11).
    Values are (kind, payload): every argument carries a distinct tag in its payload so that the
    slot it ends up in is observable; defaults are rendered from the valdef. *)
From Coq Require Import ExtrOcamlBasic.
From RS Require Import Base.Bytes Base.Outcome Bind.Types Bind.Binder Bind.BindSpec Bind.Handover.
From RSGen Require Import Catalogue.

Inductive payload := PTag (n : N) | PBytes (b : bytes) | PNone.

Definition tval := (vtype * payload)%type.

Definition tv_type (v : tval) : vtype := fst v.

(** src/val.rs: impl From<ValDef> for Val *)
Definition tv_of_valdef (d : valdef) : tval :=
  match d with
  | DNil => (TVoid, PNone)
  | DBool b => (TBool, PTag (if b then 1 else 0))
  | DU8 n => (TU8, PTag n)
  | DU16 n => (TU16, PTag n)
  | DU32 n => (TU32, PTag n)
  | DU64 n => (TU64, PTag n)
  | DIp4 a => (TIp4, PTag a)
  | DSock4 a p => (TSock4, PTag (a * 65536 + p))
  | DStr b => (TStr, PBytes b)
  | DType _ => (TVoid, PNone)
  end.

Definition bind_model (f : funcdef) (c : list (option string * tval)) : outcome (list tval * list tval) :=
  argvec tval tv_type tv_of_valdef f c.

Definition bind_reference (f : funcdef) (c : list (option string * tval)) : outcome (list tval * list tval) :=
  bind_spec tval tv_type tv_of_valdef f c.

Extraction "rsmodel.ml" bind_model bind_reference catalogue wf_sig compatible_with compat_spec arg_compatible param_accepts all_vtypes conv_defined.
