(* `bind` / `spec`: calls described one per line, `<function key> <arg>*`, arg = name:KIND:tag | _:KIND:tag.
   Output: OK slots=[KIND:payload,...] extra=[...] | ERR type | PANIC <site>. *)
open Common
module M = Rsmodel

let kinds = [
  "Void", M.TVoid; "Bool", M.TBool; "U8", M.TU8; "U16", M.TU16; "U32", M.TU32; "U64", M.TU64;
  "Ip4", M.TIp4; "Sock4", M.TSock4; "Str", M.TStr; "Type", M.TType; "Obj", M.TObj; "Func", M.TFunc;
  "Method", M.TMethod; "Pkt", M.TPkt; "PktGen", M.TPktGen; "TimeJump", M.TTimeJump ]

let kind_name (t : M.vtype) : string = fst (List.find (fun (_, k) -> k = t) kinds)

let table : (string, M.funcdef) Hashtbl.t =
  let h = Hashtbl.create 128 in
  List.iter (fun (f : M.funcdef) -> Hashtbl.replace h (ostring f.M.fd_key) f) M.catalogue;
  h

(* the value of kind k tagged t, as the real harness builds it *)
let make_val (k : string) (tag : string) : M.tval =
  let t = List.assoc k kinds in
  let n = n_of_dec tag in
  match k with
  | "Void" -> (t, M.PNone)
  | "Bool" -> (t, M.PTag (n_of_int (int_of_n n land 1)))
  | "Str" -> (t, M.PBytes (List.map (fun c -> small_n.(Char.code c)) (List.of_seq (String.to_seq tag))))
  | _ -> (t, M.PTag n)

let show_val ((t, p) : M.tval) : string =
  kind_name t ^ ":" ^
  (match p with
   | M.PNone -> "-"
   | M.PTag n -> dec_of_n n
   | M.PBytes b -> "x" ^ (match b with [] -> "" | _ -> hex_of_bytes b))

let parse_arg (a : string) : M.string option * M.tval =
  match String.split_on_char ':' a with
  | [name; k; tag] -> ((if name = "_" then None else Some (cstring name)), make_val k tag)
  | _ -> failwith ("bad arg " ^ a)

let run_line (spec : bool) (line : string) : string =
  match split_ws line with
  | [] -> "BAD empty"
  | key :: args ->
    (match Hashtbl.find_opt table key with
     | None -> "BAD no such function " ^ key
     | Some f ->
       let c = List.map parse_arg args in
       let r = if spec then M.bind_reference f c else M.bind_model f c in
       (match r with
        | M.Ok (slots, extra) ->
          "OK slots=[" ^ String.concat "," (List.map show_val slots) ^ "] extra=["
          ^ String.concat "," (List.map show_val extra) ^ "]"
        | M.Err e -> "ERR " ^ error_name e
        | M.Panic s -> "PANIC " ^ ostring s
        | M.OutOfFuel -> "PANIC out-of-fuel"))

let vtype_list = List.map snd kinds

let main (spec : bool) (rest : string list) : unit =
  match rest with
  | ["--compat"] ->
    (* the 16 x 16 relation, model and specification side by side *)
    List.iter (fun (pn, p) ->
      List.iter (fun (an, a) ->
        Printf.printf "C %s %s %d %d\n" pn an
          (if M.compatible_with p a then 1 else 0) (if M.compat_spec p a then 1 else 0);
        Printf.printf "N %s %s %d %d\n" pn an
          (if M.arg_compatible (M.DType p) a then 1 else 0)
          (if M.param_accepts (M.Optional (M.DType p)) a then 1 else 0)) kinds) kinds
  | ["--conv"] ->
    (* the conversion table of Bind/Handover.v: V <conversion> <kind> 0|1 *)
    let convs = [ "CBool", M.CBool; "CU8", M.CU8; "CU16", M.CU16; "CU32", M.CU32; "CU64", M.CU64;
                  "CSock4", M.CSock4; "CIp4", M.CIp4; "CBuf", M.CBuf; "CPktGen", M.CPktGen; "CPkt", M.CPkt;
                  "COptIp4", M.COptIp4; "COptU64", M.COptU64; "COptU32", M.COptU32; "COptU16", M.COptU16;
                  "COptU8", M.COptU8; "COptBuf", M.COptBuf; "CAsRef", M.CAsRef ] in
    List.iter (fun (kn, k) ->
      if kn <> "Type" then
        List.iter (fun (cn, c) ->
          Printf.printf "V %s %s %d\n" cn kn (if M.conv_defined c k then 1 else 0)) convs) kinds
  | ["--wf"] ->
    List.iter (fun (f : M.funcdef) ->
      Printf.printf "%s %d\n" (ostring f.M.fd_key) (if M.wf_sig f then 1 else 0)) M.catalogue
  | [file] ->
    let ic = if file = "-" then stdin else open_in file in
    let oc = stdout in
    (try
       while true do
         let l = input_line ic in
         if String.trim l <> "" then (output_string oc (run_line spec l); output_char oc '\n')
       done
     with End_of_file -> ());
    flush oc
  | _ -> prerr_endline "usage: rsmodel_bind (bind|spec) <cases-file|-> | bind --compat | bind --wf | bind --conv"; exit 2
