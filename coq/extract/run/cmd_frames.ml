(* Query kinds of `spec` for C15/C16: the independent framing parsers and decoders of Spec/LenPrefix.v,
   TlsParse.v, DhcpParse.v, DnsParse.v, NbDecode.v applied to bytes the implementation produced.
   Answers: "OK <parts...> <rest>" (bytes in hex, "-" for none) or "NONE". *)
open Common
module M = Rsmodel

let hx = hex_of_bytes
let dn = dec_of_n
let b01 b = if b then "1" else "0"
let commas f l = match l with [] -> "@" | _ -> String.concat "," (List.map f l)

let name_str (n : M.dns_name) : string =
  commas hx n.M.nm_labels ^ " " ^ (match n.M.nm_pointer with None -> "-" | Some o -> dn o)

let flags_str (f : M.dns_flags) : string =
  String.concat " " [b01 f.M.fl_qr; dn f.M.fl_opcode; b01 f.M.fl_aa; b01 f.M.fl_tc; b01 f.M.fl_rd; b01 f.M.fl_ra;
                     b01 f.M.fl_z; b01 f.M.fl_ad; b01 f.M.fl_cd; dn f.M.fl_rcode]

let hdr_str (h : M.dns_header) : string =
  String.concat " " [dn h.M.dn_id; flags_str h.M.dn_flags; dn h.M.dn_qdcount; dn h.M.dn_ancount; dn h.M.dn_nscount;
                     dn h.M.dn_arcount]

let q_str (q : M.dns_question) = String.concat " " [name_str q.M.q_name; dn q.M.q_type; dn q.M.q_class]
let rr_str (r : M.dns_rr) =
  String.concat " " [name_str r.M.rr_name; dn r.M.rr_type; dn r.M.rr_class; dn r.M.rr_ttl; hx r.M.rr_data]

let ext_opt e = match e with None -> "NOEXT" | Some b -> "EXT " ^ hx b

let answer (toks : string list) : string option =
  let ok l = Some (String.concat " " ("OK" :: l)) in
  let none = Some "NONE" in
  match toks with
  | ["int"; kind; h] ->
    let l = bytes_of_hex h in
    let r = (match kind with
        | "u8" -> M.rd_be (nat_of_int 1) l | "be16" -> M.rd_be (nat_of_int 2) l | "be24" -> M.rd_be (nat_of_int 3) l
        | "be32" -> M.rd_be (nat_of_int 4) l | "be64" -> M.rd_be (nat_of_int 8) l
        | "le16" -> M.rd_le (nat_of_int 2) l | "le32" -> M.rd_le (nat_of_int 4) l | "le64" -> M.rd_le (nat_of_int 8) l
        | _ -> None) in
    (match r with Some (v, rest) -> ok [dn v; hx rest] | None -> none)
  | ["lenp"; k; h] ->
    (match M.parse_len_prefixed (nat_of_int (int_of_string k)) (bytes_of_hex h) with
     | Some (c, rest) -> ok [hx c; hx rest] | None -> none)
  | ["tlsrec"; h] ->
    (match M.parse_tls_record (bytes_of_hex h) with
     | Some (((c, v), frag), rest) -> ok [dn c; dn v; hx frag; hx rest] | None -> none)
  | ["hs"; h] ->
    (match M.parse_handshake (bytes_of_hex h) with
     | Some ((t, body), rest) -> ok [dn t; hx body; hx rest] | None -> none)
  | ["ext"; h] ->
    (match M.parse_extension (bytes_of_hex h) with
     | Some ((t, d), rest) -> ok [dn t; hx d; hx rest] | None -> none)
  | ["exts"; h] ->
    (match M.parse_extensions (bytes_of_hex h) with
     | Some l -> ok [commas (fun (t, d) -> dn t ^ ":" ^ hx d) l] | None -> none)
  | ["ciphers"; h] ->
    (match M.parse_cipher_list (bytes_of_hex h) with
     | Some (ids, rest) -> ok [commas dn ids; hx rest] | None -> none)
  | ["chello"; h] ->
    (match M.parse_client_hello (bytes_of_hex h) with
     | Some r -> ok [dn r.M.ch_version; hx r.M.ch_random; hx r.M.ch_session; commas dn r.M.ch_ciphers;
                     hx r.M.ch_compression; ext_opt r.M.ch_extensions]
     | None -> none)
  | ["shello"; h] ->
    (match M.parse_server_hello (bytes_of_hex h) with
     | Some r -> ok [dn r.M.sh_version; hx r.M.sh_random; hx r.M.sh_session; dn r.M.sh_cipher;
                     dn r.M.sh_compression; ext_opt r.M.sh_extensions]
     | None -> none)
  | ["sni"; h] ->
    (match M.parse_sni (bytes_of_hex h) with
     | Some (l, rest) -> ok [commas (fun (t, d) -> dn t ^ ":" ^ hx d) l; hx rest] | None -> none)
  | ["certs"; h] ->
    (match M.parse_certificates (bytes_of_hex h) with
     | Some (l, rest) -> ok [commas hx l; hx rest] | None -> none)
  | ["dhcpopt"; h] ->
    (match M.parse_dhcp_tlv (bytes_of_hex h) with
     | Some ((c, d), rest) -> ok [dn c; hx d; hx rest] | None -> none)
  | ["dhcpopts"; h] ->
    (match M.parse_dhcp_options (bytes_of_hex h) with
     | Some (l, rest) -> ok [commas (fun (t, d) -> dn t ^ ":" ^ hx d) l; hx rest] | None -> none)
  | ["dhcphdr"; h] ->
    (match M.parse_dhcp_header (bytes_of_hex h) with
     | Some (r, rest) ->
       ok [dn r.M.dh_op; dn r.M.dh_htype; dn r.M.dh_hlen; dn r.M.dh_hops; dn r.M.dh_xid; dn r.M.dh_secs; dn r.M.dh_flags;
           dn r.M.dh_ciaddr; dn r.M.dh_yiaddr; dn r.M.dh_siaddr; dn r.M.dh_giaddr; hx r.M.dh_chaddr; hx r.M.dh_sname;
           hx r.M.dh_file; dn r.M.dh_magic; hx rest]
     | None -> none)
  | ["dnsname"; h] ->
    (match M.parse_name (bytes_of_hex h) with
     | Some (n, rest) -> ok [name_str n; hx rest] | None -> none)
  | ["dnsexpand"; msg; off] ->
    let m = bytes_of_hex msg in
    (match M.expand_name (nat_of_int 16) m { M.nm_labels = []; M.nm_pointer = Some (n_of_dec off) } with
     | Some ls -> ok [commas hx ls] | None -> none)
  | ["dnsflags"; w] -> ok [flags_str (M.decode_flags (n_of_dec w))]
  | ["dnshdr"; h] ->
    (match M.parse_dns_header (bytes_of_hex h) with
     | Some (r, rest) -> ok [hdr_str r; hx rest] | None -> none)
  | ["dnsq"; h] ->
    (match M.parse_question (bytes_of_hex h) with
     | Some (q, rest) -> ok [q_str q; hx rest] | None -> none)
  | ["dnsrr"; h] ->
    (match M.parse_rr (bytes_of_hex h) with
     | Some (r, rest) -> ok [rr_str r; hx rest] | None -> none)
  | ["dnsmsg"; h] ->
    (match M.parse_dns_message (bytes_of_hex h) with
     | Some (m, rest) ->
       let sec tag l = List.map (fun r -> tag ^ " " ^ rr_str r) l in
       ok [String.concat " | " (["H " ^ hdr_str m.M.m_header]
                                @ List.map (fun q -> "Q " ^ q_str q) m.M.m_questions
                                @ sec "AN" m.M.m_answers @ sec "NS" m.M.m_authority @ sec "AR" m.M.m_additional
                                @ ["REST " ^ hx rest])]
     | None -> none)
  | ["nbdec"; h] ->
    (match M.nb_decode (bytes_of_hex h) with
     | Some ((name, suffix), rest) -> ok [hx name; dn suffix; hx rest] | None -> none)
  | _ -> None
