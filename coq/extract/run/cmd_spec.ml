(* `spec`: the specification-side predicates (Spec/Wire.v, Spec/PcapRead.v) applied to bytes that the
   implementation produced.  One query per line, one answer per line. *)
open Common
module M = Rsmodel

let b2s b = if b then "1" else "0"

let main (args : string list) : unit =
  let ic = match args with [f] -> open_in f | _ -> stdin in
  (try
    while true do
      let line = input_line ic in
      (match split_ws line with
       | ["ipv4"; h] -> print_endline (b2s (M.ipv4_ok (bytes_of_hex h)))
       | ["tcp"; s; d; h] -> print_endline (b2s (M.tcp_ok (n_of_dec s) (n_of_dec d) (bytes_of_hex h)))
       | ["udplen"; h] -> print_endline (b2s (M.udp_len_ok (bytes_of_hex h)))
       | ["udpcsum"; s; d; h] -> print_endline (b2s (M.udp_csum_ok (n_of_dec s) (n_of_dec d) (bytes_of_hex h)))
       | ["icmp"; h] -> print_endline (b2s (M.icmp_ok (bytes_of_hex h)))
       | ["verifies"; h] -> print_endline (b2s (M.verifies (bytes_of_hex h)))
       | ["pcap"; h] ->
         (match M.pcap_read (bytes_of_hex h) with
          | None -> print_endline "NONE"
          | Some recs ->
            print_endline ("RECS " ^ String.concat " " (List.map (fun r ->
              Printf.sprintf "%s:%s:%s:%s:%s" (dec_of_n r.M.r_sec) (dec_of_n r.M.r_nsec) (dec_of_n r.M.r_caplen)
                (dec_of_n r.M.r_len) (hex_of_bytes r.M.r_frame)) recs)))
       | "reasm" :: ds ->
         let fs = List.map (fun h -> M.fragment_of (bytes_of_hex h)) ds in
         (match M.reassemble fs with
          | None -> print_endline "NONE"
          | Some b -> print_endline ("OK " ^ hex_of_bytes b))
       | "peel" :: outer :: layers ->
         (* peel tunnel layers, outermost first; each layer kind:raw:sport:dport:vni:ethertype:index:seq *)
         let ints l = List.map int_of_n l in
         let rec drop n l = if n = 0 then l else match l with [] -> [] | _ :: r -> drop (n - 1) r in
         let rec take n l = if n = 0 then [] else match l with [] -> [] | x :: r -> x :: take (n - 1) r in
         let be16 l = match ints (take 2 l) with [a; b] -> a * 256 + b | _ -> -1 in
         let rec go (frame : M.n list) (ls : string list) : string =
           match ls with
           | [] -> "OK " ^ hex_of_bytes frame
           | l :: rest ->
             (match String.split_on_char ':' l with
              | [kind; raw; sp; dp; vni; et; ix; seq] ->
                let i = int_of_string in
                let l3 = if raw = "1" then frame else drop 14 frame in
                if List.length l3 < 20 then "BAD short" else
                let proto = List.nth (ints l3) 9 in
                let l4 = drop 20 l3 in
                if kind = "vxlan" then begin
                  if proto <> 17 then "BAD vxlan-proto" else
                  if be16 l4 <> i sp || be16 (drop 2 l4) <> i dp then "BAD vxlan-ports" else
                  match M.vxlan_decode (drop 8 l4) with
                  | None -> "BAD vxlan-flags"
                  | Some (v, inner) -> if int_of_n v <> i vni then "BAD vxlan-vni" else go inner rest
                end else begin
                  if proto <> 47 then "BAD gre-proto" else
                  match M.gre_decode l4 with
                  | None -> "BAD gre-header"
                  | Some g ->
                    let want_proto = if kind = "gre" then i et else 0x88be in
                    if int_of_n g.M.g_proto <> want_proto then "BAD gre-type" else
                    if kind = "erspan2" then begin
                      match g.M.g_seq with
                      | None -> "BAD erspan2-noseq"
                      | Some s ->
                        if int_of_n s <> i seq then "BAD erspan2-seq" else
                        (match M.erspan2_decode g.M.g_payload with
                         | None -> "BAD erspan2-short"
                         | Some ((ver, idx), inner) ->
                           if int_of_n ver <> 1 then "BAD erspan2-version" else
                           if int_of_n idx <> (i ix) land 0xfffff then "BAD erspan2-index" else go inner rest)
                    end else begin
                      match g.M.g_seq with
                      | Some _ -> "BAD gre-unexpected-seq"
                      | None -> go g.M.g_payload rest
                    end
                end
              | _ -> "BAD layer-spec")
         in
         (* the verdict is that of the Gallina specification Spec.TunnelPeel.peel (proved against the builders in
            Props/C06b.v); layers here are kind:raw:sport:dport:vni:ethertype:index:seq:src:dst with seq = - when the
            header must not carry one.  The hand-written walk above only words the reason of a refusal. *)
         let spec_of l =
           match String.split_on_char ':' l with
           | [kind; raw; sp; dp; vni; et; ix; seq; src; dst] ->
             let k = (match kind with "vxlan" -> M.KVxlan | "gre" -> M.KGre | "erspan1" -> M.KErspan1 | _ -> M.KErspan2) in
             Some { M.t_kind = k; M.t_raw = (raw = "1"); M.t_src = n_of_dec src; M.t_dst = n_of_dec dst;
                    M.t_sport = n_of_dec sp; M.t_dport = n_of_dec dp; M.t_vni = n_of_dec vni; M.t_et = n_of_dec et;
                    M.t_ix = n_of_dec ix; M.t_seq = (if seq = "-" then None else Some (n_of_dec seq)) }
           | _ -> None in
         let specs = List.map spec_of layers in
         if List.mem None specs then print_endline (go (bytes_of_hex outer) layers) else
         let specs = List.map (function Some x -> x | None -> assert false) specs in
         (match M.peel specs (bytes_of_hex outer) with
          | Some inner -> print_endline ("OK " ^ hex_of_bytes inner)
          | None ->
            let old = List.map (fun l -> match String.split_on_char ':' l with
                                         | [a;b;c;d;e;f;g;h;_;_] -> String.concat ":" [a;b;c;d;e;f;g;(if h = "-" then "0" else h)]
                                         | _ -> l) layers in
            let why = go (bytes_of_hex outer) old in
            print_endline (if String.length why >= 3 && String.sub why 0 3 = "BAD" then why else "BAD outer-header"))
       | [] -> print_endline ""
       | toks -> (match Cmd_frames.answer toks with Some a -> print_endline a | None -> print_endline "BAD"))
    done
  with End_of_file -> ());
  flush stdout
