(* `spec`: the specification-side predicates (Spec/Wire.v, Spec/PcapRead.v) applied to bytes that the
   implementation produced.  One query per line, one answer per line. *)
open Common
module M = Rsmodel

let b2s b = if b then "1" else "0"

let main (args : string list) : unit =
  let ic = match args with [f] -> open_in f | _ -> stdin in
  (try
    while true do
      let line = input_line ic in
      (match split_ws line with
       | ["ipv4"; h] -> print_endline (b2s (M.ipv4_ok (bytes_of_hex h)))
       | ["tcp"; s; d; h] -> print_endline (b2s (M.tcp_ok (n_of_dec s) (n_of_dec d) (bytes_of_hex h)))
       | ["udplen"; h] -> print_endline (b2s (M.udp_len_ok (bytes_of_hex h)))
       | ["udpcsum"; s; d; h] -> print_endline (b2s (M.udp_csum_ok (n_of_dec s) (n_of_dec d) (bytes_of_hex h)))
       | ["icmp"; h] -> print_endline (b2s (M.icmp_ok (bytes_of_hex h)))
       | ["verifies"; h] -> print_endline (b2s (M.verifies (bytes_of_hex h)))
       | ["pcap"; h] ->
         (match M.pcap_read (bytes_of_hex h) with
          | None -> print_endline "NONE"
          | Some recs ->
            print_endline ("RECS " ^ String.concat " " (List.map (fun r ->
              Printf.sprintf "%s:%s:%s:%s:%s" (dec_of_n r.M.r_sec) (dec_of_n r.M.r_nsec) (dec_of_n r.M.r_caplen)
                (dec_of_n r.M.r_len) (hex_of_bytes r.M.r_frame)) recs)))
       | "reasm" :: ds ->
         let fs = List.map (fun h -> M.fragment_of (bytes_of_hex h)) ds in
         (match M.reassemble fs with
          | None -> print_endline "NONE"
          | Some b -> print_endline ("OK " ^ hex_of_bytes b))
       | [] -> print_endline ""
       | _ -> print_endline "BAD")
    done
  with End_of_file -> ());
  flush stdout
