(* `run`: whole programs given as serialised syntax trees. *)
open Common
module M = Rsmodel

exception Parse of string

let parse_val (t : string) : M.val0 =
  match String.index_opt t ':' with
  | None ->
    (match t with
     | "b0" -> M.VBool false | "b1" -> M.VBool true | "nil" -> M.VNil
     | _ -> raise (Parse ("val " ^ t)))
  | Some i ->
    let k = String.sub t 0 i and r = String.sub t (i + 1) (String.length t - i - 1) in
    (match k with
     | "u64" -> M.VU64 (n_of_dec r)
     | "ip" -> M.VIp4 (n_of_dec r)
     | "sock" ->
       (match String.split_on_char ':' r with
        | [a; p] -> M.VSock4 (n_of_dec a, n_of_dec p)
        | _ -> raise (Parse ("sock " ^ t)))
     | "str" -> M.VStr (bytes_of_hex r)
     | _ -> raise (Parse ("val " ^ t)))

let nil_loc = (M.N0, M.N0)

let take_names (n : int) (toks : string list) : M.string list * string list =
  let rec go n toks acc =
    if n = 0 then (List.rev acc, toks)
    else match toks with
      | t :: r -> go (n - 1) r (cstring t :: acc)
      | [] -> raise (Parse "names") in
  go n toks []

let parse_loc (toks : string list) : (M.n * M.n) * string list =
  match toks with
  | t :: r when String.length t > 0 && t.[0] = '@' ->
    (match String.split_on_char ':' (String.sub t 1 (String.length t - 1)) with
     | [l; c] -> ((n_of_dec l, n_of_dec c), r)
     | _ -> raise (Parse "loc"))
  | _ -> (nil_loc, toks)

let rec parse_expr (toks : string list) : M.expr * string list =
  match toks with
  | "nil" :: r -> (M.ENil, r)
  | "lit" :: r0 -> let (l, r) = parse_loc r0 in
    (match r with v :: r' -> (M.ELit (l, parse_val v), r') | [] -> raise (Parse "lit"))
  | "ref" :: r0 ->
    let (l, r) = parse_loc r0 in
    (match r with
     | nm :: r1 ->
       let (ms, r2) = take_names (int_of_string nm) r1 in
       (match r2 with
        | nc :: r3 -> let (cs, r4) = take_names (int_of_string nc) r3 in (M.ERef (l, ms, cs), r4)
        | [] -> raise (Parse "ref"))
     | [] -> raise (Parse "ref"))
  | "call" :: r0 ->
    let (l, r) = parse_loc r0 in
    (match r with
     | nm :: r1 ->
       let (ms, r2) = take_names (int_of_string nm) r1 in
       (match r2 with
        | nc :: r3 ->
          let (cs, r4) = take_names (int_of_string nc) r3 in
          (match r4 with
           | na :: r5 ->
             let rec args n toks acc =
               if n = 0 then (List.rev acc, toks)
               else match toks with
                 | name :: rest ->
                   let (e, rest') = parse_expr rest in
                   let nm = if name = "_" then None else Some (cstring name) in
                   args (n - 1) rest' ((nm, e) :: acc)
                 | [] -> raise (Parse "args") in
             let (a, r6) = args (int_of_string na) r5 [] in
             (M.ECall (l, ms, cs, a), r6)
           | [] -> raise (Parse "call"))
        | [] -> raise (Parse "call"))
     | [] -> raise (Parse "call"))
  | "slash" :: r -> let (a, r1) = parse_expr r in let (b, r2) = parse_expr r1 in (M.ESlash (a, b), r2)
  | t :: _ -> raise (Parse ("expr " ^ t))
  | [] -> raise (Parse "expr eof")

let parse_stmt (toks : string list) : M.stmt =
  match toks with
  | "import" :: r0 -> let (l, r) = parse_loc r0 in
    (match r with [name] -> M.SImport (l, cstring name) | _ -> raise (Parse "import"))
  | "let" :: r0 -> let (l, r) = parse_loc r0 in
    (match r with
     | name :: r' -> let (e, rest) = parse_expr r' in
       if rest <> [] then raise (Parse "let trailing"); M.SAssign (l, cstring name, e)
     | [] -> raise (Parse "let"))
  | "expr" :: r -> let (e, rest) = parse_expr r in
    if rest <> [] then raise (Parse "expr trailing"); M.SExpr e
  | _ -> raise (Parse "stmt")

let show_loc (l, c) = Printf.sprintf "%d:%d" (int_of_n l) (int_of_n c)

let print_result (id : string) (verbose : bool) (r : M.run_result) : unit =
  match r with
  | M.RunOk (pcap, warnings, trace) ->
    Printf.printf "CASE %s OK %s W %s%s\n" id (hex_of_bytes pcap)
      (match warnings with [] -> "-" | _ -> String.concat "," (List.map show_loc warnings))
      (if verbose then " T " ^ String.concat "," (List.map ostring trace) else "")
  | M.RunErr (e, l, partial) ->
    Printf.printf "CASE %s ERR %s @%s%s\n" id (error_name e) (show_loc l)
      (if verbose then " P " ^ hex_of_bytes partial else "")
  | M.RunPanic site -> Printf.printf "CASE %s PANIC %s\n" id (ostring site)

let run_case (id : string) (files : (M.n list * M.n list) list) (stmts : M.stmt list) (verbose : bool) : unit =
  print_result id verbose (M.run files stmts)

let main (args : string list) : unit =
  let verbose = List.mem "-v" args in
  let ic = match List.filter (fun a -> a <> "-v") args with
    | [f] -> open_in f | _ -> stdin in
  let id = ref "" and files = ref [] and stmts = ref [] and src = ref None in
  (try
    while true do
      let line = input_line ic in
      match split_ws line with
      | [] -> ()
      | "CASE" :: i :: _ -> id := i; files := []; stmts := []; src := None
      | "SRC" :: h :: _ -> src := Some (bytes_of_hex h)
      | "FILE" :: p :: c :: _ -> files := (bytes_of_hex p, bytes_of_hex c) :: !files
      | "S" :: rest ->
        (try stmts := parse_stmt rest :: !stmts
         with Parse m -> Printf.printf "CASE %s BADINPUT %s\n" !id m)
      | "END" :: _ ->
        (match !src with
         | Some b -> print_result !id verbose (M.run_src (List.rev !files) b)
         | None -> run_case !id (List.rev !files) (List.rev !stmts) verbose)
      | _ -> Printf.printf "CASE %s BADLINE\n" !id
    done
  with End_of_file -> ());
  flush stdout
