(** Extraction of the executable model.  ExtrOcamlBasic only: bool, option, list, prod, unit,
    sumbool map to OCaml natives; N, positive, nat, string, ascii stay the extracted inductives. *)
From Coq Require Import ExtrOcamlBasic.
From RS Require Import Base.Bytes Base.Outcome Interp.Run Pkt.Csum Spec.Wire Spec.PcapRead Spec.Reasm4 Spec.Tunnel
  Spec.TunnelPeel Spec.LenPrefix Spec.TlsParse Spec.DhcpParse Spec.DnsParse Spec.NbDecode.
Extraction "rsmodel.ml" run run_src csum_partial csum_fold ipv4_ok tcp_ok udp_len_ok udp_csum_ok icmp_ok verifies pcap_read reassemble fragment_of vxlan_decode gre_decode erspan2_decode peel
  rd_be rd_le parse_len_prefixed parse_tls_record parse_handshake parse_extension parse_extensions parse_cipher_list
  parse_client_hello parse_server_hello parse_sni parse_certificates parse_dhcp_tlv parse_dhcp_options parse_dhcp_header
  parse_name expand_name decode_flags parse_dns_header parse_question parse_rr parse_dns_message nb_decode.
