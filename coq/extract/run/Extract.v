(** Extraction of the executable model.  ExtrOcamlBasic only: bool, option, list, prod, unit,
    sumbool map to OCaml natives; N, positive, nat, string, ascii stay the extracted inductives. *)
From Coq Require Import ExtrOcamlBasic.
From RS Require Import Base.Bytes Base.Outcome Interp.Run Pkt.Csum.

Extraction "rsmodel.ml" run csum_partial csum_fold.
