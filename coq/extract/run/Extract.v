(** Extraction of the executable model.  ExtrOcamlBasic only: bool, option, list, prod, unit,
    sumbool map to OCaml natives; N, positive, nat, string, ascii stay the extracted inductives. *)
From Coq Require Import ExtrOcamlBasic.
From RS Require Import Base.Bytes Base.Outcome Interp.Run Pkt.Csum Spec.Wire Spec.PcapRead Spec.Reasm4 Spec.Tunnel.
Extraction "rsmodel.ml" run run_src csum_partial csum_fold ipv4_ok tcp_ok udp_len_ok udp_csum_ok icmp_ok verifies pcap_read reassemble fragment_of vxlan_decode gre_decode erspan2_decode.
