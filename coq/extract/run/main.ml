let () =
  match Array.to_list Sys.argv with
  | _ :: "run" :: rest -> Cmd_run.main rest
  | _ :: "spec" :: rest -> Cmd_spec.main rest
  | _ -> prerr_endline "usage: rsmodel_run <run|spec> ..."; exit 2
