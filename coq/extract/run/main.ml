let () =
  match Array.to_list Sys.argv with
  | _ :: "run" :: rest -> Cmd_run.main rest
  | _ -> prerr_endline "usage: rsmodel <run> ..."; exit 2
