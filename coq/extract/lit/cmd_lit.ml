(* C05 / C17 model side, same line formats as harness/src/bin/lith.rs:
     strlit  <hex of literal body>                 -> OK <hex|-> | ERR            (Literals.decode_strlit)
     std     dec|hex|ip4|bool <hex of text>        -> OK <decimal> | ERR          (parse_u64_dec, ...)
     tok     STR|INT|HEX|IP4|BOOL <hex of text>    -> OK <val> | ERR parse | PANIC (Literals.val_of_token)
     prog    <hex line> <hex line> ...             -> OK n stmt ... | ERR lex | ERR parse | PANIC | MORE
                                                      (Scanner.lex_line + Automaton.run_lines, driven like cli.rs)
   and the specification side (Spec/Literal.v), which never looks at the implementation:
     spec    <seg> <seg> ...  -> <wellformed 0|1> <hex of spell> <hex of denote | REJECT>
             seg = T:cp,cp,..            text run (code points, decimal)
                 | H:item;item;..:cps    closed hex section; item = pre/hiU/mid/loU/val
                 | O:items:pre:u:d:cps   closed section with an odd digit count (last segment)
                 | B:items:pre:dang:cp   section holding a character that is no digit/filler; dang = - | u/d/cps
     slices  <hex of buffer> rN|a ...    -> the slices a history of reads must return, hex, blank separated *)
open Common
module M = Rsmodel

(* ---------------------------------------------------------------- rendering (as cmd_parse.ml / parseh.rs) *)
let loc ((l, c) : M.n * M.n) : string = Printf.sprintf "@%s:%s" (dec_of_n l) (dec_of_n c)

let rval (v : M.val0) : string =
  match v with
  | M.VNil -> "nil"
  | M.VBool b -> if b then "bool:1" else "bool:0"
  | M.VU8 n -> "u8:" ^ dec_of_n n
  | M.VU16 n -> "u16:" ^ dec_of_n n
  | M.VU32 n -> "u32:" ^ dec_of_n n
  | M.VU64 n -> "u64:" ^ dec_of_n n
  | M.VIp4 a -> "ip4:" ^ dec_of_n a
  | M.VSock4 (a, p) -> "sock4:" ^ dec_of_n a ^ ":" ^ dec_of_n p
  | M.VStr b -> "str:" ^ hex_of_bytes b
  | _ -> "other"

let path ms cs = String.concat "::" (List.map ostring ms) ^ "|" ^ String.concat "." (List.map ostring cs)

let rec rexpr (b : Buffer.t) (e : M.expr) : unit =
  match e with
  | M.ENil -> Buffer.add_string b "nil"
  | M.ELit (l, v) -> Buffer.add_string b (Printf.sprintf "lit%s(%s)" (loc l) (rval v))
  | M.ERef (l, ms, cs) -> Buffer.add_string b (Printf.sprintf "ref%s(%s)" (loc l) (path ms cs))
  | M.ECall (l, ms, cs, args) ->
    Buffer.add_string b (Printf.sprintf "call%s(%s;" (loc l) (path ms cs));
    List.iteri (fun i (n, a) ->
      if i > 0 then Buffer.add_char b ',';
      (match n with Some s -> Buffer.add_string b (ostring s) | None -> Buffer.add_char b '_');
      Buffer.add_char b '=';
      rexpr b a) args;
    Buffer.add_char b ')'
  | M.ESlash (x, y) ->
    Buffer.add_string b "slash("; rexpr b x; Buffer.add_char b ','; rexpr b y; Buffer.add_char b ')'

let rstmt (s : M.stmt) : string =
  let b = Buffer.create 64 in
  (match s with
   | M.SImport (l, n) -> Buffer.add_string b (Printf.sprintf "import%s(%s)" (loc l) (ostring n))
   | M.SAssign (l, x, e) ->
     Buffer.add_string b (Printf.sprintf "let%s(%s," (loc l) (ostring x)); rexpr b e; Buffer.add_char b ')'
   | M.SExpr e -> Buffer.add_string b "expr("; rexpr b e; Buffer.add_char b ')');
  Buffer.contents b

(* ---------------------------------------------------------------- model commands *)
let run_strlit (line : string) : string =
  match M.decode_strlit (bytes_of_hex (String.trim line)) with
  | Some b -> "OK " ^ hex_of_bytes b
  | None -> "ERR"

let run_std (line : string) : string =
  match split_ws line with
  | [kind; h] ->
    let s = bytes_of_hex h in
    let r = match kind with
      | "dec" -> M.parse_u64_dec s
      | "hex" -> M.parse_u64_hex s
      | "ip4" -> M.parse_ipv4 s
      | "bool" -> (match M.parse_bool s with Some b -> Some (n_of_int (if b then 1 else 0)) | None -> None)
      | _ -> failwith "kind" in
    (match r with Some v -> "OK " ^ dec_of_n v | None -> "ERR")
  | _ -> "BADCASE"

let run_tok (line : string) : string =
  match split_ws line with
  | [k; h] ->
    let kind = match k with
      | "STR" -> M.TStringLit | "INT" -> M.TIntLit | "HEX" -> M.THexLit | "IP4" -> M.TIPv4Lit
      | "BOOL" -> M.TBoolLit | _ -> failwith "kind" in
    let t = { M.tk_type = kind; M.tk_loc = (n_of_int 1, n_of_int 1); M.tk_val = Some (bytes_of_hex h) } in
    (match M.val_of_token t with
     | M.Ok v -> "OK " ^ rval v
     | M.Err e -> "ERR " ^ error_name e
     | M.Panic _ -> "PANIC"
     | M.OutOfFuel -> "PANIC")
  | _ -> "BADCASE fields"

let run_prog (line : string) : string =
  let srcs = List.map bytes_of_hex (split_ws line) in
  (* lex line by line; the parser sees the lines lexed so far before the next line is lexed *)
  let rec lex_all lx lno srcs acc =
    match srcs with
    | [] -> (List.rev acc, false)
    | l :: r ->
      let (lx', res) = M.lex_line lx (n_of_int lno) l in
      (match res with
       | M.Ok toks -> lex_all lx' (lno + 1) r (toks :: acc)
       | _ -> (List.rev acc, true)) in
  let (lines, lexerr) = lex_all M.lexer_init 1 srcs [] in
  let v = M.run_lines (if lexerr then lines else lines @ [[M.eof_token]]) in
  match v with
  | M.VReject _ -> "ERR parse"
  | M.VPanic _ -> "PANIC"
  | _ when lexerr -> "ERR lex"
  | M.VAccept ss -> String.concat " " (Printf.sprintf "OK %d" (List.length ss) :: List.map rstmt ss)
  | M.VMore -> "MORE"

(* ---------------------------------------------------------------- specification commands *)
let cps (s : string) : M.n list =
  if s = "" then [] else List.map (fun x -> n_of_int (int_of_string x)) (String.split_on_char ',' s)

let flag s = s = "1"

let item (s : string) : M.hexbyte =
  match String.split_on_char '/' s with
  | [pre; hu; mid; lu; v] ->
    { M.hb_pre = cps pre; M.hb_hi_upper = flag hu; M.hb_mid = cps mid; M.hb_lo_upper = flag lu;
      M.hb_val = n_of_int (int_of_string v) }
  | _ -> failwith ("bad item " ^ s)

let items (s : string) : M.hexbyte list =
  if s = "" then [] else List.map item (String.split_on_char ';' s)

type piece = Seg of M.seg | Bad of M.bad_section

let piece (w : string) : piece =
  match String.split_on_char ':' w with
  | ["T"; c] -> Seg (M.Text (cps c))
  | ["H"; it; tr] -> Seg (M.Hex (items it, cps tr))
  | ["O"; it; pre; u; d; tr] -> Bad (M.OddDigits (items it, cps pre, flag u, n_of_int (int_of_string d), cps tr))
  | ["B"; it; pre; dang; cp] ->
    let dg = if dang = "-" then None else
        (match String.split_on_char '/' dang with
         | [u; d; f] -> Some ((flag u, n_of_int (int_of_string d)), cps f)
         | _ -> failwith "bad dangling") in
    Bad (M.BadChar (items it, cps pre, dg, n_of_int (int_of_string cp)))
  | _ -> failwith ("bad piece " ^ w)

let run_spec (line : string) : string =
  let ps = List.map piece (split_ws line) in
  let segs = List.filter_map (function Seg s -> Some s | Bad _ -> None) ps in
  let bad = List.filter_map (function Bad b -> Some b | Seg _ -> None) ps in
  let ok = List.for_all M.seg_ok segs && List.for_all M.bad_section_ok bad in
  let b2s b = if b then "1" else "0" in
  match bad with
  | [] -> Printf.sprintf "%s %s %s" (b2s ok) (hex_of_bytes (M.spell segs)) (hex_of_bytes (M.denote segs))
  | b :: _ -> Printf.sprintf "%s %s REJECT" (b2s ok) (hex_of_bytes (M.spell segs @ M.spell_bad b))

let run_slices (line : string) : string =
  match split_ws line with
  | buf :: ops ->
    let op (s : string) : M.bufop =
      if s = "a" then M.BReadAll else M.BRead (n_of_dec (String.sub s 1 (String.length s - 1))) in
    let rs = M.slices_of (bytes_of_hex buf) M.N0 (List.map op ops) in
    String.concat " " (List.map hex_of_bytes rs)
  | [] -> ""

let main (cmd : string) (args : string list) : unit =
  let f = match cmd with
    | "strlit" -> run_strlit | "std" -> run_std | "tok" -> run_tok | "prog" -> run_prog
    | "spec" -> run_spec | "slices" -> run_slices
    | _ -> prerr_endline ("unknown command " ^ cmd); exit 2 in
  let ic = match args with [] | ["-"] -> stdin | p :: _ -> open_in p in
  let out = Buffer.create (1 lsl 16) in
  (try
     while true do
       let line = input_line ic in
       let res = try f line with Failure m -> "BADCASE " ^ m in
       Buffer.add_string out res; Buffer.add_char out '\n';
       if Buffer.length out > 1 lsl 20 then begin print_string (Buffer.contents out); Buffer.clear out end
     done
   with End_of_file -> ());
  print_string (Buffer.contents out)
