(** Extraction of the literal decoders (model: Lex/Literals.v, with the scanner and the parser automaton for
    whole source lines) and of the literal specification (Spec/Literal.v).  ExtrOcamlBasic only. *)
From Coq Require Import ExtrOcamlBasic.
From RS Require Import Base.Bytes Base.Outcome Lex.Tokens Lex.Scanner Lex.Literals Interp.Val Interp.Ast
  Parse.Verdict Parse.Automaton Spec.Literal.
Extraction "rsmodel.ml" decode_strlit val_of_token parse_u64_dec parse_u64_hex parse_ipv4 parse_bool
  lexer_init lex_line run_lines eof_token
  spell denote seg_ok spell_bad bad_section_ok slices_of be_value.
