let () =
  match Array.to_list Sys.argv with
  | _ :: cmd :: rest -> Cmd_lit.main cmd rest
  | _ -> prerr_endline "usage: rsmodel_lit <strlit|std|tok|prog|spec|slices> [FILE|-]"; exit 2
