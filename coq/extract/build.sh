#!/bin/sh
# usage: build.sh <name> <outdir>
# Extraction (coq/extract/<name>/Extract.v -> rsmodel.ml) and native compilation of the driver
# coq/extract/common.ml + coq/extract/<name>/*.ml (main.ml last) into <outdir>/rsmodel_<name>.
set -e
HERE="$(cd "$(dirname "$0")" && pwd)"
NAME="$1"
OUT="${2:-/verif/.build/model}"
W="$OUT/$NAME.build"
rm -rf "$W"; mkdir -p "$W"
cp "$HERE/$NAME/Extract.v" "$W/Extract.v"
( cd "$W" && coqc -Q "$HERE/../theories" RS -Q "$HERE/../gen" RSGen -noglob Extract.v >extract.log 2>&1 ) || { cat "$W/extract.log"; exit 1; }
cp "$HERE/common.ml" "$W/"
for f in "$HERE/$NAME"/*.ml; do cp "$f" "$W/"; done
cd "$W"
MLS="$(ls *.ml | grep -v '^rsmodel.ml$' | grep -v '^common.ml$' | grep -v '^main.ml$' | tr '\n' ' ')"
ocamlfind ocamlopt -O3 -w -a rsmodel.mli rsmodel.ml common.ml $MLS main.ml -o "$OUT/rsmodel_$NAME" 2>ocaml.log \
  || ocamlfind ocamlopt -w -a rsmodel.mli rsmodel.ml common.ml $MLS main.ml -o "$OUT/rsmodel_$NAME"
