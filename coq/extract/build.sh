#!/bin/sh
# extraction + native compilation of the model driver
set -e
cd "$(dirname "$0")"
OUT=${1:-/verif/.build/model}
mkdir -p "$OUT"
coqc -Q ../theories RS -Q ../gen RSGen Extract.v >/dev/null 2>"$OUT/extract.log" || { cat "$OUT/extract.log"; exit 1; }
cp rsmodel.ml rsmodel.mli driver/*.ml "$OUT/"
rm -f rsmodel.ml rsmodel.mli
cd "$OUT"
ocamlfind ocamlopt -O3 -w -a -package str rsmodel.mli rsmodel.ml common.ml cmd_*.ml main.ml -o rsmodel 2>"$OUT/ocaml.log" \
  || ocamlfind ocamlopt -w -a rsmodel.mli rsmodel.ml common.ml cmd_*.ml main.ml -o rsmodel
