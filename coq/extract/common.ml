(* Unverified I/O glue shared by the model driver commands. *)
module M = Rsmodel

let rec pos_of_int (i : int) : M.positive =
  if i = 1 then M.XH
  else if i land 1 = 0 then M.XO (pos_of_int (i lsr 1))
  else M.XI (pos_of_int (i lsr 1))

let n_of_int (i : int) : M.n = if i = 0 then M.N0 else M.Npos (pos_of_int i)

let rec int_of_pos (p : M.positive) : int =
  match p with M.XH -> 1 | M.XO q -> 2 * int_of_pos q | M.XI q -> 2 * int_of_pos q + 1

let int_of_n (x : M.n) : int = match x with M.N0 -> 0 | M.Npos p -> int_of_pos p

let rec nat_of_int (i : int) : M.nat = if i <= 0 then M.O else M.S (nat_of_int (i - 1))
let rec int_of_nat (x : M.nat) : int = match x with M.O -> 0 | M.S y -> 1 + int_of_nat y

let n10 = n_of_int 10

(* decimal string of any size -> N *)
let n_of_dec (s : string) : M.n =
  let acc = ref M.N0 in
  String.iter (fun c ->
    let d = Char.code c - 48 in
    if d < 0 || d > 9 then failwith ("bad decimal: " ^ s);
    acc := M.N.add (M.N.mul !acc n10) (n_of_int d)) s;
  !acc

(* N -> decimal string (values may exceed OCaml int) *)
let dec_of_n (x : M.n) : string =
  let rec bits p = match p with M.XH -> [1] | M.XO q -> 0 :: bits q | M.XI q -> 1 :: bits q in
  match x with
  | M.N0 -> "0"
  | M.Npos p ->
    (* little-endian bit list -> decimal via repeated doubling on a digit array *)
    let digits = ref [0] in
    let double_add carry0 =
      let carry = ref carry0 in
      digits := List.map (fun d -> let v = d * 2 + !carry in carry := v / 10; v mod 10) !digits;
      if !carry > 0 then digits := !digits @ [!carry] in
    List.iter (fun b -> double_add b) (List.rev (bits p));
    String.concat "" (List.rev_map string_of_int !digits)

let hexval c =
  match c with
  | '0'..'9' -> Char.code c - 48
  | 'a'..'f' -> Char.code c - 87
  | 'A'..'F' -> Char.code c - 55
  | _ -> failwith "bad hex"

let small_n = Array.init 256 n_of_int

let bytes_of_hex (s : string) : M.n list =
  if s = "-" then []
  else begin
    let n = String.length s / 2 in
    let rec go i acc = if i < 0 then acc else go (i - 1) (small_n.(hexval s.[2*i] * 16 + hexval s.[2*i+1]) :: acc) in
    go (n - 1) []
  end

let hex_of_bytes (l : M.n list) : string =
  match l with
  | [] -> "-"
  | _ ->
    let b = Buffer.create 256 in
    List.iter (fun x -> Buffer.add_string b (Printf.sprintf "%02x" (int_of_n x))) l;
    Buffer.contents b

let ascii_of_char (c : char) : M.ascii =
  let i = Char.code c in
  let b k = (i lsr k) land 1 = 1 in
  M.Ascii (b 0, b 1, b 2, b 3, b 4, b 5, b 6, b 7)

let char_of_ascii (a : M.ascii) : char =
  match a with M.Ascii (b0,b1,b2,b3,b4,b5,b6,b7) ->
    let v x k = if x then 1 lsl k else 0 in
    Char.chr (v b0 0 + v b1 1 + v b2 2 + v b3 3 + v b4 4 + v b5 5 + v b6 6 + v b7 7)

let cstring (s : string) : M.string =
  let r = ref M.EmptyString in
  for i = String.length s - 1 downto 0 do r := M.String (ascii_of_char s.[i], !r) done;
  !r

let rec ostring (s : M.string) : string =
  let b = Buffer.create 16 in
  let rec go s = match s with M.EmptyString -> () | M.String (a, r) -> Buffer.add_char b (char_of_ascii a); go r in
  go s; Buffer.contents b

let split_ws (s : string) : string list =
  List.filter (fun x -> x <> "") (String.split_on_char ' ' s)

let error_name (e : M.error) : string =
  match e with
  | M.EIo -> "io" | M.ELex -> "lex" | M.EParse -> "parse" | M.EMemory -> "memory"
  | M.EImport s -> "import:" ^ ostring s | M.EName -> "name" | M.EType -> "type" | M.ERuntime -> "runtime"
  | M.EMultipleAssign s -> "reassign:" ^ ostring s

let read_lines (ic : in_channel) : string list =
  let rec go acc = match input_line ic with l -> go (l :: acc) | exception End_of_file -> List.rev acc in
  go []
