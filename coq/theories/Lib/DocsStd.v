(** The documentation generator applied to the standard library of the running code
    (gen/Catalogue.v, regenerated on every run). *)
From RS Require Import Base.Bytes Base.Outcome Bind.Types Lib.Docs.
From RSGen Require Import Catalogue.

Definition real_library : library := {|
  lib_funcs := catalogue;
  lib_classes := class_table;
  lib_modules := module_table;
  lib_func_docs := func_doc_table;
  lib_class_docs := class_doc_table;
  lib_module_docs := module_doc_table
|}.

(** what [resynth --output-docs DIR] writes below DIR: (relative path, contents) *)
Definition stdlib_docs : outcome (list (string * string)) := docs_tree real_library.

(** * The renderer model against the Display output dumped from the running code
    (gen/Catalogue.v: [display_table], [opt_shown_table], [const_shown_table]) *)

Definition recorded_eqb (recorded : option string) (rendered : string) : bool :=
  match recorded with Some s => String.eqb s rendered | None => false end.

(** impl Display for FuncDef, whole signature *)
Definition signature_rendered (f : funcdef) : bool :=
  recorded_eqb (assoc (fd_key f) display_table) (show_funcdef f).

(** impl Display for ArgDecl, every optional parameter ([type = default]) *)
Definition defaults_rendered (f : funcdef) : bool :=
  match assoc (fd_key f) opt_shown_table with
  | None => false
  | Some shown =>
    forallb (fun a : string * argdecl =>
               match snd a with
               | Optional _ => recorded_eqb (assoc (fst a) shown) (show_argdecl (snd a))
               | Positional _ => true
               end) (fd_args f)
  end.

(** [(type)value] of every constant *)
Definition constant_rendered (pv : string * valdef) : bool :=
  recorded_eqb (assoc (fst pv) const_shown_table) (show_constant (snd pv)).

(** * [constant_table] and the [SVal] entries of [module_table] are the same constants *)

Definition valdef_eqb (a b : valdef) : bool :=
  match a, b with
  | DNil, DNil => true
  | DBool x, DBool y => Bool.eqb x y
  | DU8 x, DU8 y | DU16 x, DU16 y | DU32 x, DU32 y | DU64 x, DU64 y | DIp4 x, DIp4 y => N.eqb x y
  | DSock4 x p, DSock4 y q => N.eqb x y && N.eqb p q
  | DStr x, DStr y => list_eqb N.eqb x y
  | DType x, DType y => vtype_eqb x y
  | _, _ => false
  end.

Definition module_consts (m : string * list (string * symbol)) : list (string * valdef) :=
  flat_map (fun s : string * symbol =>
              match snd s with
              | SVal d => [(child_path (fst m) (fst s), d)]
              | _ => []
              end) (snd m).

Definition in_constant_table (pv : string * valdef) : bool :=
  match assoc (fst pv) constant_table with Some d => valdef_eqb d (snd pv) | None => false end.

Definition constants_are_module_constants : bool :=
  forallb in_constant_table (flat_map module_consts module_table)
  && Nat.eqb (length (flat_map module_consts module_table)) (length constant_table).
