(** Common plumbing for the standard-library model: how an exec body reads its arguments. *)
From RS Require Import Base.Bytes Base.Outcome Bind.Types Pkt.Packet Interp.Val.
Open Scope N_scope.

(** external world visible to a program: readable data files (path -> contents) *)
Record env := { env_files : list (bytes * bytes) }.

Fixpoint lookup_file (path : bytes) (l : list (bytes * bytes)) : option bytes :=
  match l with
  | [] => None
  | (p, c) :: r => if bytes_eqb p path then Some c else lookup_file path r
  end.

Definition libres := outcome (val * heap).

Definition alloc (h : heap) (o : obj) : val * heap := (VObj (length h), h ++ [o]).

Fixpoint set_nth {A} (l : list A) (n : nat) (x : A) : list A :=
  match l, n with
  | [], _ => []
  | _ :: r, O => x :: r
  | y :: r, S n' => y :: set_nth r n' x
  end.

(** args.take_this() followed by the downcast *)
Definition take_this (this : option nat) (h : heap) : outcome (nat * obj) :=
  match this with
  | None => Panic "args.rs take_this: unwrap on None"
  | Some a => match nth_error h a with
              | Some o => Ok (a, o)
              | None => Panic "dangling object reference"
              end
  end.

Definition bad_args {A} : outcome A := Panic "args.rs next: unwrap on None".
Definition bad_downcast {A} : outcome A := Panic "downcast_mut().unwrap()".
