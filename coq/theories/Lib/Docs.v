(** The documentation generator (property C20).

    src/val.rs       impl Display for ValType, impl Display for ValDef
    src/libapi.rs    impl Display for ArgDecl / ArgDesc / FuncDef, FuncDef::write_docs,
                     Documented::{symbol_set, modules, functions, classes, constants, write_docs}
    src/stdlib/mod.rs  recurse, write_docs

    Text is a Coq [string] (one [ascii] per byte).  The symbol tables, signatures, defaults,
    constants and doc-comment texts are data: they come from gen/Catalogue.v, regenerated from the
    running code on every run.  Formatting done by the Rust standard library ([{:#06x}], Display of
    [Ipv4Addr]/[SocketAddrV4]/[bool], [core::ascii::escape_default], [slice::sort] on [&str] keys)
    is modelled by the hand-written functions of the first section. *)
From Coq Require Import Ascii.
From RS Require Import Base.Bytes Base.Outcome Bind.Types.
Open Scope string_scope.
Open Scope N_scope.

(** * core::fmt *)

Definition digit_char (d : N) : ascii := ascii_of_N (if d <? 10 then 48 + d else 87 + d).

(** digits of [n] in [base], most significant first, no leading zeros ("0" for 0) *)
Fixpoint digits_acc (base : N) (fuel : nat) (n : N) (acc : string) : string :=
  match fuel with
  | O => acc
  | S f =>
    let acc' := String (digit_char (n mod base)) acc in
    if n <? base then acc' else digits_acc base f (n / base) acc'
  end.

Definition show_dec (n : N) : string := digits_acc 10 (S (N.size_nat n)) n "".
Definition show_hex_min (n : N) : string := digits_acc 16 (S (N.size_nat n)) n "".

Fixpoint zeros_str (k : nat) : string :=
  match k with O => "" | S k' => String "0"%char (zeros_str k') end.

(** [{:#0Wx}]: the prefix 0x counts towards the minimum width W, zeros go after the prefix *)
Definition show_hex_width (w : nat) (n : N) : string :=
  let d := show_hex_min n in
  "0x" ++ zeros_str ((w - 2) - String.length d) ++ d.

Definition show_bool (b : bool) : string := if b then "true" else "false".

(** Display for Ipv4Addr (the address as a big-endian u32) and SocketAddrV4 *)
Definition show_ip4 (a : N) : string :=
  show_dec ((a / 16777216) mod 256) ++ "." ++ show_dec ((a / 65536) mod 256) ++ "."
  ++ show_dec ((a / 256) mod 256) ++ "." ++ show_dec (a mod 256).

Definition show_sock4 (a p : N) : string := show_ip4 a ++ ":" ++ show_dec p.

(** core::ascii::escape_default *)
Definition escape_default (b : N) : string :=
  if b =? 9 then "\t"
  else if b =? 13 then "\r"
  else if b =? 10 then "\n"
  else if b =? 39 then "\'"
  else if b =? 34 then String "\"%char (String (ascii_of_N 34) "")
  else if b =? 92 then "\\"
  else if (32 <=? b) && (b <=? 126) then String (ascii_of_N b) ""
  else "\x" ++ String (digit_char ((b / 16) mod 16)) (String (digit_char (b mod 16)) "").

Fixpoint escape_bytes (l : bytes) : string :=
  match l with
  | [] => ""
  | b :: r => escape_default b ++ escape_bytes r
  end.

(** * src/val.rs *)

(** #[derive(Debug)] on ValType *)
Definition debug_vtype (t : vtype) : string :=
  match t with
  | TVoid => "Void" | TBool => "Bool" | TU8 => "U8" | TU16 => "U16" | TU32 => "U32" | TU64 => "U64"
  | TIp4 => "Ip4" | TSock4 => "Sock4" | TStr => "Str" | TType => "Type" | TObj => "Obj"
  | TFunc => "Func" | TMethod => "Method" | TPkt => "Pkt" | TPktGen => "PktGen"
  | TTimeJump => "TimeJump"
  end.

(** impl Display for ValType *)
Definition show_vtype (t : vtype) : string :=
  match t with
  | TVoid => "void" | TBool => "bool" | TU8 => "u8" | TU16 => "u16" | TU32 => "u32" | TU64 => "u64"
  | TIp4 => "Ip4" | TSock4 => "Sock4" | TStr => "bytes" | TType => "type"
  | _ => debug_vtype t
  end.

(** impl Display for ValDef *)
Definition show_valdef (d : valdef) : string :=
  match d with
  | DNil => "Nil"
  | DBool b => show_bool b
  | DU8 n => show_hex_width 4 n
  | DU16 n => show_hex_width 6 n
  | DU32 n => show_hex_width 10 n
  | DU64 n => show_hex_width 18 n
  | DIp4 a => show_ip4 a
  | DSock4 a p => show_sock4 a p
  | DStr b => String (ascii_of_N 34) (escape_bytes b) ++ String (ascii_of_N 34) ""
  | DType t => debug_vtype t
  end.

(** how a constant is printed in the Constants table: [format!("({}){}", val.val_type(), val)] *)
Definition show_constant (d : valdef) : string :=
  "(" ++ show_vtype (valdef_type d) ++ ")" ++ show_valdef d.

(** * src/libapi.rs: Display *)

Definition show_argdecl (a : argdecl) : string :=
  match a with
  | Positional t => show_vtype t
  | Optional d => show_vtype (valdef_type d) ++ " = " ++ show_valdef d
  end.

Definition show_argdesc (a : string * argdecl) : string := fst a ++ ": " ++ show_argdecl (snd a).

Definition nl : string := String (ascii_of_N 10) "".

Fixpoint show_args (l : list (string * argdecl)) : string :=
  match l with
  | [] => ""
  | a :: r => "    " ++ show_argdesc a ++ "," ++ nl ++ show_args r
  end.

(** impl Display for FuncDef *)
Definition show_funcdef (f : funcdef) : string :=
  "resynth fn " ++ fd_name f ++ " (" ++ nl
  ++ show_args (fd_args f)
  ++ (if vtype_eqb (fd_collect f) TVoid then ""
      else "    =>" ++ nl ++ "    *collect_args: " ++ show_vtype (fd_collect f) ++ "," ++ nl)
  ++ ") -> " ++ show_vtype (fd_ret f) ++ ";".

(** * The library being documented *)

Record library := {
  lib_funcs : list funcdef;
  lib_classes : list (string * list (string * string));      (* class key -> (method name, function key) *)
  lib_modules : list (string * list (string * symbol));      (* module path -> symbol table, declaration order *)
  lib_func_docs : list (string * string);
  lib_class_docs : list (string * string);
  lib_module_docs : list (string * string)
}.

Fixpoint find_func (key : string) (l : list funcdef) : option funcdef :=
  match l with
  | [] => None
  | f :: r => if String.eqb (fd_key f) key then Some f else find_func key r
  end.

(** FuncDef::write_docs *)
Definition func_docs (f : funcdef) (doc : string) : string :=
  nl ++ "## " ++ fd_name f ++ nl ++ "```resynth" ++ nl ++ show_funcdef f ++ nl ++ "```" ++ nl ++ doc ++ nl.

(** * Documented *)

(** [Vec::sort] on SymDesc, whose Ord compares the names as byte strings; stable *)
Fixpoint insert_sym {A} (x : string * A) (l : list (string * A)) : list (string * A) :=
  match l with
  | [] => [x]
  | y :: r => if String.ltb (fst x) (fst y) then x :: l else y :: insert_sym x r
  end.

Definition sort_syms {A} (l : list (string * A)) : list (string * A) :=
  fold_left (fun acc x => insert_sym x acc) l [].

Definition is_module (s : string * symbol) : bool := match snd s with SModule _ => true | _ => false end.
Definition is_func (s : string * symbol) : bool := match snd s with SFunc _ => true | _ => false end.
Definition is_class (s : string * symbol) : bool := match snd s with SClass _ => true | _ => false end.
Definition is_const (s : string * symbol) : bool := match snd s with SVal _ => true | _ => false end.

Fixpoint index_lines (fmt : string -> string) (l : list (string * symbol)) : string :=
  match l with
  | [] => ""
  | s :: r => fmt (fst s) ++ index_lines fmt r
  end.

Definition module_link (n : string) : string := "- [" ++ n ++ "](" ++ n ++ "/README.md)" ++ nl.
Definition class_link (n : string) : string := "- [" ++ n ++ "](" ++ n ++ ".md)" ++ nl.
Definition func_link (n : string) : string := "- [" ++ n ++ "](#" ++ n ++ ")" ++ nl.

Fixpoint const_rows (l : list (string * symbol)) : string :=
  match l with
  | [] => ""
  | (n, SVal d) :: r => "| " ++ n ++ " | `" ++ show_constant d ++ "` |" ++ nl ++ const_rows r
  | _ :: r => const_rows r
  end.

(** the function sections; the code asserts that the symbol-table name equals func.name *)
Fixpoint func_sections (L : library) (l : list (string * symbol)) : outcome string :=
  match l with
  | [] => Ok ""
  | (n, SFunc key) :: r =>
    match find_func key (lib_funcs L), assoc key (lib_func_docs L) with
    | Some f, Some doc =>
      if String.eqb n (fd_name f)
      then do rest <- func_sections L r; Ok (func_docs f doc ++ rest)
      else Panic "libapi.rs write_docs assert_eq!(*name, func.name)"
    | _, _ => Panic "model: function of a symbol table missing from the catalogue"
    end
  | _ :: r => func_sections L r
  end.

(** Documented::write_docs *)
Definition write_docs (L : library) (front_matter : string) (symtab : list (string * symbol)) : outcome string :=
  let submods := sort_syms (filter is_module symtab) in
  let funcs := sort_syms (filter is_func symtab) in
  let classes := sort_syms (filter is_class symtab) in
  let consts := sort_syms (filter is_const symtab) in
  do sections <- func_sections L funcs;
  Ok (front_matter
      ++ nl ++ "## Index" ++ nl ++ nl
      ++ (match submods with [] => "" | _ => nl ++ "### Modules" ++ nl ++ nl ++ index_lines module_link submods end)
      ++ (match classes with [] => "" | _ => nl ++ "### Classes" ++ nl ++ nl ++ index_lines class_link classes end)
      ++ (match funcs with [] => "" | _ => nl ++ "### Functions" ++ nl ++ nl ++ index_lines func_link funcs end)
      ++ (match consts with
          | [] => ""
          | _ => nl ++ "### Constants" ++ nl ++ nl ++ "| Name | Value |" ++ nl ++ "| ---- | ----- |" ++ nl
                 ++ const_rows consts
          end)
      ++ (match funcs with [] => "" | _ => nl ++ nl ++ sections end)).

(** the symbol table of a class: its methods *)
Definition class_symtab (methods : list (string * string)) : list (string * symbol) :=
  map (fun m => (fst m, SFunc (snd m))) methods.

Definition class_page (L : library) (key : string) : outcome string :=
  match assoc key (lib_classes L), assoc key (lib_class_docs L) with
  | Some methods, Some doc => write_docs L doc (class_symtab methods)
  | _, _ => Panic "model: class missing from the catalogue"
  end.

Definition module_page (L : library) (path : string) : outcome string :=
  match assoc path (lib_modules L), assoc path (lib_module_docs L) with
  | Some symtab, Some doc => write_docs L doc symtab
  | _, _ => Panic "model: module missing from the catalogue"
  end.

(** * src/stdlib/mod.rs: recurse / write_docs -- the tree of files, as (relative path, contents) *)

Definition child_path (path name : string) : string :=
  if String.eqb path "" then name else path ++ "::" ++ name.
Definition child_dir (dir name : string) : string :=
  if String.eqb dir "" then name else dir ++ "/" ++ name.

Fixpoint recurse (L : library) (fuel : nat) (path dir : string) : outcome (list (string * string)) :=
  match fuel with
  | O => OutOfFuel
  | S fuel' =>
    do page <- module_page L path;
    match assoc path (lib_modules L) with
    | None => Panic "model: module missing from the catalogue"
    | Some symtab =>
      do rest <- (fix children (l : list (string * symbol)) : outcome (list (string * string)) :=
                    match l with
                    | [] => Ok []
                    | (n, SModule _) :: r =>
                      do a <- recurse L fuel' (child_path path n) (child_dir dir n);
                      do b <- children r; Ok (a ++ b)%list
                    | (n, SClass _) :: r =>
                      do a <- class_page L (child_path path n);
                      do b <- children r; Ok ((child_dir dir (n ++ ".md"), a) :: b)
                    | _ :: r => children r
                    end) symtab;
      Ok ((child_dir dir "README.md", page) :: rest)
    end
  end.

Definition docs_tree (L : library) : outcome (list (string * string)) :=
  recurse L (S (length (lib_modules L))) "" "".
