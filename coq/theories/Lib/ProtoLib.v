(** src/stdlib/{dns,netbios,dhcp,tls}.rs with pkt/src/{dns,netbios,dhcp}.rs, ezpkt/src/dhcp.rs *)
From RS Require Import Base.Bytes Base.Outcome Bind.Types Pkt.Csum Pkt.Hdrs Pkt.Packet
  Ez.Tcp Ez.Udp Interp.Val Lib.LibBase.
Open Scope N_scope.

(* ---------------- DNS names ---------------- *)
(** slice::split(|x| x == b'.') *)
Fixpoint split_dot_aux (l cur : bytes) : list bytes :=
  match l with
  | [] => [rev cur]
  | c :: r => if c =? 46 then rev cur :: split_dot_aux r [] else split_dot_aux r (c :: cur)
  end.
Definition split_dot (l : bytes) : list bytes := split_dot_aux l [].

(** DnsName::push: length as u8 (truncating), then the bytes *)
Definition dns_label (c : bytes) : bytes := wrap8 (len c) :: c.
Definition dns_labels (cs : list bytes) : bytes := concat (map dns_label cs).
(** DnsName::from(name) *)
Definition dns_name_from (name : bytes) : bytes := dns_labels (split_dot name) ++ [0].
Definition dns_pointer (off : N) : bytes := [N.lor 192 (wrap8 (off / 256)); off mod 256].

Definition dns_name_fn (a x : list val) (h : heap) : libres :=
  match a with
  | [complete] =>
    do c <- conv_bool complete;
    do v <- omapM conv_buf x;
    let r := if c then match v with
                       | [] => [0]
                       | [one] => dns_name_from one
                       | _ => dns_labels v ++ [0]
                       end
             else dns_labels v in
    Ok (VStr r, h)
  | _ => bad_args
  end.
Definition dns_pointer_fn (a x : list val) (h : heap) : libres :=
  match a with [off] => do o <- conv_u16 off; Ok (VStr (dns_pointer o), h) | _ => bad_args end.

(** DnsFlags builder: response, opcode, aa, tc, rd, ra, z, ad, cd, rcode *)
Definition dns_flags_word (response : bool) (opcode : N) (aa tc rd ra z ad cd : bool) (rcode : N) : N :=
  N.lor (bit response 32768) (N.lor (N.shiftl (N.land opcode 15) 11)
  (N.lor (bit aa 1024) (N.lor (bit tc 512) (N.lor (bit rd 256) (N.lor (bit ra 128)
  (N.lor (bit z 64) (N.lor (bit ad 32) (N.lor (bit cd 16) (N.land rcode 15))))))))).

Definition dns_flags_fn (a x : list val) (h : heap) : libres :=
  match a with
  | [opcode; response; aa; tc; rd; ra; z; ad; cd; rcode] =>
    do oc <- conv_u8 opcode; do r <- conv_bool response; do vaa <- conv_bool aa; do vtc <- conv_bool tc;
    do vrd <- conv_bool rd; do vra <- conv_bool ra; do vz <- conv_bool z; do vad <- conv_bool ad;
    do vcd <- conv_bool cd; do rc <- conv_u8 rcode;
    Ok (VU16 (dns_flags_word r oc vaa vtc vrd vra vz vad vcd rc), h)
  | _ => bad_args
  end.

Definition dns_hdr_bytes (id flags qd an ns ar : N) : bytes :=
  be16 id ++ be16 flags ++ be16 qd ++ be16 an ++ be16 ns ++ be16 ar.
Definition dns_hdr_fn (a x : list val) (h : heap) : libres :=
  match a with
  | [id; flags; qd; an; ns; ar] =>
    do i <- conv_u16 id; do f <- conv_u16 flags; do q <- conv_u16 qd; do n <- conv_u16 an;
    do s <- conv_u16 ns; do r <- conv_u16 ar;
    Ok (VStr (dns_hdr_bytes i f q n s r), h)
  | _ => bad_args
  end.
Definition dns_question_fn (a x : list val) (h : heap) : libres :=
  match a with
  | [qname; qtype; qclass] =>
    do n <- conv_buf qname; do t <- conv_u16 qtype; do c <- conv_u16 qclass;
    Ok (VStr (n ++ be16 t ++ be16 c), h)
  | _ => bad_args
  end.
Definition dns_answer_fn (a x : list val) (h : heap) : libres :=
  match a with
  | [aname; atype; aclass; ttl] =>
    do n <- conv_buf aname; do t <- conv_u16 atype; do c <- conv_u16 aclass; do ttlv <- conv_u32 ttl;
    do data <- join_extra [] x;
    Ok (VStr (n ++ be16 t ++ be16 c ++ be32 ttlv ++ be16 (wrap16 (len data)) ++ data), h)
  | _ => bad_args
  end.

(** dns::host: the two DNS messages (UDP payloads) it builds, [name] already encoded;
    [ancount] is args.extra_len() as u16 *)
Definition dns_host_query (name : bytes) : bytes :=
  dns_hdr_bytes 4660 (dns_flags_word false 0 false false true false false false false 0) 1 0 0 0
  ++ name ++ be16 1 ++ be16 1.
Definition dns_host_rr (name : bytes) (ttlv ip : N) : bytes :=
  name ++ be16 1 ++ be16 1 ++ be32 ttlv ++ be16 4 ++ be32 ip.
Definition dns_host_response (name : bytes) (ttlv ancount : N) (ips : list N) : bytes :=
  dns_hdr_bytes 4660 (dns_flags_word true 0 false false false true false false false 0) 1 ancount 0 0
  ++ name ++ be16 1 ++ be16 1 ++ concat (map (dns_host_rr name ttlv) ips).
Definition dns_host_fn (a x : list val) (h : heap) : libres :=
  match a with
  | [client; qname; ttl; ns; raw] =>
    do cl <- conv_ip4 client; do qn <- conv_buf qname; do ttlv <- conv_u32 ttl; do nsip <- conv_ip4 ns;
    do r <- conv_bool raw;
    let name := dns_name_from qn in
    let flow := {| uf_cl := (cl, 32768); uf_sv := (nsip, 53); uf_raw := r |} in
    do d1 <- uflow_client_dgram flow (dns_host_query name); do d1c <- udp_csum d1;
    do ips <- omapM conv_ip4 x;
    do d2 <- uflow_server_dgram flow (dns_host_response name ttlv (wrap16 (len x)) ips); do d2c <- udp_csum d2;
    Ok (VPktGen [udp_packet d1c; udp_packet d2c], h)
  | _ => bad_args
  end.

(* ---------------- NetBIOS ---------------- *)
Definition nb_flags_fn := dns_flags_fn.

Definition nb_pad (name : bytes) (suffix : N) : option bytes :=
  if 16 <? len name + 1 then None
  else Some (name ++ repeat 32 (15 - length name) ++ [suffix]).
Definition nb_raw_encode (b : bytes) : bytes :=
  concat (map (fun c => [c / 16 + 65; c mod 16 + 65]) b).
Definition nb_encode_fn (a x : list val) (h : heap) : libres :=
  match a with
  | [suffix] =>
    do s <- conv_u8 suffix; do data <- join_extra [] x;
    match nb_pad data s with
    | Some p => Ok (VStr (nb_raw_encode p), h)
    | None => Err ERuntime
    end
  | _ => bad_args
  end.

(* ---------------- DHCP ---------------- *)
(** fixed-width field: the first min(len, width) bytes, zero padded *)
Definition fixed_field (width : nat) (v : option bytes) : bytes :=
  match v with
  | None => zeros width
  | Some b => firstn width b ++ zeros (width - length (firstn width b))
  end.
Definition dhcp_hdr_bytes (op htype hlen hops xid ci yi si gi : N) (ch sn fl : option bytes) (magic : N) : bytes :=
  [op; htype; hlen; hops] ++ be32 xid ++ be16 0 ++ be16 0 ++ be32 ci ++ be32 yi ++ be32 si ++ be32 gi
  ++ fixed_field 16 ch ++ fixed_field 64 sn ++ fixed_field 128 fl ++ be32 magic.
Definition dhcp_hdr_fn (a x : list val) (h : heap) : libres :=
  match a with
  | [opcode; htype; hlen; hops; xid; ci; yi; si; gi; ch; sn; fl; magic] =>
    do op <- conv_u8 opcode; do ht <- conv_u8 htype; do hl <- conv_u8 hlen; do hp <- conv_u8 hops;
    do xi <- conv_u32 xid; do c <- conv_ip4 ci; do y <- conv_ip4 yi; do s <- conv_ip4 si; do g <- conv_ip4 gi;
    do chv <- conv_opt conv_buf ch; do snv <- conv_opt conv_buf sn; do flv <- conv_opt conv_buf fl;
    do mg <- conv_u32 magic;
    Ok (VStr (dhcp_hdr_bytes op ht hl hp xi c y s g chv snv flv mg), h)
  | _ => bad_args
  end.
Definition dhcp_option_fn (a x : list val) (h : heap) : libres :=
  match a with
  | [opt] => do o <- conv_u8 opt; do data <- join_extra [] x;
             Ok (VStr ([o; wrap8 (len data)] ++ data), h)
  | _ => bad_args
  end.

(* ---------------- TLS ---------------- *)
Definition tls_message_fn (a x : list val) (h : heap) : libres :=
  match a with
  | [version; content] =>
    do v <- conv_u16 version; do c <- conv_u8 content; do b <- join_extra [] x;
    Ok (VStr ([c] ++ be16 v ++ be16 (wrap16 (len b)) ++ b), h)
  | _ => bad_args
  end.
Definition tls_extension_fn (a x : list val) (h : heap) : libres :=
  match a with
  | [ext] => do e <- conv_u16 ext; do b <- join_extra [] x;
             Ok (VStr (be16 e ++ be16 (wrap16 (len b)) ++ b), h)
  | _ => bad_args
  end.
Definition len24 (n : N) : bytes := be24 (wrap32 n).
Definition tls_ciphers_fn (a x : list val) (h : heap) : libres :=
  match a with
  | [] => do ids <- omapM conv_u16 x;
          Ok (VStr (be16 (wrap16 (len ids * 2)) ++ concat (map be16 ids)), h)
  | _ => bad_args
  end.
Definition client_random : bytes :=
  [95;99;108;105;101;110;116;95;95;114;97;110;100;111;109;95;95;99;108;105;101;110;116;95;95;114;97;110;100;111;109;95].
Definition server_random : bytes :=
  [95;115;101;114;118;101;114;95;95;114;97;110;100;111;109;95;95;115;101;114;118;101;114;95;95;114;97;110;100;111;109;95].
Definition ext_block (e : bytes) : bytes := match e with [] => [] | _ => be16 (wrap16 (len e)) ++ e end.
Definition tls_client_hello_fn (a x : list val) (h : heap) : libres :=
  match a with
  | [version; sessionid; ciphers; compression] =>
    do v <- conv_u16 version; do sid <- conv_buf sessionid; do ci <- conv_buf ciphers;
    do co <- conv_buf compression; do e <- join_extra [] x;
    let hlen := 34 + len sid + len ci + len co + (if 0 <? len e then 2 else 0) + len e in
    Ok (VStr ([1] ++ len24 hlen ++ be16 v ++ client_random ++ sid ++ ci ++ co ++ ext_block e), h)
  | _ => bad_args
  end.
Definition tls_server_hello_fn (a x : list val) (h : heap) : libres :=
  match a with
  | [version; sessionid; cipher; compression] =>
    do v <- conv_u16 version; do sid <- conv_buf sessionid; do ci <- conv_u16 cipher;
    do co <- conv_u8 compression; do e <- join_extra [] x;
    let hlen := 34 + len sid + 2 + 1 + (if 0 <? len e then 2 else 0) + len e in
    Ok (VStr ([2] ++ len24 hlen ++ be16 v ++ server_random ++ sid ++ be16 ci ++ [co] ++ ext_block e), h)
  | _ => bad_args
  end.
Definition sum_lens (l : list bytes) : N := fold_right (fun b acc => len b + acc) 0 l.
Definition tls_sni_fn (a x : list val) (h : heap) : libres :=
  match a with
  | [] =>
    do names <- omapM conv_buf x;
    let name_list_len := 3 * len names + sum_lens names in
    let tot_len := 2 + name_list_len in
    Ok (VStr (be16 0 ++ be16 (wrap16 tot_len) ++ be16 (wrap16 name_list_len)
              ++ concat (map (fun n => [0] ++ be16 (wrap16 (len n)) ++ n) names)), h)
  | _ => bad_args
  end.
Definition tls_certificates_fn (a x : list val) (h : heap) : libres :=
  match a with
  | [] =>
    do certs <- omapM conv_buf x;
    let cert_list_len := 3 * len certs + sum_lens certs in
    let tot_len := 3 + cert_list_len in
    Ok (VStr ([11] ++ len24 tot_len ++ len24 cert_list_len
              ++ concat (map (fun c => len24 (len c) ++ c) certs)), h)
  | _ => bad_args
  end.
