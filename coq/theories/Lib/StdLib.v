(** The concrete standard library: function key -> exec body. *)
From RS Require Import Base.Bytes Base.Outcome Bind.Types Pkt.Packet Interp.Val
  Lib.LibBase Lib.Ipv4Lib Lib.MiscLib Lib.ProtoLib.
Open Scope N_scope.

Fixpoint strip_prefix (p s : string) : option string :=
  match p with
  | EmptyString => Some s
  | String c p' => match s with
                   | String d s' => if Ascii.eqb c d then strip_prefix p' s' else None
                   | EmptyString => None
                   end
  end.

Definition functions (e : env) : list (string * (list val -> list val -> heap -> libres)) := [
  ("std::be16", std_int_fn conv_u16 be16); ("std::be32", std_int_fn conv_u32 be32);
  ("std::be64", std_int_fn conv_u64 be64); ("std::le16", std_int_fn conv_u16 le16);
  ("std::le32", std_int_fn conv_u32 le32); ("std::le64", std_int_fn conv_u64 le64);
  ("std::u8", std_int_fn conv_u8 (fun n => [n]));
  ("std::len_be64", std_len_fn (fun n => be64 (wrap64 n)));
  ("std::len_be32", std_len_fn (fun n => be32 (wrap32 n)));
  ("std::len_be16", std_len_fn (fun n => be16 (wrap16 n)));
  ("std::len_u8", std_len_fn (fun n => [wrap8 n]));
  ("text::concat", text_join_fn []); ("text::crlflines", text_join_fn [13; 10]); ("text::len", text_len_fn);
  ("io::file", io_file_fn e); ("io::bufio", io_bufio_fn);
  ("ipv4::tcp::flow", tcp_flow_new);
  ("ipv4::udp::flow", udp_flow_new); ("ipv4::udp::broadcast", udp_broadcast_fn);
  ("ipv4::udp::unicast", udp_unicast_fn); ("ipv4::udp::hdr", udp_hdr_fn);
  ("ipv4::icmp::flow", icmp_flow_fn);
  ("ipv4::datagram", ipv4_datagram_fn); ("ipv4::frag", ipv4_frag_fn);
  ("dns::flags", dns_flags_fn); ("dns::hdr", dns_hdr_fn); ("dns::name", dns_name_fn);
  ("dns::pointer", dns_pointer_fn); ("dns::question", dns_question_fn); ("dns::answer", dns_answer_fn);
  ("dns::host", dns_host_fn);
  ("netbios::ns::flags", nb_flags_fn); ("netbios::name::encode", nb_encode_fn);
  ("dhcp::hdr", dhcp_hdr_fn); ("dhcp::option", dhcp_option_fn);
  ("tls::message", tls_message_fn); ("tls::extension", tls_extension_fn);
  ("tls::client_hello", tls_client_hello_fn); ("tls::server_hello", tls_server_hello_fn);
  ("tls::ciphers", tls_ciphers_fn); ("tls::certificates", tls_certificates_fn); ("tls::sni", tls_sni_fn);
  ("vxlan::session", vxlan_session_fn); ("gre::session", gre_session_fn);
  ("eth::frame", eth_frame_fn); ("eth::from_ip", eth_from_ip_fn);
  ("erspan1::session", erspan1_session_fn); ("erspan2::session", erspan2_session_fn);
  ("time::jump_seconds", time_jump_fn 1000000000 true); ("time::jump_millis", time_jump_fn 1000000 false);
  ("time::jump_micros", time_jump_fn 1000 false); ("time::jump_nanos", time_jump_fn 1 false)
]%string.

Definition method_tables : list (string * (string -> option nat -> list val -> list val -> heap -> option libres)) := [
  ("ipv4::tcp::TcpFlow.", tcp_method); ("ipv4::udp::UdpFlow.", udp_method);
  ("ipv4::icmp::Icmp.", icmp_method); ("ipv4::IpFrag.", frag_method);
  ("vxlan::Vxlan.", vxlan_method); ("gre::Gre.", gre_method);
  ("erspan1::Erspan1.", erspan1_method); ("erspan2::Erspan2.", erspan2_method);
  ("io::BufIO.", bufio_method)
]%string.

Fixpoint find_method (key : string)
  (l : list (string * (string -> option nat -> list val -> list val -> heap -> option libres)))
  : option (option nat -> list val -> list val -> heap -> option libres) :=
  match l with
  | [] => None
  | (p, f) :: r => match strip_prefix p key with
                   | Some name => Some (f name)
                   | None => find_method key r
                   end
  end.

(** [exec] returns None for a key the model does not implement. *)
Definition exec (e : env) (key : string) (this : option nat) (a x : list val) (h : heap) : option libres :=
  match assoc key (functions e) with
  | Some f => Some (match this with
                    | None => f a x h
                    | Some _ => Panic "args.rs drop: Method didn't take ownership of this"
                    end)
  | None => match find_method key method_tables with
            | Some m => m this a x h
            | None => None
            end
  end.
