(** src/stdlib/ipv4/{mod,tcp,udp,icmp}.rs *)
From RS Require Import Base.Bytes Base.Outcome Bind.Types Pkt.Csum Pkt.Hdrs Pkt.Packet
  Ez.Tcp Ez.Udp Ez.Icmp Ez.Ip4 Ez.Gre Interp.Val Lib.LibBase.
Open Scope N_scope.

(* ---------------- ipv4::tcp ---------------- *)
Definition tcp_flow_new (a x : list val) (h : heap) : libres :=
  match a with
  | [cl; sv; cl_seq; sv_seq; raw] =>
    do cs <- conv_u32 cl_seq; do ss <- conv_u32 sv_seq; do r <- conv_bool raw;
    do c <- conv_sock cl; do s <- conv_sock sv;
    Ok (alloc h (OTcp {| tf_cl := c; tf_sv := s; tf_cl_seq := cs; tf_sv_seq := ss; tf_raw := r |}))
  | _ => bad_args
  end.

(** push_state / body / pop_state.  Client-side methods pass (seq, ack) as (cl_seq, sv_seq);
    server-side methods pass (ack, seq). *)
Definition with_override {A} (f : tcp_flow) (client : bool) (seq ack : option N)
  (k : tcp_flow -> outcome (tcp_flow * A)) : outcome (tcp_flow * A) :=
  let cs := if client then (seq, ack) else (ack, seq) in
  let fs := flow_push_state f (fst cs) (snd cs) in
  do (f2, v) <- k (fst fs);
  Ok (flow_pop_state f2 (snd fs), v).

Definition tcp_method (name : string) (this : option nat) (a x : list val) (h : heap) : option libres :=
  let run (k : tcp_flow -> outcome (tcp_flow * val)) : libres :=
    do (addr, o) <- take_this this h;
    match o with
    | OTcp f => do (f', v) <- k f; Ok (v, set_nth h addr (OTcp f'))
    | _ => bad_downcast
    end in
  let message (client : bool) :=
    run (fun f => match a with
      | [send_ack; seq; ack; frag_off] =>
        do sa <- conv_bool send_ack; do sq <- conv_opt conv_u32 seq; do ak <- conv_opt conv_u32 ack;
        do fo <- conv_u16 frag_off; do b <- join_extra [] x;
        with_override f client sq ak (fun f1 =>
          do (f2, ps) <- (if client then flow_client_message else flow_server_message) f1 b sa fo;
          Ok (f2, VPktGen ps))
      | _ => bad_args end) in
  let segment (client raw : bool) :=
    run (fun f => match a with
      | [seq; ack] =>
        do sq <- conv_opt conv_u32 seq; do ak <- conv_opt conv_u32 ack; do b <- join_extra [] x;
        with_override f client sq ak (fun f1 =>
          do (f2, s) <- (if client then flow_client_data_segment else flow_server_data_segment) f1 b;
          Ok (f2, if raw then VStr (seg_tcpseg s) else VPkt (seg_packet s)))
      | _ => bad_args end) in
  let hdr (client : bool) :=
    run (fun f => match a with
      | [n] => do d <- conv_u32 n;
               do (f2, b) <- (if client then flow_client_hdr else flow_server_hdr) f d;
               Ok (f2, VStr b)
      | _ => bad_args end) in
  let ack (client : bool) :=
    run (fun f => match a with
      | [seq; ack] =>
        do sq <- conv_opt conv_u32 seq; do ak <- conv_opt conv_u32 ack;
        with_override f client sq ak (fun f1 =>
          do s <- (if client then flow_client_ack else flow_server_ack) f1;
          Ok (f1, VPkt (seg_packet s)))
      | _ => bad_args end) in
  let hole (client : bool) :=
    run (fun f => match a with
      | [n] => do d <- conv_u32 n;
               Ok ((if client then flow_client_hole else flow_server_hole) f d, VNil)
      | _ => bad_args end) in
  let gen (k : tcp_flow -> outcome (tcp_flow * list packet)) :=
    run (fun f => do (f2, ps) <- k f; Ok (f2, VPktGen ps)) in
  let one (k : tcp_flow -> outcome packet) :=
    run (fun f => do p <- k f; Ok (f, VPkt p)) in
  if String.eqb name "open" then Some (gen flow_open)
  else if String.eqb name "client_message" then Some (message true)
  else if String.eqb name "server_message" then Some (message false)
  else if String.eqb name "client_segment" then Some (segment true false)
  else if String.eqb name "server_segment" then Some (segment false false)
  else if String.eqb name "client_raw_segment" then Some (segment true true)
  else if String.eqb name "server_raw_segment" then Some (segment false true)
  else if String.eqb name "client_hdr" then Some (hdr true)
  else if String.eqb name "server_hdr" then Some (hdr false)
  else if String.eqb name "client_ack" then Some (ack true)
  else if String.eqb name "server_ack" then Some (ack false)
  else if String.eqb name "client_hole" then Some (hole true)
  else if String.eqb name "server_hole" then Some (hole false)
  else if String.eqb name "client_close" then Some (gen flow_client_close)
  else if String.eqb name "server_close" then Some (gen flow_server_close)
  else if String.eqb name "client_reset" then Some (one flow_client_reset)
  else if String.eqb name "server_reset" then Some (one flow_server_reset)
  else None.

(* ---------------- ipv4::udp ---------------- *)
Definition udp_broadcast_fn (a x : list val) (h : heap) : libres :=
  match a with
  | [src; dst; srcip; raw] =>
    do sip <- conv_opt conv_ip4 srcip; do r <- conv_bool raw; do b <- join_extra [] x;
    do s <- conv_sock src; do d <- conv_sock dst;
    do dg <- udp_push (udp_broadcast (udp_dst (udp_src (udp_new r) s) d)) b;
    let dg' := match sip with Some ip => udp_srcip dg ip | None => dg end in
    Ok (VPkt (udp_packet dg'), h)
  | _ => bad_args
  end.
Definition udp_unicast_fn (a x : list val) (h : heap) : libres :=
  match a with
  | [src; dst; raw] =>
    do r <- conv_bool raw; do b <- join_extra [] x;
    do s <- conv_sock src; do d <- conv_sock dst;
    do dg <- udp_push (udp_dst (udp_src (udp_new r) s) d) b;
    Ok (VPkt (udp_packet dg), h)
  | _ => bad_args
  end.
Definition udp_hdr_fn (a x : list val) (h : heap) : libres :=
  match a with
  | [src; dst; l; csum] =>
    do s <- conv_u16 src; do d <- conv_u16 dst; do ln <- conv_u16 l; do c <- conv_u16 csum;
    let tl := wrap16 (ln + 8) in
    Ok (VStr (udp_ser {| uh_sport := s; uh_dport := d; uh_len := tl; uh_csum := c |}), h)
  | _ => bad_args
  end.
Definition udp_flow_new (a x : list val) (h : heap) : libres :=
  match a with
  | [cl; sv; raw] =>
    do c <- conv_sock cl; do s <- conv_sock sv; do r <- conv_bool raw;
    Ok (alloc h (OUdp {| uf_cl := c; uf_sv := s; uf_raw := r |}))
  | _ => bad_args
  end.
Definition udp_method (name : string) (this : option nat) (a x : list val) (h : heap) : option libres :=
  let run (k : udp_flow -> outcome val) : libres :=
    do (addr, o) <- take_this this h;
    match o with OUdp f => do v <- k f; Ok (v, h) | _ => bad_downcast end in
  let dgram (client : bool) :=
    run (fun f => match a with
      | [frag_off; csum] =>
        do fo <- conv_u16 frag_off; do cs <- conv_bool csum; do b <- join_extra [] x;
        do d <- (if client then uflow_client_dgram else uflow_server_dgram) f b;
        let d1 := udp_frag_off d fo in
        do d2 <- (if cs then udp_csum d1 else Ok d1);
        Ok (VPkt (udp_packet d2))
      | _ => bad_args end) in
  let raw_dgram (client : bool) :=
    run (fun f => match a with
      | [csum] =>
        do cs <- conv_bool csum; do b <- join_extra [] x;
        do d <- (if client then uflow_client_dgram else uflow_server_dgram) f b;
        do d2 <- (if cs then udp_csum d else Ok d);
        Ok (VStr (udp_l4_bytes d2))
      | _ => bad_args end) in
  if String.eqb name "client_dgram" then Some (dgram true)
  else if String.eqb name "server_dgram" then Some (dgram false)
  else if String.eqb name "client_raw_dgram" then Some (raw_dgram true)
  else if String.eqb name "server_raw_dgram" then Some (raw_dgram false)
  else None.

(* ---------------- ipv4::icmp ---------------- *)
Definition icmp_flow_fn (a x : list val) (h : heap) : libres :=
  match a with
  | [cl; sv; raw] =>
    do c <- conv_ip4 cl; do s <- conv_ip4 sv; do r <- conv_bool raw;
    Ok (alloc h (OIcmp (icmp_flow_new c s r)))
  | _ => bad_args
  end.
Definition icmp_method (name : string) (this : option nat) (a x : list val) (h : heap) : option libres :=
  let run (k : icmp_flow -> bytes -> outcome (icmp_flow * packet)) : libres :=
    do (addr, o) <- take_this this h;
    match o with
    | OIcmp f => match a with
                 | [payload] => do b <- conv_buf payload; do (f', p) <- k f b;
                                Ok (VPkt p, set_nth h addr (OIcmp f'))
                 | _ => bad_args end
    | _ => bad_downcast end in
  if String.eqb name "echo" then Some (run icmp_echo)
  else if String.eqb name "echo_reply" then Some (run icmp_echo_reply)
  else None.

(* ---------------- ipv4::datagram / frag ---------------- *)
Definition ipv4_datagram_fn (a x : list val) (h : heap) : libres :=
  match a with
  | [src; dst; id; evil; df; mf; ttl; frag_off; proto] =>
    do s <- conv_ip4 src; do d <- conv_ip4 dst; do i <- conv_u16 id; do ev <- conv_bool evil;
    do dfb <- conv_bool df; do mfb <- conv_bool mf; do t <- conv_u8 ttl; do fo <- conv_u16 frag_off;
    do pr <- conv_u8 proto; do data <- join_extra [] x;
    let tl := wrap16 (20 + wrap16 (len data)) in
    let iph := ip_calc_csum (ip_set_daddr (ip_set_saddr (ip_set_protocol (ip_set_ttl
                 (ip_set_frag_off (ip_set_mf (ip_set_df (ip_set_evil (ip_set_id (ip_set_tot_len ip_default tl) i) ev) dfb) mfb) fo) t) pr) s) d) in
    Ok (VPkt (pkt_of_body (eth_ser (eth_new (mac_of_ip s) (mac_of_ip d) ETH_IPV4) ++ ip_ser iph ++ data)), h)
  | _ => bad_args
  end.
Definition ipv4_frag_fn (a x : list val) (h : heap) : libres :=
  match a with
  | [src; dst; id; evil; df; ttl; proto] =>
    do s <- conv_ip4 src; do d <- conv_ip4 dst; do i <- conv_u16 id; do ev <- conv_bool evil;
    do dfb <- conv_bool df; do t <- conv_u8 ttl; do pr <- conv_u8 proto; do payload <- join_extra [] x;
    let iph := ip_set_daddr (ip_set_saddr (ip_set_protocol (ip_set_ttl (ip_set_df (ip_set_evil (ip_set_id ip_default i) ev) dfb) t) pr) s) d in
    Ok (alloc h (OFrag {| fr_hdr := iph; fr_payload := payload |}))
  | _ => bad_args
  end.
Definition frag_method (name : string) (this : option nat) (a x : list val) (h : heap) : option libres :=
  let run (k : ip_frag -> outcome packet) : libres :=
    do (addr, o) <- take_this this h;
    match o with OFrag f => do p <- k f; Ok (VPkt p, h) | _ => bad_downcast end in
  if String.eqb name "fragment" then Some (run (fun f => match a with
      | [off; l; raw] => do o <- conv_u16 off; do ln <- conv_u16 l; do r <- conv_bool raw; frag_fragment f o ln r
      | _ => bad_args end))
  else if String.eqb name "tail" then Some (run (fun f => match a with
      | [off; raw] => do o <- conv_u16 off; do r <- conv_bool raw; frag_tail f o r
      | _ => bad_args end))
  else if String.eqb name "datagram" then Some (run (fun f => match a with
      | [raw] => do r <- conv_bool raw; frag_datagram f r
      | _ => bad_args end))
  else None.
