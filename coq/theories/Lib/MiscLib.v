(** src/stdlib/{vxlan,gre,erspan1,erspan2,eth,time,std,text,io}.rs *)
From RS Require Import Base.Bytes Base.Outcome Bind.Types Pkt.Csum Pkt.Hdrs Pkt.Packet
  Ez.Tcp Ez.Udp Ez.Icmp Ez.Ip4 Ez.Gre Interp.Val Lib.LibBase.
Open Scope N_scope.

(* ---------------- tunnels ---------------- *)
Definition vxlan_session_fn (a x : list val) (h : heap) : libres :=
  match a with
  | [cl; sv; vni; raw] =>
    do v <- conv_u32 vni; do r <- conv_bool raw; do c <- conv_sock cl; do s <- conv_sock sv;
    Ok (alloc h (OVxlan {| vx_cl := c; vx_sv := s; vx_vni := v; vx_raw := r |}))
  | _ => bad_args
  end.
Definition vxlan_method (name : string) (this : option nat) (a x : list val) (h : heap) : option libres :=
  if String.eqb name "encap" then Some (
    do (addr, o) <- take_this this h;
    match o with
    | OVxlan f => match a with
                  | [gen] => do ps <- conv_pktgen gen;
                             do out <- omapM (fun p => vxlan_encap f (pkt_frame p)) ps;
                             Ok (VPktGen out, h)
                  | _ => bad_args end
    | _ => bad_downcast end)
  else if String.eqb name "dgram" then Some (
    do (addr, o) <- take_this this h;
    match o with
    | OVxlan f => match a with
                  | [pkt] => do p <- conv_pkt pkt; do q <- vxlan_encap f (pkt_frame p); Ok (VPkt q, h)
                  | _ => bad_args end
    | _ => bad_downcast end)
  else None.

Definition gre_session_fn (a x : list val) (h : heap) : libres :=
  match a with
  | [cl; sv; ethertype; raw] =>
    do et <- conv_u16 ethertype; do r <- conv_bool raw; do c <- conv_ip4 cl; do s <- conv_ip4 sv;
    Ok (alloc h (OGre {| gl_cl := c; gl_sv := s; gl_flags := gre_flags_default; gl_ethertype := et; gl_raw := r; gl_seq := 0 |}))
  | _ => bad_args
  end.
(** encap loops: each inner packet in order, threading the session state *)
Fixpoint gre_encap_all (f : gre_flow) (ps : list packet) : outcome (gre_flow * list packet) :=
  match ps with
  | [] => Ok (f, [])
  | p :: r => do (f1, q) <- gre_flow_encap f (pkt_frame p);
              do (f2, qs) <- gre_encap_all f1 r; Ok (f2, q :: qs)
  end.
Definition gre_method (name : string) (this : option nat) (a x : list val) (h : heap) : option libres :=
  if String.eqb name "encap" then Some (
    do (addr, o) <- take_this this h;
    match o with
    | OGre f => match a with
                | [gen] => do ps <- conv_pktgen gen; do (f', out) <- gre_encap_all f ps;
                           Ok (VPktGen out, set_nth h addr (OGre f'))
                | _ => bad_args end
    | _ => bad_downcast end)
  else None.

Definition erspan1_session_fn (a x : list val) (h : heap) : libres :=
  match a with
  | [cl; sv; raw] =>
    do r <- conv_bool raw; do c <- conv_ip4 cl; do s <- conv_ip4 sv;
    Ok (alloc h (OErspan1 {| e1_cl := c; e1_sv := s; e1_raw := r |}))
  | _ => bad_args
  end.
Definition erspan1_method (name : string) (this : option nat) (a x : list val) (h : heap) : option libres :=
  if String.eqb name "encap" then Some (
    do (addr, o) <- take_this this h;
    match o with
    | OErspan1 f => match a with
                    | [gen] => do ps <- conv_pktgen gen;
                               do out <- omapM (fun p => erspan1_encap f (pkt_frame p)) ps;
                               Ok (VPktGen out, h)
                    | _ => bad_args end
    | _ => bad_downcast end)
  else None.

Definition erspan2_session_fn (a x : list val) (h : heap) : libres :=
  match a with
  | [cl; sv; raw] =>
    do r <- conv_bool raw; do c <- conv_ip4 cl; do s <- conv_ip4 sv;
    Ok (alloc h (OErspan2 {| e2_cl := c; e2_sv := s; e2_raw := r; e2_seq := 0; e2_sess := 0 |}))
  | _ => bad_args
  end.
Fixpoint erspan2_encap_all (f : erspan2_flow) (ix : N) (ps : list packet) : outcome (erspan2_flow * list packet) :=
  match ps with
  | [] => Ok (f, [])
  | p :: r => do (f1, q) <- erspan2_encap f (pkt_frame p) ix;
              do (f2, qs) <- erspan2_encap_all f1 ix r; Ok (f2, q :: qs)
  end.
Definition erspan2_method (name : string) (this : option nat) (a x : list val) (h : heap) : option libres :=
  if String.eqb name "encap" then Some (
    do (addr, o) <- take_this this h;
    match o with
    | OErspan2 f => match a with
                    | [gen; port_index] =>
                      do ps <- conv_pktgen gen; do ix <- conv_u32 port_index;
                      do (f', out) <- erspan2_encap_all f ix ps;
                      Ok (VPktGen out, set_nth h addr (OErspan2 f'))
                    | _ => bad_args end
    | _ => bad_downcast end)
  else None.

(* ---------------- eth ---------------- *)
Definition eth_frame_fn (a x : list val) (h : heap) : libres :=
  match a with
  | [src; dst; ethertype] =>
    do s <- conv_buf src; do d <- conv_buf dst; do et <- conv_u16 ethertype; do data <- join_extra [] x;
    if negb (len s =? 6) then Err ERuntime
    else if negb (len d =? 6) then Err ERuntime
    else Ok (VPkt (pkt_of_body (eth_ser (eth_new s d et) ++ data)), h)
  | _ => bad_args
  end.
Definition eth_from_ip_fn (a x : list val) (h : heap) : libres :=
  match a with
  | [ip] => do i <- conv_ip4 ip; Ok (VStr (mac_of_ip i), h)
  | _ => bad_args
  end.

(* ---------------- time ---------------- *)
Definition time_jump_fn (unit_ns : N) (narrow32 : bool) (a x : list val) (h : heap) : libres :=
  match a with
  | [n] =>
    do v <- (if narrow32 then conv_u32 n else conv_u64 n);
    (* checked_mul(..).ok_or(RuntimeError) *)
    if v * unit_ns <? two64 then Ok (VTimeJump (v * unit_ns), h) else Err ERuntime
  | _ => bad_args
  end.

(* ---------------- std ---------------- *)
Definition std_int_fn (conv : val -> outcome N) (enc : N -> bytes) (a x : list val) (h : heap) : libres :=
  match a with
  | [v] => do n <- conv v; Ok (VStr (enc n), h)
  | _ => bad_args
  end.
Definition std_len_fn (enc : N -> bytes) (a x : list val) (h : heap) : libres :=
  match a with
  | [] => do b <- join_extra [] x; Ok (VStr (enc (len b) ++ b), h)
  | _ => bad_args
  end.

(* ---------------- text ---------------- *)
Definition text_join_fn (sep : bytes) (a x : list val) (h : heap) : libres :=
  match a with [] => do b <- join_extra sep x; Ok (VStr b, h) | _ => bad_args end.
Definition text_len_fn (a x : list val) (h : heap) : libres :=
  match a with [] => do b <- join_extra [] x; Ok (VU64 (wrap64 (len b)), h) | _ => bad_args end.

(* ---------------- io ---------------- *)
Definition io_file_fn (e : env) (a x : list val) (h : heap) : libres :=
  match a with
  | [filename] =>
    do p <- conv_buf filename;
    match lookup_file p (env_files e) with
    | Some c => Ok (VStr c, h)
    | None => Err EIo
    end
  | _ => bad_args
  end.
Definition io_bufio_fn (a x : list val) (h : heap) : libres :=
  match a with [] => do b <- join_extra [] x; Ok (alloc h (OBufIo b 0)) | _ => bad_args end.
Definition bufio_method (name : string) (this : option nat) (a x : list val) (h : heap) : option libres :=
  if String.eqb name "read" then Some (
    match a with
    | [n] =>
      do want <- conv_u64 n;
      do (addr, o) <- take_this this h;
      match o with
      | OBufIo buf taken =>
        let remaining := len buf - taken in
        let take := N.min remaining want in
        Ok (VStr (takeN take (dropN taken buf)), set_nth h addr (OBufIo buf (taken + take)))
      | _ => bad_downcast end
    | _ => bad_args end)
  else if String.eqb name "read_all" then Some (
    do (addr, o) <- take_this this h;
    match o with
    | OBufIo buf taken =>
      let remaining := len buf - taken in
      Ok (VStr (takeN remaining (dropN taken buf)), set_nth h addr (OBufIo buf (taken + remaining)))
    | _ => bad_downcast end)
  else None.
