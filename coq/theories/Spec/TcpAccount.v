(** Specification side of C04: the abstract account of a TCP flow in unbounded arithmetic, and the
    fields of a segment as read from its bytes. *)
From RS Require Import Base.Bytes Spec.Wire.
Open Scope N_scope.

(** per side: initial sequence number and total sequence space consumed so far (unbounded) *)
Record account := { a_cl_isn : N; a_cl_used : N; a_sv_isn : N; a_sv_used : N }.

Definition acc_cl (a : account) : N := (a_cl_isn a + a_cl_used a) mod 4294967296.
Definition acc_sv (a : account) : N := (a_sv_isn a + a_sv_used a) mod 4294967296.
Definition acc_use_cl (a : account) (n : N) : account :=
  {| a_cl_isn := a_cl_isn a; a_cl_used := a_cl_used a + n; a_sv_isn := a_sv_isn a; a_sv_used := a_sv_used a |}.
Definition acc_use_sv (a : account) (n : N) : account :=
  {| a_cl_isn := a_cl_isn a; a_cl_used := a_cl_used a; a_sv_isn := a_sv_isn a; a_sv_used := a_sv_used a + n |}.

(** TCP header fields read from segment bytes (RFC 793 offsets) *)
Definition tcp_seq_of (seg : bytes) : N := u32_at seg 4.
Definition tcp_ack_of (seg : bytes) : N := u32_at seg 8.
Definition tcp_flags_of (seg : bytes) : N := nth 13 seg 0.
Definition tcp_payload_of (seg : bytes) : bytes := skipn 20 seg.

(** stream offset of a data segment: (seq - isn - 1) mod 2^32 *)
Definition stream_offset (isn seq : N) : N := (seq + 4294967296 + 4294967296 - isn - 1) mod 4294967296.
