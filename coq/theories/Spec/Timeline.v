(** Specification side of C01/C12: what the output of a run is, as a function of the values its
    expression statements produced -- no interpreter state, no byte buffers. *)
From RS Require Import Base.Bytes Pkt.Packet Pkt.Pcap Interp.Val.
Open Scope N_scope.

Fixpoint sumN (l : list N) : N := match l with [] => 0 | x :: r => x + sumN r end.

(** clock advance caused by emitting a value *)
Definition gap (v : val) : N :=
  match v with
  | VPkt k => pkt_bit_time k
  | VPktGen ks => sumN (map pkt_bit_time ks)
  | VTimeJump ns => ns
  | _ => 0
  end.

(** frames written when a value is emitted *)
Definition frames (v : val) : list bytes :=
  match v with
  | VPkt k => [pk_body k]
  | VPktGen ks => map pk_body ks
  | _ => []
  end.

(** records (timestamp in ns, frame), statement order then generation order *)
Fixpoint timeline (now : N) (vs : list val) : list (N * bytes) :=
  match vs with
  | [] => []
  | v :: r => map (fun f => (now + gap v, f)) (frames v) ++ timeline (now + gap v) r
  end.

Fixpoint final_time (now : N) (vs : list val) : N :=
  match vs with [] => now | v :: r => final_time (now + gap v) r end.

Definition rec_bytes (r : N * bytes) : bytes := pcap_rec_hdr (fst r) (len (snd r)) ++ snd r.
Definition file_of (recs : list (N * bytes)) : bytes := pcap_ghdr ++ concat (map rec_bytes recs).

Definition shift_recs (d : N) (recs : list (N * bytes)) : list (N * bytes) :=
  map (fun r => (fst r + d, snd r)) recs.

(** the pcap limit *)
Definition TS_LIMIT : N := 4294967296 * 1000000000.
