(** Protocol registries -- the specification side of property C20, written from the registries and
    RFCs themselves, not from the code.  Rows are spelled the way the registry spells them
    ("NSAP-PTR", "Subnet Mask", "DHCPDISCOVER", "application_data"); the identifier a program can
    write is obtained by one fixed normalisation ([norm_name]: upper case, every character that is
    not a letter or digit becomes '_'), plus dropping the registry's family prefix where the
    registry has one (DHCPDISCOVER -> DISCOVER, BOOTREQUEST -> REQUEST; the TLS_ prefix of the cipher
    suites is dropped by translators/registry.py, as scripts/tls/gencode.py does).

    The three big TLS registries come from the IANA CSV files shipped in scripts/tls
    (gen/RegistryCsv.v, regenerated on every run); everything that has no CSV in the repository is
    below.

    Names the library uses that no registry row normalises to are NOT silently skipped: they are
    listed one by one in [unregistered_names] together with the registry row that carries the
    number (when there is one), and the number is then checked against that row. *)
From Coq Require Import Ascii.
From RS Require Import Base.Bytes Bind.Types.
From RSGen Require Import RegistryCsv.
Open Scope string_scope.
Open Scope N_scope.

(** * Name normalisation *)

Definition norm_char (c : ascii) : ascii :=
  let n := N_of_ascii c in
  if (97 <=? n) && (n <=? 122) then ascii_of_N (n - 32)
  else if ((65 <=? n) && (n <=? 90)) || ((48 <=? n) && (n <=? 57)) then c
  else "_"%char.

Fixpoint norm_name (s : string) : string :=
  match s with
  | EmptyString => EmptyString
  | String c r => String (norm_char c) (norm_name r)
  end.

(** [strip_prefix p s] = [Some r] when [s = p ++ r] *)
Fixpoint strip_prefix (p s : string) : option string :=
  match p, s with
  | EmptyString, _ => Some s
  | String a p', String b s' => if Ascii.eqb a b then strip_prefix p' s' else None
  | String _ _, EmptyString => None
  end.

Definition norm_drop (family : string) (s : string) : string :=
  let n := norm_name s in
  match strip_prefix family n with
  | Some r => r
  | None => n
  end.

(** * DNS  (IANA "Domain Name System (DNS) Parameters") *)

(** Resource Record (RR) TYPEs -- RFC 1035 3.2.2/3.2.3, RFC 1183, RFC 2782, RFC 3596, RFC 4034,
    RFC 6891, RFC 6895, RFC 7043, RFC 8659, RFC 9460, ...; QTYPEs live in the same registry *)
Definition dns_rr_types : list (string * N) := [
  ("A", 1); ("NS", 2); ("MD", 3); ("MF", 4); ("CNAME", 5); ("SOA", 6); ("MB", 7); ("MG", 8);
  ("MR", 9); ("NULL", 10); ("WKS", 11); ("PTR", 12); ("HINFO", 13); ("MINFO", 14); ("MX", 15);
  ("TXT", 16); ("RP", 17); ("AFSDB", 18); ("X25", 19); ("ISDN", 20); ("RT", 21); ("NSAP", 22);
  ("NSAP-PTR", 23); ("SIG", 24); ("KEY", 25); ("PX", 26); ("GPOS", 27); ("AAAA", 28); ("LOC", 29);
  ("NXT", 30); ("EID", 31); ("NIMLOC", 32); ("SRV", 33); ("ATMA", 34); ("NAPTR", 35); ("KX", 36);
  ("CERT", 37); ("A6", 38); ("DNAME", 39); ("SINK", 40); ("OPT", 41); ("APL", 42); ("DS", 43);
  ("SSHFP", 44); ("IPSECKEY", 45); ("RRSIG", 46); ("NSEC", 47); ("DNSKEY", 48); ("DHCID", 49);
  ("NSEC3", 50); ("NSEC3PARAM", 51); ("TLSA", 52); ("SMIMEA", 53); ("HIP", 55); ("NINFO", 56);
  ("RKEY", 57); ("TALINK", 58); ("CDS", 59); ("CDNSKEY", 60); ("OPENPGPKEY", 61); ("CSYNC", 62);
  ("ZONEMD", 63); ("SVCB", 64); ("HTTPS", 65); ("SPF", 99); ("UINFO", 100); ("UID", 101);
  ("GID", 102); ("UNSPEC", 103); ("NID", 104); ("L32", 105); ("L64", 106); ("LP", 107);
  ("EUI48", 108); ("EUI64", 109); ("TKEY", 249); ("TSIG", 250); ("IXFR", 251); ("AXFR", 252);
  ("MAILB", 253); ("MAILA", 254);
  ("*", 255);      (* "A request for some or all records the server has available"; RFC 8482 writes ANY *)
  ("URI", 256); ("CAA", 257); ("AVC", 258); ("DOA", 259); ("AMTRELAY", 260);
  ("TA", 32768); ("DLV", 32769)
].

(** DNS CLASSes -- RFC 1035 3.2.4/3.2.5, RFC 2136 (NONE) *)
Definition dns_classes : list (string * N) := [
  ("IN", 1); ("CS", 2); ("CH", 3); ("HS", 4); ("NONE", 254);
  ("ANY", 255)     (* registry: "QCLASS * (ANY)" *)
].

(** DNS OpCodes -- RFC 1035, RFC 1996, RFC 2136, RFC 8490 *)
Definition dns_opcodes : list (string * N) := [
  ("Query", 0); ("IQuery", 1); ("Status", 2); ("Notify", 4); ("Update", 5); ("DSO", 6)
].

(** DNS RCODEs -- RFC 1035, RFC 2136, RFC 6891, RFC 8945, RFC 2930, RFC 7873, RFC 8490 *)
Definition dns_rcodes : list (string * N) := [
  ("NoError", 0); ("FormErr", 1); ("ServFail", 2); ("NXDomain", 3); ("NotImp", 4); ("Refused", 5);
  ("YXDomain", 6); ("YXRRSet", 7); ("NXRRSet", 8); ("NotAuth", 9); ("NotZone", 10);
  ("DSOTYPENI", 11); ("BADVERS", 16); ("BADKEY", 17); ("BADTIME", 18); ("BADMODE", 19);
  ("BADNAME", 20); ("BADALG", 21); ("BADTRUNC", 22); ("BADCOOKIE", 23)
].

(** * Link and network layer *)

(** EtherTypes -- IEEE Registration Authority public listing / IANA "IEEE 802 Numbers" / RFC 7042
    appendix B.  The registry has descriptions rather than mnemonics; the rows below are the usual
    short names (one number may have several).  The two ERSPAN rows are GRE protocol types
    (draft-foschiano-erspan-03, 4.1 and 4.3), which share the EtherType number space. *)
Definition ethertypes : list (string * N) := [
  ("IPv4", 2048);                       (* 0x0800 Internet Protocol version 4 *)
  ("ARP", 2054);                        (* 0x0806 *)
  ("Transparent Ethernet Bridging", 25944); ("TEB", 25944);   (* 0x6558, RFC 1701 *)
  ("RARP", 32821);                      (* 0x8035 *)
  ("VLAN", 33024); ("C-TAG", 33024);    (* 0x8100 IEEE 802.1Q customer VLAN tag *)
  ("IPv6", 34525);                      (* 0x86DD *)
  ("PPP", 34827);                       (* 0x880B, RFC 7042 *)
  ("MPLS", 34887);                      (* 0x8847 *)
  ("MPLS-MC", 34888);                   (* 0x8848 *)
  ("PPPoE-Discovery", 34915);           (* 0x8863 *)
  ("PPPoE-Session", 34916);             (* 0x8864 *)
  ("EAPOL", 34958);                     (* 0x888E IEEE 802.1X *)
  ("S-TAG", 34984);                     (* 0x88A8 IEEE 802.1ad *)
  ("LLDP", 35020);                      (* 0x88CC *)
  ("ERSPAN Type II", 35006);            (* 0x88BE; types I and II use the same number *)
  ("ERSPAN Type III", 8939)             (* 0x22EB *)
].

(** IPv4 "Assigned Internet Protocol Numbers" *)
Definition ip_protocols : list (string * N) := [
  ("HOPOPT", 0); ("ICMP", 1); ("IGMP", 2); ("GGP", 3); ("IPv4", 4); ("ST", 5); ("TCP", 6);
  ("CBT", 7); ("EGP", 8); ("IGP", 9); ("UDP", 17); ("DCCP", 33); ("IPv6", 41); ("IPv6-Route", 43);
  ("IPv6-Frag", 44); ("RSVP", 46); ("GRE", 47); ("ESP", 50); ("AH", 51); ("IPv6-ICMP", 58);
  ("IPv6-NoNxt", 59); ("IPv6-Opts", 60); ("EIGRP", 88); ("OSPFIGP", 89); ("IPIP", 94);
  ("PIM", 103); ("VRRP", 112); ("L2TP", 115); ("SCTP", 132); ("UDPLite", 136); ("MPLS-in-IP", 137)
].

(** ARP hardware types -- IANA "Address Resolution Protocol (ARP) Parameters", RFC 826 *)
Definition arp_hardware_types : list (string * N) := [
  ("Ethernet", 1);                      (* registry: "Ethernet (10Mb)" *)
  ("Experimental Ethernet", 2); ("AX.25", 3); ("Proteon ProNET Token Ring", 4); ("Chaos", 5);
  ("IEEE 802", 6); ("ARCNET", 7); ("Frame Relay", 15); ("ATM", 16); ("HDLC", 17);
  ("Fibre Channel", 18); ("Serial Line", 20); ("IEEE 1394", 24); ("InfiniBand", 32)
].

(** * DHCP  (IANA "BOOTP Vendor Extensions and DHCP Options") *)

(** op field of a BOOTP/DHCP message -- RFC 951, RFC 2131 section 2 *)
Definition bootp_opcodes : list (string * N) := [ ("BOOTREQUEST", 1); ("BOOTREPLY", 2) ].

(** DHCP Message Type 53 values -- RFC 2132 9.6, RFC 3203, RFC 4388, RFC 6926, RFC 7724, RFC 7653 *)
Definition dhcp_message_types : list (string * N) := [
  ("DHCPDISCOVER", 1); ("DHCPOFFER", 2); ("DHCPREQUEST", 3); ("DHCPDECLINE", 4); ("DHCPACK", 5);
  ("DHCPNAK", 6); ("DHCPRELEASE", 7); ("DHCPINFORM", 8); ("DHCPFORCERENEW", 9);
  ("DHCPLEASEQUERY", 10); ("DHCPLEASEUNASSIGNED", 11); ("DHCPLEASEUNKNOWN", 12);
  ("DHCPLEASEACTIVE", 13); ("DHCPBULKLEASEQUERY", 14); ("DHCPLEASEQUERYDONE", 15);
  ("DHCPACTIVELEASEQUERY", 16); ("DHCPLEASEQUERYSTATUS", 17); ("DHCPTLS", 18)
].

(** Option tags, in the registry's wording (RFC 2132 and later) *)
Definition dhcp_options : list (string * N) := [
  ("Pad", 0); ("Subnet Mask", 1); ("Time Offset", 2); ("Router", 3); ("Time Server", 4);
  ("Name Server", 5); ("Domain Server", 6); ("Log Server", 7); ("Quotes Server", 8);
  ("LPR Server", 9); ("Impress Server", 10); ("RLP Server", 11); ("Hostname", 12);
  ("Boot File Size", 13); ("Merit Dump File", 14); ("Domain Name", 15); ("Swap Server", 16);
  ("Root Path", 17); ("Extension File", 18); ("Forward On/Off", 19); ("SrcRte On/Off", 20);
  ("Policy Filter", 21); ("Max DG Assembly", 22); ("Default IP TTL", 23); ("MTU Timeout", 24);
  ("MTU Plateau", 25); ("MTU Interface", 26); ("MTU Subnet", 27); ("Broadcast Address", 28);
  ("Mask Discovery", 29); ("Mask Supplier", 30); ("Router Discovery", 31); ("Router Request", 32);
  ("Static Route", 33); ("Trailers", 34); ("ARP Timeout", 35); ("Ethernet", 36);
  ("Default TCP TTL", 37); ("Keepalive Time", 38); ("Keepalive Data", 39); ("NIS Domain", 40);
  ("NIS Servers", 41); ("NTP Servers", 42); ("Vendor Specific", 43); ("NETBIOS Name Srv", 44);
  ("NETBIOS Dist Srv", 45); ("NETBIOS Node Type", 46); ("NETBIOS Scope", 47); ("X Window Font", 48);
  ("X Window Manager", 49); ("Address Request", 50); ("Address Time", 51); ("Overload", 52);
  ("DHCP Msg Type", 53); ("DHCP Server Id", 54); ("Parameter List", 55); ("DHCP Message", 56);
  ("DHCP Max Msg Size", 57); ("Renewal Time", 58); ("Rebinding Time", 59); ("Class Id", 60);
  ("Client Id", 61); ("Server-Name", 66); ("Bootfile-Name", 67); ("User-Class", 77);
  ("Client FQDN", 81); ("Relay Agent Information", 82); ("End", 255)
].

(** * NetBIOS name service -- RFC 1002 section 4.2.1.1 and 4.2.1.3 *)
Definition netbios_ns_opcodes : list (string * N) := [
  ("query", 0); ("registration", 5); ("release", 6); ("WACK", 7); ("refresh", 8)
].

Definition netbios_ns_rcodes : list (string * N) := [
  ("FMT_ERR", 1); ("SRV_ERR", 2); ("NAM_ERR", 3); ("IMP_ERR", 4); ("RFS_ERR", 5); ("ACT_ERR", 6);
  ("CFT_ERR", 7)
].

Definition netbios_ns_rr_types : list (string * N) := [
  ("A", 1); ("NS", 2); ("NULL", 10); ("NB", 32); ("NBSTAT", 33)
].

(** * TLS (what has no CSV in the repository) *)

(** ProtocolVersion -- SSL 2.0 (Hickman 1995: version 0x0002), RFC 6101 {3,0}, RFC 2246 {3,1},
    RFC 4346 {3,2}, RFC 5246 {3,3}, RFC 8446 0x0304 *)
Definition tls_versions : list (string * N) := [
  ("SSL 2.0", 2); ("SSL 3.0", 768); ("TLS 1.0", 769); ("TLS 1.1", 770); ("TLS 1.2", 771);
  ("TLS 1.3", 772)
].

(** ContentType -- IANA "TLS ContentType", RFC 8446 B.1 (invalid(0)), RFC 6520, RFC 9146, RFC 9147 *)
Definition tls_content_types : list (string * N) := [
  ("invalid", 0); ("change_cipher_spec", 20); ("alert", 21); ("handshake", 22);
  ("application_data", 23); ("heartbeat", 24); ("tls12_cid", 25); ("ACK", 26)
].

(** * Well-known ports -- IANA "Service Name and Transport Protocol Port Number Registry" *)
Definition service_ports : list (string * N) := [
  ("bootps", 67); ("bootpc", 68); ("vxlan", 4789); ("domain", 53); ("netbios-ns", 137)
].

(** * Constants that are byte strings *)
Definition text_strings : list (string * bytes) := [
  ("CRLF", [13; 10])                    (* RFC 5234 B.1: CRLF = %d13.10 *)
].
Definition ethernet_addresses : list (string * bytes) := [
  ("BROADCAST", [255; 255; 255; 255; 255; 255])      (* IEEE 802.3 broadcast address *)
].

(** * Which registry governs which module of the standard library *)

Inductive registry :=
| RNum (family : string) (rows : list (string * N))      (* numbers; family prefix dropped from row names *)
| RCsv (rows : list (string * N))                        (* numbers; rows already normalised by translators/registry.py *)
| RBytes (rows : list (string * bytes)).

Definition registries : list (string * registry) := [
  ("ipv4::proto", RNum "" ip_protocols);
  ("dns::opcode", RNum "" dns_opcodes);
  ("dns::rcode", RNum "" dns_rcodes);
  ("dns::rtype", RNum "" dns_rr_types);
  ("dns::qtype", RNum "" dns_rr_types);
  ("dns::class", RNum "" dns_classes);
  ("netbios::ns::opcode", RNum "" netbios_ns_opcodes);
  ("netbios::ns::rrtype", RNum "" netbios_ns_rr_types);
  ("netbios::ns::rcode", RNum "" netbios_ns_rcodes);
  ("dhcp", RNum "" service_ports);
  ("dhcp::opcode", RNum "BOOT" bootp_opcodes);
  ("dhcp::msgtype", RNum "DHCP" dhcp_message_types);
  ("dhcp::opt", RNum "" dhcp_options);
  ("arp::hrd", RNum "" arp_hardware_types);
  ("tls::version", RNum "" tls_versions);
  ("tls::content", RNum "" tls_content_types);
  ("tls::handshake", RCsv tls_handshake_types);
  ("tls::ext", RCsv tls_extensions);
  ("tls::cipher", RCsv tls_cipher_suites);
  ("vxlan", RNum "" service_ports);
  ("eth::ethertype", RNum "" ethertypes);
  ("eth", RBytes ethernet_addresses);
  ("text", RBytes text_strings)
].

(** * Names of the library that are not registry names

    [u_near] is the registry row (spelled as in the table above) under which the registry carries
    the number; [None] when no registry assigns a number to anything of that name. *)
Record unregistered := { u_path : string; u_near : option string; u_note : string }.

Definition unregistered_names : list unregistered := [
  {| u_path := "dns::rtype::NMR"; u_near := Some "MR";
     u_note := "registry mnemonic is MR (mail rename, RFC 1035)" |};
  {| u_path := "dns::qtype::NMR"; u_near := Some "MR";
     u_note := "registry mnemonic is MR (mail rename, RFC 1035)" |};
  {| u_path := "dns::rtype::ALL"; u_near := Some "*";
     u_note := "registry mnemonic is * (RFC 1035: a request for all records; RFC 8482: ANY)" |};
  {| u_path := "dns::qtype::ALL"; u_near := Some "*";
     u_note := "registry mnemonic is * (RFC 1035: a request for all records; RFC 8482: ANY)" |};
  {| u_path := "eth::ethertype::PPTP"; u_near := Some "PPP";
     u_note := "0x880B is PPP (RFC 7042); PPTP is a TCP/GRE protocol and has no EtherType" |};
  {| u_path := "eth::ethertype::GRETAP"; u_near := Some "Transparent Ethernet Bridging";
     u_note := "0x6558 is Transparent Ethernet Bridging (RFC 1701); gretap is the Linux device name" |};
  {| u_path := "eth::ethertype::FABRICPATH"; u_near := None;
     u_note := "Cisco FabricPath / DCE uses 0x8903, a vendor assignment without a registry mnemonic" |};
  {| u_path := "eth::ethertype::ERSPAN_1_2"; u_near := Some "ERSPAN Type II";
     u_note := "draft-foschiano-erspan: types I and II are carried with GRE protocol type 0x88BE" |};
  {| u_path := "eth::ethertype::ERSPAN_3"; u_near := Some "ERSPAN Type III";
     u_note := "draft-foschiano-erspan: type III is carried with GRE protocol type 0x22EB" |};
  {| u_path := "netbios::ns::opcode::REFRESH_ALT"; u_near := None;
     u_note := "RFC 1002 4.2.1.1 assigns 8 to refresh; the packet diagram in 4.2.4 shows 9, which implementations also accept" |};
  {| u_path := "netbios::ns::opcode::MH_REGISTRATION"; u_near := None;
     u_note := "multi-homed name registration (0xF) is a Microsoft extension, not in RFC 1002" |};
  {| u_path := "dhcp::CLIENT_PORT"; u_near := Some "bootpc"; u_note := "IANA service name bootpc" |};
  {| u_path := "dhcp::SERVER_PORT"; u_near := Some "bootps"; u_note := "IANA service name bootps" |};
  {| u_path := "vxlan::DEFAULT_PORT"; u_near := Some "vxlan"; u_note := "IANA service name vxlan (RFC 7348)" |};
  {| u_path := "dhcp::msgtype::NACK"; u_near := Some "DHCPNAK"; u_note := "registry name is DHCPNAK" |};
  {| u_path := "dhcp::opt::PADDING"; u_near := Some "Pad"; u_note := "registry name: Pad" |};
  {| u_path := "dhcp::opt::CLIENT_HOSTNAME"; u_near := Some "Hostname"; u_note := "registry name: Hostname" |};
  {| u_path := "dhcp::opt::REQUESTED_ADDRESS"; u_near := Some "Address Request";
     u_note := "registry name: Address Request (RFC 2132 9.1 Requested IP Address)" |};
  {| u_path := "dhcp::opt::ADDRESS_LEASE_TIME"; u_near := Some "Address Time";
     u_note := "registry name: Address Time (RFC 2132 9.2 IP Address Lease Time)" |};
  {| u_path := "dhcp::opt::MESSAGE_TYPE"; u_near := Some "DHCP Msg Type"; u_note := "registry name: DHCP Msg Type" |};
  {| u_path := "dhcp::opt::SERVER_ID"; u_near := Some "DHCP Server Id"; u_note := "registry name: DHCP Server Id" |};
  {| u_path := "dhcp::opt::PARAM_REQUEST_LIST"; u_near := Some "Parameter List";
     u_note := "registry name: Parameter List (RFC 2132 9.8 Parameter Request List)" |};
  {| u_path := "dhcp::opt::MAX_MESSAGE_SIZE"; u_near := Some "DHCP Max Msg Size";
     u_note := "registry name: DHCP Max Msg Size" |};
  {| u_path := "dhcp::opt::VENDOR_CLASS_ID"; u_near := Some "Class Id";
     u_note := "registry name: Class Id (RFC 2132 9.13 Vendor class identifier)" |};
  {| u_path := "arp::hrd::ETHER"; u_near := Some "Ethernet"; u_note := "registry name: Ethernet (10Mb); ARPHRD_ETHER in Linux" |};
  {| u_path := "tls::version::SSL_1"; u_near := None;
     u_note := "SSL 1.0 was never published; no document assigns it a version number" |};
  {| u_path := "tls::version::SSL_2"; u_near := Some "SSL 2.0"; u_note := "SSL 2.0" |};
  {| u_path := "tls::version::SSL_3"; u_near := Some "SSL 3.0"; u_note := "SSL 3.0 (RFC 6101)" |};
  {| u_path := "tls::content::APP_DATA"; u_near := Some "application_data"; u_note := "registry name: application_data" |};
  {| u_path := "tls::ext::ALPN"; u_near := Some "APPLICATION_LAYER_PROTOCOL_NEGOTIATION";
     u_note := "alias; the registry name application_layer_protocol_negotiation is also defined" |}
].

(** * The check of one constant *)

Fixpoint lookup_row {A} (f : string -> string) (name : string) (rows : list (string * A)) : option A :=
  match rows with
  | [] => None
  | (k, v) :: r => if String.eqb (f k) name then Some v else lookup_row f name r
  end.

Fixpoint find_unregistered (path : string) (l : list unregistered) : option unregistered :=
  match l with
  | [] => None
  | u :: r => if String.eqb (u_path u) path then Some u else find_unregistered path r
  end.

Fixpoint no_colon (s : string) : bool :=
  match s with
  | EmptyString => true
  | String c r => negb (Ascii.eqb c ":"%char) && no_colon r
  end.

(** the registry of the module a constant lives in, and the constant's own name *)
Fixpoint registry_of (path : string) (l : list (string * registry)) : option (registry * string) :=
  match l with
  | [] => None
  | (m, r) :: rest =>
    match strip_prefix (m ++ "::") path with
    | Some name => if no_colon name then Some (r, name) else registry_of path rest
    | None => registry_of path rest
    end
  end.

Inductive cvalue := CNum (n : N) | CBytes (b : bytes) | COther.

Inductive verdict :=
| Registered (row : N)            (* a registry row normalises to the name and carries this number *)
| Alias (row : string) (n : N)    (* not a registry name; listed, the registry carries the number under [row] *)
| NoRegistry                      (* not a registry name; listed, no registry assigns a number *)
| BytesOk                         (* byte-string constant equal to its definition *)
| Wrong (why : string).

Definition judge (path : string) (v : cvalue) : verdict :=
  match registry_of path registries with
  | None => Wrong "module has no registry"
  | Some (RNum _ rows as reg, name) | Some (RCsv rows as reg, name) =>
    let norm := match reg with RNum family _ => norm_drop family | _ => fun x => x end in
    match v with
    | CNum n =>
      match lookup_row norm name rows with
      | Some r => if N.eqb r n then Registered r else Wrong "registry assigns another number to this name"
      | None =>
        match find_unregistered path unregistered_names with
        | None => Wrong "not a registry name and not listed as unregistered"
        | Some u =>
          match u_near u with
          | None => NoRegistry
          | Some row =>
            match lookup_row (fun x => x) row rows with
            | Some r => if N.eqb r n then Alias row r else Wrong "the registry row named for this alias carries another number"
            | None => Wrong "the registry row named for this alias does not exist"
            end
          end
        end
      end
    | _ => Wrong "numeric registry, non-numeric constant"
    end
  | Some (RBytes rows, name) =>
    match v with
    | CBytes b =>
      match lookup_row (fun x => x) name rows with
      | Some r => if list_eqb N.eqb r b then BytesOk else Wrong "byte string differs from its definition"
      | None => Wrong "unknown byte-string constant"
      end
    | _ => Wrong "byte-string registry, other constant"
    end
  end.

Definition verdict_ok (v : verdict) : bool := match v with Wrong _ => false | _ => true end.

(** sanity of the tables themselves: after normalisation no registry has two rows of one name with
    different numbers (several names for one number are fine) *)
Fixpoint rows_functional (f : string -> string) (rows : list (string * N)) : bool :=
  match rows with
  | [] => true
  | (k, v) :: r =>
    forallb (fun e => negb (String.eqb (f (fst e)) (f k)) || N.eqb (snd e) v) r && rows_functional f r
  end.

Definition registry_functional (r : registry) : bool :=
  match r with
  | RNum family rows => rows_functional (norm_drop family) rows
  | RCsv rows => rows_functional (fun x => x) rows
  | RBytes _ => true
  end.

(** * The statement about a table of constants (path, value) *)

Definition cvalue_of (d : valdef) : cvalue :=
  match d with
  | DU8 n | DU16 n | DU32 n | DU64 n => CNum n
  | DStr b => CBytes b
  | _ => COther
  end.

Definition const_matches_registry (pv : string * valdef) : bool :=
  verdict_ok (judge (fst pv) (cvalue_of (snd pv))).

(** an entry of [unregistered_names] is not stale: the library has a constant of that path ... *)
Definition unregistered_exists (consts : list (string * valdef)) (u : unregistered) : bool :=
  existsb (fun pv => String.eqb (fst pv) (u_path u)) consts.

(** ... and no row of its registry normalises to its name (otherwise it would not belong here) *)
Definition unregistered_is_unregistered (u : unregistered) : bool :=
  match registry_of (u_path u) registries with
  | Some (RNum family rows, name) =>
    match lookup_row (norm_drop family) name rows with None => true | Some _ => false end
  | Some (RCsv rows, name) =>
    match lookup_row (fun x => x) name rows with None => true | Some _ => false end
  | _ => false
  end.
