(** Specification side for C05 / C17: what a string literal, an integer literal, a dotted quad and a
    history of buffered reads *mean*.  Written from the language description (docs, the comments of
    src/str.rs) and independent of the decoders in Lex/Literals.v: nothing here scans text, the
    functions below only *produce* spellings from a structured description and say which bytes or
    which number that description stands for. *)
From RS Require Import Base.Bytes.
Open Scope N_scope.

(* ------------------------------------------------------------------ characters *)

(** a Unicode scalar value (what a Rust [char] can hold) *)
Definition is_scalar (cp : N) : bool := (cp <? 55296) || ((57344 <=? cp) && (cp <? 1114112)).

(** RFC 3629 *)
Definition utf8_encode (cp : N) : bytes :=
  if cp <? 128 then [cp]
  else if cp <? 2048 then [192 + cp / 64; 128 + cp mod 64]
  else if cp <? 65536 then [224 + cp / 4096; 128 + (cp / 64) mod 64; 128 + cp mod 64]
  else [240 + cp / 262144; 128 + (cp / 4096) mod 64; 128 + (cp / 64) mod 64; 128 + cp mod 64].

Definition utf8_of (cps : list N) : bytes := concat (map utf8_encode cps).

Definition BAR : N := 124.      (* | *)
Definition QUOTE : N := 34.     (* double quote *)

(** the six cosmetic separators allowed between hex digits: colon, dot, underscore, minus, apostrophe, backtick *)
Definition separators : list N := [58; 46; 95; 45; 39; 96].
(** Unicode White_Space (PropList.txt) *)
Definition white_space : list N :=
  [9; 10; 11; 12; 13; 32; 133; 160; 5760;
   8192; 8193; 8194; 8195; 8196; 8197; 8198; 8199; 8200; 8201; 8202;
   8232; 8233; 8239; 8287; 12288].
Definition mem (x : N) (l : list N) : bool := existsb (N.eqb x) l.
(** a character that may appear anywhere inside |..| without meaning anything *)
Definition is_filler (cp : N) : bool := mem cp separators || mem cp white_space.

(** the digit character for a value below 16, in either case *)
Definition hex_digit (upper : bool) (v : N) : N :=
  if v <? 10 then 48 + v else if upper then 55 + v else 87 + v.
Definition is_hex_digit_char (c : N) : bool :=
  ((48 <=? c) && (c <=? 57)) || ((97 <=? c) && (c <=? 102)) || ((65 <=? c) && (c <=? 70)).

(* ------------------------------------------------------------------ string literals *)

(** one byte written in a hex section: fillers, high digit, fillers, low digit *)
Record hexbyte := { hb_pre : list N; hb_hi_upper : bool; hb_mid : list N; hb_lo_upper : bool; hb_val : N }.

(** a literal is a sequence of text runs and closed |..| sections *)
Inductive seg :=
| Text (cps : list N)                             (* characters other than | *)
| Hex (items : list hexbyte) (trail : list N).    (* |..| : bytes, then fillers before the closing bar *)

Definition hexbyte_ok (h : hexbyte) : bool :=
  forallb is_filler (hb_pre h) && forallb is_filler (hb_mid h) && (hb_val h <? 256).
Definition text_char_ok (cp : N) : bool := is_scalar cp && negb (cp =? BAR).
Definition seg_ok (s : seg) : bool :=
  match s with
  | Text cps => forallb text_char_ok cps
  | Hex items trail => forallb hexbyte_ok items && forallb is_filler trail
  end.
(** a literal body that can stand between double quotes in a source file *)
Definition seg_quotable (s : seg) : bool :=
  match s with Text cps => forallb (fun c => negb (c =? QUOTE)) cps | Hex _ _ => true end.

Definition spell_hexbyte (h : hexbyte) : bytes :=
  utf8_of (hb_pre h) ++ [hex_digit (hb_hi_upper h) (hb_val h / 16)]
  ++ utf8_of (hb_mid h) ++ [hex_digit (hb_lo_upper h) (hb_val h mod 16)].
Definition spell_seg (s : seg) : bytes :=
  match s with
  | Text cps => utf8_of cps
  | Hex items trail => [BAR] ++ concat (map spell_hexbyte items) ++ utf8_of trail ++ [BAR]
  end.
(** every allowed spelling of a literal body is [spell] of some segment list *)
Definition spell (segs : list seg) : bytes := concat (map spell_seg segs).

Definition denote_seg (s : seg) : bytes :=
  match s with
  | Text cps => utf8_of cps              (* text contributes its source bytes *)
  | Hex items _ => map hb_val items      (* a hex section contributes the bytes written in it *)
  end.
Definition denote (segs : list seg) : bytes := concat (map denote_seg segs).

(** the two ways a closed hex section can fail to denote bytes *)
Inductive bad_section :=
| OddDigits (items : list hexbyte) (pre : list N) (upper : bool) (digit : N) (trail : list N)
| BadChar (items : list hexbyte) (pre : list N) (dangling : option (bool * N * list N)) (cp : N).

Definition bad_char_ok (cp : N) : bool :=
  is_scalar cp && negb (is_filler cp) && negb (cp =? BAR) && negb ((cp <? 128) && is_hex_digit_char cp).
Definition bad_section_ok (b : bad_section) : bool :=
  match b with
  | OddDigits items pre _ d trail =>
    forallb hexbyte_ok items && forallb is_filler pre && (d <? 16) && forallb is_filler trail
  | BadChar items pre dang cp =>
    forallb hexbyte_ok items && forallb is_filler pre && bad_char_ok cp &&
    match dang with Some (_, d, f) => (d <? 16) && forallb is_filler f | None => true end
  end.
(** the spelling up to and including the offending character *)
Definition spell_bad (b : bad_section) : bytes :=
  match b with
  | OddDigits items pre u d trail =>
    [BAR] ++ concat (map spell_hexbyte items) ++ utf8_of pre ++ [hex_digit u d] ++ utf8_of trail ++ [BAR]
  | BadChar items pre dang cp =>
    [BAR] ++ concat (map spell_hexbyte items) ++ utf8_of pre
    ++ match dang with Some (u, d, f) => [hex_digit u d] ++ utf8_of f | None => [] end
    ++ utf8_encode cp
  end.

(* ------------------------------------------------------------------ numbers *)

(** value of a digit string, most significant digit first *)
Definition dec_value_of (ds : list N) : N := fold_left (fun acc d => acc * 10 + d) ds 0.
Definition hex_value_of (ds : list N) : N := fold_left (fun acc d => acc * 16 + d) ds 0.
Definition dec_digits_ok (ds : list N) : bool := forallb (fun d => d <? 10) ds.
Definition hex_digits_ok (ds : list (bool * N)) : bool := forallb (fun d => snd d <? 16) ds.
Definition spell_dec (ds : list N) : bytes := map (fun d => 48 + d) ds.
Definition spell_hex (ds : list (bool * N)) : bytes := map (fun d => hex_digit (fst d) (snd d)) ds.
Definition PLUS : N := 43.
Definition MINUS : N := 45.
Definition DOT : N := 46.

(** the one decimal spelling of an octet without leading zeros *)
Definition spell_octet (n : N) : bytes :=
  if n <? 10 then [48 + n]
  else if n <? 100 then [48 + n / 10; 48 + n mod 10]
  else [48 + n / 100; 48 + (n / 10) mod 10; 48 + n mod 10].
Definition spell_quad (w x y z : N) : bytes :=
  spell_octet w ++ [DOT] ++ spell_octet x ++ [DOT] ++ spell_octet y ++ [DOT] ++ spell_octet z.
Definition quad_value (w x y z : N) : N := ((w * 256 + x) * 256 + y) * 256 + z.

Definition spell_bool (b : bool) : bytes :=
  if b then [116; 114; 117; 101] else [102; 97; 108; 115; 101].

(** reading a big-endian byte string back as a number *)
Definition be_value (l : bytes) : N := fold_left (fun acc b => acc * 256 + b) l 0.

(* ------------------------------------------------------------------ buffered reads *)

Inductive bufop := BRead (n : N) | BReadAll.

(** [rs] are the results of the reads [ops] on [buf] when the first of them starts at [pos]: each
    result is the slice that starts where the previous one ended, [n] bytes long or whatever
    remains if that is less; read_all takes all that remains. *)
Fixpoint consecutive_slices (buf : bytes) (pos : N) (ops : list bufop) (rs : list bytes) : Prop :=
  match ops, rs with
  | [], [] => True
  | op :: ops', r :: rs' =>
    let remaining := len buf - pos in
    let n := match op with BRead n => N.min n remaining | BReadAll => remaining end in
    r = takeN n (dropN pos buf) /\ consecutive_slices buf (pos + n) ops' rs'
  | _, _ => False
  end.

(** executable form of the same: the results a history must produce *)
Fixpoint slices_of (buf : bytes) (pos : N) (ops : list bufop) : list bytes :=
  match ops with
  | [] => []
  | op :: ops' =>
    let remaining := len buf - pos in
    let n := match op with BRead n => N.min n remaining | BReadAll => remaining end in
    takeN n (dropN pos buf) :: slices_of buf (pos + n) ops'
  end.
