(** Specification side of C06, continued: peeling whole outer frames, layer by layer.  Made only of the
    readers of Spec/Wire.v and the tunnel header decoders of Spec/Tunnel.v; imports no builder. *)
From RS Require Import Base.Bytes Spec.Wire Spec.Tunnel.
Open Scope N_scope.

Inductive tkind := KVxlan | KGre | KErspan1 | KErspan2.
(** what the outer packet of a layer must show *)
Record lspec := { t_kind : tkind; t_raw : bool; t_src : N; t_dst : N; t_sport : N; t_dport : N;
                  t_vni : N; t_et : N; t_ix : N; t_seq : option N }.

Definition opt_N_eqb (a b : option N) : bool :=
  match a, b with Some x, Some y => x =? y | None, None => true | _, _ => false end.

(** Ethernet II header (14 bytes, ethertype IPv4) unless raw; IPv4 header without options (0x45, 20 bytes)
    with the session's addresses: gives the IP protocol number and the IP payload.  Neither the IPv4 total
    length nor the UDP length field is consulted. *)
Definition strip_outer (s : lspec) (fr : bytes) : option (N * bytes) :=
  if negb (t_raw s) && negb (u16_at fr 12 =? 2048) then None else
  let l3 := if t_raw s then fr else skipn 14 fr in
  if Nat.ltb (length l3) 20 then None else
  if negb (nth 0 l3 0 =? 69) then None else
  if negb (ip_src_of l3 =? t_src s) || negb (ip_dst_of l3 =? t_dst s) then None else
  Some (ip_proto_of l3, skipn 20 l3).

(** per kind: UDP (17) on the session's ports + VXLAN header (I flag, VNI), or GRE (47) + GRE header
    (protocol type; a sequence number exactly when one is expected, and then that one) [+ ERSPAN II header
    (version 1, port index mod 2^20)].  What follows the tunnel header is returned untouched. *)
Definition peel_tunnel (s : lspec) (proto : N) (l4 : bytes) : option bytes :=
  match t_kind s with
  | KVxlan =>
    if negb (proto =? 17) then None else
    if negb (u16_at l4 0 =? t_sport s) || negb (u16_at l4 2 =? t_dport s) then None else
    match vxlan_decode (skipn 8 l4) with
    | Some (v, inner) => if v =? t_vni s then Some inner else None
    | None => None
    end
  | k =>
    if negb (proto =? 47) then None else
    match gre_decode l4 with
    | None => None
    | Some g =>
      if negb (g_proto g =? (match k with KGre => t_et s | _ => 35006 end)) then None else
      if negb (opt_N_eqb (g_seq g) (t_seq s)) then None else
      match k with
      | KErspan2 =>
        match erspan2_decode (g_payload g) with
        | Some (ver, idx, inner) =>
          if negb (ver =? 1) then None else if negb (idx =? t_ix s mod 1048576) then None else Some inner
        | None => None
        end
      | _ => Some (g_payload g)
      end
    end
  end.

Definition peel1 (s : lspec) (fr : bytes) : option bytes :=
  match strip_outer s fr with
  | Some (proto, l4) => peel_tunnel s proto l4
  | None => None
  end.

(** outermost layer first *)
Fixpoint peel (ss : list lspec) (fr : bytes) : option bytes :=
  match ss with
  | [] => Some fr
  | s :: r => match peel1 s fr with Some x => peel r x | None => None end
  end.


(** specification side: the GRE sequence number of an outer frame, if the header has one
    (Ethernet header unless raw, 20-byte IPv4 header, then [gre_decode] of Spec/Tunnel.v) *)
Definition outer_seq (raw : bool) (fr : bytes) : option N :=
  match gre_decode (skipn 20 (if raw then fr else skipn 14 fr)) with
  | Some g => g_seq g
  | None => None
  end.

