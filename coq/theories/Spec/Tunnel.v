(** Specification side of C06: reading tunnel headers off the wire (RFC 7348 VXLAN, RFC 2784/2890 GRE,
    the ERSPAN type II header), independent of the builders. *)
From RS Require Import Base.Bytes Spec.Wire.
Open Scope N_scope.

(** UDP payload of a VXLAN datagram: flags(8) with the I bit, 24 reserved bits, VNI(24), reserved(8), inner frame *)
Definition vxlan_decode (p : bytes) : option (N * bytes) :=
  match p with
  | fl :: _ :: _ :: _ :: v1 :: v2 :: v3 :: _ :: inner =>
    if negb (N.land fl 8 =? 0) then Some ((v1 * 256 + v2) * 256 + v3, inner) else None
  | _ => None
  end.

Record gre_info := { g_flags : N; g_proto : N; g_seq : option N; g_payload : bytes }.

(** GRE header: flags/version word, protocol type, then (S bit, 0x1000) a 32-bit sequence number.
    Checksum/key/routing present bits are not used by the library; a header with C, R or K set is refused. *)
Definition gre_decode (p : bytes) : option gre_info :=
  match p with
  | f1 :: f2 :: p1 :: p2 :: r =>
    let fl := f1 * 256 + f2 in
    if negb (N.land fl 57344 =? 0) then None
    else if negb (N.land fl 4096 =? 0) then
      match r with
      | s1 :: s2 :: s3 :: s4 :: r' =>
        Some {| g_flags := fl; g_proto := p1 * 256 + p2; g_seq := Some (((s1 * 256 + s2) * 256 + s3) * 256 + s4); g_payload := r' |}
      | _ => None
      end
    else Some {| g_flags := fl; g_proto := p1 * 256 + p2; g_seq := None; g_payload := r |}
  | _ => None
  end.

(** ERSPAN II header: Ver(4) VLAN(12) | COS(3) En(2) T(1) Session(10) | Reserved(12) Index(20) *)
Definition erspan2_decode (p : bytes) : option (N * N * bytes) :=
  match p with
  | a :: _ :: _ :: _ :: _ :: i1 :: i2 :: i3 :: inner =>
    Some (a / 16, ((i1 mod 16) * 256 + i2) * 256 + i3, inner)
  | _ => None
  end.
