(** Specification side of C04 at the level of whole histories: the vocabulary of operations on a TCP flow,
    what a segment on the wire says, the abstract account of a history in unbounded arithmetic (what every
    segment must carry), and a reassembler with the scripted streams it must recover.
    Nothing here mentions the flow model (Ez/Tcp.v) or the library glue. *)
From RS Require Import Base.Bytes Spec.Wire Spec.TcpAccount.
Open Scope N_scope.

Inductive dir := Cl | Sv.
Definition opp (d : dir) : dir := match d with Cl => Sv | Sv => Cl end.
Definition dir_eqb (a b : dir) : bool := match a, b with Cl, Cl | Sv, Sv => true | _, _ => false end.

(** what a reassembler looks at: direction, sequence number, acknowledgement number (when the ACK flag is
    set), flags byte, payload *)
Definition seginfo : Type := dir * N * option N * N * bytes.
Definition si_dir (x : seginfo) : dir := match x with (d, _, _, _, _) => d end.
Definition si_seq (x : seginfo) : N := match x with (_, s, _, _, _) => s end.
Definition si_ack (x : seginfo) : option N := match x with (_, _, a, _, _) => a end.
Definition si_flags (x : seginfo) : N := match x with (_, _, _, f, _) => f end.
Definition si_payload (x : seginfo) : bytes := match x with (_, _, _, _, p) => p end.

(** reading a segment off the wire: [seg] is the TCP header followed by the payload (RFC 793 offsets, see
    Spec/TcpAccount.v); the acknowledgement number counts only when flag bit 4 (ACK) is set *)
Definition wire_seg (d : dir) (seg : bytes) : seginfo :=
  (d, tcp_seq_of seg, (if N.testbit (tcp_flags_of seg) 4 then Some (tcp_ack_of seg) else None),
   tcp_flags_of seg, tcp_payload_of seg).
(** the TCP part of a frame: after the 14-byte Ethernet header (unless the flow is raw) and the 20-byte IPv4 header *)
Definition frame_l4 (raw : bool) (frame : bytes) : bytes := skipn 20 (if raw then frame else skipn 14 frame).

(** who sent a segment, as the bytes say: the ports of the TCP header and, for a frame, the addresses of its
    IPv4 header (RFC 791 offsets, Spec/Wire.v) *)
Definition wire_ports (seg : bytes) : N * N := (u16_at seg 0, u16_at seg 2).
Definition frame_l3 (raw : bool) (frame : bytes) : bytes := if raw then frame else skipn 14 frame.
Definition frame_addrs (raw : bool) (frame : bytes) : N * N :=
  (ip_src_of (frame_l3 raw frame), ip_dst_of (frame_l3 raw frame)).

(** ---- the operations of a flow (one constructor per kind of TcpFlow method; [d] = which side calls) ---- *)
Inductive op :=
| OOpen                                                                   (* open() *)
| OMessage (d : dir) (payload : bytes) (send_ack : bool) (frag_off : N) (seq ack : option N)
                                                                          (* client_message / server_message *)
| OSegment (d : dir) (raw : bool) (payload : bytes) (seq ack : option N)  (* *_segment / *_raw_segment *)
| OHdr (d : dir) (n : N)                                                  (* client_hdr / server_hdr (bytes: n) *)
| OAck (d : dir) (seq ack : option N)                                     (* client_ack / server_ack *)
| OHole (d : dir) (n : N)                                                 (* client_hole / server_hole *)
| OClose (d : dir)                                                        (* client_close / server_close *)
| OReset (d : dir).                                                       (* client_reset / server_reset *)

(** the seq:/ack: options of a call: (calling side, seq override, ack override) *)
Definition op_over (o : op) : option (dir * option N * option N) :=
  match o with
  | OMessage d _ _ _ sq ak => Some (d, sq, ak)
  | OSegment d _ _ sq ak => Some (d, sq, ak)
  | OAck d sq ak => Some (d, sq, ak)
  | _ => None
  end.
Definition no_override (o : op) : Prop :=
  match op_over o with Some (_, None, None) | None => True | _ => False end.
(** overrides are 32-bit values *)
Definition over_u32 (o : op) : Prop :=
  match op_over o with
  | Some (_, sq, ak) => (forall x, sq = Some x -> x < 4294967296) /\ (forall y, ak = Some y -> y < 4294967296)
  | None => True
  end.

(** the length a header-only segment announces is a 32-bit value *)
Definition hdr_u32 (o : op) : Prop := match o with OHdr _ n => n < 4294967296 | _ => True end.

(** ---- the account: per side an initial sequence number and the sequence space consumed so far ---- *)
Definition acc_init (c0 s0 : N) : account := {| a_cl_isn := c0; a_cl_used := 0; a_sv_isn := s0; a_sv_used := 0 |}.
(** next sequence number of side d = (ISN + consumed) mod 2^32 *)
Definition nxt (a : account) (d : dir) : N := match d with Cl => acc_cl a | Sv => acc_sv a end.
Definition used (a : account) (d : dir) : N := match d with Cl => a_cl_used a | Sv => a_sv_used a end.
Definition isn (a : account) (d : dir) : N := match d with Cl => a_cl_isn a | Sv => a_sv_isn a end.
Definition use (a : account) (d : dir) (n : N) : account :=
  match d with Cl => acc_use_cl a n | Sv => acc_use_sv a n end.

(** what an operation without overrides emits and consumes: every segment carries its sender's next sequence
    number and, with the ACK flag, the peer's next sequence number of that moment; payload bytes, SYN, FIN (one
    each), declared holes and the declared length of a header-only segment are consumed.
    Flags: 2 SYN, 18 SYN|ACK, 16 ACK, 24 PSH|ACK, 17 FIN|ACK, 4 RST. *)
Definition spec_plain (a : account) (o : op) : account * list seginfo :=
  match o with
  | OOpen =>
      let a1 := use a Cl 1 in let a2 := use a1 Sv 1 in
      (a2, [(Cl, nxt a Cl, None, 2, []);
            (Sv, nxt a1 Sv, Some (nxt a1 Cl), 18, []);
            (Cl, nxt a2 Cl, Some (nxt a2 Sv), 16, [])])
  | OMessage d b sa _ _ _ =>
      let a1 := use a d (len b) in
      (a1, (d, nxt a d, Some (nxt a (opp d)), 24, b)
           :: (if sa then [(opp d, nxt a1 (opp d), Some (nxt a1 d), 16, [])] else []))
  | OSegment d _ b _ _ => (use a d (len b), [(d, nxt a d, Some (nxt a (opp d)), 24, b)])
  | OHdr d n => (use a d n, [(d, nxt a d, Some (nxt a (opp d)), 24, [])])
  | OAck d _ _ => (a, [(d, nxt a d, Some (nxt a (opp d)), 16, [])])
  | OHole d n => (use a d n, [])
  | OClose d =>
      let a1 := use a d 1 in let a2 := use a1 (opp d) 1 in
      (a2, [(d, nxt a d, Some (nxt a (opp d)), 17, []);
            (opp d, nxt a1 (opp d), Some (nxt a1 d), 17, []);
            (d, nxt a2 d, Some (nxt a2 (opp d)), 16, [])])
  | OReset d => (a, [(d, nxt a d, None, 4, [])])
  end.

(** overrides: for the duration of the call the overridden side counts from the given value; afterwards it
    resumes where it was before the call, while a side that was not overridden keeps what the call made of it.
    [seq:] is the caller's own counter, [ack:] the peer's. *)
Definition set_side (a : account) (d : dir) (x : N) : account :=
  match d with
  | Cl => {| a_cl_isn := x; a_cl_used := 0; a_sv_isn := a_sv_isn a; a_sv_used := a_sv_used a |}
  | Sv => {| a_cl_isn := a_cl_isn a; a_cl_used := a_cl_used a; a_sv_isn := x; a_sv_used := 0 |}
  end.
Definition restore_side (a old : account) (d : dir) : account :=
  match d with
  | Cl => {| a_cl_isn := a_cl_isn old; a_cl_used := a_cl_used old; a_sv_isn := a_sv_isn a; a_sv_used := a_sv_used a |}
  | Sv => {| a_cl_isn := a_cl_isn a; a_cl_used := a_cl_used a; a_sv_isn := a_sv_isn old; a_sv_used := a_sv_used old |}
  end.
Definition over_enter (a : account) (d : dir) (sq ak : option N) : account :=
  let a1 := match sq with Some x => set_side a d x | None => a end in
  match ak with Some y => set_side a1 (opp d) y | None => a1 end.
Definition over_leave (a old : account) (d : dir) (sq ak : option N) : account :=
  let a1 := match sq with Some _ => restore_side a old d | None => a end in
  match ak with Some _ => restore_side a1 old (opp d) | None => a1 end.

Definition spec_op (a : account) (o : op) : account * list seginfo :=
  match op_over o with
  | None => spec_plain a o
  | Some (d, sq, ak) =>
      let r := spec_plain (over_enter a d sq ak) o in
      (over_leave (fst r) a d sq ak, snd r)
  end.

(** a history without overrides *)
Fixpoint plain_ops (a : account) (ops : list op) : account * list seginfo :=
  match ops with
  | [] => (a, [])
  | o :: r => let r1 := spec_plain a o in let r2 := plain_ops (fst r1) r in (fst r2, snd r1 ++ snd r2)
  end.

Fixpoint spec_ops (a : account) (ops : list op) : account * list seginfo :=
  match ops with
  | [] => (a, [])
  | o :: r => let r1 := spec_op a o in let r2 := spec_ops (fst r1) r in (fst r2, snd r1 ++ snd r2)
  end.

(** a call whose own counter is overridden, a bare ACK and a reset leave the account as it was *)
Definition leaves_no_trace (o : op) : Prop :=
  match o with
  | OMessage _ _ _ _ (Some _) _ | OSegment _ _ _ (Some _) _ | OAck _ _ _ | OReset _ => True
  | _ => False
  end.

(** ---- the scripted streams ---- *)
(** what side d's operation puts into d's sequence space: payload bytes first, then units no segment carries
    data for (SYN, FIN, a declared hole, the bytes announced by a header-only segment) *)
Definition op_data (d : dir) (o : op) : bytes :=
  match o with
  | OMessage d' b _ _ _ _ | OSegment d' _ b _ _ => if dir_eqb d d' then b else []
  | _ => []
  end.
Definition op_gap (d : dir) (o : op) : N :=
  match o with
  | OOpen | OClose _ => 1
  | OHole d' n | OHdr d' n => if dir_eqb d d' then n else 0
  | _ => 0
  end.
(** the layout of d's stream: [Some b] where the script supplies byte b, [None] where it leaves a gap *)
Fixpoint layout (d : dir) (ops : list op) : list (option N) :=
  match ops with
  | [] => []
  | o :: r => map Some (op_data d o) ++ repeat None (N.to_nat (op_gap d o)) ++ layout d r
  end.
Definition total_use (d : dir) (ops : list op) : N := len (layout d ops).

(** ---- a reassembler ---- *)
Definition isn_of (c0 s0 : N) (d : dir) : N := match d with Cl => c0 | Sv => s0 end.
(** the byte a segment contributes at stream offset k of direction d, the stream starting right after the SYN:
    a payload byte i sits at offset (seq - ISN - 1) mod 2^32 + i *)
Definition seg_byte (isn0 : N) (d : dir) (x : seginfo) (k : N) : option N :=
  let off := stream_offset isn0 (si_seq x) in
  if dir_eqb (si_dir x) d && (off <=? k) && (k <? off + len (si_payload x))
  then nth_error (si_payload x) (N.to_nat (k - off)) else None.
(** segments in arrival order; the first one covering an offset supplies the byte *)
Fixpoint reasm (isn0 : N) (d : dir) (segs : list seginfo) (k : N) : option N :=
  match segs with
  | [] => None
  | x :: r => match seg_byte isn0 d x k with Some v => Some v | None => reasm isn0 d r k end
  end.
(** the stream as a list: offsets 0 .. n-1 *)
Definition reasm_stream (isn0 : N) (d : dir) (segs : list seginfo) (n : nat) : list (option N) :=
  map (fun i => reasm isn0 d segs (N.of_nat i)) (seq 0 n).
