(** An independent reader of the pcap format (nanosecond magic, either byte order is legal but the
    writer is little-endian; we accept exactly: magic a1b23c4d LE, version 2.4, link type 1), then
    records until the bytes run out exactly.  Fails on a short header, short record or trailing bytes. *)
From RS Require Import Base.Bytes.
Open Scope N_scope.

Definition rd_le32 (l : bytes) : option (N * bytes) :=
  match l with
  | a :: b :: c :: d :: r => Some (a + 256 * (b + 256 * (c + 256 * d)), r)
  | _ => None
  end.
Definition rd_le16 (l : bytes) : option (N * bytes) :=
  match l with
  | a :: b :: r => Some (a + 256 * b, r)
  | _ => None
  end.

Record pcap_rec := { r_sec : N; r_nsec : N; r_caplen : N; r_len : N; r_frame : bytes }.

(** fuel = number of bytes: every record consumes at least 16 *)
Fixpoint read_records (fuel : nat) (l : bytes) : option (list pcap_rec) :=
  match l with
  | [] => Some []
  | _ =>
    match fuel with
    | O => None
    | S fuel' =>
      match rd_le32 l with None => None | Some (sec, l1) =>
      match rd_le32 l1 with None => None | Some (nsec, l2) =>
      match rd_le32 l2 with None => None | Some (cap, l3) =>
      match rd_le32 l3 with None => None | Some (ln, l4) =>
        if len l4 <? cap then None
        else match read_records fuel' (dropN cap l4) with
             | None => None
             | Some rs => Some ({| r_sec := sec; r_nsec := nsec; r_caplen := cap; r_len := ln; r_frame := takeN cap l4 |} :: rs)
             end
      end end end end
    end
  end.

Definition pcap_read (l : bytes) : option (list pcap_rec) :=
  match rd_le32 l with None => None | Some (magic, l1) =>
  match rd_le16 l1 with None => None | Some (vmaj, l2) =>
  match rd_le16 l2 with None => None | Some (vmin, l3) =>
  match rd_le32 l3 with None => None | Some (_, l4) =>
  match rd_le32 l4 with None => None | Some (_, l5) =>
  match rd_le32 l5 with None => None | Some (_, l6) =>
  match rd_le32 l6 with None => None | Some (link, l7) =>
    if (magic =? 2712812621) && (vmaj =? 2) && (vmin =? 4) && (link =? 1)
    then read_records (length l7) l7 else None
  end end end end end end end.
