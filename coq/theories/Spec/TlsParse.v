(** TLS framing, specification side of C15: written from RFC 5246 (7.4 handshake protocol, 6.2.1 record
    layer), RFC 6066 section 3 (server_name) -- independent of the model.  Every parser returns the parts
    and the unconsumed rest. *)
From RS Require Import Base.Bytes Spec.LenPrefix.
Open Scope N_scope.

(** struct { ContentType type; ProtocolVersion version; uint16 length; opaque fragment[length]; } *)
Definition parse_tls_record (l : bytes) : option ((N * N * bytes) * bytes) :=
  match parse_u8 l with
  | Some (content, r1) =>
    match parse_be16 r1 with
    | Some (version, r2) =>
      match parse_len_be16 r2 with
      | Some (fragment, rest) => Some ((content, version, fragment), rest)
      | None => None
      end
    | None => None
    end
  | None => None
  end.

(** struct { HandshakeType msg_type; uint24 length; body[length]; } *)
Definition parse_handshake (l : bytes) : option ((N * bytes) * bytes) :=
  match parse_u8 l with
  | Some (typ, r1) =>
    match parse_len_be24 r1 with
    | Some (body, rest) => Some ((typ, body), rest)
    | None => None
    end
  | None => None
  end.

(** struct { ExtensionType extension_type; opaque extension_data<0..2^16-1>; } *)
Definition parse_extension (l : bytes) : option ((N * bytes) * bytes) :=
  match parse_be16 l with
  | Some (typ, r1) =>
    match parse_len_be16 r1 with
    | Some (data, rest) => Some ((typ, data), rest)
    | None => None
    end
  | None => None
  end.

(** the contents of an extension block: extensions back to back, consumed exactly *)
Definition parse_extensions (block : bytes) : option (list (N * bytes)) := parse_all parse_extension block.

(** Extension extensions<0..2^16-1>: present only if bytes follow the compression methods; when
    present it must account for all the remaining bytes of the hello *)
Definition parse_opt_ext_block (l : bytes) : option (option bytes) :=
  match l with
  | [] => Some None
  | _ => match parse_len_be16 l with
         | Some (block, []) => Some (Some block)
         | _ => None
         end
  end.

Definition take_random (l : bytes) : option (bytes * bytes) := take_exact 32 l.

(** CipherSuite cipher_suites<2..2^16-2>: a 16-bit byte count (even) and that many bytes of 16-bit ids *)
Fixpoint pairs_be16 (l : bytes) : option (list N) :=
  match l with
  | [] => Some []
  | a :: b :: r => match pairs_be16 r with Some xs => Some (rd16 a b :: xs) | None => None end
  | _ => None
  end.
Definition parse_cipher_list (l : bytes) : option (list N * bytes) :=
  match parse_len_be16 l with
  | Some (body, rest) => match pairs_be16 body with Some ids => Some (ids, rest) | None => None end
  | None => None
  end.

Record client_hello := {
  ch_version : N; ch_random : bytes; ch_session : bytes; ch_ciphers : list N; ch_compression : bytes;
  ch_extensions : option bytes }.

(** struct { ProtocolVersion; Random; SessionID<0..32>; CipherSuite<2..2^16-2>; CompressionMethod<1..2^8-1>;
    select (extensions_present) { ... } } ClientHello -- the body of a handshake message of type 1 *)
Definition parse_client_hello (body : bytes) : option client_hello :=
  match parse_be16 body with
  | Some (v, r1) =>
    match take_random r1 with
    | Some (rnd, r2) =>
      match parse_len_u8 r2 with
      | Some (sid, r3) =>
        match parse_cipher_list r3 with
        | Some (cs, r4) =>
          match parse_len_u8 r4 with
          | Some (comp, r5) =>
            match parse_opt_ext_block r5 with
            | Some e => Some {| ch_version := v; ch_random := rnd; ch_session := sid; ch_ciphers := cs;
                                ch_compression := comp; ch_extensions := e |}
            | None => None
            end
          | None => None
          end
        | None => None
        end
      | None => None
      end
    | None => None
    end
  | None => None
  end.

Record server_hello := {
  sh_version : N; sh_random : bytes; sh_session : bytes; sh_cipher : N; sh_compression : N;
  sh_extensions : option bytes }.

(** struct { ProtocolVersion; Random; SessionID; CipherSuite cipher_suite; CompressionMethod; extensions } *)
Definition parse_server_hello (body : bytes) : option server_hello :=
  match parse_be16 body with
  | Some (v, r1) =>
    match take_random r1 with
    | Some (rnd, r2) =>
      match parse_len_u8 r2 with
      | Some (sid, r3) =>
        match parse_be16 r3 with
        | Some (cs, r4) =>
          match parse_u8 r4 with
          | Some (comp, r5) =>
            match parse_opt_ext_block r5 with
            | Some e => Some {| sh_version := v; sh_random := rnd; sh_session := sid; sh_cipher := cs;
                                sh_compression := comp; sh_extensions := e |}
            | None => None
            end
          | None => None
          end
        | None => None
        end
      | None => None
      end
    | None => None
    end
  | None => None
  end.

(** RFC 6066: struct { NameType name_type; opaque HostName<1..2^16-1>; } ServerName;
    struct { ServerName server_name_list<1..2^16-1> } ServerNameList *)
Definition parse_server_name (l : bytes) : option ((N * bytes) * bytes) :=
  match parse_u8 l with
  | Some (typ, r1) =>
    match parse_len_be16 r1 with
    | Some (name, rest) => Some ((typ, name), rest)
    | None => None
    end
  | None => None
  end.
Definition parse_server_name_list (data : bytes) : option (list (N * bytes)) :=
  match parse_len_be16 data with
  | Some (lst, []) => parse_all parse_server_name lst
  | _ => None
  end.
(** the whole server_name extension: type 0, its data a ServerNameList *)
Definition parse_sni (l : bytes) : option (list (N * bytes) * bytes) :=
  match parse_extension l with
  | Some ((typ, data), rest) =>
    if typ =? 0 then match parse_server_name_list data with Some ns => Some (ns, rest) | None => None end
    else None
  | None => None
  end.

(** opaque ASN.1Cert<1..2^24-1>; struct { ASN.1Cert certificate_list<0..2^24-1>; } Certificate --
    the body of a handshake message of type 11 *)
Definition parse_certificate_list (body : bytes) : option (list bytes) :=
  match parse_len_be24 body with
  | Some (lst, []) => parse_all parse_len_be24 lst
  | _ => None
  end.
Definition parse_certificates (l : bytes) : option (list bytes * bytes) :=
  match parse_handshake l with
  | Some ((typ, body), rest) =>
    if typ =? 11 then match parse_certificate_list body with Some cs => Some (cs, rest) | None => None end
    else None
  | None => None
  end.
