(** Specification side for C02/C03/C18: what "verifies" and "self-consistent" mean for the bytes on
    the wire, written from RFC 791/793/768/792/1071 and independent of the builders. *)
From RS Require Import Base.Bytes.
Open Scope N_scope.

(** RFC 1071: sum of 16-bit big-endian words, odd trailing byte padded with zero *)
Fixpoint wsum (l : bytes) : N :=
  match l with
  | a :: b :: r => a * 256 + b + wsum r
  | [a] => a * 256
  | [] => 0
  end.

(** end-around-carry reduction to 16 bits (iterated; fuel bounds the number of folds) *)
Fixpoint ocfold (fuel : nat) (s : N) : N :=
  match fuel with
  | O => s
  | S f => if s <? 65536 then s else ocfold f (s mod 65536 + s / 65536)
  end.

(** a checksummed region verifies when its ones-complement sum is 0xffff *)
Definition verifies (l : bytes) : bool := ocfold 8 (wsum l) =? 65535.

Definition u16_at (l : bytes) (off : nat) : N := nth off l 0 * 256 + nth (S off) l 0.
Definition u32_at (l : bytes) (off : nat) : N := u16_at l off * 65536 + u16_at l (off + 2).

(** IPv4 header at the head of [d], where [d] runs to the end of the datagram *)
Definition ipv4_ok (d : bytes) : bool :=
  (Nat.leb 20 (length d)) && (nth 0 d 0 =? 69) && (u16_at d 2 =? len d) && verifies (firstn 20 d).

Definition ip_id_of (d : bytes) := u16_at d 4.
Definition ip_frag_of (d : bytes) := u16_at d 6.
Definition ip_ttl_of (d : bytes) := nth 8 d 0.
Definition ip_proto_of (d : bytes) := nth 9 d 0.
Definition ip_src_of (d : bytes) := u32_at d 12.
Definition ip_dst_of (d : bytes) := u32_at d 16.

Definition pseudo_hdr (src dst proto l : N) : bytes := be32 src ++ be32 dst ++ [0; proto] ++ be16 l.

(** TCP segment [seg] (header + payload) carried between src and dst *)
Definition tcp_ok (src dst : N) (seg : bytes) : bool :=
  (Nat.leb 20 (length seg)) && verifies (pseudo_hdr src dst 6 (len seg) ++ seg).

(** UDP datagram: length field exact; checksum 0 means "none", otherwise it must verify *)
Definition udp_len_ok (dg : bytes) : bool := (Nat.leb 8 (length dg)) && (u16_at dg 4 =? len dg).
Definition udp_csum_ok (src dst : N) (dg : bytes) : bool :=
  negb (u16_at dg 6 =? 0) && verifies (pseudo_hdr src dst 17 (len dg) ++ dg).

(** ICMP message *)
Definition icmp_ok (msg : bytes) : bool := (Nat.leb 8 (length msg)) && verifies msg.
