(** RFC 791 reassembly, specification side of C07.  A fragment is (offset in 8-byte units, MF, data).
    The buffer is described by a lookup function: the byte at position k is the byte of the first
    fragment (in arrival order) that covers k; the total length is learnt from a fragment with MF clear. *)
From RS Require Import Base.Bytes.
Open Scope N_scope.

Record fragment := { fg_off : N; fg_mf : bool; fg_data : bytes }.

Definition covers (f : fragment) (k : N) : bool := (fg_off f * 8 <=? k) && (k <? fg_off f * 8 + len (fg_data f)).

Fixpoint lookup (fs : list fragment) (k : N) : option N :=
  match fs with
  | [] => None
  | f :: r => if covers f k then nth_error (fg_data f) (N.to_nat (k - fg_off f * 8)) else lookup r k
  end.

(** total length announced by the fragments with MF clear (all must agree) *)
Fixpoint total_len (fs : list fragment) : option N :=
  match fs with
  | [] => None
  | f :: r =>
    if fg_mf f then total_len r
    else match total_len r with
         | None => Some (fg_off f * 8 + len (fg_data f))
         | Some t => if t =? fg_off f * 8 + len (fg_data f) then Some t else None
         end
  end.

Fixpoint collect (fs : list fragment) (n : nat) (k : N) : option bytes :=
  match n with
  | O => Some []
  | S n' => match lookup fs k with
            | None => None       (* a hole *)
            | Some b => match collect fs n' (k + 1) with Some r => Some (b :: r) | None => None end
            end
  end.

(** complete when the length is known and no hole remains *)
Definition reassemble (fs : list fragment) : option bytes :=
  match total_len fs with
  | None => None
  | Some t => collect fs (N.to_nat t) 0
  end.

(** reading a fragment off the wire: the IPv4 datagram [d] (header first) *)
Definition fragment_of (d : bytes) : fragment :=
  let fo := nth 6 d 0 * 256 + nth 7 d 0 in
  {| fg_off := fo mod 8192; fg_mf := negb (N.land fo 8192 =? 0); fg_data := skipn 20 d |}.
