(** Length-prefixed blobs and fixed-width integers, specification side of C15.
    Written from the format descriptions only: a big-endian (or little-endian) unsigned integer of k
    bytes; a blob preceded by such an integer that counts the bytes of the blob.  Every parser returns
    the decoded part and the unconsumed rest, or None when the input is too short. *)
From RS Require Import Base.Bytes.
Open Scope N_scope.

(** the next [k] bytes, most significant first *)
Fixpoint rd_be_acc (k : nat) (acc : N) (l : bytes) : option (N * bytes) :=
  match k with
  | O => Some (acc, l)
  | S k' => match l with
            | [] => None
            | b :: r => rd_be_acc k' (acc * 256 + b) r
            end
  end.
Definition rd_be (k : nat) (l : bytes) : option (N * bytes) := rd_be_acc k 0 l.

(** the next [k] bytes, least significant first *)
Fixpoint rd_le (k : nat) (l : bytes) : option (N * bytes) :=
  match k with
  | O => Some (0, l)
  | S k' => match l with
            | [] => None
            | b :: r => match rd_le k' r with
                        | Some (v, rest) => Some (b + 256 * v, rest)
                        | None => None
                        end
            end
  end.

Definition parse_u8 := rd_be 1.
Definition parse_be16 := rd_be 2.
Definition parse_be24 := rd_be 3.
Definition parse_be32 := rd_be 4.
Definition parse_be64 := rd_be 8.
Definition parse_le16 := rd_le 2.
Definition parse_le32 := rd_le 4.
Definition parse_le64 := rd_le 8.

(** exactly [n] bytes, or nothing *)
Definition take_exact (n : N) (l : bytes) : option (bytes * bytes) :=
  if n <=? len l then Some (takeN n l, dropN n l) else None.

(** a [k]-byte big-endian count followed by that many bytes *)
Definition parse_len_prefixed (k : nat) (l : bytes) : option (bytes * bytes) :=
  match rd_be k l with
  | Some (n, r) => take_exact n r
  | None => None
  end.

Definition parse_len_u8 := parse_len_prefixed 1.
Definition parse_len_be16 := parse_len_prefixed 2.
Definition parse_len_be24 := parse_len_prefixed 3.
Definition parse_len_be32 := parse_len_prefixed 4.
Definition parse_len_be64 := parse_len_prefixed 8.

(** a sequence of items that must consume the input exactly; every item consumes at least one byte,
    so the length of the input bounds the number of items *)
Fixpoint parse_all_fuel {A} (item : bytes -> option (A * bytes)) (fuel : nat) (l : bytes) : option (list A) :=
  match l with
  | [] => Some []
  | _ => match fuel with
         | O => None
         | S f => match item l with
                  | Some (x, r) => match parse_all_fuel item f r with
                                   | Some xs => Some (x :: xs)
                                   | None => None
                                   end
                  | None => None
                  end
         end
  end.
Definition parse_all {A} (item : bytes -> option (A * bytes)) (l : bytes) : option (list A) :=
  parse_all_fuel item (length l) l.
