(** NetBIOS first-level name encoding, specification side of C16: RFC 1001 section 14.1 -- each
    half-octet of the 16-octet NetBIOS name is added to 'A' (0x41), high half first, giving 32 octets
    in 'A'..'P'.  The 16-octet name is 15 octets of space-padded name and one suffix octet. *)
From RS Require Import Base.Bytes.
Open Scope N_scope.

Definition half (c : N) : option N := if (65 <=? c) && (c <=? 80) then Some (c - 65) else None.

Fixpoint decode_pairs (k : nat) (l : bytes) : option (bytes * bytes) :=
  match k with
  | O => Some ([], l)
  | S k' =>
    match l with
    | hi :: lo :: r =>
      match half hi, half lo with
      | Some h, Some w => match decode_pairs k' r with
                          | Some (bs, rest) => Some (h * 16 + w :: bs, rest)
                          | None => None
                          end
      | _, _ => None
      end
    | _ => None
    end
  end.

(** -> ((15-octet padded name, suffix), rest) *)
Definition nb_decode (l : bytes) : option ((bytes * N) * bytes) :=
  match decode_pairs 16 l with
  | Some (raw, rest) => Some ((firstn 15 raw, nth 15 raw 0), rest)
  | None => None
  end.
