(** DNS messages, specification side of C16 (and of the RR part of C15): RFC 1035 section 4.1
    (header 4.1.1, question 4.1.2, resource record 4.1.3, names and compression 4.1.4), AD/CD bits from
    RFC 2535 section 6.1 -- independent of the model. *)
From RS Require Import Base.Bytes Spec.LenPrefix.
Open Scope N_scope.

(**    15  14..11  10  9   8   7   6  5   4   3..0
       QR  OPCODE  AA  TC  RD  RA  Z  AD  CD  RCODE   (bit 15 is the first bit on the wire) *)
Record dns_flags := {
  fl_qr : bool; fl_opcode : N; fl_aa : bool; fl_tc : bool; fl_rd : bool; fl_ra : bool; fl_z : bool;
  fl_ad : bool; fl_cd : bool; fl_rcode : N }.

Definition decode_flags (w : N) : dns_flags :=
  {| fl_qr := N.testbit w 15; fl_opcode := (w / 2048) mod 16; fl_aa := N.testbit w 10; fl_tc := N.testbit w 9;
     fl_rd := N.testbit w 8; fl_ra := N.testbit w 7; fl_z := N.testbit w 6; fl_ad := N.testbit w 5;
     fl_cd := N.testbit w 4; fl_rcode := w mod 16 |}.

Record dns_header := {
  dn_id : N; dn_flags : dns_flags; dn_qdcount : N; dn_ancount : N; dn_nscount : N; dn_arcount : N }.

Definition parse_dns_header (l : bytes) : option (dns_header * bytes) :=
  match parse_be16 l with
  | Some (id, r1) =>
    match parse_be16 r1 with
    | Some (fl, r2) =>
      match parse_be16 r2 with
      | Some (qd, r3) =>
        match parse_be16 r3 with
        | Some (an, r4) =>
          match parse_be16 r4 with
          | Some (ns, r5) =>
            match parse_be16 r5 with
            | Some (ar, rest) =>
              Some ({| dn_id := id; dn_flags := decode_flags fl; dn_qdcount := qd; dn_ancount := an;
                       dn_nscount := ns; dn_arcount := ar |}, rest)
            | None => None
            end
          | None => None
          end
        | None => None
        end
      | None => None
      end
    | None => None
    end
  | None => None
  end.

(** a domain name: a sequence of labels, finished either by the zero octet (pointer = None) or by a
    compression pointer (two octets, top bits 11, the other 14 bits an offset into the message) *)
Record dns_name := { nm_labels : list bytes; nm_pointer : option N }.

Fixpoint parse_name_fuel (fuel : nat) (l : bytes) : option (dns_name * bytes) :=
  match fuel with
  | O => None
  | S f =>
    match l with
    | [] => None
    | b :: r =>
      if b =? 0 then Some ({| nm_labels := []; nm_pointer := None |}, r)
      else if b <? 64 then
        match take_exact b r with
        | Some (lab, r') =>
          match parse_name_fuel f r' with
          | Some (n, rest) => Some ({| nm_labels := lab :: nm_labels n; nm_pointer := nm_pointer n |}, rest)
          | None => None
          end
        | None => None
        end
      else if (192 <=? b) && (b <? 256) then
        match r with
        | lo :: rest => Some ({| nm_labels := []; nm_pointer := Some ((b - 192) * 256 + lo) |}, rest)
        | [] => None
        end
      else None        (* the 01 and 10 prefixes are reserved *)
    end
  end.
(** every step consumes at least one octet *)
Definition parse_name (l : bytes) : option (dns_name * bytes) := parse_name_fuel (length l) l.

(** following compression pointers inside a message (at most [fuel] of them) *)
Fixpoint expand_name (fuel : nat) (msg : bytes) (n : dns_name) : option (list bytes) :=
  match nm_pointer n with
  | None => Some (nm_labels n)
  | Some off =>
    match fuel with
    | O => None
    | S f => match parse_name (dropN off msg) with
             | Some (n', _) => match expand_name f msg n' with
                               | Some ls => Some (nm_labels n ++ ls)
                               | None => None
                               end
             | None => None
             end
    end
  end.

Record dns_question := { q_name : dns_name; q_type : N; q_class : N }.
Definition parse_question (l : bytes) : option (dns_question * bytes) :=
  match parse_name l with
  | Some (n, r1) =>
    match parse_be16 r1 with
    | Some (t, r2) =>
      match parse_be16 r2 with
      | Some (c, rest) => Some ({| q_name := n; q_type := t; q_class := c |}, rest)
      | None => None
      end
    | None => None
    end
  | None => None
  end.

Record dns_rr := { rr_name : dns_name; rr_type : N; rr_class : N; rr_ttl : N; rr_data : bytes }.
(** NAME TYPE CLASS TTL(32) RDLENGTH(16) RDATA[RDLENGTH] *)
Definition parse_rr (l : bytes) : option (dns_rr * bytes) :=
  match parse_name l with
  | Some (n, r1) =>
    match parse_be16 r1 with
    | Some (t, r2) =>
      match parse_be16 r2 with
      | Some (c, r3) =>
        match parse_be32 r3 with
        | Some (ttl, r4) =>
          match parse_len_be16 r4 with
          | Some (data, rest) =>
            Some ({| rr_name := n; rr_type := t; rr_class := c; rr_ttl := ttl; rr_data := data |}, rest)
          | None => None
          end
        | None => None
        end
      | None => None
      end
    | None => None
    end
  | None => None
  end.

Fixpoint parse_n {A} (item : bytes -> option (A * bytes)) (n : nat) (l : bytes) : option (list A * bytes) :=
  match n with
  | O => Some ([], l)
  | S n' => match item l with
            | Some (x, r) => match parse_n item n' r with
                             | Some (xs, rest) => Some (x :: xs, rest)
                             | None => None
                             end
            | None => None
            end
  end.

Record dns_message := {
  m_header : dns_header; m_questions : list dns_question; m_answers : list dns_rr;
  m_authority : list dns_rr; m_additional : list dns_rr }.

(** the header, then exactly as many entries per section as the header announces *)
Definition parse_dns_message (l : bytes) : option (dns_message * bytes) :=
  match parse_dns_header l with
  | Some (h, r0) =>
    match parse_n parse_question (N.to_nat (dn_qdcount h)) r0 with
    | Some (qs, r1) =>
      match parse_n parse_rr (N.to_nat (dn_ancount h)) r1 with
      | Some (an, r2) =>
        match parse_n parse_rr (N.to_nat (dn_nscount h)) r2 with
        | Some (ns, r3) =>
          match parse_n parse_rr (N.to_nat (dn_arcount h)) r3 with
          | Some (ar, rest) =>
            Some ({| m_header := h; m_questions := qs; m_answers := an; m_authority := ns;
                     m_additional := ar |}, rest)
          | None => None
          end
        | None => None
        end
      | None => None
      end
    | None => None
    end
  | None => None
  end.
