(** BOOTP/DHCP, specification side of C15 (option TLV) and C16 (fixed header): RFC 2131 figure 1 and
    RFC 2132 section 2 -- independent of the model. *)
From RS Require Import Base.Bytes Spec.LenPrefix.
Open Scope N_scope.

(** RFC 2132: a tag octet, a length octet, that many data octets *)
Definition parse_dhcp_tlv (l : bytes) : option ((N * bytes) * bytes) :=
  match parse_u8 l with
  | Some (code, r1) =>
    match parse_len_u8 r1 with
    | Some (data, rest) => Some ((code, data), rest)
    | None => None
    end
  | None => None
  end.

(** the options field: pad (0) is a single octet and is skipped, end (255) is a single octet that
    finishes the field, everything else is a TLV.  Returns the options before the end marker and the
    bytes after it. *)
Fixpoint parse_dhcp_options_fuel (fuel : nat) (l : bytes) : option (list (N * bytes) * bytes) :=
  match fuel with
  | O => None
  | S f =>
    match l with
    | [] => None
    | code :: r =>
      if code =? 0 then parse_dhcp_options_fuel f r
      else if code =? 255 then Some ([], r)
      else match parse_dhcp_tlv l with
           | Some (o, rest) => match parse_dhcp_options_fuel f rest with
                               | Some (os, tail) => Some (o :: os, tail)
                               | None => None
                               end
           | None => None
           end
    end
  end.
Definition parse_dhcp_options (l : bytes) : option (list (N * bytes) * bytes) :=
  parse_dhcp_options_fuel (length l) l.

(** RFC 2131 figure 1: field, offset, width
      op 0/1  htype 1/1  hlen 2/1  hops 3/1  xid 4/4  secs 8/2  flags 10/2
      ciaddr 12/4  yiaddr 16/4  siaddr 20/4  giaddr 24/4  chaddr 28/16  sname 44/64  file 108/128
    followed (RFC 2131 section 3) by the 4-octet magic cookie at 236. *)
Record dhcp_header := {
  dh_op : N; dh_htype : N; dh_hlen : N; dh_hops : N; dh_xid : N; dh_secs : N; dh_flags : N;
  dh_ciaddr : N; dh_yiaddr : N; dh_siaddr : N; dh_giaddr : N;
  dh_chaddr : bytes; dh_sname : bytes; dh_file : bytes; dh_magic : N }.

Definition slice (off n : nat) (l : bytes) : bytes := firstn n (skipn off l).
Fixpoint be_value (l : bytes) (acc : N) : N :=
  match l with [] => acc | b :: r => be_value r (acc * 256 + b) end.
Definition field (off n : nat) (l : bytes) : N := be_value (slice off n l) 0.

Definition parse_dhcp_header (l : bytes) : option (dhcp_header * bytes) :=
  if 240 <=? len l then
    Some ({| dh_op := field 0 1 l; dh_htype := field 1 1 l; dh_hlen := field 2 1 l; dh_hops := field 3 1 l;
             dh_xid := field 4 4 l; dh_secs := field 8 2 l; dh_flags := field 10 2 l;
             dh_ciaddr := field 12 4 l; dh_yiaddr := field 16 4 l; dh_siaddr := field 20 4 l;
             dh_giaddr := field 24 4 l;
             dh_chaddr := slice 28 16 l; dh_sname := slice 44 64 l; dh_file := slice 108 128 l;
             dh_magic := field 236 4 l |},
          skipn 240 l)
  else None.

(** what a fixed-width field holds when given [v]: the first [w] bytes of [v] followed by zeros *)
Definition fixed_width (w : nat) (v : bytes) : bytes := firstn w (v ++ repeat 0 w).
