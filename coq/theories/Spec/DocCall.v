(** The call the reference documentation describes (property C20): a function's page shows its
    mandatory parameters ([name: type,]) followed by its optional ones ([name: type = default,]);
    the documented call supplies exactly the mandatory ones, in order, and nothing else. *)
From RS Require Import Base.Bytes Bind.Types Bind.BindSpec.
Open Scope list_scope.

(** (name, type) of the mandatory parameters, in declaration order *)
Fixpoint mandatory_params (ps : list param) : list (string * vtype) :=
  match ps with
  | [] => []
  | (x, Positional t) :: r => (x, t) :: mandatory_params r
  | (_, Optional _) :: r => mandatory_params r
  end.

(** the defaults of the optional parameters, in declaration order *)
Fixpoint optional_defaults (ps : list param) : list valdef :=
  match ps with
  | [] => []
  | (_, Positional _) :: r => optional_defaults r
  | (_, Optional d) :: r => d :: optional_defaults r
  end.

(** the type of the value a default denotes (src/val.rs, impl From<ValDef> for Val: a nullable
    option [Type(t)] denotes "nothing") *)
Definition valdef_type' (d : valdef) : vtype :=
  match d with DType _ => TVoid | _ => valdef_type d end.

Section Calls.
Variable V : Type.

(** every mandatory parameter by position *)
Definition positional_call (vals : list V) : list (option string * V) :=
  map (fun v => (None, v)) vals.

(** every mandatory parameter by name *)
Definition named_call (names : list string) (vals : list V) : list (option string * V) :=
  map (fun nv => (Some (fst nv), snd nv)) (combine names vals).

End Calls.
