(** C17 -- Literals denote exactly what is written, or are rejected.
    This file holds only the pinned statements; proofs live in Proofs/C17 (and Proofs/C05 for hex sections). *)
From RS Require Import Base.Bytes Base.Outcome Lex.Tokens Lex.Literals Interp.Val Interp.Ast Interp.Eval
  Parse.Verdict Parse.Automaton Spec.Literal Proofs.C17.Ints Proofs.C17.Quad Proofs.C17.Sock Proofs.C05.Literal Proofs.C17.Strings.
Open Scope N_scope.

(** a decimal digit string (leading zeros allowed) is the number it spells if that fits in 64 bits, else rejected *)
Theorem C17_dec_exact : forall ds, dec_digits_ok ds = true -> ds <> [] ->
  parse_u64_dec (spell_dec ds) = if dec_value_of ds <? two64 then Some (dec_value_of ds) else None.
Proof. exact dec_exact. Qed.

(** nothing but digit strings with an optional single '+' is accepted, and the value is the one spelled *)
Theorem C17_dec_only : forall s n, parse_u64_dec s = Some n ->
  exists ds, dec_digits_ok ds = true /\ ds <> [] /\ (s = spell_dec ds \/ s = PLUS :: spell_dec ds)
             /\ dec_value_of ds = n /\ n < two64.
Proof. exact dec_only. Qed.

Theorem C17_dec_rejects_minus : forall s, parse_u64_dec (MINUS :: s) = None.
Proof. exact dec_rejects_minus. Qed.

(** hexadecimal digits in either case *)
Theorem C17_hex_exact : forall ds : list (bool * N), hex_digits_ok ds = true -> ds <> [] ->
  parse_u64_hex (spell_hex ds)
  = let v := hex_value_of (map snd ds) in if v <? two64 then Some v else None.
Proof. exact hex_exact. Qed.

Theorem C17_hex_only : forall s n, parse_u64_hex s = Some n ->
  exists ds, hex_digits_ok ds = true /\ ds <> [] /\ (s = spell_hex ds \/ s = PLUS :: spell_hex ds)
             /\ hex_value_of (map snd ds) = n /\ n < two64.
Proof. exact hex_only. Qed.

(** Val::from_token on integer tokens: the value written, or a parse error *)
Theorem C17_int_token_exact : forall l ds, dec_digits_ok ds = true -> ds <> [] ->
  val_of_token {| tk_type := TIntLit; tk_loc := l; tk_val := Some (spell_dec ds) |}
  = if dec_value_of ds <? two64 then Ok (VU64 (dec_value_of ds)) else Err EParse.
Proof. exact int_token_exact. Qed.

Theorem C17_hex_token_exact : forall l (ds : list (bool * N)), hex_digits_ok ds = true -> ds <> [] ->
  val_of_token {| tk_type := THexLit; tk_loc := l; tk_val := Some (48 :: 120 :: spell_hex ds) |}
  = let v := hex_value_of (map snd ds) in if v <? two64 then Ok (VU64 v) else Err EParse.
Proof. exact hex_token_exact. Qed.

(** a dotted quad is accepted iff it is the canonical spelling of four octets, and denotes them *)
Theorem C17_quad_exact : forall s a, parse_ipv4 s = Some a <->
  exists w x y z, w <= 255 /\ x <= 255 /\ y <= 255 /\ z <= 255 /\ s = spell_quad w x y z /\ a = quad_value w x y z.
Proof. exact quad_exact. Qed.

Theorem C17_octet_rejects_padded : forall c r, parse_octet (48 :: c :: r) = None.
Proof. exact octet_rejects_padded. Qed.

Theorem C17_octet_rejects_big : forall ds, dec_digits_ok ds = true -> 255 < dec_value_of ds ->
  parse_octet (spell_dec ds) = None.
Proof. exact octet_rejects_big. Qed.

Theorem C17_bool_exact : forall s b, parse_bool s = Some b <-> s = spell_bool b.
Proof. exact bool_exact. Qed.

Theorem C17_ip_token_exact : forall l w x y z, w <= 255 -> x <= 255 -> y <= 255 -> z <= 255 ->
  val_of_token {| tk_type := TIPv4Lit; tk_loc := l; tk_val := Some (spell_quad w x y z) |}
  = Ok (VIp4 (quad_value w x y z)).
Proof. exact ip_token_exact. Qed.

(** after ADDR ':' the port is taken as written if it fits in 16 bits, else the token is a parse error *)
Theorem C17_sock_colon_exact : forall p l ds, dec_digits_ok ds = true -> ds <> [] ->
  state_ipv4_colon p {| tk_type := TIntLit; tk_loc := l; tk_val := Some (spell_dec ds) |}
  = if dec_value_of ds <=? 65535
    then Ok (push (NLoc l) p, AShift StReduceSockAddr (NLiteral (VU64 (dec_value_of ds))))
    else Err EParse.
Proof. exact sock_colon_exact. Qed.

(** the statement [let NAME = W.X.Y.Z:PORT;] at arbitrary source positions *)
Theorem C17_sock_literal_exact : forall l0 l1 l2 l3 l4 l5 l6 name w x y z ds,
  w <= 255 -> x <= 255 -> y <= 255 -> z <= 255 -> dec_digits_ok ds = true -> ds <> [] ->
  dec_value_of ds <= 65535 ->
  run_tokens
    [ {| tk_type := TLet; tk_loc := l0; tk_val := None |};
      {| tk_type := TIdent; tk_loc := l1; tk_val := Some name |};
      {| tk_type := TEquals; tk_loc := l2; tk_val := None |};
      {| tk_type := TIPv4Lit; tk_loc := l3; tk_val := Some (spell_quad w x y z) |};
      {| tk_type := TColon; tk_loc := l4; tk_val := None |};
      {| tk_type := TIntLit; tk_loc := l5; tk_val := Some (spell_dec ds) |};
      {| tk_type := TSemiColon; tk_loc := l6; tk_val := None |};
      eof_token ]
  = VAccept [SAssign l1 (string_of_bytes name) (ELit l3 (VSock4 (quad_value w x y z) (dec_value_of ds)))].
Proof. exact sock_literal_exact. Qed.

Theorem C17_sock_literal_rejects : forall l0 l1 l2 l3 l4 l5 l6 name w x y z ds,
  w <= 255 -> x <= 255 -> y <= 255 -> z <= 255 -> dec_digits_ok ds = true -> ds <> [] ->
  65535 < dec_value_of ds ->
  run_tokens
    [ {| tk_type := TLet; tk_loc := l0; tk_val := None |};
      {| tk_type := TIdent; tk_loc := l1; tk_val := Some name |};
      {| tk_type := TEquals; tk_loc := l2; tk_val := None |};
      {| tk_type := TIPv4Lit; tk_loc := l3; tk_val := Some (spell_quad w x y z) |};
      {| tk_type := TColon; tk_loc := l4; tk_val := None |};
      {| tk_type := TIntLit; tk_loc := l5; tk_val := Some (spell_dec ds) |};
      {| tk_type := TSemiColon; tk_loc := l6; tk_val := None |};
      eof_token ]
  = VReject 5.
Proof. exact sock_literal_rejects. Qed.

(** ADDR/PORT in the interpreter: the pair of the two values, a type error above 65535, never a truncation *)
Theorem C17_sock_slash_exact : forall functions classes modules exec p a b ip vb n p1 p2,
  eval functions classes modules exec p a = ROk (VIp4 ip) p1 ->
  eval functions classes modules exec p1 b = ROk vb p2 ->
  conv_int vb = Ok n ->
  eval functions classes modules exec p (ESlash a b)
  = if 65535 <? n then RErr EType (set_loc p2 (p_loc p1)) else ROk (VSock4 ip n) (set_loc p2 (p_loc p1)).
Proof. exact sock_slash_exact. Qed.

(** a string literal: a closed |..| section with an odd number of hex digits, or holding a character that
    is neither a hex digit, one of the six separators, white space nor the closing bar, makes the whole
    literal a parse error -- whatever well-formed text precedes it and whatever follows *)
Theorem C17_hex_section_rejects : forall segs b rest,
  forallb seg_ok segs = true -> bad_section_ok b = true ->
  decode_strlit (spell segs ++ spell_bad b ++ rest) = None.
Proof. exact hex_section_rejects. Qed.

Theorem C17_str_token_rejects : forall l segs b rest, forallb seg_ok segs = true -> bad_section_ok b = true ->
  val_of_token {| tk_type := TStringLit; tk_loc := l; tk_val := Some (spell segs ++ spell_bad b ++ rest) |} = Err EParse.
Proof. exact str_token_rejects. Qed.

(** a string token is either decoded or a parse error, never anything else *)
Theorem C17_str_token_total : forall l s,
  (exists b, val_of_token {| tk_type := TStringLit; tk_loc := l; tk_val := Some s |} = Ok (VStr b) /\ decode_strlit s = Some b)
  \/ val_of_token {| tk_type := TStringLit; tk_loc := l; tk_val := Some s |} = Err EParse.
Proof. exact str_token_total. Qed.

(** non-vacuity: 2^64-1 with leading zeros, 2^64, "+7", "fF", "1.2.3.4", "01.2.3.4", "256.1.1.1",
    "1.2.3", [let x = 10.0.0.1:65535;] and the same with port 65536 *)
Example C17_nonvacuous :
  parse_u64_dec (spell_dec [0;0;1;8;4;4;6;7;4;4;0;7;3;7;0;9;5;5;1;6;1;5]) = Some 18446744073709551615
  /\ parse_u64_dec (spell_dec [1;8;4;4;6;7;4;4;0;7;3;7;0;9;5;5;1;6;1;6]) = None
  /\ parse_u64_dec [43; 55] = Some 7
  /\ parse_u64_hex [102; 70] = Some 255
  /\ parse_ipv4 [49;46;50;46;51;46;52] = Some 16909060
  /\ parse_ipv4 [48;49;46;50;46;51;46;52] = None
  /\ parse_ipv4 [50;53;54;46;49;46;49;46;49] = None
  /\ parse_ipv4 [49;46;50;46;51] = None
  /\ (let toks port :=
        [ {| tk_type := TLet; tk_loc := (1, 1); tk_val := None |};
          {| tk_type := TIdent; tk_loc := (1, 5); tk_val := Some [120] |};
          {| tk_type := TEquals; tk_loc := (1, 7); tk_val := None |};
          {| tk_type := TIPv4Lit; tk_loc := (1, 9); tk_val := Some (spell_quad 10 0 0 1) |};
          {| tk_type := TColon; tk_loc := (1, 17); tk_val := None |};
          {| tk_type := TIntLit; tk_loc := (1, 18); tk_val := Some (spell_dec port) |};
          {| tk_type := TSemiColon; tk_loc := (1, 23); tk_val := None |};
          eof_token ] in
      run_tokens (toks [6;5;5;3;5]) = VAccept [SAssign (1, 5) "x" (ELit (1, 9) (VSock4 167772161 65535))]
      /\ run_tokens (toks [6;5;5;3;6]) = VReject 5).
Proof. repeat split; vm_compute; reflexivity. Qed.

