(** C05 -- Payload fidelity: the bytes a script supplies are the bytes on the wire.
    Pinned statements only; proofs in Proofs/C05.  [spell]/[denote] (Spec/Literal.v) are the structured
    description of a string literal and the bytes it stands for; [is_be_encoding k n b]: b is k bytes, each
    below 256, whose big-endian value is n; [udp_data_of]/[tcp_data_of]/[icmp_data_of]/[ip_data_of]/
    [eth_data_of] locate a payload at its protocol offset; [consecutive_slices] is the specification of a
    history of buffered reads. *)
From RS Require Import Base.Bytes Base.Outcome Pkt.Hdrs Pkt.Packet Ez.Tcp Ez.Udp Ez.Icmp Ez.Ip4
  Lex.Tokens Lex.Literals Interp.Val Lib.LibBase Lib.Ipv4Lib Lib.MiscLib Lib.ProtoLib Spec.Literal Spec.TcpAccount
  Proofs.C02.TcpIp Proofs.C02.OtherIp Proofs.C07.Reasm Proofs.C07.FragExact
  Proofs.C05.Literal Proofs.C05.Coerce Proofs.C05.BufIo Proofs.C05.Payload Proofs.C17.Strings.
Open Scope N_scope.

(* ------------------------------------------------------------------ literals *)

(** every spelling of a literal -- any text characters, any of the six separators and any Unicode white
    space anywhere inside |..|, digits in either case -- decodes to exactly the bytes it denotes *)
Theorem C05_literal_denotes : forall segs, forallb seg_ok segs = true ->
  decode_strlit (spell segs) = Some (denote segs).
Proof. exact literal_denotes. Qed.

(** adjacent literals (merged by the lexer, C10) contribute their bytes in order *)
Theorem C05_literal_adjacent : forall parts, forallb (forallb seg_ok) parts = true ->
  decode_strlit (concat (map spell parts)) = Some (concat (map denote parts)).
Proof. exact literal_adjacent. Qed.

(** every byte string can be written *)
Theorem C05_literal_any_bytes : forall b : bytes, Forall (fun x => x < 256) b ->
  exists segs, forallb seg_ok segs = true /\ decode_strlit (spell segs) = Some b.
Proof. exact literal_any_bytes. Qed.

Theorem C05_str_token_exact : forall l segs, forallb seg_ok segs = true ->
  val_of_token {| tk_type := TStringLit; tk_loc := l; tk_val := Some (spell segs) |} = Ok (VStr (denote segs)).
Proof. exact str_token_exact. Qed.

(* ------------------------------------------------------------------ coercion and joining *)

(** integers and addresses used as bytes contribute their big-endian encoding, a packet its frame *)
Theorem C05_coerce_be : forall v b, val_in_range v -> conv_buf v = Ok b -> bytes_of_val v b.
Proof. exact coerce_be. Qed.

(** ... and that encoding is unique *)
Theorem C05_be_value_inj : forall a b, length a = length b -> wf_bytes a -> wf_bytes b -> be_value a = be_value b -> a = b.
Proof. exact be_value_inj. Qed.

Theorem C05_std_be64_exact : forall n h, n < 18446744073709551616 ->
  exists b, std_int_fn conv_u64 be64 [VU64 n] [] h = Ok (VStr b, h) /\ is_be_encoding 8 n b.
Proof. exact std_be64_exact. Qed.

(** collected arguments are converted and joined in the order written *)
Theorem C05_join_in_order : forall sep vs bs,
  Forall2 (fun v b => conv_buf v = Ok b) vs bs -> join_extra sep vs = Ok (join sep bs).
Proof. exact join_extra_in_order. Qed.

Theorem C05_join_concat : forall vs bs,
  Forall2 (fun v b => conv_buf v = Ok b) vs bs -> join_extra [] vs = Ok (concat bs).
Proof. exact join_extra_concat. Qed.

(** the separator stands between parts only *)
Theorem C05_join_between : forall sep (l : list bytes), l <> [] ->
  join sep l ++ sep = concat (map (fun b => b ++ sep) l).
Proof. exact join_between. Qed.

Theorem C05_text_concat : forall vs bs h,
  Forall2 (fun v b => conv_buf v = Ok b) vs bs -> text_join_fn [] [] vs h = Ok (VStr (concat bs), h).
Proof. exact text_concat_in_order. Qed.

Theorem C05_text_crlflines : forall vs bs h,
  Forall2 (fun v b => conv_buf v = Ok b) vs bs -> text_join_fn [13; 10] [] vs h = Ok (VStr (join [13; 10] bs), h).
Proof. exact text_crlflines_in_order. Qed.

Theorem C05_text_len : forall vs bs h,
  Forall2 (fun v b => conv_buf v = Ok b) vs bs -> len (concat bs) < 18446744073709551616 ->
  text_len_fn [] vs h = Ok (VU64 (len (concat bs)), h).
Proof. exact text_len_counts. Qed.

(* ------------------------------------------------------------------ builders *)

Theorem C05_payload_roundtrip_udp : forall raw s t b d,
  sock_wf s -> sock_wf t -> 28 + len b < 65536 ->
  udp_push (udp_dst (udp_src (udp_new raw) s) t) b = Ok d ->
  udp_data_of (l3_of raw (pk_body (udp_packet d))) = b.
Proof. exact payload_roundtrip_udp. Qed.

Theorem C05_payload_roundtrip_udp_csum : forall d d', udp_inv d -> udp_csum d = Ok d' ->
  udp_data_of (l3_of (ud_raw d') (pk_body (udp_packet d'))) = ud_payload d.
Proof. exact payload_roundtrip_udp_csum. Qed.

Theorem C05_payload_roundtrip_udp_unicast : forall sa sp da dp raw vs bs h r,
  sa < 4294967296 -> sp < 65536 -> da < 4294967296 -> dp < 65536 ->
  Forall2 (fun v b => conv_buf v = Ok b) vs bs -> 28 + len (concat bs) < 65536 ->
  udp_unicast_fn [VSock4 sa sp; VSock4 da dp; VBool raw] vs h = Ok r ->
  exists p, r = (VPkt p, h) /\ udp_data_of (l3_of raw (pk_body p)) = concat bs.
Proof. exact payload_roundtrip_udp_unicast. Qed.

Theorem C05_payload_roundtrip_tcp_message : forall (client : bool) f b sa off f' ps,
  (if client then flow_client_message f b sa off else flow_server_message f b sa off) = Ok (f', ps) ->
  exists p rest, ps = p :: rest /\ tcp_data_of (l3_of (tf_raw f) (pk_body p)) = b
    /\ (if sa then exists q, rest = [q] else rest = []).
Proof. exact payload_roundtrip_tcp_message. Qed.

Theorem C05_payload_roundtrip_tcp_segment : forall (client : bool) f b f' s,
  (if client then flow_client_data_segment f b else flow_server_data_segment f b) = Ok (f', s) ->
  tcp_data_of (l3_of (tf_raw f) (pk_body (seg_packet s))) = b /\ tcp_payload_of (seg_tcpseg s) = b.
Proof. exact payload_roundtrip_tcp_segment. Qed.

Theorem C05_payload_roundtrip_icmp_echo : forall f b f' p,
  icmp_echo f b = Ok (f', p) -> icmp_data_of (l3_of (if_raw f) (pk_body p)) = b.
Proof. exact payload_roundtrip_icmp_echo. Qed.

Theorem C05_payload_roundtrip_icmp_echo_reply : forall f b f' p,
  icmp_echo_reply f b = Ok (f', p) -> icmp_data_of (l3_of (if_raw f) (pk_body p)) = b.
Proof. exact payload_roundtrip_icmp_echo_reply. Qed.

Theorem C05_payload_roundtrip_datagram : forall s d i ev dfb mfb t fo pr vs bs h r,
  Forall2 (fun v b => conv_buf v = Ok b) vs bs ->
  ipv4_datagram_fn [VIp4 s; VIp4 d; VU16 i; VBool ev; VBool dfb; VBool mfb; VU8 t; VU16 fo; VU8 pr] vs h = Ok r ->
  exists p, r = (VPkt p, h) /\ ip_data_of (l3_of false (pk_body p)) = concat bs.
Proof. exact payload_roundtrip_datagram. Qed.

Theorem C05_payload_roundtrip_fragment : forall f off l raw p,
  ctx_ok (fr_hdr f) -> off < 8192 -> off * 8 <= len (fr_payload f) -> 20 + len (fr_payload f) < 65536 ->
  frag_fragment f off l raw = Ok p ->
  ip_data_of (l3_of raw (pk_body p))
  = takeN (N.min (off * 8 + l * 8) (len (fr_payload f)) - off * 8) (dropN (off * 8) (fr_payload f)).
Proof. exact payload_roundtrip_fragment. Qed.

Theorem C05_payload_roundtrip_frag_datagram : forall f raw p,
  ctx_ok (fr_hdr f) -> 20 + len (fr_payload f) < 65536 -> frag_datagram f raw = Ok p ->
  ip_data_of (l3_of raw (pk_body p)) = fr_payload f.
Proof. exact payload_roundtrip_frag_datagram. Qed.

Theorem C05_payload_roundtrip_frag_ctx : forall s d i ev dfb t pr vs bs h r,
  Forall2 (fun v b => conv_buf v = Ok b) vs bs ->
  ipv4_frag_fn [VIp4 s; VIp4 d; VU16 i; VBool ev; VBool dfb; VU8 t; VU8 pr] vs h = Ok r ->
  exists hdr, r = (VObj (length h), h ++ [OFrag {| fr_hdr := hdr; fr_payload := concat bs |}]).
Proof. exact payload_roundtrip_frag_ctx. Qed.

Theorem C05_payload_roundtrip_eth_frame : forall s d et vs bs h r,
  len s = 6 -> len d = 6 -> Forall2 (fun v b => conv_buf v = Ok b) vs bs ->
  eth_frame_fn [VStr s; VStr d; VU16 et] vs h = Ok r ->
  exists p, r = (VPkt p, h) /\ eth_data_of (pk_body p) = concat bs.
Proof. exact payload_roundtrip_eth_frame. Qed.

Theorem C05_payload_roundtrip_tls_record : forall ver content vs bs h r,
  Forall2 (fun v b => conv_buf v = Ok b) vs bs ->
  tls_message_fn [VU16 ver; VU8 content] vs h = Ok r ->
  exists rec, r = (VStr rec, h) /\ skipn 5 rec = concat bs.
Proof. exact payload_roundtrip_tls_record. Qed.

(* ------------------------------------------------------------------ buffered reads *)

(** for every history of read(n)/read_all on a buffer object: every call succeeds and the results are
    the consecutive slices the specification prescribes; only the cursor of that object moves *)
Theorem C05_bufio_partition : forall ops addr h buf pos,
  nth_error h addr = Some (OBufIo buf pos) -> pos <= len buf ->
  exists rs h',
    run_reads addr ops h = Some (Ok (map VStr rs, h'))
    /\ consecutive_slices buf pos ops rs
    /\ nth_error h' addr = Some (OBufIo buf (pos + len (concat rs)))
    /\ (forall a, a <> addr -> nth_error h' a = nth_error h a).
Proof. exact bufio_partition. Qed.

(** what the specification implies: in order, without gap or overlap, a prefix -- and the whole buffer
    once read_all has been called *)
Theorem C05_consecutive_concat : forall buf ops pos rs, pos <= len buf -> consecutive_slices buf pos ops rs ->
  pos + len (concat rs) <= len buf /\ concat rs = takeN (len (concat rs)) (dropN pos buf).
Proof. exact consecutive_concat. Qed.

Theorem C05_consecutive_read_all : forall buf ops pos rs, pos <= len buf -> consecutive_slices buf pos ops rs ->
  In BReadAll ops -> concat rs = dropN pos buf.
Proof. exact consecutive_read_all. Qed.

Theorem C05_bufio_from_start : forall ops vs bs h,
  Forall2 (fun v b => conv_buf v = Ok b) vs bs ->
  exists rs h', run_reads (length h) ops (h ++ [OBufIo (concat bs) 0]) = Some (Ok (map VStr rs, h'))
    /\ consecutive_slices (concat bs) 0 ops rs
    /\ concat rs = takeN (len (concat rs)) (concat bs)
    /\ (In BReadAll ops -> concat rs = concat bs).
Proof. exact bufio_from_start. Qed.

(* ------------------------------------------------------------------ non-vacuity *)

(** the literal  ab|4A:4b 4C|(e-acute)|''|  with NBSP and U+2003 as fillers; an odd section; a history of reads *)
Example C05_nonvacuous :
  let segs := [Text [97; 98];
               Hex [{| hb_pre := []; hb_hi_upper := false; hb_mid := []; hb_lo_upper := true; hb_val := 74 |};
                    {| hb_pre := [58]; hb_hi_upper := false; hb_mid := [160]; hb_lo_upper := false; hb_val := 75 |};
                    {| hb_pre := [32; 8195]; hb_hi_upper := false; hb_mid := []; hb_lo_upper := true; hb_val := 76 |}] [];
               Text [233]; Hex [] [39; 39]] in
  forallb seg_ok segs = true
  /\ spell segs = [97; 98; 124; 52; 65; 58; 52; 194; 160; 98; 32; 226; 128; 131; 52; 67; 124; 195; 169; 124; 39; 39; 124]
  /\ decode_strlit (spell segs) = Some [97; 98; 74; 75; 76; 195; 169]
  /\ decode_strlit [124; 52; 124] = None
  /\ slices_of [1; 2; 3; 4; 5; 6; 7] 0 [BRead 3; BRead 0; BRead 2; BReadAll; BRead 9] = [[1; 2; 3]; []; [4; 5]; [6; 7]; []]
  /\ conv_buf (VU16 258) = Ok [1; 2] /\ conv_buf (VIp4 16909060) = Ok [1; 2; 3; 4].
Proof. cbn zeta. repeat split; vm_compute; reflexivity. Qed.
