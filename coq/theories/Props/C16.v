(** C16 -- the DNS, NetBIOS and DHCP builders emit what an independent decoder reads back
    (Spec/DnsParse.v: RFC 1035 messages and names; Spec/NbDecode.v: RFC 1001 first-level encoding;
    Spec/DhcpParse.v: RFC 2131 header layout).

    [call e key a x h] is the library call as the interpreter dispatches it (declared arguments [a] in
    declaration order, collected arguments [x]).  [label_ok l]: 1 <= |l| <= 63; [dot_free l]: no byte 46;
    [mk_name ls p]: the labels [ls], finished by the zero octet (p = None) or by a pointer to offset o
    (p = Some o); [dns_labels ls] is the length-prefixed label sequence without terminator;
    [mk_flags qr opcode aa tc rd ra z ad cd rcode] the ten fields of the flag word. *)
From RS Require Import Base.Bytes Base.Outcome Pkt.Hdrs Pkt.Packet Ez.Udp Interp.Val Lib.LibBase Lib.ProtoLib Lib.StdLib
  Spec.LenPrefix Spec.DnsParse Spec.NbDecode Spec.DhcpParse
  Proofs.C15.StdHelpers Proofs.C16.Names Proofs.C16.Flags Proofs.C16.Host Proofs.C16.NbDhcp.
Open Scope N_scope.

(* ---- names ---- *)
Theorem C16_name_roundtrip : forall ls rest, Forall label_ok ls ->
  parse_name (dns_labels ls ++ [0] ++ rest) = Some (mk_name ls None, rest).
Proof. exact name_roundtrip. Qed.

(** the dotted spelling: DnsName::from splits at dots (used by dns::name with one argument and dns::host) *)
Theorem C16_name_from_dotted : forall ls, ls <> [] -> Forall dot_free ls ->
  dns_name_from (join [46] ls) = dns_labels ls ++ [0].
Proof. exact name_from_dotted. Qed.

Theorem C16_pointer_offset : forall off rest, off < 16384 ->
  parse_name (dns_pointer off ++ rest) = Some (mk_name [] (Some off), rest).
Proof. exact pointer_offset. Qed.

(** dns::name in its three arities and in incomplete mode followed by dns::pointer *)
Theorem C16_dns_name_fn : forall e ls rest h, Forall label_ok ls ->
  (exists out, call e "dns::name" [VBool true] [] h = Some (Ok (VStr out, h))
               /\ parse_name (out ++ rest) = Some (mk_name [] None, rest))
  /\ (ls <> [] -> Forall dot_free ls ->
      exists out, call e "dns::name" [VBool true] [VStr (join [46] ls)] h = Some (Ok (VStr out, h))
                  /\ parse_name (out ++ rest) = Some (mk_name ls None, rest))
  /\ ((2 <= length ls)%nat ->
      exists out, call e "dns::name" [VBool true] (map VStr ls) h = Some (Ok (VStr out, h))
                  /\ parse_name (out ++ rest) = Some (mk_name ls None, rest))
  /\ (forall off, off < 16384 ->
      exists out ptr, call e "dns::name" [VBool false] (map VStr ls) h = Some (Ok (VStr out, h))
                  /\ call e "dns::pointer" [VU16 off] [] h = Some (Ok (VStr ptr, h))
                  /\ parse_name (out ++ ptr ++ rest) = Some (mk_name ls (Some off), rest)).
Proof. exact dns_name_fn_roundtrip. Qed.

(* ---- flags and header ---- *)
(** all 2^8 flag combinations, every opcode and rcode value (reduced to their four bits) *)
Theorem C16_flags_bits : forall r oc aa tc rd ra z ad cd rc,
  decode_flags (dns_flags_word r oc aa tc rd ra z ad cd rc)
  = mk_flags r (oc mod 16) aa tc rd ra z ad cd (rc mod 16)
  /\ dns_flags_word r oc aa tc rd ra z ad cd rc < 65536.
Proof. exact flags_bits. Qed.

Theorem C16_flags_fn : forall e key opcode oc r aa tc rd ra z ad cd rcode rc h,
  key = "dns::flags"%string \/ key = "netbios::ns::flags"%string ->
  conv_u8 opcode = Ok oc -> conv_u8 rcode = Ok rc ->
  exists w, call e key [opcode; VBool r; VBool aa; VBool tc; VBool rd; VBool ra; VBool z; VBool ad; VBool cd; rcode] [] h
            = Some (Ok (VU16 w, h))
            /\ w < 65536
            /\ decode_flags w = mk_flags r (oc mod 16) aa tc rd ra z ad cd (rc mod 16).
Proof. exact flags_fn_bits. Qed.

Theorem C16_dns_hdr : forall e vid id vfl w vqd qd van an vns ns var ar rest h,
  conv_u16 vid = Ok id -> conv_u16 vfl = Ok w -> conv_u16 vqd = Ok qd -> conv_u16 van = Ok an ->
  conv_u16 vns = Ok ns -> conv_u16 var = Ok ar ->
  exists out, call e "dns::hdr" [vid; vfl; vqd; van; vns; var] [] h = Some (Ok (VStr out, h))
              /\ parse_dns_header (out ++ rest)
                 = Some ({| dn_id := id; dn_flags := decode_flags w; dn_qdcount := qd; dn_ancount := an;
                            dn_nscount := ns; dn_arcount := ar |}, rest).
Proof. exact dns_hdr_roundtrip. Qed.

Theorem C16_question : forall e ls qtype t qclass c rest h,
  Forall label_ok ls -> conv_u16 qtype = Ok t -> conv_u16 qclass = Ok c ->
  exists out, call e "dns::question" [VStr (dns_labels ls ++ [0]); qtype; qclass] [] h = Some (Ok (VStr out, h))
              /\ parse_question (out ++ rest) = Some ({| q_name := mk_name ls None; q_type := t; q_class := c |}, rest).
Proof. exact question_roundtrip. Qed.

(* ---- dns::host ---- *)
(** [host_query_msg ls]: id 0x1234, QR clear, RD set, one question (ls, A, IN), no records;
    [host_response_msg ls ttl ips]: id 0x1234, QR and RA set, the same question, ANCOUNT = |ips|, one answer
    (ls, A, IN, ttl, 4 bytes of address) per address, in order.  [dgram_addr d] = ((source address, source
    port), (destination address, destination port)) of the datagram. *)
Theorem C16_host_messages : forall ls ttl ips rest,
  ls <> [] -> Forall label_ok ls -> Forall dot_free ls -> ttl < 4294967296 -> len ips < 65536 ->
  let name := dns_name_from (join [46] ls) in
  parse_dns_message (dns_host_query name ++ rest) = Some (host_query_msg ls, rest)
  /\ parse_dns_message (dns_host_response name ttl (len ips) ips ++ rest) = Some (host_response_msg ls ttl ips, rest).
Proof. exact host_messages. Qed.

Theorem C16_host_decodes : forall e cl ls vttl ttl ns raw ips h v h',
  ls <> [] -> Forall label_ok ls -> Forall dot_free ls -> conv_u32 vttl = Ok ttl -> len ips < 65536 ->
  call e "dns::host" [VIp4 cl; VStr (join [46] ls); vttl; VIp4 ns; VBool raw] (map VIp4 ips) h = Some (Ok (v, h')) ->
  exists q r, v = VPktGen [udp_packet q; udp_packet r] /\ h' = h
    /\ dgram_addr q = ((cl, 32768), (ns, 53)) /\ dgram_addr r = ((ns, 53), (cl, 32768))
    /\ ud_raw q = raw /\ ud_raw r = raw
    /\ parse_dns_message (ud_payload q) = Some (host_query_msg ls, [])
    /\ parse_dns_message (ud_payload r) = Some (host_response_msg ls ttl ips, []).
Proof. exact host_decodes. Qed.

(* ---- NetBIOS ---- *)
(** [nb_padded name] = name followed by spaces up to 15 bytes *)
Theorem C16_nb_roundtrip : forall e suffix s parts rest h,
  conv_u8 suffix = Ok s -> len (concat parts) <= 15 -> wf_bytes (concat parts) ->
  exists out, call e "netbios::name::encode" [suffix] (map VStr parts) h = Some (Ok (VStr out, h))
              /\ len out = 32
              /\ nb_decode (out ++ rest) = Some ((nb_padded (concat parts), s), rest).
Proof. exact nb_roundtrip. Qed.

Theorem C16_nb_refused : forall e suffix s parts h,
  conv_u8 suffix = Ok s -> 16 <= len (concat parts) ->
  call e "netbios::name::encode" [suffix] (map VStr parts) h = Some (Err ERuntime).
Proof. exact nb_refused. Qed.

(* ---- DHCP header ---- *)
(** [optv o]: an optional Str argument (absent = the declared default); [fixed_width w v] = the first w
    bytes of v followed by zeros: over-long values are truncated, short ones zero padded.  The parser reads
    every field at its RFC 2131 offset, the magic cookie at 236..240, and 240 bytes in all. *)
Theorem C16_dhcp_layout : forall e vop op vht ht vhl hl vhp hp vxid xid ci yi si gi ch sn fl vmg mg rest h,
  conv_u8 vop = Ok op -> conv_u8 vht = Ok ht -> conv_u8 vhl = Ok hl -> conv_u8 vhp = Ok hp ->
  conv_u32 vxid = Ok xid -> conv_u32 vmg = Ok mg ->
  ci < 4294967296 -> yi < 4294967296 -> si < 4294967296 -> gi < 4294967296 ->
  exists out,
    call e "dhcp::hdr" [vop; vht; vhl; vhp; vxid; VIp4 ci; VIp4 yi; VIp4 si; VIp4 gi; optv ch; optv sn; optv fl; vmg] [] h
      = Some (Ok (VStr out, h))
    /\ len out = 240
    /\ parse_dhcp_header (out ++ rest)
       = Some ({| dh_op := op; dh_htype := ht; dh_hlen := hl; dh_hops := hp; dh_xid := xid; dh_secs := 0; dh_flags := 0;
                  dh_ciaddr := ci; dh_yiaddr := yi; dh_siaddr := si; dh_giaddr := gi;
                  dh_chaddr := fixed_width 16 (optb ch); dh_sname := fixed_width 64 (optb sn);
                  dh_file := fixed_width 128 (optb fl); dh_magic := mg |}, rest).
Proof. exact dhcp_layout. Qed.

(** dns::host for "a.bc" with two addresses succeeds (so C16_host_decodes is not vacuous) and its payloads
    decode; an 8-byte NetBIOS name and a 20-byte chaddr exercise padding and truncation *)
Example C16_nonvacuous :
  let e := {| env_files := [] |} in
  let ls := [[97]; [98; 99]] in
  ls <> [] /\ Forall label_ok ls /\ Forall dot_free ls
  /\ (exists v, call e "dns::host" [VIp4 16909060; VStr (join [46] ls); VU32 229; VIp4 16843009; VBool false]
                  (map VIp4 [167772161; 167772162]) [] = Some (Ok (v, [])))
  /\ parse_dns_message (dns_host_response (dns_name_from (join [46] ls)) 229 2 [167772161; 167772162])
     = Some (host_response_msg ls 229 [167772161; 167772162], [])
  /\ (exists out, call e "netbios::name::encode" [VU8 32] [VStr [87; 79; 82; 75]] [] = Some (Ok (VStr out, []))
                  /\ nb_decode out = Some ((nb_padded [87; 79; 82; 75], 32), []))
  /\ (exists out hd, call e "dhcp::hdr" [VU8 1; VU8 1; VU8 6; VU8 0; VU32 7; VIp4 0; VIp4 0; VIp4 0; VIp4 0;
                                         VStr (map N.of_nat (seq 1 20)); VNil; VNil; VU32 1669485411] [] []
                     = Some (Ok (VStr out, []))
                  /\ parse_dhcp_header out = Some (hd, [])
                  /\ dh_chaddr hd = map N.of_nat (seq 1 16) /\ dh_magic hd = 1669485411 /\ dh_sname hd = repeat 0 64).
Proof.
  cbn zeta. split; [discriminate|]. split.
  { repeat constructor; cbn; lia. }
  split.
  { repeat constructor; cbn; lia. }
  split; [eexists; vm_compute; reflexivity|]. split; [vm_compute; reflexivity|].
  split; [eexists; split; vm_compute; reflexivity|].
  eexists. eexists. split; [vm_compute; reflexivity|]. split; [vm_compute; reflexivity|].
  split; [vm_compute; reflexivity|]. split; vm_compute; reflexivity.
Qed.
