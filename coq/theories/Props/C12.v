(** C12 -- Record timestamps never go backwards and time jumps are exact.
    This file holds only the pinned statements; proofs live in Proofs/C12. *)
From RS Require Import Base.Bytes Base.Outcome Pkt.Packet Pkt.Pcap Interp.Val Interp.Eval Lib.MiscLib
  Spec.Timeline Proofs.C12.TimelineProofs Proofs.C12.Jump.
From Coq Require Import Sorted.
Open Scope N_scope.

(** timestamps never decrease from one record to the next, for every run and starting clock *)
Theorem C12_ts_monotone : forall now vs,
  StronglySorted (fun a b => fst a <= fst b) (timeline now vs).
Proof. exact timeline_sorted. Qed.

(** the nanosecond field is always below one second *)
Theorem C12_nsec_lt_1e9 : forall t, ts_to_nsecs t < 1000000000.
Proof. exact nsec_always_lt_1e9. Qed.

(** below the pcap limit of 2^32 s the (sec, nsec) fields carry the time exactly ... *)
Theorem C12_sec_nsec_exact : forall t,
  t < TS_LIMIT -> ts_to_secs t * 1000000000 + ts_to_nsecs t = t /\ ts_to_nsecs t < 1000000000.
Proof. exact sec_nsec_exact. Qed.

(** ... and their lexicographic order is the order of times *)
Theorem C12_sec_nsec_monotone : forall t1 t2,
  t1 <= t2 -> t2 < TS_LIMIT ->
  ts_to_secs t1 < ts_to_secs t2 \/ (ts_to_secs t1 = ts_to_secs t2 /\ ts_to_nsecs t1 <= ts_to_nsecs t2).
Proof. exact sec_nsec_monotone. Qed.

(** strictly increasing from one packet-emitting statement to the next *)
Theorem C12_strict_between_statements : forall now a w r1 r2,
  In r1 (timeline now a) ->
  In r2 (map (fun f => (final_time now a + gap w, f)) (frames w)) ->
  fst r1 < fst r2.
Proof. exact strict_between_statements. Qed.

(** the gap a statement adds depends only on what it emits, not on what came before *)
Theorem C12_gap_local : forall now1 now2 v,
  final_time now1 [v] - now1 = final_time now2 [v] - now2.
Proof. intros. cbn [final_time]. apply gap_local. Qed.

(** a jump of d ns shifts every later record by exactly d and no earlier record at all *)
Theorem C12_jump_shift : forall now a b d,
  timeline now (a ++ [VTimeJump d] ++ b)
  = timeline now a ++ shift_recs d (timeline (final_time now a) b).
Proof. exact jump_shift. Qed.

(** the four units *)
Theorem C12_jump_units : forall n h,
  (n < two32 -> time_jump_fn 1000000000 true [VU64 n] [] h = Ok (VTimeJump (n * 1000000000), h))
  /\ (n * 1000000 < two64 -> time_jump_fn 1000000 false [VU64 n] [] h = Ok (VTimeJump (n * 1000000), h))
  /\ (n * 1000 < two64 -> time_jump_fn 1000 false [VU64 n] [] h = Ok (VTimeJump (n * 1000), h))
  /\ (n * 1 < two64 -> time_jump_fn 1 false [VU64 n] [] h = Ok (VTimeJump (n * 1), h)).
Proof.
  intros n h. repeat split; intros H; [apply jump_seconds_exact | apply jump_u64_exact ..]; exact H.
Qed.

(** the interpreter's clock and output are exactly the timeline of the values its
    expression statements produced *)
Theorem C12_interpreter_refines : forall vs p p',
  emit_all p vs = ROk tt p' ->
  p_now p' = final_time (p_now p) vs
  /\ p_out p' = rev (map rec_bytes (timeline (p_now p) vs)) ++ p_out p.
Proof. exact emit_all_refines. Qed.

(** non-vacuity: a concrete run with two packets, a jump across a second boundary, and a sequence *)
Example C12_nonvacuous :
  let k1 := pkt_of_body (repeat 7 60) in
  let k2 := pkt_of_body (repeat 9 1500) in
  let vs := [VPkt k1; VTimeJump 999999999; VPktGen [k2; k1]; VNil; VPkt k2] in
  exists p', emit_all prog_init vs = ROk tt p'
    /\ map fst (timeline 0 vs) = [672; 1000013535; 1000013535; 1000025727]
    /\ final_time 0 vs < TS_LIMIT.
Proof. eexists. split; [vm_compute; reflexivity|]. split; vm_compute; reflexivity. Qed.
