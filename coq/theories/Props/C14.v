(** C14 -- Language semantics: single assignment, explicit imports, ordered evaluation.
    This file holds only the pinned statements; proofs live in Proofs/C14.  The theorems of the
    section hold for every library (function, class and module tables, library bodies); the
    [C14_run_*] theorems are about whole runs against the real tables (Interp.Run). *)
From RS Require Import Base.Bytes Base.Outcome Bind.Types Pkt.Packet Pkt.Pcap Interp.Val Interp.Ast
  Interp.Eval Lib.LibBase Lib.StdLib Interp.Run Spec.Timeline
  Proofs.C14.Basics Proofs.C14.Env Proofs.C14.Order Proofs.C14.Emit Proofs.C14.Sim Proofs.C14.Unused
  Proofs.C14.Inline Proofs.C14.Reimport Proofs.C14.RunLevel.
From RSGen Require Import Catalogue.
From RS Require Lex.Tokens.
Open Scope N_scope.
Open Scope list_scope.

Section AnyLibrary.
Variable functions : list funcdef.
Variable classes : list (string * list (string * string)).
Variable modules : list (string * list (string * symbol)).
Variable exec : string -> option nat -> list val -> list val -> heap -> option libres.

Notation eval := (eval functions classes modules exec).
Notation call := (call functions exec).
Notation add_stmt := (add_stmt functions classes modules exec).
Notation add_stmts := (add_stmts functions classes modules exec).
Notation eval_args_spec := (eval_args_spec functions classes modules exec).
Notation args_run := (args_run functions classes modules exec).

(* ------------------------------------------------------------------ (a) single assignment *)

(** a [let] of a name that is already bound is rejected with MultipleAssign; the state is untouched
    except for the current location: the right-hand side is not evaluated, nothing is emitted *)
Theorem C14_rebind_rejected : forall p l x rv v,
  assoc x (p_regs p) = Some v ->
  add_stmt p (SAssign l x rv) = RErr (EMultipleAssign x) (set_loc p l).
Proof. exact (rebind_rejected functions classes modules exec). Qed.

(** a successful [let]: the name was fresh, and the register file gains exactly that binding *)
Theorem C14_assign_ok : forall p l x rv p',
  add_stmt p (SAssign l x rv) = ROk tt p' ->
  assoc x (p_regs p) = None
  /\ exists v p1, eval (set_loc p l) rv = ROk v p1 /\ p' = bind_reg p1 x v /\ p_regs p' = (x, v) :: p_regs p.
Proof. exact (assign_ok_inv functions classes modules exec). Qed.

(** a [let] that fails binds nothing *)
Theorem C14_assign_fail_binds_nothing : forall p l x rv,
  res_is_ok (add_stmt p (SAssign l x rv)) = false ->
  p_regs (res_prog (add_stmt p (SAssign l x rv))) = p_regs p.
Proof. exact (assign_fail_binds_nothing functions classes modules exec). Qed.

(** over histories: no name is ever bound twice, whatever the program and however it ends *)
Theorem C14_regs_nodup : forall ss, NoDup (map fst (p_regs (res_prog (add_stmts prog_init ss)))).
Proof. exact (reachable_regs_nodup functions classes modules exec). Qed.

(** over histories: a binding, once made, is never changed or removed by later statements *)
Theorem C14_binding_permanent : forall ss p x v,
  NoDup (map fst (p_regs p)) ->
  assoc x (p_regs p) = Some v -> assoc x (p_regs (res_prog (add_stmts p ss))) = Some v.
Proof. exact (binding_permanent functions classes modules exec). Qed.

(* ------------------------------------------------------------------ (b) use only after definition *)

Theorem C14_unbound_is_name_error : forall p l x more,
  assoc x (p_regs p) = None ->
  eval p (ERef l [] (x :: more)) = RErr EName (set_loc p l)
  /\ forall args, eval p (ECall l [] (x :: more) args) = RErr EName (set_loc p l).
Proof.
  intros p l x more H. split; [|intros args].
  - exact (unbound_ref_is_name_error functions classes modules exec p l x more H).
  - exact (unbound_call_is_name_error functions classes modules exec p l x more args H).
Qed.

Theorem C14_unimported_is_name_error : forall p l m ms cs,
  assoc m (p_imports p) = None ->
  eval p (ERef l (m :: ms) cs) = RErr EName (set_loc p l)
  /\ forall args, eval p (ECall l (m :: ms) cs args) = RErr EName (set_loc p l).
Proof.
  intros p l m ms cs H. split; [|intros args].
  - exact (unimported_ref_is_name_error functions classes modules exec p l m ms cs H).
  - exact (unimported_call_is_name_error functions classes modules exec p l m ms cs args H).
Qed.

Theorem C14_import_unknown : forall p l m syms,
  assoc m (p_imports p) = None -> assoc EmptyString modules = Some syms -> assoc m syms = None ->
  add_stmt p (SImport l m) = RErr (EImport m) (set_loc p l).
Proof. exact (import_unknown functions classes modules exec). Qed.

Theorem C14_import_again : forall p l m path,
  assoc m (p_imports p) = Some path -> add_stmt p (SImport l m) = ROk tt (set_loc p l).
Proof. exact (import_again functions classes modules exec). Qed.

(** names and modules come into scope only through an executed [let] / [import] *)
Theorem C14_bound_only_by_let : forall ss p x,
  In x (map fst (p_regs (res_prog (add_stmts p ss)))) ->
  In x (map fst (p_regs p)) \/ exists l rv, In (SAssign l x rv) ss.
Proof. exact (bound_only_by_let functions classes modules exec). Qed.

Theorem C14_visible_only_by_import : forall ss p m,
  In m (map fst (p_imports (res_prog (add_stmts p ss)))) ->
  In m (map fst (p_imports p)) \/ exists l, In (SImport l m) ss.
Proof. exact (visible_only_by_import functions classes modules exec). Qed.

(** whole programs: a use placed before any [let] of the name (before any [import] of the module) is a
    name error at that statement, whatever follows *)
Theorem C14_use_before_let : forall pre post l x more p1,
  (forall l' rv, ~ In (SAssign l' x rv) pre) ->
  add_stmts prog_init pre = ROk tt p1 ->
  add_stmts prog_init (pre ++ SExpr (ERef l [] (x :: more)) :: post) = RErr EName (set_loc p1 l)
  /\ forall args, add_stmts prog_init (pre ++ SExpr (ECall l [] (x :: more) args) :: post) = RErr EName (set_loc p1 l).
Proof. exact (use_before_let functions classes modules exec). Qed.

Theorem C14_use_before_import : forall pre post l m ms cs p1,
  (forall l', ~ In (SImport l' m) pre) ->
  add_stmts prog_init pre = ROk tt p1 ->
  add_stmts prog_init (pre ++ SExpr (ERef l (m :: ms) cs) :: post) = RErr EName (set_loc p1 l)
  /\ forall args, add_stmts prog_init (pre ++ SExpr (ECall l (m :: ms) cs args) :: post) = RErr EName (set_loc p1 l).
Proof. exact (use_before_import functions classes modules exec). Qed.

(** re-importing is harmless: a second import of [m] anywhere after the first can be deleted; same
    outcome, and the same final state in every field but the current location *)
Theorem C14_double_import_harmless : forall a b c l l' m p,
  rsim eq_but_loc (add_stmts p (a ++ SImport l m :: b ++ SImport l' m :: c))
                  (add_stmts p (a ++ SImport l m :: b ++ c)).
Proof. exact (double_import_harmless functions classes modules exec). Qed.

(* ------------------------------------------------------------------ (c) order *)

(** statements take effect strictly top to bottom; a failure stops everything after it *)
Theorem C14_stmts_in_order : forall p a b,
  add_stmts p (a ++ b) = rbind (add_stmts p a) (fun _ p' => add_stmts p' b).
Proof. exact (stmts_in_order functions classes modules exec). Qed.

(** a call: resolve the callee, evaluate the arguments left to right threading the state
    ([eval_args_spec], a function of its own), then enter the library function once *)
Theorem C14_call_in_order : forall p l ms cs args,
  eval p (ECall l ms cs args)
  = rbind (lift (set_loc p l) (resolve classes modules (set_loc p l) ms cs)) (fun kt p1 =>
    rbind (eval_args_spec p1 args) (fun vs p2 => call p2 (fst kt) (snd kt) vs)).
Proof. exact (eval_call_in_order functions classes modules exec). Qed.

Theorem C14_args_left_to_right : forall args p vs p',
  eval_args_spec p args = ROk vs p' <-> exists ts, args_run p args vs ts p'.
Proof. exact (eval_args_spec_run functions classes modules exec). Qed.

(** exactly once: the library calls made by a successful call are those of its arguments, in argument
    order, followed by the called function itself *)
Theorem C14_call_exactly_once : forall p l ms cs args v p',
  eval p (ECall l ms cs args) = ROk v p' ->
  exists key this vs ts p1,
    resolve classes modules (set_loc p l) ms cs = Ok (key, this)
    /\ args_run (set_loc p l) args vs ts p1
    /\ call p1 key this vs = ROk v p'
    /\ calls_made p p' (concat ts ++ [key]).
Proof. exact (call_ok_inv functions classes modules exec). Qed.

(** whatever its outcome, one call enters the library function at most once *)
Theorem C14_call_at_most_once : forall p key this vs,
  p_trace (res_prog (call p key this vs)) = p_trace p
  \/ p_trace (res_prog (call p key this vs)) = key :: p_trace p.
Proof. exact (call_trace functions exec). Qed.

(** a failing argument: nothing to its right is evaluated and the function is not called *)
Theorem C14_arg_failure_stops : forall p l ms cs key this pre n a post vs ts p1 e p2 ta,
  resolve classes modules (set_loc p l) ms cs = Ok (key, this) ->
  args_run (set_loc p l) pre vs ts p1 -> eval p1 a = RErr e p2 -> calls_made p1 p2 ta ->
  eval p (ECall l ms cs (pre ++ (n, a) :: post)) = RErr e p2
  /\ calls_made p p2 (concat ts ++ ta).
Proof. exact (arg_failure_stops_call functions classes modules exec). Qed.

(** evaluation never touches clock, registers, imports, output or warnings; the trace only grows *)
Theorem C14_eval_frame : forall e p, frame p (res_prog (eval p e)).
Proof. exact (eval_frame functions classes modules exec). Qed.

(* ------------------------------------------------------------------ (d) deferred emission *)

(** the statement [x;] is: emit the stored value -- nothing is evaluated *)
Theorem C14_stored_ref_emits : forall p l x v,
  assoc x (p_regs p) = Some v ->
  add_stmt p (SExpr (ERef l [] [x])) = emit_val (set_loc p l) v.
Proof. exact (stored_ref_emits functions classes modules exec). Qed.

(** any list of such statements, in any order and multiplicity: no library call, heap and registers
    untouched, however the run ends *)
Theorem C14_stored_refs_no_recompute : forall lxs p,
  Forall (fun lx => assoc (snd lx) (p_regs p) <> None) lxs ->
  let q := res_prog (add_stmts p (map ref_stmt lxs)) in
  p_trace q = p_trace p /\ p_heap q = p_heap p /\ p_regs q = p_regs p /\ p_imports q = p_imports p.
Proof. exact (stored_refs_no_recompute functions classes modules exec). Qed.

(** ... and the output is the concatenation of the stored values' records, timestamps advancing by each
    value's own gap: the timeline (Spec.Timeline) of the stored values in statement order *)
Theorem C14_stored_refs_output : forall lxs vs p p',
  Forall2 (fun lx v => assoc (snd lx) (p_regs p) = Some v) lxs vs ->
  add_stmts p (map ref_stmt lxs) = ROk tt p' ->
  p_now p' = final_time (p_now p) vs
  /\ p_out p' = rev (map rec_bytes (timeline (p_now p) vs)) ++ p_out p.
Proof. exact (stored_refs_output functions classes modules exec). Qed.

(** computed at its [let]: whatever runs in between, [x;] emits the value the [let] computed *)
Theorem C14_let_then_emit : forall p l x e p1 mid p2,
  NoDup (map fst (p_regs p)) ->
  add_stmt p (SAssign l x e) = ROk tt p1 -> add_stmts p1 mid = ROk tt p2 ->
  exists v p0, eval (set_loc p l) e = ROk v p0
    /\ forall l', add_stmt p2 (SExpr (ERef l' [] [x])) = emit_val (set_loc p2 l') v.
Proof. exact (let_then_emit functions classes modules exec). Qed.

(* ------------------------------------------------------------------ (e) inlining *)

(** where [x] holds [v], an expression and its inlined form evaluate identically (value or error,
    and the whole state, location included) *)
Theorem C14_inline_expr : forall x v e p,
  assoc x (p_regs p) = Some v -> eval p (subst_expr x v e) = eval p e.
Proof. exact (subst_expr_same functions classes modules exec). Qed.

(** whole programs: inlining all later uses of [let x = <literal>] gives the identical run *)
Theorem C14_inline_plain_let : forall pre post l0 x l1 v p,
  add_stmts p (pre ++ SAssign l0 x (ELit l1 v) :: map (subst_stmt x v) post)
  = add_stmts p (pre ++ SAssign l0 x (ELit l1 v) :: post).
Proof. exact (inline_plain_let functions classes modules exec). Qed.

(** ... and the [let] can then be dropped when nothing else mentions [x] *)
Theorem C14_inline_and_drop : forall pre post l0 x l1 v p,
  assoc x (p_regs p) = None -> (forall l rv, ~ In (SAssign l x rv) pre) ->
  not_mentioned x (map (subst_stmt x v) post) = true ->
  rsim same_but_regs_loc
    (add_stmts p (pre ++ SAssign l0 x (ELit l1 v) :: post))
    (add_stmts p (pre ++ map (subst_stmt x v) post)).
Proof. exact (inline_and_drop_plain_let functions classes modules exec). Qed.

(* ------------------------------------------------------------------ (f) weakening *)

(** a [let] of a literal to a fresh name nobody mentions afterwards is invisible *)
Theorem C14_unused_let_irrelevant : forall pre post l y l' v p,
  assoc y (p_regs p) = None -> (forall l0 rv, ~ In (SAssign l0 y rv) pre) ->
  not_mentioned y post = true ->
  rsim same_but_regs_loc (add_stmts p (pre ++ SAssign l y (ELit l' v) :: post)) (add_stmts p (pre ++ post)).
Proof. exact (unused_plain_let_irrelevant functions classes modules exec). Qed.

(** the current location never influences a run *)
Theorem C14_loc_irrelevant : forall ss p q,
  eq_but_loc p q -> rsim eq_but_loc (add_stmts p ss) (add_stmts q ss).
Proof. exact (loc_irrelevant functions classes modules exec). Qed.

End AnyLibrary.

(* ------------------------------------------------------------------ whole runs, real library *)

(** re-binding anywhere in a program: the diagnostic is MultipleAssign at the second [let], and the
    file holds what the statements before it wrote *)
Theorem C14_run_rebind : forall files pre l x rv post p1,
  run_prog {| env_files := files |} pre = ROk tt p1 -> In x (map fst (p_regs p1)) ->
  run files (pre ++ SAssign l x rv :: post) = RunErr (EMultipleAssign x) l (pcap_of p1).
Proof. exact run_rebind. Qed.

Theorem C14_run_inline : forall files pre post l0 x l1 v,
  run files (pre ++ SAssign l0 x (ELit l1 v) :: map (subst_stmt x v) post)
  = run files (pre ++ SAssign l0 x (ELit l1 v) :: post).
Proof. exact run_inline. Qed.

Theorem C14_run_inline_drop : forall files pre post l0 x l1 v,
  (forall l rv, ~ In (SAssign l x rv) pre) -> not_mentioned x (map (subst_stmt x v) post) = true ->
  same_run (run files (pre ++ SAssign l0 x (ELit l1 v) :: post)) (run files (pre ++ map (subst_stmt x v) post)).
Proof. exact run_inline_drop. Qed.

Theorem C14_run_unused_let : forall files pre post l y l' v,
  (forall l0 rv, ~ In (SAssign l0 y rv) pre) -> not_mentioned y post = true ->
  same_run (run files (pre ++ SAssign l y (ELit l' v) :: post)) (run files (pre ++ post)).
Proof. exact run_unused_let. Qed.

Theorem C14_run_double_import : forall files a b c l l' m,
  same_run (run files (a ++ SImport l m :: b ++ SImport l' m :: c)) (run files (a ++ SImport l m :: b ++ c)).
Proof. exact run_double_import. Qed.

(** non-vacuity: a concrete program with a shared ICMP flow (sequence numbers 0 and 1 handed out in
    argument order inside one call), a let-bound string used twice, stored packets re-emitted out of
    order; its re-binding, use-before-let and inlined variants *)
Example C14_nonvacuous :
  let ip a := ELit (9, 9) (VIp4 a) in
  let str s := ELit (9, 9) (VStr (Tokens.bytes_of_string s)) in
  let pre := [ SImport (1, 1) "ipv4";
               SAssign (2, 1) "i" (ECall (2, 9) ["ipv4"; "icmp"] ["flow"] [(None, ip 16909060); (None, ip 84281096)]) ]%string in
  let post := [ SAssign (4, 1) "a" (ECall (4, 9) [] ["i"; "echo"] [(None, ERef (4, 16) [] ["s"])]);
                SExpr (ECall (5, 1) ["ipv4"] ["datagram"] [(None, ip 1); (None, ip 2);
                         (None, ECall (5, 20) [] ["i"; "echo"] [(None, ERef (5, 27) [] ["s"])]);
                         (None, ECall (5, 30) [] ["i"; "echo_reply"] [(None, str "b")])]);
                SExpr (ERef (6, 1) [] ["a"]); SExpr (ERef (7, 1) [] ["a"]) ]%string in
  let lets := SAssign (3, 1) "s"%string (str "zz"%string) in
  let v := VStr (Tokens.bytes_of_string "zz") in
  (match run [] (pre ++ lets :: post) with
   | RunOk b [] t => length b = 281%nat
                     /\ t = ["ipv4::icmp::flow"; "ipv4::icmp::Icmp.echo"; "ipv4::icmp::Icmp.echo";
                             "ipv4::icmp::Icmp.echo_reply"; "ipv4::datagram"]%string
   | _ => False end)
  /\ not_mentioned "s" (map (subst_stmt "s" v) post) = true
  /\ run [] (pre ++ map (subst_stmt "s" v) post) = run [] (pre ++ lets :: post)
  /\ (match run [] (pre ++ lets :: post ++ [SAssign (8, 1) "a"%string (str "q"%string)]) with
      | RunErr (EMultipleAssign "a") (8, 1) b => length b = 281%nat | _ => False end)
  /\ (match run [] (pre ++ post) with RunErr EName (4, 16) _ => True | _ => False end).
Proof.
  cbn zeta. split; [vm_compute; split; reflexivity|]. split; [vm_compute; reflexivity|].
  split; [vm_compute; reflexivity|]. split; [vm_compute; reflexivity|]. vm_compute. exact I.
Qed.
