(** C12, second generation -- whole programs instead of value lists.  Only pinned statements; proofs in
    Proofs/C12/ProgramShift.v (any library) and Proofs/C12/JumpCalls.v (the real one, regenerated catalogue). *)
From RS Require Import Base.Bytes Base.Outcome Bind.Types Pkt.Packet Pkt.Pcap Interp.Val Interp.Ast Interp.Eval
  Interp.Run Lib.LibBase Lib.StdLib Spec.Timeline Spec.PcapRead Proofs.C01.PcapLemmas Proofs.C01.Program
  Proofs.C14.Sim Proofs.C12.ProgramShift Proofs.C12.JumpCalls.
From RSGen Require Import Catalogue.
From Coq Require Import Sorted.
Open Scope list_scope.
Open Scope N_scope.

(** evaluation reads variables, imports and objects -- never the clock, the output, the position or the
    warnings: from states that agree on those three it gives the same value, outcome and new state *)
Theorem C12b_eval_ignores_clock : forall functions classes modules exec e p q,
  Q p q -> rsim Q (eval functions classes modules exec p e) (eval functions classes modules exec q e).
Proof. exact eval_Q. Qed.

(** hence a program computes the same values from any starting clock from which it still fits in 64 bits:
    the gap a statement adds depends only on the packets it emits, not on what came before *)
Theorem C12b_values_independent_of_clock : forall functions classes modules exec p ss vs p',
  run_vals functions classes modules exec p ss vs p' ->
  forall q, Q p q -> final_time (p_now q) vs < two64 ->
  exists q', run_vals functions classes modules exec q ss vs q' /\ Q p' q'.
Proof. exact run_vals_any_clock. Qed.

(** a successful run keeps the clock below 2^64 *)
Theorem C12b_clock_fits : forall functions classes modules exec p ss vs p',
  run_vals functions classes modules exec p ss vs p' -> p_now p < two64 -> final_time (p_now p) vs < two64.
Proof. exact run_vals_below. Qed.

(** inserting, at ANY position of ANY program that runs, a statement that evaluates to a jump of d ns:
    the program still runs (as long as the clock fits), computes the same values, every record after the
    insertion point is shifted by exactly d and no earlier record changes *)
Theorem C12b_jump_insertion : forall functions classes modules exec a b e d p vs p',
  run_vals functions classes modules exec p (a ++ b) vs p' ->
  (forall va pa, run_vals functions classes modules exec p a va pa -> jump_at functions classes modules exec pa e d) ->
  final_time (p_now p) vs + d < two64 ->
  exists va vb pa p'',
    vs = va ++ vb /\ run_vals functions classes modules exec p a va pa
    /\ run_vals functions classes modules exec p (a ++ SExpr e :: b) (va ++ VTimeJump d :: vb) p''
    /\ timeline (p_now p) vs = timeline (p_now p) va ++ timeline (final_time (p_now p) va) vb
    /\ timeline (p_now p) (va ++ VTimeJump d :: vb)
       = timeline (p_now p) va ++ shift_recs d (timeline (final_time (p_now p) va) vb)
    /\ p_now p'' = p_now p' + d.
Proof. exact jump_insertion. Qed.

(** and conversely a program that contains such a statement runs without it and computes the same values *)
Theorem C12b_jump_removal : forall functions classes modules exec a b e d p vs' p'',
  run_vals functions classes modules exec p (a ++ SExpr e :: b) vs' p'' ->
  (forall va pa, run_vals functions classes modules exec p a va pa -> jump_at functions classes modules exec pa e d) ->
  exists va vb p', vs' = va ++ VTimeJump d :: vb /\ run_vals functions classes modules exec p (a ++ b) (va ++ vb) p'.
Proof. exact jump_removal. Qed.

(** the library's calls time::jump_seconds/millis/micros/nanos(n) are such statements wherever the time
    module has been imported (function table, module table and binder from the regenerated catalogue) *)
Theorem C12b_jump_calls : forall e p l l' name key u w n,
  In (name, (key, (u, w))) jump_table ->
  assoc "time"%string (p_imports p) = Some "time"%string ->
  (w = true -> n < two32) -> n * u < two64 ->
  jump_at catalogue class_table module_table (exec e) p (jump_call l l' name n) (n * u).
Proof. exact jump_call_at. Qed.

Theorem C12b_jump_table : jump_table =
  [("jump_seconds", ("time::jump_seconds", (1000000000, true))); ("jump_millis", ("time::jump_millis", (1000000, false)));
   ("jump_micros", ("time::jump_micros", (1000, false))); ("jump_nanos", ("time::jump_nanos", (1, false)))]%string.
Proof. reflexivity. Qed.

(** `import time;` anywhere earlier makes them available *)
Theorem C12b_import_time_available : forall e a p va pa,
  run_vals catalogue class_table module_table (exec e) p a va pa -> time_wf p ->
  assoc "time"%string (p_imports p) <> None \/ imports_time a ->
  assoc "time"%string (p_imports pa) = Some "time"%string.
Proof. exact import_time_available. Qed.

(** the property's sentence, for the real compiler: inserting `time::jump_<unit>(n)` at any point after
    `import time` of any program that compiles shifts every later record by exactly n units and no earlier
    record at all (file level: the two pcaps are given explicitly) *)
Theorem C12b_real_jump_insertion : forall e a b l l' name key u w n p',
  run_prog e (a ++ b) = ROk tt p' ->
  imports_time a -> In (name, (key, (u, w))) jump_table -> (w = true -> n < two32) ->
  p_now p' + n * u < two64 ->
  exists va vb p'',
    run_prog e (a ++ SExpr (jump_call l l' name n) :: b) = ROk tt p''
    /\ pcap_of p'  = file_of (timeline 0 va ++ timeline (final_time 0 va) vb)
    /\ pcap_of p'' = file_of (timeline 0 va ++ shift_recs (n * u) (timeline (final_time 0 va) vb))
    /\ p_now p'' = p_now p' + n * u.
Proof. exact real_jump_insertion. Qed.

(** what an independent reader of the output file sees, for every program that compiles below the pcap
    limit: (sec, nsec) never decreases from one record to the next, nsec < 10^9, frames in order *)
Theorem C12b_file_records_sorted : forall functions classes modules exec ss p',
  add_stmts functions classes modules exec prog_init ss = ROk tt p' -> p_now p' < TS_LIMIT ->
  exists vs, run_vals functions classes modules exec prog_init ss vs p'
    /\ (Forall rec_ok (timeline 0 vs) ->
        exists recs, pcap_read (pcap_of p') = Some recs
          /\ StronglySorted rec_le recs
          /\ Forall (fun r => r_nsec r < 1000000000) recs
          /\ map r_frame recs = map snd (timeline 0 vs)).
Proof. exact program_records_sorted. Qed.

(** non-vacuity: a real program (two imports, three frames), a 1500 ms jump inserted after the first frame *)
Definition ex_frame : stmt := SExpr (ECall (2,1) ["eth"%string] ["frame"%string]
  [(None, ELit (2,1) (VStr [1;2;3;4;5;6])); (None, ELit (2,1) (VStr [7;8;9;10;11;12]));
   (None, ELit (2,1) (VU64 2048)); (None, ELit (2,1) (VStr [65;66]))]).
Example C12b_nonvacuous :
  let a := [SImport (1,1) "time"%string; SImport (1,2) "eth"%string; ex_frame] in
  let b := [ex_frame; ex_frame] in
  let env0 := {| env_files := [] |} in
  imports_time a
  /\ (exists p', run_prog env0 (a ++ b) = ROk tt p' /\ p_now p' = 1152 /\ length (p_out p') = 3%nat)
  /\ (exists p'', run_prog env0 (a ++ SExpr (jump_call (3,1) (3,2) "jump_millis" 1500) :: b) = ROk tt p''
        /\ p_now p'' = 1500001152 /\ length (p_out p'') = 3%nat).
Proof.
  cbn zeta. split; [exists (1,1); left; reflexivity|].
  split; eexists; (split; [vm_compute; reflexivity|split; reflexivity]).
Qed.
