(** C04 at the level of whole histories -- pinned statements; proofs in Proofs/C04/{Ops,History,Reassembly}.v,
    specification in Spec/TcpHistory.v (operations [op], the account [spec_plain]/[spec_op]/[spec_ops],
    the scripted streams [layout], the reassembler [reasm]).
    [run_op f o] executes the library's method closure ([lib_op], the closures of Lib/Ipv4Lib.v [tcp_method])
    and reads the emitted segments back from the bytes ([observe]: [frame_l4], [wire_seg]). *)
From RS Require Import Base.Bytes Base.Outcome Ez.Tcp Interp.Val Lib.LibBase Lib.Ipv4Lib
  Spec.Wire Spec.TcpAccount Spec.TcpHistory
  Proofs.C02.TcpIp Proofs.C04.Seq Proofs.C04.Ops Proofs.C04.History Proofs.C04.Total Proofs.C04.Ends Proofs.C04.Reassembly.
Open Scope N_scope.

(** every TcpFlow method the interpreter can call is [lib_op] of the operation its name and arguments denote
    (and any other name is no method) *)
Theorem C04_methods_are_ops : forall name this a x h,
  tcp_method name this a x h = option_map (call_on_heap this h) (op_of_call name a x).
Proof. exact tcp_method_is_lib_op. Qed.

(** the overrides of such an operation are 32-bit values *)
Theorem C04_ops_are_u32 : forall name a x o, op_of_call name a x = Some (Ok o) -> over_u32 o.
Proof. exact op_of_call_u32. Qed.

(** ... and the length a header-only call announces is a 32-bit value *)
Theorem C04_ops_hdr_u32 : forall name a x o, op_of_call name a x = Some (Ok o) -> hdr_u32 o.
Proof. exact op_of_call_hdr_u32. Qed.

(** one call, overridden or not: the segments read back from the wire are the specification's, the counters
    are the account's modulo 2^32 *)
Theorem C04_call_refines : forall f a o f' segs,
  flow_abs f a -> over_u32 o -> run_op f o = Ok (f', segs) ->
  segs = snd (spec_op a o) /\ flow_abs f' (fst (spec_op a o)) /\ tf_raw f' = tf_raw f.
Proof. exact run_op_refines. Qed.

(** every history without overrides, from any initial sequence numbers, of any length and any consumption
    (wrapping past 2^32 any number of times): the emitted segments are exactly the account's, in order *)
Theorem C04_history_refines : forall ops c0 s0 f f' segs,
  c0 < 4294967296 -> s0 < 4294967296 -> tf_cl_seq f = c0 -> tf_sv_seq f = s0 ->
  Forall no_override ops -> run_ops f ops = Ok (f', segs) ->
  segs = snd (plain_ops (acc_init c0 s0) ops) /\ flow_abs f' (fst (plain_ops (acc_init c0 s0) ops)).
Proof. exact history_refines_plain. Qed.

(** every history, overridden calls included *)
Theorem C04_history_refines_overrides : forall ops f a f' segs,
  flow_abs f a -> Forall over_u32 ops -> run_ops f ops = Ok (f', segs) ->
  segs = snd (spec_ops a ops) /\ flow_abs f' (fst (spec_ops a ops)) /\ tf_raw f' = tf_raw f.
Proof. exact run_ops_refines. Qed.

(** no history can fail (no checked addition of the flow overflows): every history runs to the end, emits
    exactly the specification's segments and leaves the specification's counters *)
Theorem C04_history_total : forall ops f a,
  flow_abs f a -> Forall over_u32 ops -> Forall hdr_u32 ops ->
  exists f', run_ops f ops = Ok (f', snd (spec_ops a ops)) /\ flow_abs f' (fst (spec_ops a ops)).
Proof. exact history_total. Qed.

(** what the specification says of an overridden call: its segments carry the overriding values ... *)
Theorem C04_override_segments : forall a o d sq ak,
  op_over o = Some (d, sq, ak) -> over_u32 o ->
  let me := match sq with Some x => x | None => nxt a d end in
  let peer := match ak with Some y => y | None => nxt a (opp d) end in
  snd (spec_op a o) =
  match o with
  | OMessage _ b sa _ _ _ =>
      (d, me, Some peer, 24, b)
      :: (if sa then [(opp d, peer, Some ((me + len b) mod 4294967296), 16, [])] else [])
  | OSegment _ _ b _ _ => [(d, me, Some peer, 24, b)]
  | OAck _ _ _ => [(d, me, Some peer, 16, [])]
  | _ => []
  end.
Proof. exact override_segments. Qed.

(** ... and afterwards an overridden counter is where it was before the call, while one that is not
    overridden has advanced by what the call consumed *)
Theorem C04_override_account : forall a o d sq ak,
  op_over o = Some (d, sq, ak) ->
  let a' := fst (spec_op a o) in
  isn a' d = isn a d /\ isn a' (opp d) = isn a (opp d)
  /\ used a' d = match sq with Some _ => used a d | None => used a d + len (op_data d o) end
  /\ used a' (opp d) = used a (opp d).
Proof. exact override_account. Qed.

(** a call with [seq:] given (whatever [ack:]), a bare ACK, a reset: deleting it from a history removes its own
    segments and changes no other segment and no counter *)
Theorem C04_untraced_call_deletable : forall f a pre o post f1 segs1 f2 segs2,
  flow_abs f a -> Forall over_u32 (pre ++ o :: post) -> leaves_no_trace o ->
  run_ops f (pre ++ o :: post) = Ok (f1, segs1) -> run_ops f (pre ++ post) = Ok (f2, segs2) ->
  let ap := fst (spec_ops a pre) in
  segs1 = snd (spec_ops a pre) ++ snd (spec_op ap o) ++ snd (spec_ops ap post)
  /\ segs2 = snd (spec_ops a pre) ++ snd (spec_ops ap post)
  /\ tf_cl_seq f1 = tf_cl_seq f2 /\ tf_sv_seq f1 = tf_sv_seq f2.
Proof. exact deleting_untraced_call. Qed.

(** the direction [run_op] attributes to a segment is the one its bytes show: every segment of every call
    carries the ports (and, in a frame, the IPv4 addresses) of the side it is attributed to as source and of the
    other side as destination -- one per announced direction, none dropped; the flow's ends never change *)
Theorem C04_direction_on_wire : forall o f f' v,
  flow_wf f -> lib_op f o = Ok (f', v) ->
  val_ends (tf_raw f) v = map (want_ends f o) (op_dirs o) /\ same_socks f f'.
Proof. exact lib_op_ends. Qed.
Theorem C04_history_keeps_ends : forall ops f f' segs,
  run_ops f ops = Ok (f', segs) -> flow_wf f -> same_socks f f'.
Proof. exact run_ops_socks. Qed.

(** reassembly: the connection is opened, then any operations without overrides follow, consuming at most
    2^32 per side; the emitted segments, in any order and any number of times each, give back the scripted
    stream of either side: byte for byte, gaps where the script declared holes *)
Theorem C04_reassembly_any_order : forall d rest c0 s0 f f' segs segs',
  c0 < 4294967296 -> s0 < 4294967296 -> tf_cl_seq f = c0 -> tf_sv_seq f = s0 ->
  Forall no_override rest -> run_ops f (OOpen :: rest) = Ok (f', segs) ->
  1 + total_use d rest <= 4294967296 ->
  (forall x, In x segs' <-> In x segs) ->
  forall k, reasm (isn_of c0 s0 d) d segs' k = nth (N.to_nat k) (layout d rest) None.
Proof. exact reassembly_any_order. Qed.

Theorem C04_reassembled_stream : forall d rest c0 s0 f f' segs segs',
  c0 < 4294967296 -> s0 < 4294967296 -> tf_cl_seq f = c0 -> tf_sv_seq f = s0 ->
  Forall no_override rest -> run_ops f (OOpen :: rest) = Ok (f', segs) ->
  1 + total_use d rest <= 4294967296 ->
  (forall x, In x segs' <-> In x segs) ->
  reasm_stream (isn_of c0 s0 d) d segs' (length (layout d rest)) = layout d rest.
Proof. exact reassembled_stream. Qed.

(** when side d declares no gaps, its stream is the concatenation of its payloads in order *)
Theorem C04_stream_is_concatenation : forall d ops,
  Forall (fun o => op_gap d o = 0) ops -> layout d ops = map Some (concat (map (op_data d) ops)).
Proof. exact layout_no_gaps. Qed.

(** non-vacuity: initial sequence numbers that wrap, data both ways, a hole, a header-only segment, a raw
    segment, a close; the frames are built, serialised, read back and reassembled in reverse order *)
Example C04b_nonvacuous :
  let f := {| tf_cl := (16909060, 1025); tf_sv := (16909061, 80);
              tf_cl_seq := 4294967294; tf_sv_seq := 4294967295; tf_raw := false |} in
  let rest := [OMessage Cl [71; 69; 84] true 0 None None; OHole Sv 5; OMessage Sv [1; 2; 3; 4] true 0 None None;
               OHdr Cl 2; OSegment Cl true [9; 9] None None; OClose Sv] in
  exists f' segs, run_ops f (OOpen :: rest) = Ok (f', segs)
    /\ segs = snd (plain_ops (acc_init 4294967294 4294967295) (OOpen :: rest))
    /\ length segs = 12%nat
    /\ tf_cl_seq f' = 7 /\ tf_sv_seq f' = 10
    /\ reasm_stream 4294967294 Cl (rev segs) 8 = [Some 71; Some 69; Some 84; None; None; Some 9; Some 9; None]
    /\ reasm_stream 4294967295 Sv (rev segs) 10
       = [None; None; None; None; None; Some 1; Some 2; Some 3; Some 4; None].
Proof.
  cbv zeta. eexists. eexists. split; [vm_compute; reflexivity|].
  split; [vm_compute; reflexivity|]. split; [vm_compute; reflexivity|].
  split; [vm_compute; reflexivity|]. split; [vm_compute; reflexivity|].
  split; vm_compute; reflexivity.
Qed.
