(** C03b -- the transport-header theorems of C03 at the level the interpreter executes: the library
    methods, as dispatched by [exec] on a heap of flow objects, and histories of calls.
    Pinned statements only; proofs in Proofs/C03/{LibCalls,LibTcpOps,LibTcp,LibIcmp,LibUdp,LibFrame}.v.
    All theorems are partial-correctness statements ("whenever the call returns a value ..."); that a call
    with arguments accepted by the binder returns a value or a language-level error, never a panic,
    is C08 (Proofs/C08/LibSound.v). *)
From RS Require Import Base.Bytes Base.Outcome Bind.Types Pkt.Csum Pkt.Hdrs Pkt.Packet Ez.Tcp Ez.Udp Ez.Icmp
  Interp.Val Interp.Eval Lib.LibBase Lib.StdLib Spec.Wire
  Proofs.C02.TcpIp Proofs.C02.OtherIp Proofs.C03.Transport
  Proofs.C03.LibCalls Proofs.C03.LibTcpOps Proofs.C03.LibTcp Proofs.C03.LibIcmp Proofs.C03.LibUdp Proofs.C03.LibFrame.
From RSGen Require Import Catalogue.
Open Scope N_scope.

(* ------------------------------------------------------------------ TCP *)
(** EVERY method of the TcpFlow class in the catalogue's class table (a method added later has no
    entry in [tcp_kinds] and breaks the proof), on a heap where the receiver is a well-formed flow, with a
    payload of bytes that fits a segment: packet-returning methods (open, client/server_message with any
    send_ack/frag_off/seq/ack override, client/server_segment, client/server_ack, client/server_close,
    client/server_reset) return only packets satisfying [tcp_pkt_ok] = [tcp_good] (see C03_tcp_good_verifies) and
    [tcp_wire] (the frame decodes to IPv4 between the flow's addresses + a verifying segment);
    client/server_raw_segment return bytes that verify for the flow's addresses; client/server_hdr
    return the bare PSH|ACK header with checksum field 0 (not a segment); client/server_hole return
    nothing.  The flow written back is well formed again, with the same sockets. *)
Theorem C03_tcp_methods_checksummed : forall e ms name key slots extra h a f v h',
  assoc tcp_class class_table = Some ms -> In (name, key) ms ->
  payload_fits 20 extra ->
  nth_error h a = Some (OTcp f) -> flow_twf f ->
  exec e key (Some a) slots extra h = Some (Ok (v, h')) ->
  exists k f', assoc name tcp_kinds = Some k /\ tcp_result_ok k f v
    /\ h' = set_nth h a (OTcp f') /\ flow_twf f' /\ same_socks f' f.
Proof. exact tcp_method_sound. Qed.

(** any sequence of TcpFlow method calls on one object, interleaved with any calls that leave that
    object alone: every call's result is as above (for the state the flow had at that call), the
    object stays a well-formed flow with the same sockets *)
Theorem C03_tcp_history : forall e a cs h f vs h',
  nth_error h a = Some (OTcp f) -> flow_twf f ->
  Forall (fun c => tcp_call_on a c \/ foreign e a c) cs ->
  run_hist e cs h = Some (vs, h') ->
  (exists f', nth_error h' a = Some (OTcp f') /\ flow_twf f' /\ same_socks f' f)
  /\ Forall2 (fun c v => tcp_call_on a c -> tcp_call_ok f c v) cs vs.
Proof. exact tcp_history. Qed.

(** ... hence every segment any history of a flow emits verifies: each packet is a checksummed segment of the
    model ([tcp_good]) AND its frame decodes, independently of the model, to an IPv4 header for protocol 6
    between the flow's two addresses followed by a TCP segment that verifies against exactly those
    addresses ([tcp_wire]); a returned byte string is a raw segment verifying for the flow's addresses
    (client->server or server->client) or the 20-byte header of client_hdr/server_hdr with checksum 0 *)
Theorem C03_tcp_history_verifies : forall e a cs h f vs h',
  nth_error h a = Some (OTcp f) -> flow_twf f ->
  Forall (tcp_call_on a) cs ->
  run_hist e cs h = Some (vs, h') ->
  Forall (fun v =>
    (forall ps, conv_pktgen v = Ok ps -> Forall (fun p => tcp_good p /\ tcp_wire f p) ps)
    /\ (forall b, v = VStr b ->
          tcp_ok (fst (tf_cl f)) (fst (tf_sv f)) b = true \/ tcp_ok (fst (tf_sv f)) (fst (tf_cl f)) b = true
          \/ (length b = 20%nat /\ u16_at b 16 = 0))) vs.
Proof. exact tcp_history_verifies. Qed.

(** the flow object ipv4::tcp::flow creates satisfies the premise, given sockets as a script writes them *)
Theorem C03_tcp_flow_created_wf : forall e slots extra h v h',
  sock_val_wf (nth 0 slots VNil) -> sock_val_wf (nth 1 slots VNil) ->
  exec e "ipv4::tcp::flow" None slots extra h = Some (Ok (v, h')) ->
  exists f, v = VObj (length h) /\ h' = (h ++ [OTcp f])%list /\ flow_twf f.
Proof. exact tcp_flow_created_wf. Qed.

(* ------------------------------------------------------------------ ICMP *)
(** every method of the Icmp class: it is echo or echo_reply, returns one frame whose ICMP message
    verifies, type 8 / 0, code 0, the flow's identifier, the flow's request (reply) counter as sequence
    number; that counter advances by one mod 2^16, the other one and the identifier are unchanged *)
Theorem C03_icmp_methods : forall e ms name key slots extra h a f v h',
  assoc icmp_class class_table = Some ms -> In (name, key) ms ->
  icmp_payload_fits slots ->
  nth_error h a = Some (OIcmp f) -> icmp_fwf f ->
  exec e key (Some a) slots extra h = Some (Ok (v, h')) ->
  exists req p, name = icmp_name req /\ v = VPkt p
    /\ (let '(src, dst, typ, seq) := icmp_side req f in icmp_msg_ok (if_raw f) p src dst typ (if_id f) seq)
    /\ h' = set_nth h a (OIcmp (icmp_next req f)).
Proof. exact icmp_method_sound. Qed.

(** any interleaved history: the n-th request on a flow carries (n-1) mod 2^16 past the flow's starting
    counter, the n-th reply likewise, one identifier throughout, whatever is called on other objects *)
Theorem C03_icmp_history : forall e a cs h f vs h',
  nth_error h a = Some (OIcmp f) -> icmp_fwf f ->
  Forall (icmp_step_ok e a) cs ->
  run_hist e cs h = Some (vs, h') ->
  nth_error h' a = Some (OIcmp (icmp_after f (icmp_count a true cs) (icmp_count a false cs)))
  /\ forall n c v req, nth_error cs n = Some c -> nth_error vs n = Some v -> icmp_is a req c = true ->
       exists p, v = VPkt p /\
         let '(src, dst, typ, seq0) := icmp_side req f in
         icmp_msg_ok (if_raw f) p src dst typ (if_id f) ((seq0 + icmp_count a req (firstn n cs)) mod 65536).
Proof. exact icmp_history. Qed.

Theorem C03_icmp_flow_created_wf : forall e slots extra h v h',
  exec e "ipv4::icmp::flow" None slots extra h = Some (Ok (v, h')) ->
  exists f, v = VObj (length h) /\ h' = (h ++ [OIcmp f])%list /\ icmp_fwf f
    /\ if_id f = 4660 /\ if_ping f = 0 /\ if_pong f = 0.
Proof. exact icmp_flow_created_wf. Qed.

(* ------------------------------------------------------------------ UDP *)
(** every method of the UdpFlow class (client/server_dgram with any frag_off, client/server_raw_dgram):
    the datagram's length field is header plus payload; with checksumming on (the last argument, default
    true) the checksum is non-zero and verifies, with csum: false the field is 0; the heap is unchanged *)
Theorem C03_udp_flow_methods : forall e ms name key slots extra h a f v h',
  assoc udp_class class_table = Some ms -> In (name, key) ms ->
  payload_fits 28 extra ->
  nth_error h a = Some (OUdp f) -> uflow_wf f ->
  exec e key (Some a) slots extra h = Some (Ok (v, h')) ->
  h' = h /\ exists client framed cs, name = udp_name client framed
    /\ conv_bool (last slots VNil) = Ok cs /\ udp_flow_result f client framed cs v.
Proof. exact udp_method_sound. Qed.

(** unicast, broadcast (with or without srcip, raw or framed): length exact, checksum field exactly 0 *)
Theorem C03_udp_unicast_csum_absent : forall e slots extra h v h',
  payload_fits 8 extra ->
  exec e "ipv4::udp::unicast" None slots extra h = Some (Ok (v, h')) ->
  h' = h /\ exists src dst raw,
    conv_sock (nth 0 slots VNil) = Ok src /\ conv_sock (nth 1 slots VNil) = Ok dst /\ conv_bool (nth 2 slots VNil) = Ok raw
    /\ udp_plain_result raw (fst src) (fst dst) v.
Proof. exact udp_unicast_sound. Qed.

Theorem C03_udp_broadcast_csum_absent : forall e slots extra h v h',
  payload_fits 8 extra ->
  exec e "ipv4::udp::broadcast" None slots extra h = Some (Ok (v, h')) ->
  h' = h /\ exists src dst sip raw,
    conv_sock (nth 0 slots VNil) = Ok src /\ conv_sock (nth 1 slots VNil) = Ok dst
    /\ conv_opt conv_ip4 (nth 2 slots VNil) = Ok sip /\ conv_bool (nth 3 slots VNil) = Ok raw
    /\ udp_plain_result raw (match sip with Some ip => ip | None => fst src end) (fst dst) v.
Proof. exact udp_broadcast_sound. Qed.

(** the outer datagram of every VXLAN-encapsulated frame: length exact, checksum field exactly 0 *)
Theorem C03_vxlan_csum_absent : forall e ms name key slots extra h a f v h',
  assoc "vxlan::Vxlan"%string class_table = Some ms -> In (name, key) ms ->
  (forall ps, conv_pktgen (nth 0 slots VNil) = Ok ps -> Forall (fun p => 16 + len (pk_body p) < 65536) ps) ->
  nth_error h a = Some (OVxlan f) ->
  exec e key (Some a) slots extra h = Some (Ok (v, h')) ->
  h' = h /\ exists out, conv_pktgen v = Ok out
    /\ Forall (fun q => udp_plain_result (vx_raw f) (fst (vx_cl f)) (fst (vx_sv f)) (VPkt q)) out.
Proof. exact vxlan_method_sound. Qed.

(** dns::host: both datagrams (query client:32768 -> ns:53 and the response back) have an exact length
    field and a non-zero verifying checksum *)
Theorem C03_dns_host_checksummed : forall e slots extra h v h',
  (forall cl, conv_ip4 (nth 0 slots VNil) = Ok cl -> cl < 4294967296) ->
  (forall ns, conv_ip4 (nth 3 slots VNil) = Ok ns -> ns < 4294967296) ->
  (forall qn, conv_buf (nth 1 slots VNil) = Ok qn -> wf_bytes qn /\ dns_host_fits qn (len extra)) ->
  exec e "dns::host" None slots extra h = Some (Ok (v, h')) ->
  h' = h /\ exists cl ns raw q r,
    conv_ip4 (nth 0 slots VNil) = Ok cl /\ conv_ip4 (nth 3 slots VNil) = Ok ns /\ conv_bool (nth 4 slots VNil) = Ok raw
    /\ v = VPktGen [q; r] /\ udp_checksummed raw q cl ns /\ udp_checksummed raw r ns cl.
Proof. exact dns_host_sound. Qed.

Theorem C03_udp_flow_created_wf : forall e slots extra h v h',
  sock_val_wf (nth 0 slots VNil) -> sock_val_wf (nth 1 slots VNil) ->
  exec e "ipv4::udp::flow" None slots extra h = Some (Ok (v, h')) ->
  exists f, v = VObj (length h) /\ h' = (h ++ [OUdp f])%list /\ uflow_wf f.
Proof. exact udp_flow_created_wf. Qed.

(* ------------------------------------------------------------------ frame *)
(** the [foreign] steps of the history theorems include: any method of the three classes on another
    object, and the functions that create flows or build datagrams *)
Theorem C03_family_methods_foreign : forall e cls name key a a' slots extra,
  In cls [tcp_class; udp_class; icmp_class] -> class_method cls name key -> a' <> a ->
  foreign e a (mcall key a' slots extra).
Proof. exact family_methods_foreign. Qed.

Theorem C03_family_functions_foreign : forall e key a slots extra,
  In key ["ipv4::tcp::flow"; "ipv4::udp::flow"; "ipv4::icmp::flow"; "ipv4::udp::unicast"; "ipv4::udp::broadcast";
          "dns::host"]%string ->
  foreign e a (fcall key slots extra).
Proof. exact family_functions_foreign. Qed.

(** a concrete history built by the library's own constructors (one TCP flow: open, a data message with a
    seq override, a reset; a UDP flow datagram; echo, echo, echo_reply): it runs, the premises of the
    history theorems hold for it, and the conclusions are visible on the bytes *)
Example C03b_nonvacuous :
  exists vs h', run_hist ex_env ex_calls [] = Some (vs, h')
  /\ Forall (fun c => tcp_call_on 0 c \/ foreign ex_env 0 c) (tl ex_calls)
  /\ Forall (icmp_step_ok ex_env 2) (skipn 7 ex_calls)
  /\ (exists f u i, h' = [OTcp f; OUdp u; OIcmp i] /\ flow_twf f /\ uflow_wf u /\ icmp_fwf i
        /\ if_ping i = 2 /\ if_pong i = 1)
  /\ map (fun v => length (ex_pkts v)) vs = [0; 3; 2; 1; 0; 1; 0; 1; 1; 1]%nat
  /\ forallb (fun p => tcp_ok 16909060 16909061 (ex_l4 p) || tcp_ok 16909061 16909060 (ex_l4 p))
       (concat (map ex_pkts (firstn 4 vs))) = true
  /\ forallb (fun p => udp_len_ok (ex_l4 p) && udp_csum_ok 16909060 16909061 (ex_l4 p)) (ex_pkts (nth 5 vs VNil)) = true
  /\ map (fun p => (icmp_ok (ex_l4 p), nth 0 (ex_l4 p) 0, nth 1 (ex_l4 p) 0, u16_at (ex_l4 p) 4, u16_at (ex_l4 p) 6))
       (concat (map ex_pkts (skipn 7 vs)))
     = [(true, 8, 0, 4660, 0); (true, 8, 0, 4660, 1); (true, 0, 0, 4660, 0)].
Proof.
  eexists. eexists. split; [vm_compute; reflexivity|].
  split; [exact ex_tcp_premises|]. split; [exact ex_icmp_premises|].
  split.
  - eexists. eexists. eexists. split; [reflexivity|].
    unfold flow_twf, uflow_wf, icmp_fwf, sock_wf. cbn. repeat split; lia.
  - split; [vm_compute; reflexivity|]. split; [vm_compute; reflexivity|]. split; vm_compute; reflexivity.
Qed.
