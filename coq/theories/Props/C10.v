(** C10 -- The lexer tokenises every line as the lexical rules prescribe, exact columns.
    This file holds only the pinned statements; proofs live in Proofs/C10.

    [lex_line] (Lex/Scanner.v) is the model of Lexer::line: the regular expression LEX_RE alternative
    by alternative in source order, the scan loop, the string-literal carry-over, the error
    position.  [spec_line], [first_class], [cuts], [assemble], [token_placed], [strings_located],
    [essence] (Lex/LexSpec.v) are the lexical rules stated on their own. *)
From RS Require Import Base.Bytes Base.Outcome Base.Utf8 Lex.Tokens Lex.LexClass Lex.Scanner Lex.LexSpec.
From RS.Proofs.C10 Require Import Merge WordChar Meets Maximal Final.
Open Scope N_scope.

(** the scanner computes exactly what the lexical rules prescribe: tokens (kinds, locations,
    texts), the literal carried to the next line, the location reported afterwards, or the error *)
Theorem C10_scan_meets_spec : forall lx lno line, utf8_valid line = true ->
  lex_line lx lno line = as_lexer (spec_line (lx_pending lx) lno line).
Proof. exact scan_meets_spec. Qed.

(** the lexer never panics, and its loop (fuel = length of the line + 1) always finishes *)
Theorem C10_lex_total : forall lx lno line, utf8_valid line = true ->
  (exists toks, snd (lex_line lx lno line) = Ok toks) \/ snd (lex_line lx lno line) = Err ELex.
Proof. exact lex_total_final. Qed.

(** success: the line is cut, from its first byte to its last, into non-empty lexemes, each being
    the first class (in rule order) that matches at its position, with that class's extent; the
    lexemes concatenate to the line; every token other than a string literal sits on its lexeme -
    its column is 1 + the number of bytes before it - and every string-literal token is placed at
    the token that ended it *)
Theorem C10_lexemes_partition : forall lx lno line lx' toks, utf8_valid line = true ->
  lex_line lx lno line = (lx', Ok toks) ->
  exists ls, concat (map snd ls) = line /\ Forall (fun l => snd l <> []) ls /\ cuts first_class line ls []
             /\ Forall (token_placed first_class lno line) toks /\ strings_located toks.
Proof. exact lexemes_partition_final. Qed.

(** ... and exactly the tokens [assemble] makes of those lexemes (skipped classes dropped, adjacent
    string literals merged with what was pending), the rest pending, loc = end of line *)
Theorem C10_tokens_of_lexemes : forall lx lno line lx' toks, utf8_valid line = true ->
  lex_line lx lno line = (lx', Ok toks) <->
  exists ls, cuts first_class line ls [] /\
             assemble lno 0 (lx_pending lx) ls = (toks, lx_pending lx') /\
             lx_loc lx' = loc_at lno (len line).
Proof. exact lex_ok_cuts_final. Qed.

(** columns are 1-based byte columns (Loc holds them as 32-bit numbers) *)
Theorem C10_column_exact : forall lno off, lno < 4294967296 -> off + 1 < 4294967296 ->
  loc_at lno off = (lno, off + 1).
Proof. exact loc_at_small. Qed.

(** failure: a lex error is reported exactly when cutting lexemes from the start of the line reaches
    a position at which no class matches, and it is located at that byte (1-based column) *)
Theorem C10_error_at_first_unmatchable : forall lx lno line lx' e, utf8_valid line = true ->
  lex_line lx lno line = (lx', Err e) <->
  exists ls rest, cuts first_class line ls rest /\ rest <> [] /\ first_class rest = None /\ e = ELex /\
                  lx' = {| lx_loc := loc_at lno (len line - len rest); lx_pending := None |}.
Proof. exact error_position_final. Qed.

(** import, let, true, false are keywords unless an identifier character follows; then the whole
    run of identifier characters is one identifier *)
Theorem C10_keyword_unless_ident_follows : forall kw t rest, In (kw, t) keywords ->
  first_class (text kw ++ rest) =
  if (match rest with c :: _ => ident_char c | [] => false end)
  then Some (KTok TIdent, (length (text kw) + span ident_char rest)%nat)
  else Some (KTok t, length (text kw)).
Proof. exact keyword_unless_ident_follows. Qed.

(** identifier and integer lexemes are maximal *)
Theorem C10_ident_int_maximal : forall s n,
  (first_class s = Some (KTok TIdent, n) ->
   forallb ident_char (firstn n s) = true /\ followed_by ident_char n s = false)
  /\ (first_class s = Some (KTok TIntLit, n) -> followed_by digit n s = false)
  /\ (first_class s = Some (KTok THexLit, n) -> followed_by hexdigit n s = false).
Proof. exact ident_int_maximal. Qed.

(** string merging: the token stream of a multi-line text, locations aside, and the literal left
    pending after it, depend only on the sequence of all its lexemes - not on the line breaks ... *)
Theorem C10_string_merge_lines : forall lines lx lno lx' toks,
  Forall (fun l => utf8_valid l = true) lines ->
  lex_lines lx lno lines = (lx', Ok toks) ->
  (map strip_loc toks, lx_pending lx') = essence (lx_pending lx) (concat (map (lexemes_of first_class) lines)).
Proof. exact lines_essence_final. Qed.

(** ... nor on how a literal is split into adjacent literals ... *)
Theorem C10_string_merge_split : forall pend a u v b,
  essence pend (a ++ string_lexeme u :: string_lexeme v :: b) = essence pend (a ++ string_lexeme (u ++ v) :: b).
Proof. exact essence_split. Qed.

(** ... nor on blank space, comments or newlines between the pieces *)
Theorem C10_string_merge_skip : forall pend a k x b, skipped k = true ->
  essence pend (a ++ (k, x) :: b) = essence pend (a ++ b).
Proof. exact essence_skip. Qed.

(** the result is a function of the pending literal and the text; the line number only labels *)
Theorem C10_lex_pure : forall lx1 lx2 l1 l2 line,
  lx_pending lx1 = lx_pending lx2 ->
  lex_line lx1 l1 line = lex_line lx2 l1 line
  /\ lex_line lx1 l2 line = relabel l2 (lex_line lx1 l1 line).
Proof. exact lex_pure. Qed.

(** the non-ASCII part of the regex crate's Unicode \w table (a parameter of the model) cannot be
    observed through Lexer::line: any two tables that are false on White_Space characters give the
    same result on every valid line *)
Theorem C10_wordchar_irrelevant : forall w1 w2, admissible w1 -> admissible w2 ->
  forall lx lno line, utf8_valid line = true -> lex_line_gen w1 lx lno line = lex_line_gen w2 lx lno line.
Proof. exact wordchar_irrelevant. Qed.

(** non-vacuity: keywords next to identifiers, the dotted quad that backtracks (1.2.3.256 is
    1.2.3.25 then 6), a literal merged across a line break and delivered at the token that ends it,
    a comment, non-ASCII blank space; and an error located at the offending character *)
Example C10_nonvacuous :
  let b (x : string) := bytes_of_string x in
  let tok t l c v := {| tk_type := t; tk_loc := (l, c); tk_val := v |} in
  lex_lines lexer_init 1 [b "let lets=1.2.3.256 ""ab"" // c"%string; [194; 160] ++ b """cd"";"%string]
  = ({| lx_loc := (2, 8); lx_pending := None |},
     Ok [tok TLet 1 1 None; tok TIdent 1 5 (Some (b "lets"%string)); tok TEquals 1 9 None;
         tok TIPv4Lit 1 10 (Some (b "1.2.3.25"%string)); tok TIntLit 1 18 (Some (b "6"%string));
         tok TStringLit 2 7 (Some (b "abcd"%string)); tok TSemiColon 2 7 None])
  /\ lex_line lexer_init 7 (b "abc $ x"%string) = ({| lx_loc := (7, 5); lx_pending := None |}, Err ELex)
  /\ utf8_valid ([194; 160] ++ b """cd"";"%string) = true.
Proof. vm_compute. repeat split; reflexivity. Qed.
