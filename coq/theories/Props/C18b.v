(** C18b -- Ethernet framing (C18) at the level the interpreter executes: every library function and method that
    returns packets, as dispatched by [exec] on a heap of objects; the raw relation between two runs of the same
    calls; histories; tunnel nesting; eth::frame / eth::from_ip through [exec] and the binder.
    Pinned statements only; proofs in Proofs/C18/{LibTwinBase,LibTwinTcp,LibTwinFns,LibTwinTun,LibTwinAll,
    LibTwinNest,LibTwinProg,FrameCalls}.v.

    Vocabulary (spelled out in C18b_vocabulary / C18b_relations):
    [framed raw eth l3] = [l3] when raw, else [eth ++ l3]; [eth_for s d] = 00:02:d 00:02:s 0800 (the header
    every IP-level builder uses, C18); [eth_of_want w] = [eth_for (w_src w) (w_dst w)] for an IPv4 header
    designation [w] of C02b; [pkt_framed raw eth p]: packet p is [framed raw eth l3] for some datagram l3;
    [pktT r1 r2 eth p1 p2]: ONE datagram l3 with p1 = framed r1 eth l3 and p2 = framed r2 eth l3;
    [valT r1 r2 (Some es) v1 v2]: two packet values, pairwise [pktT] for the headers es; [valT _ _ None v1 v2]:
    v1 = v2; [orel R x y]: two outcomes end alike (same error, same panic, or values related by R);
    [oorel]: the same for [exec]'s optional results; [obj_twin o1 o2]: objects equal but for the raw flag;
    [raw_slots r1 r2 s1 s2]: argument lists equal but for the last slot (the [raw:] argument of every
    constructor/function that has one), converting to r1 / r2.
    Section 1 has no premise beyond "the call returns"; 1b adds C02b's premises to tie the header to the IPv4
    addresses actually carried. *)
From RS Require Import Base.Bytes Base.Outcome Bind.Types Bind.Binder Pkt.Csum Pkt.Hdrs Pkt.Packet Ez.Tcp Ez.Udp Ez.Icmp Ez.Ip4 Ez.Gre
  Interp.Val Interp.Eval Lib.LibBase Lib.StdLib Lib.Ipv4Lib Lib.MiscLib Spec.Wire Spec.Tunnel Spec.TunnelPeel
  Proofs.C02.TcpIp Proofs.C02.LibIp Proofs.C02.LibIpTcp Proofs.C02.LibIpFns Proofs.C02.LibIpTun Proofs.C02.LibIpAll
  Proofs.C03.LibCalls Proofs.C03.LibTcp Proofs.C03.LibUdp Proofs.C03.LibIcmp Proofs.C03.LibFrame
  Proofs.C06.Nesting Proofs.C07.Compose Proofs.C07.LibFrag
  Proofs.C18.Framing Proofs.C18.LibTwinBase Proofs.C18.LibTwinTcp Proofs.C18.LibTwinFns Proofs.C18.LibTwinTun
  Proofs.C18.LibTwinAll Proofs.C18.LibTwinNest Proofs.C18.LibTwinProg Proofs.C18.FrameCalls.
From RSGen Require Import Catalogue.
Open Scope list_scope.
Open Scope N_scope.

(* ------------------------------------------------------------------ 0. vocabulary, spelled out *)
Theorem C18b_vocabulary :
  (forall raw eth l3, framed raw eth l3 = if raw then l3 else eth ++ l3)
  /\ (forall s d, eth_for s d = ([0; 2] ++ be32 d) ++ ([0; 2] ++ be32 s) ++ [8; 0])
  /\ (forall s, eth_bcast_for s = [255; 255; 255; 255; 255; 255] ++ ([0; 2] ++ be32 s) ++ [8; 0])
  /\ (forall w, eth_of_want w = eth_for (w_src w) (w_dst w))
  /\ (forall raw eth p, pkt_framed raw eth p <-> exists l3, pk_body p = framed raw eth l3)
  /\ (forall r1 r2 eth p1 p2, pktT r1 r2 eth p1 p2 <->
        exists l3, p1 = pkt_of_body (framed r1 eth l3) /\ p2 = pkt_of_body (framed r2 eth l3))
  /\ (forall eth pf pr, raw_of eth pf pr <->
        pk_body pr = skipn 14 (pk_body pf) /\ firstn 14 (pk_body pf) = eth /\ pk_hr pr = pk_hr pf)
  /\ (forall es, eth_len_ok es <-> Forall (fun eth => length eth = 14%nat) es)
  /\ (forall o1 o2, obj_twin o1 o2 <-> obj_with_raw false o1 = obj_with_raw false o2)
  /\ (forall r1 r2 s1 s2, raw_slots r1 r2 s1 s2 <->
        exists pre v1 v2, s1 = pre ++ [v1] /\ s2 = pre ++ [v2]
          /\ orel (fun a b => a = r1 /\ b = r2) (conv_bool v1) (conv_bool v2))
  /\ (forall pre v1 v2 r1 r2, conv_bool v1 = Ok r1 -> conv_bool v2 = Ok r2 -> raw_slots r1 r2 (pre ++ [v1]) (pre ++ [v2])).
Proof.
  split; [intros; reflexivity|]. split; [intros; reflexivity|]. split; [intros; reflexivity|]. split; [intros; reflexivity|].
  split; [intros; reflexivity|]. split; [intros; reflexivity|]. split; [intros; reflexivity|]. split; [intros; reflexivity|].
  split; [intros; reflexivity|]. split; [intros; reflexivity|]. intros. apply raw_slots_intro; assumption.
Qed.

Theorem C18b_relations :
  (forall A B (R : A -> B -> Prop) x y, orel R x y <->
     match x, y with
     | Ok a, Ok b => R a b | Err e1, Err e2 => e1 = e2 | Panic s1, Panic s2 => s1 = s2
     | OutOfFuel, OutOfFuel => True | _, _ => False
     end)
  /\ (forall A B (R : A -> B -> Prop) o1 o2, oorel R o1 o2 <->
     match o1, o2 with Some x1, Some x2 => orel R x1 x2 | None, None => True | _, _ => False end)
  /\ (forall r1 r2 pl v1 v2, valT r1 r2 pl v1 v2 <->
     match pl with
     | None => v1 = v2
     | Some es => (exists eth p1 p2, es = [eth] /\ v1 = VPkt p1 /\ v2 = VPkt p2 /\ pktT r1 r2 eth p1 p2)
                  \/ (exists ps1 ps2, v1 = VPktGen ps1 /\ v2 = VPktGen ps2 /\ Forall3 (pktT r1 r2) es ps1 ps2)
     end)
  /\ (forall A B C (R : A -> B -> C -> Prop) la lb lc, Forall3 R la lb lc <->
     match la, lb, lc with
     | [], [], [] => True
     | a :: ra, b :: rb, c :: rc => R a b c /\ Forall3 R ra rb rc
     | _, _, _ => False
     end)
  /\ (forall OT r1 r2 a h1 h2 pl x y, resT OT r1 r2 a h1 h2 pl x y <->
     exists o1' o2', snd x = set_nth h1 a o1' /\ snd y = set_nth h2 a o2' /\ OT o1' o2' /\ valT r1 r2 pl (fst x) (fst y))
  /\ (forall r1 r2 h1 h2 pl x y, fn_resT r1 r2 h1 h2 pl x y <-> snd x = h1 /\ snd y = h2 /\ valT r1 r2 pl (fst x) (fst y)).
Proof.
  split; [intros; apply orel_iff|]. split; [intros; reflexivity|]. split; [intros; apply valT_iff|].
  split; [intros; apply Forall3_iff|]. split; intros; reflexivity.
Qed.

(** the raw flag of an object; setting it *)
Theorem C18b_object_defs :
  (forall o, obj_raw o = match o with
                         | OTcp f => tf_raw f | OUdp f => uf_raw f | OIcmp f => if_raw f | OVxlan f => vx_raw f
                         | OGre f => gl_raw f | OErspan1 f => e1_raw f | OErspan2 f => e2_raw f
                         | OFrag _ | OBufIo _ _ => false end)
  /\ (forall r f, obj_with_raw r (OTcp f) =
        OTcp {| tf_cl := tf_cl f; tf_sv := tf_sv f; tf_cl_seq := tf_cl_seq f; tf_sv_seq := tf_sv_seq f; tf_raw := r |})
  /\ (forall r f, obj_with_raw r (OUdp f) = OUdp {| uf_cl := uf_cl f; uf_sv := uf_sv f; uf_raw := r |})
  /\ (forall r f, obj_with_raw r (OIcmp f) =
        OIcmp {| if_cl := if_cl f; if_sv := if_sv f; if_raw := r; if_id := if_id f; if_ping := if_ping f; if_pong := if_pong f |})
  /\ (forall r f, obj_with_raw r (OVxlan f) = OVxlan {| vx_cl := vx_cl f; vx_sv := vx_sv f; vx_vni := vx_vni f; vx_raw := r |})
  /\ (forall r f, obj_with_raw r (OGre f) =
        OGre {| gl_cl := gl_cl f; gl_sv := gl_sv f; gl_flags := gl_flags f; gl_ethertype := gl_ethertype f; gl_raw := r; gl_seq := gl_seq f |})
  /\ (forall r f, obj_with_raw r (OErspan1 f) = OErspan1 {| e1_cl := e1_cl f; e1_sv := e1_sv f; e1_raw := r |})
  /\ (forall r f, obj_with_raw r (OErspan2 f) =
        OErspan2 {| e2_cl := e2_cl f; e2_sv := e2_sv f; e2_raw := r; e2_seq := e2_seq f; e2_sess := e2_sess f |})
  /\ (forall r f, obj_with_raw r (OFrag f) = OFrag f) /\ (forall r b t, obj_with_raw r (OBufIo b t) = OBufIo b t)
  /\ (forall o, obj_with_raw (obj_raw o) o = o)
  /\ (forall r1 r2 o, obj_twin (obj_with_raw r1 o) (obj_with_raw r2 o))
  /\ (forall r o, In (obj_class o) raw_classes -> obj_raw (obj_with_raw r o) = r)
  /\ raw_classes = ["ipv4::tcp::TcpFlow"; "ipv4::udp::UdpFlow"; "ipv4::icmp::Icmp"; "vxlan::Vxlan"; "gre::Gre";
                    "erspan1::Erspan1"; "erspan2::Erspan2"]%string.
Proof.
  split; [intros; reflexivity|]. split; [intros; reflexivity|]. split; [intros; reflexivity|]. split; [intros; reflexivity|].
  split; [intros; reflexivity|]. split; [intros; reflexivity|]. split; [intros; reflexivity|]. split; [intros; reflexivity|].
  split; [intros; reflexivity|]. split; [intros; reflexivity|]. split; [exact obj_with_raw_id|].
  split; [exact obj_twin_with_raw|]. split; [exact obj_raw_with_raw|reflexivity].
Qed.

(* ------------------------------------------------------------------ 1. every packet-returning library key, one run *)
(** the keys: computed from the catalogue by return type (the list of C02_pkt_keys); a key added to the library
    later has no case in the proof of C18b_lib_all_keys and breaks it until handled *)
Theorem C18b_pkt_keys :
  pkt_keys = map fd_key (filter (fun f => returns_packets (fd_ret f) && negb (String.eqb (fd_key f) "eth::frame")) catalogue)
  /\ length pkt_keys = 27%nat
  /\ (forall t, returns_packets t = match t with TPkt | TPktGen => true | _ => false end).
Proof. split; [reflexivity|]. split; [vm_compute; reflexivity|intros; reflexivity]. Qed.

(** the framing and the Ethernet headers a call designates: [eth_of_want] of every IPv4 header C02b's [ip_plan]
    designates for it, in order; for ipv4::udp::broadcast the all-ones destination with the source made from the
    source SOCKET *)
Theorem C18b_eth_plan_defs :
  (forall key this slots h, String.eqb key "ipv4::udp::broadcast" = false ->
     eth_plan key this slots h = match ip_plan key this slots h with
                                 | Some (raw, ws) => (raw, map eth_of_want ws) | None => (false, []) end)
  /\ (forall a p b q r h, eth_plan "ipv4::udp::broadcast" None [VSock4 a p; VSock4 b q; VNil; VBool r] h = (r, [eth_bcast_for a])
        /\ ip_plan "ipv4::udp::broadcast" None [VSock4 a p; VSock4 b q; VNil; VBool r] h = Some (r, [want_default a b 17]))
  /\ (forall a p b q c r h, eth_plan "ipv4::udp::broadcast" None [VSock4 a p; VSock4 b q; VIp4 c; VBool r] h = (r, [eth_bcast_for a])
        /\ ip_plan "ipv4::udp::broadcast" None [VSock4 a p; VSock4 b q; VIp4 c; VBool r] h = Some (r, [want_default c b 17]))
  /\ (forall key this slots h, eth_len_ok (snd (eth_plan key this slots h))).
Proof.
  split; [intros key this slots h E; unfold eth_plan; rewrite E; reflexivity|].
  split; [intros; split; reflexivity|]. split; [intros; split; reflexivity|exact eth_plan_len].
Qed.

(** EVERY such key, on ANY arguments and ANY heap: whenever the call returns, the value is a list of packets,
    one per designated header, each [framed raw eth l3] *)
Theorem C18b_lib_all_keys : forall e key this slots extra h v h',
  In key pkt_keys ->
  exec e key this slots extra h = Some (Ok (v, h')) ->
  exists ps, conv_pktgen v = Ok ps
    /\ Forall2 (pkt_framed (fst (eth_plan key this slots h))) (snd (eth_plan key this slots h)) ps.
Proof. exact lib_eth_all. Qed.

(** 1b. with C02b's premises (32-bit addresses, sizes that fit): header and datagram together -- each packet is
    [framed raw eth l3] where [l3] satisfies C02b's clause for the designated IPv4 header [w] (so [w_src w] and
    [w_dst w] are the addresses the packet's own IPv4 header carries) and, for every key but broadcast,
    [eth = eth_of_want w]: the MACs are 00:02 followed by exactly those addresses *)
Theorem C18b_lib_all_keys_ip : forall e key this slots extra h v h',
  In key pkt_keys -> Forall addr_val_ok slots -> recv_wf this h -> ip_fits key this slots extra h ->
  exec e key this slots extra h = Some (Ok (v, h')) ->
  exists raw ws es ps, ip_plan key this slots h = Some (raw, ws) /\ eth_plan key this slots h = (raw, es)
    /\ conv_pktgen v = Ok ps
    /\ Forall3 (fun w eth p => exists l3, pk_body p = framed raw eth l3 /\ ip_clause w l3) ws es ps
    /\ (String.eqb key "ipv4::udp::broadcast" = false -> es = map eth_of_want ws).
Proof. exact lib_eth_ip. Qed.

(* ------------------------------------------------------------------ 2. the raw relation *)
(** what [valT false true] says in the property's words: packet by packet, raw = framed minus its first 14
    bytes, and those 14 bytes are the designated header *)
Theorem C18b_raw_relation : forall es vf vr, eth_len_ok es -> valT false true (Some es) vf vr ->
  exists pf pr, conv_pktgen vf = Ok pf /\ conv_pktgen vr = Ok pr /\ Forall3 raw_of es pf pr.
Proof. exact valT_raw_relation. Qed.

(** 2a. EVERY method of EVERY class whose objects carry a raw flag (TcpFlow: all 17 methods, UdpFlow: 4, Icmp: 2,
    Vxlan: 2, Gre, Erspan1, Erspan2), on twin receivers with the same arguments: the two calls end alike; when
    they return, the receivers written back are twins again with their flags, class and header designations
    ([objR]), and the values are [valT]-related for [method_eth_plan] -- pairwise framings of one datagram for a
    packet-returning method, the very same value otherwise *)
Theorem C18b_method_twin : forall e name key slots extra h1 h2 a o1 o2,
  In (obj_class o1) raw_classes -> class_method (obj_class o1) name key ->
  nth_error h1 a = Some o1 -> nth_error h2 a = Some o2 -> obj_twin o1 o2 ->
  oorel (resT (objR o1 o2) (obj_raw o1) (obj_raw o2) a h1 h2 (method_eth_plan o1 name slots))
    (exec e key (Some a) slots extra h1) (exec e key (Some a) slots extra h2).
Proof. exact lib_method_twin. Qed.

Theorem C18b_method_plan_defs :
  (forall o name slots raw ws, method_plan o name slots = Some (raw, ws) ->
     method_eth_plan o name slots = Some (map eth_of_want ws)
     /\ match o with OFrag _ => True | _ => raw = obj_raw o end)
  /\ (forall o name slots es, method_eth_plan o name slots = Some es -> eth_len_ok es)
  /\ (forall o1 o2 o1' o2', objR o1 o2 o1' o2' <->
        obj_twin o1' o2' /\ obj_raw o1' = obj_raw o1 /\ obj_raw o2' = obj_raw o2
        /\ (forall n s, method_eth_plan o1' n s = method_eth_plan o1 n s) /\ obj_class o1' = obj_class o1).
Proof. split; [exact method_eth_plan_ip|]. split; [exact method_eth_len|intros; reflexivity]. Qed.

(** 2b. the constructors with a raw: argument make twin objects *)
Theorem C18b_ctor_twin : forall e key slots1 slots2 extra h1 h2 r1 r2,
  In key ["ipv4::tcp::flow"; "ipv4::udp::flow"; "ipv4::icmp::flow"; "vxlan::session"; "gre::session";
          "erspan1::session"; "erspan2::session"]%string ->
  raw_slots r1 r2 slots1 slots2 ->
  oorel (fun x y => exists o, In (obj_class o) raw_classes /\ fst x = VObj (length h1) /\ fst y = VObj (length h2)
                      /\ snd x = h1 ++ [obj_with_raw r1 o] /\ snd y = h2 ++ [obj_with_raw r2 o])
    (exec e key None slots1 extra h1) (exec e key None slots2 extra h2).
Proof. exact ctor_twin. Qed.

(** 2c. ANY history of method calls on the twins: if it runs on one heap it runs on the other, the objects stay
    twins, and every call's values are related for the headers the object AT THE START designates *)
Theorem C18b_history_twin : forall e a cs h1 h2 o1 o2 vs1 h1',
  In (obj_class o1) raw_classes -> nth_error h1 a = Some o1 -> nth_error h2 a = Some o2 -> obj_twin o1 o2 ->
  Forall (fun c => c_this c = Some a /\ exists name, class_method (obj_class o1) name (c_key c)) cs ->
  run_hist e cs h1 = Some (vs1, h1') ->
  exists vs2 h2' o1' o2', run_hist e cs h2 = Some (vs2, h2')
    /\ nth_error h1' a = Some o1' /\ nth_error h2' a = Some o2' /\ objR o1 o2 o1' o2'
    /\ Forall3 (fun c v1 v2 => forall name, class_method (obj_class o1) name (c_key c) ->
                  valT (obj_raw o1) (obj_raw o2) (method_eth_plan o1 name (c_slots c)) v1 v2) cs vs1 vs2.
Proof. exact twin_history. Qed.

(** 2d. raw: as an argument of the call: ipv4::udp::unicast / broadcast, dns::host, and the IpFrag methods
    (an IpFrag object has no flag and never changes, so every call of a history is covered one by one) *)
Theorem C18b_unicast_twin : forall e slots1 slots2 extra h1 h2 r1 r2,
  raw_slots r1 r2 slots1 slots2 ->
  oorel (fn_resT r1 r2 h1 h2 (unicast_eth slots1))
    (exec e "ipv4::udp::unicast" None slots1 extra h1) (exec e "ipv4::udp::unicast" None slots2 extra h2).
Proof. exact unicast_twin. Qed.
Theorem C18b_broadcast_twin : forall e slots1 slots2 extra h1 h2 r1 r2,
  raw_slots r1 r2 slots1 slots2 ->
  oorel (fn_resT r1 r2 h1 h2 (broadcast_eth slots1))
    (exec e "ipv4::udp::broadcast" None slots1 extra h1) (exec e "ipv4::udp::broadcast" None slots2 extra h2).
Proof. exact broadcast_twin. Qed.
Theorem C18b_dns_host_twin : forall e slots1 slots2 extra h1 h2 r1 r2,
  raw_slots r1 r2 slots1 slots2 ->
  oorel (fn_resT r1 r2 h1 h2 (dns_host_eth slots1))
    (exec e "dns::host" None slots1 extra h1) (exec e "dns::host" None slots2 extra h2).
Proof. exact dns_host_twin. Qed.
Theorem C18b_frag_twin : forall e ms name key slots1 slots2 extra h1 h2 a f r1 r2,
  assoc frag_class class_table = Some ms -> In (name, key) ms ->
  nth_error h1 a = Some (OFrag f) -> nth_error h2 a = Some (OFrag f) -> raw_slots r1 r2 slots1 slots2 ->
  oorel (fn_resT r1 r2 h1 h2 (frag_eth_plan f name slots1))
    (exec e key (Some a) slots1 extra h1) (exec e key (Some a) slots2 extra h2).
Proof. exact frag_method_twin. Qed.

Theorem C18b_fn_plans : forall a p b q c r f off l rv,
  unicast_eth [VSock4 a p; VSock4 b q; VBool r] = Some [eth_for a b]
  /\ broadcast_eth [VSock4 a p; VSock4 b q; VNil; VBool r] = Some [eth_bcast_for a]
  /\ broadcast_eth [VSock4 a p; VSock4 b q; VIp4 c; VBool r] = Some [eth_bcast_for a]
  /\ dns_host_eth [VIp4 a; rv; VU32 l; VIp4 b; VBool r] = Some [eth_for a b; eth_for b a]
  /\ frag_eth_plan f "fragment" [VU16 off; VU16 l; VBool r] = Some [eth_for (ip_src (fr_hdr f)) (ip_dst (fr_hdr f))]
  /\ frag_eth_plan f "tail" [VU16 off; VBool r] = Some [eth_for (ip_src (fr_hdr f)) (ip_dst (fr_hdr f))]
  /\ frag_eth_plan f "datagram" [VBool r] = Some [eth_for (ip_src (fr_hdr f)) (ip_dst (fr_hdr f))]
  /\ (forall slots, (forall es, unicast_eth slots = Some es -> eth_len_ok es)
                    /\ (forall es, broadcast_eth slots = Some es -> eth_len_ok es)
                    /\ (forall es, dns_host_eth slots = Some es -> eth_len_ok es)).
Proof. intros. repeat split; apply fn_eth_len. Qed.

(** 2e. two whole call sequences -- "the same program with raw mode r1 / r2": call by call (1) the same method
    call on any object of a class with a raw flag, (2) a constructor with raw: r1 / r2, (3) unicast / broadcast /
    dns::host with raw: r1 / r2, (4) an IpFrag method with raw: r1 / r2, (5) the same ipv4::frag constructor
    call.  If the first sequence runs, so does the second, the heaps stay pointwise twins with flags r1 / r2, and
    every pair of returned values is the very same value or packets pairwise [framed r1 eth l3] /
    [framed r2 eth l3] with 14-byte headers (with r1 = false, r2 = true: C18b_raw_relation).
    Not covered: a tunnel call whose inner packets differ between the two runs (slots are compared as values) *)
Theorem C18b_program_defs :
  (forall r1 r2 c1 c2, pairT r1 r2 c1 c2 <->
     c_key c1 = c_key c2 /\ c_this c1 = c_this c2 /\ c_extra c1 = c_extra c2 /\
     ( (c_slots c1 = c_slots c2 /\ exists cls name, In cls raw_classes /\ class_method cls name (c_key c1))
       \/ (c_this c1 = None /\ In (c_key c1) raw_ctor_keys /\ raw_slots r1 r2 (c_slots c1) (c_slots c2))
       \/ (c_this c1 = None /\ In (c_key c1) ["ipv4::udp::unicast"; "ipv4::udp::broadcast"; "dns::host"]%string
            /\ raw_slots r1 r2 (c_slots c1) (c_slots c2))
       \/ ((exists name, class_method frag_class name (c_key c1)) /\ raw_slots r1 r2 (c_slots c1) (c_slots c2))
       \/ (c_this c1 = None /\ c_key c1 = "ipv4::frag"%string /\ c_slots c1 = c_slots c2) ))
  /\ (forall r1 r2 h1 h2, heapT r1 r2 h1 h2 <->
        Forall2 (fun o1 o2 => obj_twin o1 o2 /\ (In (obj_class o1) raw_classes -> obj_raw o1 = r1 /\ obj_raw o2 = r2)) h1 h2)
  /\ (forall r1 r2 v1 v2, pair_valT r1 r2 v1 v2 <->
        exists pl, (forall es, pl = Some es -> eth_len_ok es) /\ valT r1 r2 pl v1 v2)
  /\ (forall r1 r2, heapT r1 r2 [] [])
  /\ raw_ctor_keys = ["ipv4::tcp::flow"; "ipv4::udp::flow"; "ipv4::icmp::flow"; "vxlan::session"; "gre::session";
                      "erspan1::session"; "erspan2::session"]%string.
Proof.
  split; [intros; reflexivity|]. split; [intros; reflexivity|]. split; [intros; reflexivity|].
  split; [exact heapT_nil|reflexivity].
Qed.

Theorem C18b_program_twin : forall e r1 r2 cs1 cs2 h1 h2 vs1 h1',
  Forall2 (pairT r1 r2) cs1 cs2 -> heapT r1 r2 h1 h2 -> run_hist e cs1 h1 = Some (vs1, h1') ->
  exists vs2 h2', run_hist e cs2 h2 = Some (vs2, h2') /\ heapT r1 r2 h1' h2' /\ Forall2 (pair_valT r1 r2) vs1 vs2.
Proof. exact program_twin. Qed.

(* ------------------------------------------------------------------ 3. tunnels at any nesting depth *)
(** one layer, two raw modes, ANY inner frame b: one datagram, with and without the header of the SESSION's
    endpoints *)
Theorem C18b_layer_twin : forall r1 r2 l b,
  orel (fun x y => exists l3, x = framed r1 (layer_eth l) l3 /\ y = framed r2 (layer_eth l) l3)
    (wrap1 (layer_with_raw r1 l) b) (wrap1 (layer_with_raw r2 l) b).
Proof. exact wrap1_twin. Qed.

Theorem C18b_layer_raw_relation : forall l b xf xr,
  wrap1 (layer_with_raw false l) b = Ok xf -> wrap1 (layer_with_raw true l) b = Ok xr ->
  xr = skipn 14 xf /\ firstn 14 xf = layer_eth l.
Proof. exact wrap1_raw_relation. Qed.

(** [wrap ls inner = outer], layers innermost first: at every depth k the frame found by peeling k layers with
    the specification-side [peel] is [framed raw eth l3] for the k-th layer's session; peeling all gives back
    [inner] byte for byte (so its own framing, section 1, is untouched) *)
Theorem C18b_nesting : forall ls inner outer,
  Forall wf_layer ls -> wrap ls inner = Ok outer ->
  (forall k l, nth_error (rev ls) k = Some l ->
     exists x l3, peel (map spec_of (firstn k (rev ls))) outer = Some x
               /\ x = framed (layer_raw l) (layer_eth l) l3)
  /\ peel (map spec_of (rev ls)) outer = Some inner.
Proof. exact nest_eth. Qed.

Theorem C18b_layer_defs : forall l,
  layer_eth l = match l with
                | LVxlan f => eth_for (fst (vx_cl f)) (fst (vx_sv f))
                | LGre f => eth_for (gl_cl f) (gl_sv f)
                | LErspan1 f => eth_for (e1_cl f) (e1_sv f)
                | LErspan2 f _ => eth_for (e2_cl f) (e2_sv f)
                end
  /\ layer_eth l = eth_of_want (layer_want l)
  /\ (forall r, layer_raw (layer_with_raw r l) = r /\ layer_eth (layer_with_raw r l) = layer_eth l)
  /\ layer_with_raw (layer_raw l) l = l.
Proof.
  intros l. split; [apply layer_eth_defs|]. split; [reflexivity|].
  split; [intros r; split; [apply layer_raw_with_raw|apply layer_eth_with_raw]|apply layer_with_raw_id].
Qed.

(* ------------------------------------------------------------------ 4. eth::frame and eth::from_ip *)
Theorem C18b_frame_exec : forall e sv dv ev extra h s d et data,
  conv_buf sv = Ok s -> conv_buf dv = Ok d -> conv_u16 ev = Ok et -> join_extra [] extra = Ok data ->
  len s = 6 -> len d = 6 ->
  exec e "eth::frame" None [sv; dv; ev] extra h = Some (Ok (VPkt (pkt_of_body (d ++ s ++ be16 et ++ data)), h)).
Proof. exact frame_exec. Qed.
Theorem C18b_frame_exec_rejects : forall e sv dv ev extra h s d et data,
  conv_buf sv = Ok s -> conv_buf dv = Ok d -> conv_u16 ev = Ok et -> join_extra [] extra = Ok data ->
  len s <> 6 \/ len d <> 6 ->
  exec e "eth::frame" None [sv; dv; ev] extra h = Some (Err ERuntime).
Proof. exact frame_exec_rejects. Qed.
Theorem C18b_from_ip_exec : forall e a h,
  exec e "eth::from_ip" None [VIp4 a] [] h = Some (Ok (VStr ([0; 2] ++ be32 a), h)).
Proof. exact from_ip_exec. Qed.
(** the explicit builder fed with the helper's addresses and type 0x0800 makes the uniform header *)
Theorem C18b_frame_of_from_ip : forall e src dst data h ms md,
  exec e "eth::from_ip" None [VIp4 src] [] h = Some (Ok (VStr ms, h)) ->
  exec e "eth::from_ip" None [VIp4 dst] [] h = Some (Ok (VStr md, h)) ->
  exec e "eth::frame" None [VStr ms; VStr md; VU16 2048] [VStr data] h
  = Some (Ok (VPkt (pkt_of_body (framed false (eth_for src dst) data)), h)).
Proof. exact frame_of_from_ip. Qed.
(** the binder: addresses positional or by name in any order, ethertype by name or defaulted to 0x0800 give one
    and the same slot vector; a third positional argument is payload (optional parameters are given by name) *)
Theorem C18b_frame_binder : forall s d et data,
  exists f, find_func catalogue "eth::frame" = Some f /\ fd_ret f = TPkt
  /\ argvec val val_type val_of_valdef f [(None, VStr s); (None, VStr d); (Some "ethertype", VU16 et); (None, VStr data)]%string
     = Ok ([VStr s; VStr d; VU16 et], [VStr data])
  /\ argvec val val_type val_of_valdef f [(Some "dst", VStr d); (Some "src", VStr s); (Some "ethertype", VU16 et); (None, VStr data)]%string
     = Ok ([VStr s; VStr d; VU16 et], [VStr data])
  /\ argvec val val_type val_of_valdef f [(None, VStr s); (Some "ethertype", VU16 et); (Some "dst", VStr d)]%string
     = Ok ([VStr s; VStr d; VU16 et], [])
  /\ argvec val val_type val_of_valdef f [(None, VStr s); (None, VStr d); (None, VStr data)]
     = Ok ([VStr s; VStr d; VU16 2048], [VStr data])
  /\ argvec val val_type val_of_valdef f [(None, VStr s); (None, VStr d); (None, VU16 et); (None, VStr data)]
     = Ok ([VStr s; VStr d; VU16 2048], [VU16 et; VStr data]).
Proof. exact frame_binder. Qed.
Theorem C18b_from_ip_binder : forall a,
  exists f, find_func catalogue "eth::from_ip" = Some f /\ fd_ret f = TStr
  /\ argvec val val_type val_of_valdef f [(None, VIp4 a)] = Ok ([VIp4 a], [])
  /\ argvec val val_type val_of_valdef f [(Some "ip"%string, VIp4 a)] = Ok ([VIp4 a], []).
Proof. exact from_ip_binder. Qed.

(** through [call] (what [eval] does for a call expression once callee and arguments are evaluated): binder,
    [exec], return-type check -- positional and named addresses give the same frame *)
Theorem C18b_frame_call : forall e p s d et data,
  len s = 6 -> len d = 6 -> et < 65536 ->
  let r := ROk (VPkt (pkt_of_body (d ++ s ++ be16 et ++ data))) (set_heap (add_trace p "eth::frame") (p_heap p)) in
  Eval.call catalogue (exec e) p "eth::frame" None [(None, VStr s); (None, VStr d); (Some "ethertype"%string, VU16 et); (None, VStr data)] = r
  /\ Eval.call catalogue (exec e) p "eth::frame" None [(Some "dst"%string, VStr d); (Some "src"%string, VStr s); (Some "ethertype"%string, VU16 et); (None, VStr data)] = r.
Proof. exact frame_call. Qed.

(* ------------------------------------------------------------------ 5. non-vacuity *)
(** through [exec]: the same flow constructor with raw: false / raw: true (spelled 256: any non-zero integer is
    true), `open` on both, then a data message with its ACK.  Every call runs; the framed packets start with the
    uniform headers of the sending side; the raw packets are the framed ones minus exactly 14 bytes; the twin of a
    GRE session carrying the first framed packet differs by exactly the outer header *)
Example C18b_nonvacuous :
  let cl := VSock4 16909060 1025 in let sv := VSock4 16909061 80 in
  let ec := [0;2;1;2;3;5; 0;2;1;2;3;4; 8;0] in let es := [0;2;1;2;3;4; 0;2;1;2;3;5; 8;0] in
  exists hf hr pf pr hf' hr' mf mr hf'' hr'',
    exec ex_env "ipv4::tcp::flow" None [cl; sv; VU32 1000; VU32 2000; VBool false] [] [] = Some (Ok (VObj 0, hf))
    /\ exec ex_env "ipv4::tcp::flow" None [cl; sv; VU32 1000; VU32 2000; VU32 256] [] [] = Some (Ok (VObj 0, hr))
    /\ exec ex_env "ipv4::tcp::TcpFlow.open" (Some 0%nat) [] [] hf = Some (Ok (VPktGen pf, hf'))
    /\ exec ex_env "ipv4::tcp::TcpFlow.open" (Some 0%nat) [] [] hr = Some (Ok (VPktGen pr, hr'))
    /\ map (fun p => firstn 14 (pk_body p)) pf = [ec; es; ec]
    /\ map pk_body pr = map (fun p => skipn 14 (pk_body p)) pf /\ length pf = 3%nat
    /\ exec ex_env "ipv4::tcp::TcpFlow.client_message" (Some 0%nat) [VBool true; VNil; VNil; VU16 0] [VStr [104; 105]] hf'
       = Some (Ok (VPktGen mf, hf''))
    /\ exec ex_env "ipv4::tcp::TcpFlow.client_message" (Some 0%nat) [VBool true; VNil; VNil; VU16 0] [VStr [104; 105]] hr'
       = Some (Ok (VPktGen mr, hr''))
    /\ map (fun p => firstn 14 (pk_body p)) mf = [ec; es]
    /\ map pk_body mr = map (fun p => skipn 14 (pk_body p)) mf
    /\ (exists of_ or_ g1 g2 inner,
          nth_error pf 0 = Some inner
          /\ exec ex_env "gre::Gre.encap" (Some 0%nat) [VPkt inner] []
               [OGre {| gl_cl := 167772161; gl_sv := 167772162; gl_flags := gre_flags_default; gl_ethertype := 25944; gl_raw := false; gl_seq := 0 |}]
             = Some (Ok (VPktGen [of_], g1))
          /\ exec ex_env "gre::Gre.encap" (Some 0%nat) [VPkt inner] []
               [OGre {| gl_cl := 167772161; gl_sv := 167772162; gl_flags := gre_flags_default; gl_ethertype := 25944; gl_raw := true; gl_seq := 0 |}]
             = Some (Ok (VPktGen [or_], g2))
          /\ firstn 14 (pk_body of_) = [0;2;10;0;0;2; 0;2;10;0;0;1; 8;0]
          /\ pk_body or_ = skipn 14 (pk_body of_)).
Proof.
  cbv zeta. do 10 eexists.
  split; [vm_compute; reflexivity|]. split; [vm_compute; reflexivity|]. split; [vm_compute; reflexivity|].
  split; [vm_compute; reflexivity|]. split; [vm_compute; reflexivity|]. split; [vm_compute; reflexivity|].
  split; [vm_compute; reflexivity|]. split; [vm_compute; reflexivity|]. split; [vm_compute; reflexivity|].
  split; [vm_compute; reflexivity|]. split; [vm_compute; reflexivity|].
  do 5 eexists.
  split; [vm_compute; reflexivity|]. split; [vm_compute; reflexivity|]. split; [vm_compute; reflexivity|].
  split; vm_compute; reflexivity.
Qed.
