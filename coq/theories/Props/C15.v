(** C15 -- every length-prefixed structure built by the standard library declares exactly the number of
    bytes that follow it whenever that number fits the field; an independent parser of each format
    (Spec/LenPrefix.v, Spec/TlsParse.v, Spec/DhcpParse.v, Spec/DnsParse.v) consumes the produced bytes exactly
    and recovers the supplied parts in order.

    [call e key a x h] is the library call [key] as the interpreter dispatches it (Lib/StdLib.v [exec]):
    [a] the declared arguments in declaration order, [x] the collected (variadic) arguments.  Collected
    string arguments are [map VStr parts]; what the helper frames is their concatenation [concat parts].
    Every "fits the field" condition is an explicit hypothesis.  Every theorem holds for an arbitrary
    [rest] following the structure: that, and the fact that every helper takes and returns plain bytes
    ([parts] are arbitrary byte strings, in particular the outputs of other helpers), is why nesting of
    helpers inside one another needs no separate statement. *)
From RS Require Import Base.Bytes Base.Outcome Interp.Val Lib.LibBase Lib.ProtoLib Lib.StdLib
  Spec.LenPrefix Spec.TlsParse Spec.DhcpParse Spec.DnsParse
  Proofs.C15.LenLemmas Proofs.C15.StdHelpers Proofs.C15.Tls Proofs.C15.DhcpDns Proofs.C16.Names.
Open Scope N_scope.

(* ---- generic length prefixes and fixed-width integers (std) ---- *)
Theorem C15_len_u8 : forall e parts rest h, len (concat parts) < 256 ->
  exists out, call e "std::len_u8" [] (map VStr parts) h = Some (Ok (VStr out, h))
              /\ parse_len_u8 (out ++ rest) = Some (concat parts, rest).
Proof. exact len_u8_roundtrip. Qed.

Theorem C15_len_be16 : forall e parts rest h, len (concat parts) < 65536 ->
  exists out, call e "std::len_be16" [] (map VStr parts) h = Some (Ok (VStr out, h))
              /\ parse_len_be16 (out ++ rest) = Some (concat parts, rest).
Proof. exact len_be16_roundtrip. Qed.

Theorem C15_len_be32 : forall e parts rest h, len (concat parts) < 4294967296 ->
  exists out, call e "std::len_be32" [] (map VStr parts) h = Some (Ok (VStr out, h))
              /\ parse_len_be32 (out ++ rest) = Some (concat parts, rest).
Proof. exact len_be32_roundtrip. Qed.

Theorem C15_len_be64 : forall e parts rest h, len (concat parts) < 18446744073709551616 ->
  exists out, call e "std::len_be64" [] (map VStr parts) h = Some (Ok (VStr out, h))
              /\ parse_len_be64 (out ++ rest) = Some (concat parts, rest).
Proof. exact len_be64_roundtrip. Qed.

Theorem C15_int_helpers : forall e v rest h,
  (v < 256 -> exists out, call e "std::u8" [VU64 v] [] h = Some (Ok (VStr out, h)) /\ parse_u8 (out ++ rest) = Some (v, rest))
  /\ (v < 65536 -> exists out, call e "std::be16" [VU64 v] [] h = Some (Ok (VStr out, h)) /\ parse_be16 (out ++ rest) = Some (v, rest))
  /\ (v < 4294967296 -> exists out, call e "std::be32" [VU64 v] [] h = Some (Ok (VStr out, h)) /\ parse_be32 (out ++ rest) = Some (v, rest))
  /\ (v < 18446744073709551616 -> exists out, call e "std::be64" [VU64 v] [] h = Some (Ok (VStr out, h)) /\ parse_be64 (out ++ rest) = Some (v, rest))
  /\ (v < 65536 -> exists out, call e "std::le16" [VU64 v] [] h = Some (Ok (VStr out, h)) /\ parse_le16 (out ++ rest) = Some (v, rest))
  /\ (v < 4294967296 -> exists out, call e "std::le32" [VU64 v] [] h = Some (Ok (VStr out, h)) /\ parse_le32 (out ++ rest) = Some (v, rest))
  /\ (v < 18446744073709551616 -> exists out, call e "std::le64" [VU64 v] [] h = Some (Ok (VStr out, h)) /\ parse_le64 (out ++ rest) = Some (v, rest)).
Proof. exact int_helpers_roundtrip. Qed.

(* ---- TLS ---- *)
Theorem C15_tls_record : forall e version content v c parts rest h,
  conv_u16 version = Ok v -> conv_u8 content = Ok c -> len (concat parts) < 65536 ->
  exists out, call e "tls::message" [version; content] (map VStr parts) h = Some (Ok (VStr out, h))
              /\ parse_tls_record (out ++ rest) = Some ((c, v, concat parts), rest).
Proof. exact tls_record_roundtrip. Qed.

Theorem C15_tls_extension : forall e ext t parts rest h,
  conv_u16 ext = Ok t -> len (concat parts) < 65536 ->
  exists out, call e "tls::extension" [ext] (map VStr parts) h = Some (Ok (VStr out, h))
              /\ parse_extension (out ++ rest) = Some ((t, concat parts), rest).
Proof. exact tls_extension_roundtrip. Qed.

(** [ext_bytes (t, data)] = type, 16-bit length, data: what C15_tls_extension shows tls::extension builds *)
Theorem C15_tls_extensions_sequence : forall exts,
  Forall (fun x => fst x < 65536 /\ len (snd x) < 65536) exts ->
  parse_extensions (concat (map ext_bytes exts)) = Some exts.
Proof. exact tls_extensions_sequence. Qed.

Theorem C15_tls_ciphers : forall e ids rest h, Forall (fun i => i < 65536) ids -> len ids * 2 < 65536 ->
  exists out, call e "tls::ciphers" [] (map VU16 ids) h = Some (Ok (VStr out, h))
              /\ parse_cipher_list (out ++ rest) = Some (ids, rest).
Proof. exact tls_ciphers_roundtrip. Qed.

(** hello messages: the 24-bit handshake length is exact for arbitrary bytes in every position, with and
    without extensions (the block [ext_block x] is empty for x = [] and a 16-bit count followed by x
    otherwise) ... *)
Theorem C15_client_hello_framing : forall e version v sid ci co exts rest h,
  conv_u16 version = Ok v ->
  34 + len sid + len ci + len co + (if 0 <? len (concat exts) then 2 else 0) + len (concat exts) < 16777216 ->
  exists out, call e "tls::client_hello" [version; VStr sid; VStr ci; VStr co] (map VStr exts) h = Some (Ok (VStr out, h))
              /\ parse_handshake (out ++ rest)
                 = Some ((1, be16 v ++ client_random ++ sid ++ ci ++ co ++ ext_block (concat exts)), rest).
Proof. exact client_hello_framing. Qed.

Theorem C15_server_hello_framing : forall e version v sid cipher ci compression co exts rest h,
  conv_u16 version = Ok v -> conv_u16 cipher = Ok ci -> conv_u8 compression = Ok co ->
  34 + len sid + 2 + 1 + (if 0 <? len (concat exts) then 2 else 0) + len (concat exts) < 16777216 ->
  exists out, call e "tls::server_hello" [version; VStr sid; cipher; compression] (map VStr exts) h = Some (Ok (VStr out, h))
              /\ parse_handshake (out ++ rest)
                 = Some ((2, be16 v ++ server_random ++ sid ++ be16 ci ++ [co] ++ ext_block (concat exts)), rest).
Proof. exact server_hello_framing. Qed.

(** ... and with the session id, cipher list and compression methods framed by the helpers meant for
    them, a ClientHello / ServerHello parser recovers every part, the extension block being absent exactly
    when no extension bytes were supplied *)
Theorem C15_client_hello_roundtrip : forall e version v sid sidf ids cif comp cof exts rest h,
  conv_u16 version = Ok v ->
  call e "std::len_u8" [] [VStr sid] h = Some (Ok (VStr sidf, h)) -> len sid < 256 ->
  call e "tls::ciphers" [] (map VU16 ids) h = Some (Ok (VStr cif, h)) ->
  Forall (fun i => i < 65536) ids -> len ids * 2 < 65536 ->
  call e "std::len_u8" [] [VStr comp] h = Some (Ok (VStr cof, h)) -> len comp < 256 ->
  len (concat exts) < 65536 ->
  exists out body,
    call e "tls::client_hello" [version; VStr sidf; VStr cif; VStr cof] (map VStr exts) h = Some (Ok (VStr out, h))
    /\ parse_handshake (out ++ rest) = Some ((1, body), rest)
    /\ parse_client_hello body
       = Some {| ch_version := v; ch_random := client_random; ch_session := sid; ch_ciphers := ids;
                 ch_compression := comp;
                 ch_extensions := match concat exts with [] => None | _ => Some (concat exts) end |}.
Proof. exact client_hello_roundtrip. Qed.

Theorem C15_server_hello_roundtrip : forall e version v sid sidf cipher ci compression co exts rest h,
  conv_u16 version = Ok v -> conv_u16 cipher = Ok ci -> conv_u8 compression = Ok co ->
  call e "std::len_u8" [] [VStr sid] h = Some (Ok (VStr sidf, h)) -> len sid < 256 ->
  len (concat exts) < 65536 ->
  exists out body,
    call e "tls::server_hello" [version; VStr sidf; cipher; compression] (map VStr exts) h = Some (Ok (VStr out, h))
    /\ parse_handshake (out ++ rest) = Some ((2, body), rest)
    /\ parse_server_hello body
       = Some {| sh_version := v; sh_random := server_random; sh_session := sid; sh_cipher := ci;
                 sh_compression := co;
                 sh_extensions := match concat exts with [] => None | _ => Some (concat exts) end |}.
Proof. exact server_hello_roundtrip. Qed.

Theorem C15_sni : forall e names rest h,
  2 + 3 * len names + len (concat names) < 65536 ->
  exists out, call e "tls::sni" [] (map VStr names) h = Some (Ok (VStr out, h))
              /\ parse_sni (out ++ rest) = Some (map (fun n => (0, n)) names, rest).
Proof. exact sni_roundtrip. Qed.

Theorem C15_certificates : forall e certs rest h,
  3 + 3 * len certs + len (concat certs) < 16777216 ->
  exists out, call e "tls::certificates" [] (map VStr certs) h = Some (Ok (VStr out, h))
              /\ parse_certificates (out ++ rest) = Some (certs, rest).
Proof. exact certificates_roundtrip. Qed.

(* ---- DHCP options ---- *)
Theorem C15_dhcp_option : forall e opt o parts rest h,
  conv_u8 opt = Ok o -> len (concat parts) < 256 ->
  exists out, call e "dhcp::option" [opt] (map VStr parts) h = Some (Ok (VStr out, h))
              /\ parse_dhcp_tlv (out ++ rest) = Some ((o, concat parts), rest).
Proof. exact dhcp_option_roundtrip. Qed.

(** [opt_bytes (code, data)] = code, 8-bit length, data; codes 1..254 (0 is pad, 255 is end in RFC 2132) *)
Theorem C15_dhcp_options_sequence : forall opts rest, Forall opt_ok opts ->
  parse_dhcp_options (concat (map opt_bytes opts) ++ [255] ++ rest) = Some (opts, rest).
Proof. exact dhcp_options_sequence. Qed.

(* ---- DNS resource-record data ---- *)
Theorem C15_dns_rr : forall e ls atype t aclass c vttl ttl parts rest h,
  Forall label_ok ls -> conv_u16 atype = Ok t -> conv_u16 aclass = Ok c -> conv_u32 vttl = Ok ttl ->
  len (concat parts) < 65536 ->
  exists out, call e "dns::answer" [VStr (dns_labels ls ++ [0]); atype; aclass; vttl] (map VStr parts) h
                = Some (Ok (VStr out, h))
              /\ parse_rr (out ++ rest)
                 = Some ({| rr_name := mk_name ls None; rr_type := t; rr_class := c; rr_ttl := ttl;
                            rr_data := concat parts |}, rest).
Proof. exact dns_rr_roundtrip. Qed.

(** a record holding a client hello holding a server-name extension and an extension whose data was framed
    by std::len_u8: each layer parses exactly and yields the layer below *)
Example C15_nonvacuous :
  let e := {| env_files := [] |} in
  exists lp ext sni hello rec body,
    call e "std::len_u8" [] [VStr [0; 1; 2]] [] = Some (Ok (VStr lp, []))
    /\ call e "tls::extension" [VU16 11] [VStr lp] [] = Some (Ok (VStr ext, []))
    /\ call e "tls::sni" [] [VStr [97; 46; 98]] [] = Some (Ok (VStr sni, []))
    /\ call e "tls::client_hello" [VU16 771; VStr [0]; VStr [0; 2; 0; 0]; VStr [1; 0]] [VStr sni; VStr ext] []
       = Some (Ok (VStr hello, []))
    /\ call e "tls::message" [VU16 769; VU8 22] [VStr hello] [] = Some (Ok (VStr rec, []))
    /\ parse_tls_record rec = Some ((22, 769, hello), [])
    /\ parse_handshake hello = Some ((1, body), [])
    /\ parse_client_hello body
       = Some {| ch_version := 771; ch_random := client_random; ch_session := []; ch_ciphers := [0];
                 ch_compression := [0]; ch_extensions := Some (sni ++ ext) |}
    /\ parse_extensions (sni ++ ext) = Some [(0, [0; 6; 0; 0; 3; 97; 46; 98]); (11, lp)]
    /\ parse_sni sni = Some ([(0, [97; 46; 98])], [])
    /\ parse_len_u8 lp = Some ([0; 1; 2], []).
Proof.
  cbn zeta. do 6 eexists.
  split; [vm_compute; reflexivity|]. split; [vm_compute; reflexivity|]. split; [vm_compute; reflexivity|].
  split; [vm_compute; reflexivity|]. split; [vm_compute; reflexivity|]. split; [vm_compute; reflexivity|].
  split; [vm_compute; reflexivity|]. split; [vm_compute; reflexivity|]. split; [vm_compute; reflexivity|].
  split; vm_compute; reflexivity.
Qed.
