(** C11 -- Calls bind arguments to parameters exactly as the calling convention says.
    This file holds only the pinned statements; proofs live in Proofs/C11.

    [argvec] (Bind/Binder.v) is the model of src/libapi.rs FuncDef::split_args + FuncDef::argvec;
    [bind_spec] (Bind/BindSpec.v) is the convention stated without a state machine; [catalogue]
    (gen/Catalogue.v) is regenerated from the running code on every run.  Everything is stated for
    an arbitrary value type [V] with [type_of : V -> vtype] and [of_valdef : valdef -> V]. *)
From RS Require Import Base.Bytes Base.Outcome Bind.Types Bind.Binder Bind.BindSpec.
From RS Require Import Proofs.C11.Compat Proofs.C11.Main Proofs.C11.Corollaries Proofs.C11.CatalogueWf.
From RSGen Require Import Catalogue.
Open Scope list_scope.
Open Scope nat_scope.

(** the binder IS the convention: same acceptance, same values in the same slots, same collected
    values, a type error otherwise -- for every well-formed signature and every call *)
Theorem C11_argvec_eq_spec :
  forall (V : Type) (type_of : V -> vtype) (of_valdef : valdef -> V) (f : funcdef),
  wf_sig f = true ->
  forall call, argvec V type_of of_valdef f call = bind_spec V type_of of_valdef f call.
Proof. exact argvec_eq_spec. Qed.

(** the outcome is a binding or a type error: [assert!(named.is_empty())] cannot fire *)
Theorem C11_never_panics :
  forall (V : Type) (type_of : V -> vtype) (of_valdef : valdef -> V) (f : funcdef),
  wf_sig f = true ->
  forall call, argvec V type_of of_valdef f call = Err EType
               \/ exists slots extra, argvec V type_of of_valdef f call = Ok (slots, extra).
Proof. exact never_panics. Qed.

(** every signature of the running standard library is well formed (mandatory before optional,
    distinct names, arg_pos = index, min_args = number of mandatory parameters) *)
Theorem C11_catalogue_wf : forallb wf_sig catalogue = true.
Proof. exact catalogue_wf. Qed.

(** the 16 x 16 compatibility relation of the code equals the table of the specification ... *)
Theorem C11_compat_table : forall p a, compatible_with p a = compat_spec p a.
Proof. exact compat_table. Qed.

(** ... which is the prose list: same type; any integer or boolean for an integer or boolean; a
    string, integer, address or packet for bytes; a packet for a packet sequence *)
Theorem C11_compat_clauses : forall p a, compatible_with p a = true <-> compat_prose p a.
Proof. exact compat_clauses. Qed.

(** nothing at all (or a compatible value) for a nullable option *)
Theorem C11_nullable_option : forall t a,
  arg_compatible (DType t) a = true <-> a = TVoid \/ compat_prose t a.
Proof. intros t a. rewrite <- nullable_accepts. rewrite <- (decl_compat (Optional (DType t)) a). reflexivity. Qed.

(** the split the clauses below talk about: a call is its leading unnamed arguments, then its
    named arguments, then a tail that starts with an unnamed argument *)
Theorem C11_split_is_a_split :
  forall (V : Type) (f : funcdef) (call : list (BindSpec.arg V)),
  call = firstn (lead_count V f call) call ++ named_part V f call ++ tail_part V f call
  /\ forallb (anon V) (firstn (lead_count V f call) call) = true
  /\ forallb (named V) (named_part V f call) = true
  /\ (forall a r, tail_part V f call = a :: r -> anon V a = true).
Proof. exact split_is_a_split. Qed.

(** leading unnamed arguments fill the parameters in declaration order *)
Theorem C11_leading_fill_in_order :
  forall (V : Type) (type_of : V -> vtype) (of_valdef : valdef -> V) (f : funcdef),
  wf_sig f = true ->
  forall call slots extra i,
  argvec V type_of of_valdef f call = Ok (slots, extra) -> (i < lead_count V f call)%nat ->
  nth_error slots i = nth_error (map snd call) i.
Proof. exact leading_fill_in_order. Qed.

(** ... only the mandatory ones when the function accepts a variable tail *)
Theorem C11_collecting_fills_only_mandatory :
  forall (V : Type) (f : funcdef),
  wf_sig f = true ->
  forall (call : list (BindSpec.arg V)) i,
  collects f = true -> (i < lead_count V f call)%nat ->
  exists x t, nth_error (fd_args f) i = Some (x, Positional t).
Proof. exact collecting_fills_only_mandatory. Qed.

(** ... whose further unnamed arguments are collected in order *)
Theorem C11_tail_collected_in_order :
  forall (V : Type) (type_of : V -> vtype) (of_valdef : valdef -> V) (f : funcdef),
  wf_sig f = true ->
  forall call slots extra,
  argvec V type_of of_valdef f call = Ok (slots, extra) ->
  extra = map snd (tail_part V f call) /\ forallb (anon V) (tail_part V f call) = true
  /\ (tail_part V f call <> [] -> collects f = true).
Proof. exact tail_collected_in_order. Qed.

(** name: value goes to the parameter of that name *)
Theorem C11_named_goes_to_named :
  forall (V : Type) (type_of : V -> vtype) (of_valdef : valdef -> V) (f : funcdef),
  wf_sig f = true ->
  forall call slots extra x v,
  argvec V type_of of_valdef f call = Ok (slots, extra) -> In (Some x, v) call ->
  exists i, index_of x (param_names f) = Some i /\ nth_error slots i = Some v.
Proof. exact named_goes_to_named. Qed.

(** unspecified optional parameters take their documented defaults *)
Theorem C11_defaults_fill :
  forall (V : Type) (type_of : V -> vtype) (of_valdef : valdef -> V) (f : funcdef),
  wf_sig f = true ->
  forall call slots extra i x d,
  argvec V type_of of_valdef f call = Ok (slots, extra) ->
  nth_error (fd_args f) i = Some (x, Optional d) -> (lead_count V f call <= i)%nat ->
  (forall v, ~ In (Some x, v) call) ->
  nth_error slots i = Some (of_valdef d).
Proof. exact defaults_fill. Qed.

(** rejected: an unknown parameter name *)
Theorem C11_unknown_name_rejected :
  forall (V : Type) (type_of : V -> vtype) (of_valdef : valdef -> V) (f : funcdef),
  wf_sig f = true ->
  forall call x v,
  In (Some x, v) call -> index_of x (param_names f) = None ->
  argvec V type_of of_valdef f call = Err EType.
Proof. exact unknown_name_rejected. Qed.

(** rejected: a parameter named twice *)
Theorem C11_duplicate_rejected :
  forall (V : Type) (type_of : V -> vtype) (of_valdef : valdef -> V) (f : funcdef),
  wf_sig f = true ->
  forall call l1 l2 l3 x v w,
  call = l1 ++ (Some x, v) :: l2 ++ (Some x, w) :: l3 ->
  argvec V type_of of_valdef f call = Err EType.
Proof. exact duplicate_rejected. Qed.

(** rejected: naming a parameter that a leading unnamed argument already filled *)
Theorem C11_already_supplied_rejected :
  forall (V : Type) (type_of : V -> vtype) (of_valdef : valdef -> V) (f : funcdef),
  wf_sig f = true ->
  forall call x v i,
  In (Some x, v) call -> index_of x (param_names f) = Some i -> (i < lead_count V f call)%nat ->
  argvec V type_of of_valdef f call = Err EType.
Proof. exact already_supplied_rejected. Qed.

(** rejected: a mandatory parameter neither filled by position nor named *)
Theorem C11_missing_mandatory_rejected :
  forall (V : Type) (type_of : V -> vtype) (of_valdef : valdef -> V) (f : funcdef),
  wf_sig f = true ->
  forall call i x t,
  nth_error (fd_args f) i = Some (x, Positional t) -> (lead_count V f call <= i)%nat ->
  (forall v, ~ In (Some x, v) call) ->
  argvec V type_of of_valdef f call = Err EType.
Proof. exact missing_mandatory_rejected. Qed.

(** rejected: more arguments than parameters when nothing collects them *)
Theorem C11_surplus_rejected :
  forall (V : Type) (type_of : V -> vtype) (of_valdef : valdef -> V) (f : funcdef),
  wf_sig f = true ->
  forall call,
  collects f = false -> (length (fd_args f) < length call)%nat ->
  argvec V type_of of_valdef f call = Err EType.
Proof. exact surplus_rejected. Qed.

(** rejected: an unnamed argument after a named one where nothing can take it *)
Theorem C11_misplaced_unnamed_rejected :
  forall (V : Type) (type_of : V -> vtype) (of_valdef : valdef -> V) (f : funcdef),
  wf_sig f = true ->
  forall call l1 l2 l3 x v w,
  collects f = false -> call = l1 ++ (Some x, v) :: l2 ++ (None, w) :: l3 ->
  argvec V type_of of_valdef f call = Err EType.
Proof. exact misplaced_unnamed_rejected. Qed.

(** rejected: a named argument after collected ones (an unnamed argument that is not one of the
    leading ones, followed by a named argument) *)
Theorem C11_named_after_collected_rejected :
  forall (V : Type) (type_of : V -> vtype) (of_valdef : valdef -> V) (f : funcdef),
  wf_sig f = true ->
  forall call l1 l2 l3 v x w,
  call = l1 ++ (None, v) :: l2 ++ (Some x, w) :: l3 -> (lead_count V f call <= length l1)%nat ->
  argvec V type_of of_valdef f call = Err EType.
Proof. exact named_after_collected_rejected. Qed.

(** whatever is accepted is type-compatible, slot by slot, and every parameter has a slot *)
Theorem C11_accepted_values_compatible :
  forall (V : Type) (type_of : V -> vtype) (of_valdef : valdef -> V) (f : funcdef),
  wf_sig f = true ->
  forall call slots extra,
  argvec V type_of of_valdef f call = Ok (slots, extra) ->
  length slots = length (fd_args f)
  /\ all_accept V type_of (fd_args f) slots = true
  /\ forallb (fun v => compat_spec (fd_collect f) (type_of v)) extra = true.
Proof. exact accepted_values_compatible. Qed.

(** rejected: a value whose type is not compatible with the parameter it designates -- by name,
    by position, or as a collected value *)
Theorem C11_incompatible_rejected :
  forall (V : Type) (type_of : V -> vtype) (of_valdef : valdef -> V) (f : funcdef),
  wf_sig f = true ->
  forall call,
  (forall x v i d, In (Some x, v) call -> nth_error (fd_args f) i = Some (x, d) ->
     param_accepts d (type_of v) = false -> argvec V type_of of_valdef f call = Err EType)
  /\ (forall i v x d, (i < lead_count V f call)%nat -> nth_error call i = Some (None, v) ->
     nth_error (fd_args f) i = Some (x, d) -> param_accepts d (type_of v) = false ->
     argvec V type_of of_valdef f call = Err EType)
  /\ (forall a, In a (tail_part V f call) -> compat_spec (fd_collect f) (type_of (snd a)) = false ->
     argvec V type_of of_valdef f call = Err EType).
Proof. exact incompatible_rejected. Qed.

(** non-vacuity on real catalogue entries: [dns::host] collects addresses after two mandatory
    parameters and has defaults; [ipv4::tcp::flow] collects nothing *)
Example C11_nonvacuous :
  let V := (vtype * N)%type in
  let ty := fun v : V => fst v in
  let dfl := fun d : valdef => (match d with DType _ => TVoid | _ => valdef_type d end, 0%N) in
  (exists f, find (fun g => String.eqb (fd_key g) "dns::host"%string) catalogue = Some f
     /\ wf_sig f = true /\ collects f = true
     /\ (exists slots,
           argvec V ty dfl f [(None, (TIp4, 1%N)); (None, (TStr, 2%N)); (Some "ns"%string, (TIp4, 3%N));
                              (None, (TIp4, 4%N)); (None, (TIp4, 5%N))]
           = Ok (slots, [(TIp4, 4%N); (TIp4, 5%N)])
           /\ nth_error slots 0 = Some (TIp4, 1%N) /\ nth_error slots 1 = Some (TStr, 2%N)
           /\ In (TIp4, 3%N) slots /\ In (TBool, 0%N) slots)
     /\ argvec V ty dfl f [(None, (TIp4, 1%N)); (None, (TStr, 2%N)); (None, (TIp4, 4%N)); (Some "ns"%string, (TIp4, 3%N))]
        = Err EType
     /\ argvec V ty dfl f [(None, (TIp4, 1%N)); (None, (TStr, 2%N)); (None, (TStr, 4%N))] = Err EType)
  /\ (exists f, find (fun g => String.eqb (fd_key g) "ipv4::tcp::flow"%string) catalogue = Some f
     /\ wf_sig f = true /\ collects f = false
     /\ (exists slots,
           argvec V ty dfl f [(None, (TSock4, 1%N)); (Some "cl_seq"%string, (TBool, 3%N)); (Some "sv"%string, (TSock4, 2%N))]
           = Ok (slots, [])
           /\ nth_error slots 0 = Some (TSock4, 1%N) /\ nth_error slots 1 = Some (TSock4, 2%N)
           /\ In (TBool, 3%N) slots)
     /\ argvec V ty dfl f [(None, (TSock4, 1%N)); (Some "cl"%string, (TSock4, 2%N)); (Some "sv"%string, (TSock4, 2%N))] = Err EType
     /\ argvec V ty dfl f [(None, (TSock4, 1%N)); (Some "sv"%string, (TSock4, 2%N)); (Some "sv"%string, (TSock4, 2%N))] = Err EType
     /\ argvec V ty dfl f [(None, (TSock4, 1%N))] = Err EType).
Proof.
  cbv zeta. split.
  - eexists. split; [vm_compute; reflexivity |]. split; [vm_compute; reflexivity |].
    split; [vm_compute; reflexivity |]. split.
    + eexists. split; [vm_compute; reflexivity |]. vm_compute. intuition.
    + split; vm_compute; reflexivity.
  - eexists. split; [vm_compute; reflexivity |]. split; [vm_compute; reflexivity |].
    split; [vm_compute; reflexivity |]. split.
    + eexists. split; [vm_compute; reflexivity |]. vm_compute. intuition.
    + repeat split; vm_compute; reflexivity.
Qed.
