(** C03 -- transport headers verify: TCP/UDP/ICMP checksums, UDP length, ICMP echo fields.
    Pinned statements only; proofs in Proofs/C03/Transport.v. *)
From RS Require Import Base.Bytes Base.Outcome Pkt.Csum Pkt.Hdrs Pkt.Packet Ez.Tcp Ez.Udp Ez.Icmp Spec.Wire
  Proofs.C02.TcpIp Proofs.C02.OtherIp Proofs.C03.Transport.
Open Scope N_scope.

(** a checksummed segment verifies against the pseudo-header of its own IPv4 header *)
Theorem C03_tcp_csum_verifies : forall s s',
  seg_twf s -> seg_tcp_csum s = Ok s' ->
  tcp_ok (ip_src (ts_ip s')) (ip_dst (ts_ip s')) (seg_tcpseg s') = true
  /\ ts_ip s' = ts_ip s /\ ts_payload s' = ts_payload s.
Proof. exact tcp_csum_verifies. Qed.

(** every packet of every flow operation is such a segment: handshake, data with or without the automatic
    ACK, single segments, bare ACKs, FIN exchanges and resets -- in any state of the flow (so also inside
    an override, which only changes the two counters) *)
Theorem C03_tcp_ops_checksummed : forall f, flow_twf f ->
  (forall f' ps, flow_open f = Ok (f', ps) -> Forall tcp_good ps /\ flow_twf f') /\
  (forall f' ps, flow_client_close f = Ok (f', ps) -> Forall tcp_good ps /\ flow_twf f') /\
  (forall f' ps, flow_server_close f = Ok (f', ps) -> Forall tcp_good ps /\ flow_twf f') /\
  (forall (client : bool) b sa off f' ps, wf_bytes b -> 20 + len b < 65536 ->
     (if client then flow_client_message f b sa off else flow_server_message f b sa off) = Ok (f', ps) ->
     Forall tcp_good ps /\ flow_twf f') /\
  (forall (client : bool) b f' s, wf_bytes b -> 20 + len b < 65536 ->
     (if client then flow_client_data_segment f b else flow_server_data_segment f b) = Ok (f', s) ->
     tcp_good (seg_packet s) /\ flow_twf f') /\
  (forall s, flow_client_ack f = Ok s -> tcp_good (seg_packet s)) /\
  (forall s, flow_server_ack f = Ok s -> tcp_good (seg_packet s)) /\
  (forall p, flow_client_reset f = Ok p -> tcp_good p) /\
  (forall p, flow_server_reset f = Ok p -> tcp_good p).
Proof.
  intros f Hf.
  split; [intros; eapply flow_open_good; eassumption|].
  split; [intros; eapply flow_client_close_good; eassumption|].
  split; [intros; eapply flow_server_close_good; eassumption|].
  split; [intros client b sa off f' ps Hb Hfit E; eapply (flow_message_good client); eassumption|].
  split; [intros client b f' s Hb Hfit E; eapply (flow_data_segment_good client); eassumption|].
  exact (flow_ack_reset_good f Hf).
Qed.

Theorem C03_tcp_good_verifies : forall p, tcp_good p ->
  exists s, p = seg_packet s /\ tcp_ok (ip_src (ts_ip s)) (ip_dst (ts_ip s)) (seg_tcpseg s) = true.
Proof. exact tcp_good_verifies. Qed.

Theorem C03_udp_csum_verifies : forall d d',
  udp_inv d -> uh_wf (ud_udp d) -> uh_csum (ud_udp d) = 0 -> wf_bytes (ud_payload d) -> 8 + len (ud_payload d) < 65536 ->
  ip_proto (ud_ip d) = 17 ->
  udp_csum d = Ok d' ->
  udp_csum_ok (ip_src (ud_ip d')) (ip_dst (ud_ip d')) (udp_l4_bytes d') = true /\ ud_payload d' = ud_payload d.
Proof. exact udp_csum_verifies. Qed.

Theorem C03_udp_len_exact : forall d,
  udp_inv d -> 8 + len (ud_payload d) < 65536 -> udp_len_ok (udp_l4_bytes d) = true.
Proof. exact udp_len_exact. Qed.

Theorem C03_icmp_layout : forall src dst raw typ id seq b p,
  icmp_dgram src dst raw typ id seq b = Ok p ->
  exists iph c, l3_of raw (pk_body p) = ip_ser iph ++ icmp_ser {| ic_typ := typ; ic_code := 0; ic_csum := c; ic_id := id; ic_seq := seq |} ++ b
    /\ c = ip_checksum (icmp_ser {| ic_typ := typ; ic_code := 0; ic_csum := 0; ic_id := id; ic_seq := seq |} ++ b).
Proof. exact icmp_dgram_layout. Qed.

Theorem C03_icmp_verifies : forall typ id seq b,
  typ < 256 -> id < 65536 -> seq < 65536 -> wf_bytes b -> 8 + len b < 65536 ->
  let c := ip_checksum (icmp_ser {| ic_typ := typ; ic_code := 0; ic_csum := 0; ic_id := id; ic_seq := seq |} ++ b) in
  icmp_ok (icmp_ser {| ic_typ := typ; ic_code := 0; ic_csum := c; ic_id := id; ic_seq := seq |} ++ b) = true.
Proof. exact icmp_verifies. Qed.

(** every finite echo history: one identifier, the n-th request (reply) carries the number of earlier
    requests (replies) -- in the 16-bit field, i.e. modulo 2^16 *)
Theorem C03_icmp_seq_counts : forall ops f f' l,
  if_ping f < 65536 -> if_pong f < 65536 ->
  icmp_run f ops = Ok (f', l) ->
  if_id f' = if_id f
  /\ if_ping f' = (if_ping f + count_before true ops) mod 65536 /\ if_pong f' = (if_pong f + count_before false ops) mod 65536
  /\ forall n req id seq, nth_error l n = Some (req, id, seq) ->
       id = if_id f /\ seq = ((if req then if_ping f else if_pong f) + count_before req (firstn n ops)) mod 65536.
Proof. exact icmp_seq_counts. Qed.

Example C03_nonvacuous :
  let f := {| tf_cl := (16909060, 1); tf_sv := (16909061, 2); tf_cl_seq := 4294967295; tf_sv_seq := 7; tf_raw := true |} in
  flow_twf f
  /\ (exists f' ps, flow_client_message f [255;255;255] true 0 = Ok (f', ps)
        /\ forallb (fun p => tcp_ok 16909060 16909061 (skipn 20 (pk_body p)) || tcp_ok 16909061 16909060 (skipn 20 (pk_body p))) ps = true)
  /\ (exists f' l, icmp_run (icmp_flow_new 1 2 false) [(true, [1]); (false, []); (true, [2;3])] = Ok (f', l)
        /\ l = [(true, 4660, 0); (false, 4660, 0); (true, 4660, 1)]).
Proof.
  cbn zeta. split; [unfold flow_twf, sock_wf; cbn; lia|].
  split; [eexists; eexists; split; [vm_compute; reflexivity|vm_compute; reflexivity]|].
  eexists; eexists; split; [vm_compute; reflexivity|reflexivity].
Qed.
